(* Regression document for defect D1 (fixed in /repo by "fix: wake the hot-reloading thread when a
   caller consumes its answer token"): with the consumer that does NOT notify after emptying the
   slot, two concurrent callers can deadlock; the same schedule is harmless with the repaired one. *)
From Coq Require Import List Bool Arith.
From AM Require Import Ref.Answers.
Import ListNotations.

(* ---------- the current code deadlocks with two callers ---------- *)
Definition witness_sched : list nat :=
  [1;1; 2;2; 0;0;0;0;0;0;0; 0;0;0;0; 1;1;1;1;1; 2;2].
Lemma answers_deadlock_refuted :
  exists sched, deadlocked false (run false sched (init 2)) = true.
Proof. exists witness_sched. vm_compute. reflexivity. Qed.

(* same schedule is harmless once the consumer notifies *)
Example fixed_same_sched : deadlocked true (run true witness_sched (init 2)) = false.
Proof. vm_compute. reflexivity. Qed.
