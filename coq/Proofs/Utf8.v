(* decode is exactly the inverse of encode on Unicode scalar values. *)
From Coq Require Import List NArith ZArith Bool Lia ZifyBool ZifyN.
From AM Require Import Ref.Utf8.
Import ListNotations.
Open Scope N_scope.
Ltac Zify.zify_post_hook ::= Z.div_mod_to_equations.

Ltac cmp :=
  repeat match goal with
         | |- context [N.ltb ?a ?b] => destruct (N.ltb_spec a b)
         | |- context [N.leb ?a ?b] => destruct (N.leb_spec a b)
         | |- context [N.eqb ?a ?b] => destruct (N.eqb_spec a b)
         | H : context [N.ltb ?a ?b] |- _ => destruct (N.ltb_spec a b)
         | H : context [N.leb ?a ?b] |- _ => destruct (N.leb_spec a b)
         | H : context [N.eqb ?a ?b] |- _ => destruct (N.eqb_spec a b)
         end.

Lemma step_encode1 c r : scalar c = true -> step (encode1 c ++ r) = Some (c, r).
Proof.
  unfold scalar, encode1. intros S.
  destruct (N.ltb_spec c 128) as [H1|H1]; [cbn [app step]; destruct (N.ltb_spec c 128); [reflexivity|lia]|].
  destruct (N.ltb_spec c 2048) as [H2|H2].
  { cbn [app step]. unfold cont, between.
    destruct (N.ltb_spec (192 + c / 64) 128); [lia|].
    destruct (N.ltb_spec (192 + c / 64) 194); [lia|].
    destruct (N.ltb_spec (192 + c / 64) 224); [|lia].
    destruct (N.leb_spec 128 (128 + c mod 64)); [|lia].
    destruct (N.leb_spec (128 + c mod 64) 191); [|lia].
    cbn [andb]. f_equal. f_equal. lia. }
  destruct (N.ltb_spec c 65536) as [H3|H3].
  { cbn [app step]. unfold cont, between, lo3, hi3.
    destruct (N.ltb_spec (224 + c / 64 / 64) 128); [lia|].
    destruct (N.ltb_spec (224 + c / 64 / 64) 194); [lia|].
    destruct (N.ltb_spec (224 + c / 64 / 64) 224); [lia|].
    destruct (N.ltb_spec (224 + c / 64 / 64) 240); [|lia].
    assert (B1 : (if 224 + c / 64 / 64 =? 224 then 160 else 128) <= 128 + (c / 64) mod 64).
    { destruct (N.eqb_spec (224 + c / 64 / 64) 224); lia. }
    assert (B2 : 128 + (c / 64) mod 64 <= (if 224 + c / 64 / 64 =? 237 then 159 else 191)).
    { destruct (N.eqb_spec (224 + c / 64 / 64) 237); cmp; try lia. }
    apply N.leb_le in B1, B2. rewrite B1, B2.
    destruct (N.leb_spec 128 (128 + c mod 64)); [|lia].
    destruct (N.leb_spec (128 + c mod 64) 191); [|lia].
    cbn [andb]. f_equal. f_equal. lia. }
  cbn [app step]. unfold cont, between, lo4, hi4.
  assert (C : c < 1114112) by (cmp; cbn in S; try discriminate; lia).
  destruct (N.ltb_spec (240 + c / 64 / 64 / 64) 128); [lia|].
  destruct (N.ltb_spec (240 + c / 64 / 64 / 64) 194); [lia|].
  destruct (N.ltb_spec (240 + c / 64 / 64 / 64) 224); [lia|].
  destruct (N.ltb_spec (240 + c / 64 / 64 / 64) 240); [lia|].
  destruct (N.ltb_spec (240 + c / 64 / 64 / 64) 245); [|lia].
  assert (B1 : (if 240 + c / 64 / 64 / 64 =? 240 then 144 else 128) <= 128 + (c / 64 / 64) mod 64).
  { destruct (N.eqb_spec (240 + c / 64 / 64 / 64) 240); lia. }
  assert (B2 : 128 + (c / 64 / 64) mod 64 <= (if 240 + c / 64 / 64 / 64 =? 244 then 143 else 191)).
  { destruct (N.eqb_spec (240 + c / 64 / 64 / 64) 244); lia. }
  apply N.leb_le in B1, B2. rewrite B1, B2.
  destruct (N.leb_spec 128 (128 + (c / 64) mod 64)); [|lia].
  destruct (N.leb_spec (128 + (c / 64) mod 64) 191); [|lia].
  destruct (N.leb_spec 128 (128 + c mod 64)); [|lia].
  destruct (N.leb_spec (128 + c mod 64) 191); [|lia].
  cbn [andb]. f_equal. f_equal. lia.
Qed.

Lemma encode1_nonempty c : encode1 c <> [].
Proof. unfold encode1. repeat destruct (_ <? _); discriminate. Qed.

Lemma step_sound bs c r : step bs = Some (c, r) -> scalar c = true /\ bs = encode1 c ++ r.
Proof.
  unfold step. destruct bs as [|b0 r0]; [discriminate|].
  destruct (N.ltb_spec b0 128) as [H1|H1].
  { intros E; inversion E; subst. unfold scalar, encode1.
    destruct (N.ltb_spec c 128); [|lia]. split; [|reflexivity].
    destruct (N.ltb_spec c 55296); [reflexivity|lia]. }
  destruct (N.ltb_spec b0 194) as [H2|H2]; [discriminate|].
  destruct (N.ltb_spec b0 224) as [H3|H3].
  { destruct r0 as [|b1 r1]; [discriminate|]. unfold cont, between.
    destruct (N.leb_spec 128 b1); [|discriminate]. destruct (N.leb_spec b1 191); [|discriminate].
    cbn [andb]. intros E; injection E as Ec Er; subst r.
    assert (C : 128 <= c < 2048) by lia.
    unfold scalar, encode1.
    destruct (N.ltb_spec c 128); [lia|]. destruct (N.ltb_spec c 2048); [|lia].
    split; [destruct (N.ltb_spec c 55296); [reflexivity|lia]|].
    cbn [app]. f_equal; [lia|]. f_equal. lia. }
  destruct (N.ltb_spec b0 240) as [H4|H4].
  { destruct r0 as [|b1 [|b2 r2]]; try discriminate. unfold cont, between, lo3, hi3.
    destruct (N.leb_spec (if b0 =? 224 then 160 else 128) b1) as [L1|L1]; [|discriminate].
    destruct (N.leb_spec b1 (if b0 =? 237 then 159 else 191)) as [L2|L2]; [|discriminate].
    destruct (N.leb_spec 128 b2); [|discriminate]. destruct (N.leb_spec b2 191); [|discriminate].
    cbn [andb]. intros E; injection E as Ec Er; subst r.
    assert (B1 : 128 <= b1 <= 191) by (destruct (b0 =? 224), (b0 =? 237); lia).
    assert (C : 2048 <= c < 65536).
    { destruct (N.eqb_spec b0 224); destruct (N.eqb_spec b0 237); lia. }
    assert (Sc : c < 55296 \/ 57344 <= c).
    { destruct (N.eqb_spec b0 237); destruct (N.eqb_spec b0 224); lia. }
    unfold scalar, encode1.
    destruct (N.ltb_spec c 128); [lia|]. destruct (N.ltb_spec c 2048); [lia|].
    destruct (N.ltb_spec c 65536); [|lia].
    split.
    { destruct (N.ltb_spec c 55296); [reflexivity|]. destruct (N.leb_spec 57344 c); [|lia].
      destruct (N.ltb_spec c 1114112); [reflexivity|lia]. }
    cbn [app]. f_equal; [lia|]. f_equal; [lia|]. f_equal. lia. }
  destruct (N.ltb_spec b0 245) as [H5|H5]; [|discriminate].
  destruct r0 as [|b1 [|b2 [|b3 r3]]]; try discriminate. unfold cont, between, lo4, hi4.
  destruct (N.leb_spec (if b0 =? 240 then 144 else 128) b1) as [L1|L1]; [|discriminate].
  destruct (N.leb_spec b1 (if b0 =? 244 then 143 else 191)) as [L2|L2]; [|discriminate].
  destruct (N.leb_spec 128 b2); [|discriminate]. destruct (N.leb_spec b2 191); [|discriminate].
  destruct (N.leb_spec 128 b3); [|discriminate]. destruct (N.leb_spec b3 191); [|discriminate].
  cbn [andb]. intros E; injection E as Ec Er; subst r.
  assert (B1 : 128 <= b1 <= 191) by (destruct (b0 =? 240), (b0 =? 244); lia).
  assert (C : 65536 <= c < 1114112).
  { destruct (N.eqb_spec b0 240); destruct (N.eqb_spec b0 244); lia. }
  unfold scalar, encode1.
  destruct (N.ltb_spec c 128); [lia|]. destruct (N.ltb_spec c 2048); [lia|].
  destruct (N.ltb_spec c 65536); [lia|].
  split.
  { destruct (N.ltb_spec c 55296); [reflexivity|]. destruct (N.leb_spec 57344 c); [|lia].
    destruct (N.ltb_spec c 1114112); [reflexivity|lia]. }
  cbn [app]. f_equal; [lia|]. f_equal; [lia|]. f_equal; [lia|]. f_equal. lia.
Qed.

(* well-formed: a concatenation of encodings of scalar values *)
Inductive wf : list N -> list N -> Prop :=
| wf_nil : wf [] []
| wf_cons c cs bs : scalar c = true -> wf bs cs -> wf (encode1 c ++ bs) (c :: cs).

Lemma wf_encode bs cs : wf bs cs <-> forallb scalar cs = true /\ bs = encode cs.
Proof.
  split.
  - induction 1 as [|c cs bs S W [IH1 IH2]]; [now split|]. cbn. rewrite S, IH1, IH2. now split.
  - intros [F ->]. induction cs as [|c cs IH]; [constructor|]. cbn in *.
    apply andb_true_iff in F as [S F]. constructor; auto.
Qed.

Lemma decode_f_complete bs cs : wf bs cs -> forall n, (List.length bs <= n)%nat -> decode_f n bs = Some cs.
Proof.
  induction 1 as [|c cs bs Sc W IH]; intros n L; [destruct n; reflexivity|].
  pose proof (encode1_nonempty c) as NE.
  destruct (encode1 c ++ bs) as [|x xs] eqn:E; [destruct (encode1 c); [congruence|discriminate]|].
  destruct n as [|n]; [cbn in L; lia|]. cbn [decode_f]. rewrite <- E, step_encode1 by exact Sc.
  rewrite IH; [reflexivity|].
  assert (List.length (encode1 c ++ bs) <= S n)%nat by (rewrite E; exact L).
  rewrite app_length in *. destruct (encode1 c); [congruence|cbn in *; lia].
Qed.

Lemma decode_f_sound n : forall bs cs, decode_f n bs = Some cs -> wf bs cs.
Proof.
  induction n as [|n IH]; intros bs cs; destruct bs as [|b r]; cbn [decode_f];
    try (intros E; inversion E; constructor); try discriminate.
  destruct (step (b :: r)) as [[c r']|] eqn:St; [|discriminate].
  destruct (decode_f n r') as [cs'|] eqn:D; [|discriminate]. intros E; inversion E; subst.
  apply step_sound in St as [S ->]. constructor; auto.
Qed.

Theorem decode_encode cs : forallb scalar cs = true -> decode (encode cs) = Some cs.
Proof. intros F. apply decode_f_complete; [apply wf_encode; now split|lia]. Qed.

Theorem decode_sound bs cs : decode bs = Some cs -> forallb scalar cs = true /\ bs = encode cs.
Proof. intros D. apply wf_encode. eapply decode_f_sound; exact D. Qed.

Theorem valid_iff bs :
  valid bs = true <-> exists cs, forallb scalar cs = true /\ bs = encode cs.
Proof.
  unfold valid. split.
  - destruct (decode bs) as [cs|] eqn:D; [|discriminate]. intros _. exists cs. now apply decode_sound.
  - intros [cs [F ->]]. now rewrite decode_encode.
Qed.

(* the encoding of a scalar value consists of bytes *)
Lemma encode1_bytes c : scalar c = true -> forallb is_byte (encode1 c) = true.
Proof.
  unfold scalar, encode1, is_byte. intros S.
  assert (C : c < 1114112) by (cmp; cbn in S; try discriminate; lia).
  destruct (N.ltb_spec c 128); [cbn; destruct (N.ltb_spec c 256); [reflexivity|lia]|].
  destruct (N.ltb_spec c 2048).
  { cbn [forallb]. destruct (N.ltb_spec (192 + c / 64) 256); [|lia].
    destruct (N.ltb_spec (128 + c mod 64) 256); [reflexivity|lia]. }
  destruct (N.ltb_spec c 65536).
  { cbn [forallb]. destruct (N.ltb_spec (224 + c / 64 / 64) 256); [|lia].
    destruct (N.ltb_spec (128 + (c / 64) mod 64) 256); [|lia].
    destruct (N.ltb_spec (128 + c mod 64) 256); [reflexivity|lia]. }
  cbn [forallb]. destruct (N.ltb_spec (240 + c / 64 / 64 / 64) 256); [|lia].
  destruct (N.ltb_spec (128 + (c / 64 / 64) mod 64) 256); [|lia].
  destruct (N.ltb_spec (128 + (c / 64) mod 64) 256); [|lia].
  destruct (N.ltb_spec (128 + c mod 64) 256); [reflexivity|lia].
Qed.

Theorem valid_bytes bs : valid bs = true -> forallb is_byte bs = true.
Proof.
  intros V. apply valid_iff in V as [cs [F ->]].
  induction cs as [|c cs IH]; [reflexivity|]. cbn [forallb] in F. apply andb_true_iff in F as [Sc F].
  change (encode (c :: cs)) with (encode1 c ++ encode cs).
  rewrite forallb_app, encode1_bytes, IH; auto.
Qed.

(* the encoding is injective on scalar values: a valid string is the encoding of one text only *)
Theorem encode_injective cs ds :
  forallb scalar cs = true -> forallb scalar ds = true -> encode cs = encode ds -> cs = ds.
Proof.
  intros F G E. apply decode_encode in F, G. rewrite E in F. congruence.
Qed.

(* ---- valid_up_to: the longest prefix made of whole well-formed sequences ---- *)
Lemma step_shorter bs c r : step bs = Some (c, r) -> exists pre, pre <> [] /\ bs = pre ++ r.
Proof.
  intros H. apply step_sound in H as [_ ->]. exists (encode1 c). split; [apply encode1_nonempty|reflexivity].
Qed.

Lemma vut_spec fuel : forall bs acc,
  (List.length bs <= fuel)%nat ->
  exists k, valid_up_to_f fuel bs acc = acc + N.of_nat k /\ (k <= List.length bs)%nat /\
            valid (firstn k bs) = true /\
            (k = List.length bs \/ step (skipn k bs) = None).
Proof.
  induction fuel as [|f IH]; intros bs acc L.
  - destruct bs; [|cbn in L; lia]. exists 0%nat. cbn. repeat split; auto; lia.
  - cbn [valid_up_to_f]. destruct (step bs) as [[c r]|] eqn:St.
    + destruct (step_shorter _ _ _ St) as (pre & Np & ->).
      assert (Lr : (List.length r <= f)%nat).
      { rewrite app_length in L. destruct pre; [congruence|cbn in L; lia]. }
      destruct (IH r (acc + (N.of_nat (List.length (pre ++ r)) - N.of_nat (List.length r))) Lr)
        as (k & E & Lk & V & M).
      exists (List.length pre + k)%nat. rewrite E, app_length. split; [lia|]. split; [lia|].
      split.
      * rewrite firstn_app, firstn_all2 by lia.
        replace (List.length pre + k - List.length pre)%nat with k by lia.
        apply step_sound in St as [Sc Eq]. apply app_inv_tail in Eq. subst pre.
        apply valid_iff in V as (cs & F & Ek). apply valid_iff. exists (c :: cs). split.
        -- cbn. now rewrite Sc, F.
        -- change (encode (c :: cs)) with (encode1 c ++ encode cs). now rewrite Ek.
      * destruct M as [M|M]; [left; lia|right].
        rewrite skipn_app, skipn_all2 by lia. cbn [app].
        replace (List.length pre + k - List.length pre)%nat with k by lia. exact M.
    + exists 0%nat. cbn. repeat split; auto; try lia; try (destruct bs; [left; reflexivity|right; exact St]).
Qed.

Theorem valid_up_to_is_the_longest_valid_prefix bs :
  exists k, valid_up_to bs = N.of_nat k /\ (k <= List.length bs)%nat /\
            valid (firstn k bs) = true /\
            (k = List.length bs \/ step (skipn k bs) = None).
Proof.
  destruct (vut_spec (List.length bs) bs 0 (le_n _)) as (k & E & H). exists k. split; [|exact H].
  unfold valid_up_to. rewrite E. lia.
Qed.

Lemma no_stuck_tail ds : forall bs tail cs,
  forallb scalar ds = true -> forallb scalar cs = true ->
  bs = encode ds ++ tail -> bs = encode cs -> tail <> [] -> step tail = None -> False.
Proof.
  induction ds as [|d ds IH]; intros bs tail cs G F Split Eb Sk M.
  - cbn in Split. subst tail. destruct cs as [|c cs]; [cbn in Eb; congruence|].
    cbn in F. apply andb_true_iff in F as [Sc F]. rewrite Eb in M.
    change (encode (c :: cs)) with (encode1 c ++ encode cs) in M. rewrite (step_encode1 c _ Sc) in M. discriminate.
  - cbn in G. apply andb_true_iff in G as [Sd G].
    change (encode (d :: ds)) with (encode1 d ++ encode ds) in Split. rewrite <- app_assoc in Split.
    destruct cs as [|c cs].
    + cbn in Eb. subst bs. destruct (encode1 d) eqn:Z; [now apply encode1_nonempty in Z|discriminate].
    + cbn in F. apply andb_true_iff in F as [Sc F].
      change (encode (c :: cs)) with (encode1 c ++ encode cs) in Eb.
      assert (St1 : step bs = Some (d, encode ds ++ tail)) by (rewrite Split; now apply step_encode1).
      assert (St2 : step bs = Some (c, encode cs)) by (rewrite Eb; now apply step_encode1).
      rewrite St1 in St2. inversion St2; subst c. eapply (IH (encode ds ++ tail) tail cs); eauto.
Qed.

Theorem valid_iff_up_to_everything bs : valid bs = true <-> valid_up_to bs = N.of_nat (List.length bs).
Proof.
  destruct (valid_up_to_is_the_longest_valid_prefix bs) as (k & E & Lk & V & M). split.
  - intros Vb. rewrite E. f_equal. destruct M as [M|M]; [exact M|].
    destruct (Nat.eq_dec k (List.length bs)) as [Ek|Ne]; [exact Ek|exfalso].
    apply valid_iff in Vb as (cs & F & Eb). apply valid_iff in V as (ds & G & Ed).
    assert (Sk : skipn k bs <> []) by (intros Z; apply (f_equal (@List.length _)) in Z; rewrite skipn_length in Z; cbn in Z; lia).
    assert (Split : bs = encode ds ++ skipn k bs) by (rewrite <- Ed; symmetry; apply firstn_skipn).
    exact (no_stuck_tail ds bs (skipn k bs) cs G F Split Eb Sk M).
  - intros Eq. rewrite E in Eq. apply Nat2N.inj in Eq. subst k. now rewrite firstn_all in V.
Qed.
