From Coq Require Import List String NArith Bool Lia.
From AM Require Import Ref.Load.
Import ListNotations.
Open Scope N_scope.

Lemma or_class a b : class (or a b) = N.max (class a) (class b).
Proof. destruct a as [|[] ?|?], b as [|[] ?|?]; reflexivity. Qed.

Lemma or_is_one_of a b : or a b = a \/ or a b = b.
Proof. destruct a as [|[] ?|?], b as [|[] ?|?]; cbn; auto. Qed.

Lemma or_nodefault_r a : class (or a ENoDefault) = class a.
Proof. rewrite or_class. cbn. lia. Qed.

Section Load.
  Context {V : Type}.
  Variable read : string -> sum (iokind * N) (list N).
  Variable decode : list N -> string -> sum N V.
  Variable default : ekind -> sum ekind V.

  Notation attempts := (attempts read decode default).
  Notation attempt_error := (attempt_error read decode).
  Notation attempt_value := (attempt_value (V:=V) read decode).

  Lemma attempt_cases e :
    (exists v, attempt_value e = Some v /\ attempt_error e = None) \/
    (exists x, attempt_value e = None /\ attempt_error e = Some x).
  Proof.
    unfold Load.attempt_value, Load.attempt_error. destruct (read e) as [[k t]|b]; [right; eauto|].
    destruct (decode b e); [right|left]; eauto.
  Qed.

  (* the first extension that can be read AND decoded wins, with exactly the stored bytes *)
  Theorem first_success_wins : forall exts1 e exts2 err v,
    (forall x, In x exts1 -> attempt_value x = None) ->
    attempt_value e = Some v ->
    attempts (exts1 ++ e :: exts2) err = inr v.
  Proof.
    induction exts1 as [|x r IH]; intros e exts2 err v Hnone Hv; cbn.
    - unfold Load.attempt_value in Hv. destruct (read e) as [[k t]|b]; [discriminate|].
      destruct (decode b e); [discriminate|]. now inversion Hv.
    - assert (Hx : attempt_value x = None) by (apply Hnone; now left).
      unfold Load.attempt_value in Hx. destruct (read x) as [[k t]|b].
      + apply IH; auto. intros y Hy. apply Hnone. now right.
      + destruct (decode b x); [|discriminate]. apply IH; auto. intros y Hy. apply Hnone. now right.
  Qed.

  (* if no extension succeeds, default_value decides on an error whose class is the maximum of the
     classes of all attempts (and of the initial error) and which is one of them *)
  Theorem all_fail_error_class : forall exts err,
    (forall x, In x exts -> attempt_value x = None) ->
    exists final,
      attempts exts err = default final /\
      (final = err \/ exists x, In x exts /\ attempt_error x = Some final) /\
      class err <= class final /\
      (forall x e, In x exts -> attempt_error x = Some e -> class e <= class final).
  Proof.
    induction exts as [|x r IH]; intros err Hnone; cbn.
    - exists err. split; [reflexivity|]. split; [now left|]. split; [lia|]. intros ? ? [].
    - assert (Hx : attempt_value x = None) by (apply Hnone; now left).
      assert (Hr : forall y, In y r -> attempt_value y = None) by (intros; apply Hnone; now right).
      unfold Load.attempt_value in Hx.
      destruct (read x) as [[k t]|b] eqn:Er.
      + destruct (IH (or (EIo k t) err) Hr) as (f & Ef & Hin & Hge & Hall). exists f.
        split; [exact Ef|]. rewrite or_class in Hge. repeat split.
        * destruct Hin as [->|(y & Hy & Ey)]; [|right; exists y; split; [now right|exact Ey]].
          destruct (or_is_one_of (EIo k t) err) as [->| ->]; [|now left].
          right. exists x. split; [now left|]. unfold Load.attempt_error. now rewrite Er.
        * lia.
        * intros y e [<-|Hy] Ey; [|eauto]. unfold Load.attempt_error in Ey. rewrite Er in Ey.
          inversion Ey; subst. lia.
      + destruct (decode b x) as [t|v] eqn:Ed; [|discriminate].
        destruct (IH (or (EConv t) err) Hr) as (f & Ef & Hin & Hge & Hall). exists f.
        split; [exact Ef|]. rewrite or_class in Hge. repeat split.
        * destruct Hin as [->|(y & Hy & Ey)]; [|right; exists y; split; [now right|exact Ey]].
          destruct (or_is_one_of (EConv t) err) as [->| ->]; [|now left].
          right. exists x. split; [now left|]. unfold Load.attempt_error. now rewrite Er, Ed.
        * lia.
        * intros y e [<-|Hy] Ey; [|eauto]. unfold Load.attempt_error in Ey. rewrite Er, Ed in Ey.
          inversion Ey; subst. lia.
  Qed.

  Theorem empty_extension_list : Load.load_from_source read decode default [] = default ENoDefault.
  Proof. reflexivity. Qed.
End Load.
