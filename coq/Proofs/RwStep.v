From AM Require Import Ref.RwCell Proofs.RwProof.
From Coq Require Import List Bool Arith Lia.
Import ListNotations.

Ltac cases_u u t := destruct (Nat.eq_dec u t) as [->|?];
  [rewrite ?updt_same in * | rewrite ?updt_other in * by assumption].

(* A step of thread t that leaves memory and every in-progress transfer untouched, and changes only
   t's script/flags: the memory clauses carry over wholesale. *)
Lemma frame_mem c t l' rs w :
  Inv c -> wprog (th c t) = None -> rprog (th c t) = None ->
  wprog l' = None -> rprog l' = None -> results l' = results (th c t) ->
  (* flags of t after the step, used by v_wp/v_rp of OTHER threads only through hw/hr of those threads *)
  let c' := {| mem := mem c; rset := rs; wr := w; th := updt (th c) t l' |} in
  (forall u i v, wprog (th c' u) = Some (i, v) -> hw (th c' u) = true /\ rprog (th c' u) = None
       /\ firstn i (mem c') = repeat v (Nat.min i (K c')) /\ uniform (skipn i (mem c')))
  /\ ((forall u, wprog (th c' u) = None) -> uniform (mem c'))
  /\ (forall u i acc, rprog (th c' u) = Some (i, acc) ->
       (hr (th c' u) = true \/ hw (th c' u) = true) /\ uniform (mem c') /\ acc = firstn i (mem c'))
  /\ (forall u r, In r (results (th c' u)) -> uniform r /\ length r = K c').
Proof.
  intros I Hw Hr Hw' Hr' Hres c'. unfold c', K; cbn [mem th].
  repeat split.
  - cases_u u t; [congruence|]. now destruct (v_wp c I u i v H) as (?&?&?&?).
  - cases_u u t; [congruence|]. now destruct (v_wp c I u i v H) as (?&?&?&?).
  - cases_u u t; [congruence|]. now destruct (v_wp c I u i v H) as (?&?&?&?).
  - cases_u u t; [congruence|]. now destruct (v_wp c I u i v H) as (?&?&?&?).
  - intros H. apply (v_mem c I). intros u. specialize (H u). cases_u u t; auto.
  - cases_u u t; [congruence|]. now destruct (v_rp c I u i acc H) as (?&?&?).
  - cases_u u t; [congruence|]. now destruct (v_rp c I u i acc H) as (?&?&?).
  - cases_u u t; [congruence|]. now destruct (v_rp c I u i acc H) as (?&?&?).
  - cases_u u t; [rewrite Hres in H|]; now destruct (v_res c I _ r H).
  - cases_u u t; [rewrite Hres in H|]; now destruct (v_res c I _ r H).
Qed.

Ltac use_frame I Hw Hr :=
  match goal with |- Inv {| mem := _; rset := ?rs; wr := ?w; th := updt _ ?t ?l' |} =>
    let F := fresh "F" in
    pose proof (frame_mem _ t l' rs w I Hw Hr eq_refl eq_refl eq_refl) as F;
    cbn zeta in F; destruct F as (Fwp & Fmem & Frp & Fres)
  end.


Lemma only_writer c t u i v : Inv c -> hw (th c t) = true -> wprog (th c u) = Some (i, v) -> u = t.
Proof. intros I Ht Hu. eapply writer_unique; eauto. eapply wprog_needs_hw; eauto. Qed.

Lemma quiet_if_held c t : Inv c -> wprog (th c t) = None ->
  (hr (th c t) = true \/ hw (th c t) = true) -> forall u, wprog (th c u) = None.
Proof.
  intros I Hw Hheld u. destruct (wprog (th c u)) as [[i v]|] eqn:E; [|reflexivity]. exfalso.
  pose proof (wprog_needs_hw c u i v I E) as Hu. destruct Hheld as [Hr|Hh].
  - eapply no_writer_while_reading; eauto.
  - assert (u = t) by (eapply writer_unique; eauto). subst. congruence.
Qed.

Lemma no_reader_in_progress c t u i acc : Inv c -> hw (th c t) = true -> u <> t ->
  rprog (th c u) = Some (i, acc) -> False.
Proof.
  intros I Ht Hne Hu. destruct (v_rp c I u i acc Hu) as ([Hr|Hh] & _ & _).
  - eapply no_writer_while_reading; eauto.
  - apply Hne. eapply writer_unique; eauto.
Qed.

Lemma firstn_ge {A} (l : list A) i : length l <= i -> firstn i l = l.
Proof. apply firstn_all2. Qed.

Lemma inv_step c t c' : Inv c -> step t c = Some c' -> Inv c'.
Proof.
  intros I S. unfold step in S.
  destruct (wprog (th c t)) as [[i v]|] eqn:Hw.
  { (* writing one word, or finishing the transfer *)
    destruct (v_wp c I t i v Hw) as (Hhw & Hrp & Hfst & Hskip).
    destruct (Nat.ltb_spec i (K c)) as [Hlt|Hge]; inversion S; subst c'; clear S.
    - (* one more word *)
      constructor; unfold K in *; cbn [mem rset wr th]; rewrite ?set_nth_length.
      + intros u. cases_u u t; cbn; apply (v_wf c I).
      + intros u. cases_u u t; cbn; apply (v_excl c I).
      + intros u. cases_u u t; cbn; apply (v_hr c I).
      + intros u. cases_u u t; cbn; apply (v_hw c I).
      + apply (v_lock c I).
      + intros u j w Hu. cases_u u t; cbn in *.
        * inversion Hu; subst j w. repeat split; auto.
          -- rewrite firstn_set_nth by assumption. rewrite Hfst.
             rewrite Nat.min_l by lia. rewrite Nat.min_l by lia. apply repeat_snoc.
          -- rewrite skipn_set_nth. now apply uniform_skipn_S.
        * exfalso. apply n. eapply only_writer; eauto.
      + intros H. specialize (H t). rewrite updt_same in H. discriminate.
      + intros u j acc Hu. cases_u u t; cbn in *; [congruence|]. exfalso. eapply no_reader_in_progress; eauto.
      + intros u r Hu. cases_u u t; cbn in *; apply (v_res c I _ r Hu).
    - (* transfer complete *)
      assert (Hall : mem c = repeat v (length (mem c))).
      { unfold K in *. rewrite firstn_ge in Hfst by assumption. rewrite Nat.min_r in Hfst by assumption. exact Hfst. }
      constructor; unfold K in *; cbn [mem rset wr th].
      + intros u. cases_u u t; cbn; apply (v_wf c I).
      + intros u. cases_u u t; cbn; apply (v_excl c I).
      + intros u. cases_u u t; cbn; apply (v_hr c I).
      + intros u. cases_u u t; cbn; apply (v_hw c I).
      + apply (v_lock c I).
      + intros u j w Hu. cases_u u t; cbn in *; [discriminate|]. exfalso. apply n. eapply only_writer; eauto.
      + intros _. exists v. exact Hall.
      + intros u j acc Hu. cases_u u t; cbn in *; [congruence|]. exfalso. eapply no_reader_in_progress; eauto.
      + intros u r Hu. cases_u u t; cbn in *; apply (v_res c I _ r Hu). }
  destruct (rprog (th c t)) as [[i acc]|] eqn:Hr.
  { destruct (v_rp c I t i acc Hr) as (Hheld & Huni & Hacc).
    pose proof (quiet_if_held c t I Hw Hheld) as Quiet.
    destruct (Nat.ltb_spec i (K c)) as [Hlt|Hge]; inversion S; subst c'; clear S.
    - constructor; unfold K in *; cbn [mem rset wr th].
      + intros u. cases_u u t; cbn; apply (v_wf c I).
      + intros u. cases_u u t; cbn; apply (v_excl c I).
      + intros u. cases_u u t; cbn; apply (v_hr c I).
      + intros u. cases_u u t; cbn; apply (v_hw c I).
      + apply (v_lock c I).
      + intros u j w Hu. cases_u u t; cbn in *; [discriminate|]. rewrite Quiet in Hu. discriminate.
      + intros _. exact Huni.
      + intros u j a Hu. cases_u u t; cbn in *.
        * inversion Hu; subst j a. repeat split; auto. rewrite firstn_S_nth by assumption. congruence.
        * apply (v_rp c I u j a Hu).
      + intros u r Hu. cases_u u t; cbn in *; apply (v_res c I _ r Hu).
    - constructor; unfold K in *; cbn [mem rset wr th].
      + intros u. cases_u u t; cbn; apply (v_wf c I).
      + intros u. cases_u u t; cbn; apply (v_excl c I).
      + intros u. cases_u u t; cbn; apply (v_hr c I).
      + intros u. cases_u u t; cbn; apply (v_hw c I).
      + apply (v_lock c I).
      + intros u j w Hu. cases_u u t; cbn in *; [discriminate|]. rewrite Quiet in Hu. discriminate.
      + intros _. exact Huni.
      + intros u j a Hu. cases_u u t; cbn in *; [discriminate|]. apply (v_rp c I u j a Hu).
      + intros u r Hu. cases_u u t; cbn in *; [|apply (v_res c I _ r Hu)].
        destruct Hu as [<-|Hu]; [|apply (v_res c I _ r Hu)].
        rewrite Hacc, firstn_ge by assumption. split; [exact Huni | reflexivity]. }
  destruct (todo (th c t)) as [|a k] eqn:Htodo; [discriminate|].
  pose proof (v_wf c I t) as Wf. rewrite Htodo in Wf.
  destruct a; cbn [wf] in Wf.
  - (* AcqR *)
    destruct (wr c) eqn:Hwr; [discriminate|]. inversion S; subst c'; clear S.
    apply andb3 in Wf. destruct Wf as (Wr & Ww & Wk). apply negb_true_iff in Wr, Ww.
    use_frame I Hw Hr.
    constructor; cbn [mem rset wr th]; auto.
    + intros u. cases_u u t; cbn; auto. apply (v_wf c I).
    + intros u. cases_u u t; cbn; [congruence | apply (v_excl c I)].
    + intros u. cases_u u t; cbn; [tauto|]. rewrite (v_hr c I u). split; [auto | intros [|]; [congruence|auto]].
    + intros u. pose proof (v_hw c I u) as X. rewrite Hwr in X.
      cases_u u t; cbn; [rewrite Ww; split; congruence | exact X].
    + intros u Hu. discriminate.
  - (* RelR *)
    inversion S; subst c'; clear S. apply andb_true_iff in Wf. destruct Wf as (Wr & Wk).
    use_frame I Hw Hr.
    constructor; cbn [mem rset wr th]; auto.
    + intros u. cases_u u t; cbn; auto. apply (v_wf c I).
    + intros u. cases_u u t; cbn; [congruence | apply (v_excl c I)].
    + intros u. rewrite in_remove_iff. cases_u u t; cbn; [split; [discriminate|tauto]|].
      rewrite (v_hr c I u). tauto.
    + intros u. cases_u u t; cbn; apply (v_hw c I).
    + intros u Hu. rewrite (v_lock c I u Hu). reflexivity.
  - (* AcqW *)
    destruct (wr c) eqn:Hwr; [discriminate|]. destruct (rset c) eqn:Hrs; [|discriminate].
    inversion S; subst c'; clear S.
    apply andb3 in Wf. destruct Wf as (Wr & Ww & Wk). apply negb_true_iff in Wr, Ww.
    use_frame I Hw Hr.
    constructor; cbn [mem rset wr th]; auto.
    + intros u. cases_u u t; cbn; auto. apply (v_wf c I).
    + intros u. cases_u u t; cbn; [congruence | apply (v_excl c I)].
    + intros u. cases_u u t; cbn; [rewrite Wr; split; [discriminate | intros []]|]. rewrite (v_hr c I u), Hrs. tauto.
    + intros u. cases_u u t; cbn; [tauto|]. rewrite (v_hw c I u), Hwr. split; [discriminate | congruence].
  - (* RelW *)
    inversion S; subst c'; clear S. apply andb_true_iff in Wf. destruct Wf as (Ww & Wk).
    use_frame I Hw Hr.
    constructor; cbn [mem rset wr th]; auto.
    + intros u. cases_u u t; cbn; auto. apply (v_wf c I).
    + intros u. cases_u u t; cbn; [congruence | apply (v_excl c I)].
    + intros u. cases_u u t; cbn; apply (v_hr c I).
    + intros u. cases_u u t; cbn; [split; discriminate|].
      split; [|discriminate]. intros Hu. exfalso. apply n. eapply writer_unique; eauto.
    + intros u Hu. discriminate.
  - (* SwapWords *)
    inversion S; subst c'; clear S. apply andb_true_iff in Wf. destruct Wf as (Ww & Wk).
    pose proof (quiet_if_held c t I Hw (or_intror Ww)) as Quiet.
    constructor; unfold K in *; cbn [mem rset wr th].
    + intros u. cases_u u t; cbn; auto. apply (v_wf c I).
    + intros u. cases_u u t; cbn; apply (v_excl c I).
    + intros u. cases_u u t; cbn; apply (v_hr c I).
    + intros u. cases_u u t; cbn; apply (v_hw c I).
    + apply (v_lock c I).
    + intros u j w Hu. cases_u u t; cbn in *.
      * inversion Hu; subst j w. repeat split; auto. cbn. apply (v_mem c I Quiet).
      * rewrite Quiet in Hu. discriminate.
    + intros H. specialize (H t). rewrite updt_same in H. discriminate.
    + intros u j a Hu. cases_u u t; cbn in *; [discriminate|]. apply (v_rp c I u j a Hu).
    + intros u r Hu. cases_u u t; cbn in *; apply (v_res c I _ r Hu).
  - (* ReadWords *)
    inversion S; subst c'; clear S. apply andb_true_iff in Wf. destruct Wf as (Wh & Wk).
    apply orb_true_iff in Wh.
    pose proof (quiet_if_held c t I Hw Wh) as Quiet.
    constructor; unfold K in *; cbn [mem rset wr th].
    + intros u. cases_u u t; cbn; auto. apply (v_wf c I).
    + intros u. cases_u u t; cbn; apply (v_excl c I).
    + intros u. cases_u u t; cbn; apply (v_hr c I).
    + intros u. cases_u u t; cbn; apply (v_hw c I).
    + apply (v_lock c I).
    + intros u j w Hu. cases_u u t; cbn in *; [discriminate|]. rewrite Quiet in Hu. discriminate.
    + intros _. apply (v_mem c I Quiet).
    + intros u j a Hu. cases_u u t; cbn in *.
      * inversion Hu; subst j a. repeat split; auto. apply (v_mem c I Quiet).
      * apply (v_rp c I u j a Hu).
    + intros u r Hu. cases_u u t; cbn in *; apply (v_res c I _ r Hu).
  - (* IncReload *)
    inversion S; subst c'; clear S. apply andb_true_iff in Wf. destruct Wf as (Ww & Wk).
    use_frame I Hw Hr.
    constructor; cbn [mem rset wr th]; auto.
    + intros u. cases_u u t; cbn; auto. apply (v_wf c I).
    + intros u. cases_u u t; cbn; apply (v_excl c I).
    + intros u. cases_u u t; cbn; apply (v_hr c I).
    + intros u. cases_u u t; cbn; apply (v_hw c I).
    + apply (v_lock c I).
  - (* Other *)
    inversion S; subst c'; clear S.
    use_frame I Hw Hr.
    constructor; cbn [mem rset wr th]; auto.
    + intros u. cases_u u t; cbn; auto. apply (v_wf c I).
    + intros u. cases_u u t; cbn; apply (v_excl c I).
    + intros u. cases_u u t; cbn; apply (v_hr c I).
    + intros u. cases_u u t; cbn; apply (v_hw c I).
    + apply (v_lock c I).
Qed.

Theorem inv_all_schedules sched : forall c, Inv c -> Inv (run sched c).
Proof. induction sched as [|t r IH]; intros c I; cbn; [exact I|].
  destruct (step t c) eqn:E; [apply IH; eapply inv_step; eauto | apply IH; exact I]. Qed.

(* The property: whatever the scripts (as long as the checker accepts them), whatever the number of
   threads and the schedule, every completed read returned all words of ONE version. *)
Theorem no_torn_read m scripts sched t r :
  uniform m -> (forall u, wf false false (scripts u) = true) ->
  In r (results (th (run sched (init m scripts)) t)) -> uniform r /\ length r = length m.
Proof.
  intros Hm Hwf Hin.
  pose proof (inv_all_schedules sched _ (inv_init m scripts Hm Hwf)) as I.
  destruct (v_res _ I t r Hin) as [U L]. split; [exact U|].
  rewrite L. unfold K. clear -sched.
  (* the number of words never changes *)
  assert (forall c, length (mem (run sched c)) = length (mem c)) as Hlen.
  { induction sched as [|x s IH]; intros c; cbn; [reflexivity|].
    destruct (step x c) as [c'|] eqn:E; [|apply IH]. rewrite IH. unfold step in E.
    destruct (wprog (th c x)) as [[i v]|]; [destruct (Nat.ltb i (K c)); inversion E; cbn; auto using set_nth_length|].
    destruct (rprog (th c x)) as [[i a]|]; [destruct (Nat.ltb i (K c)); inversion E; cbn; auto|].
    destruct (todo (th c x)) as [|[] k]; try discriminate; try (inversion E; reflexivity).
    - destruct (wr c); inversion E; reflexivity.
    - destruct (wr c); [discriminate|]. destruct (rset c); inversion E; reflexivity. }
  apply Hlen.
Qed.

(* the writer of entry.rs as rs2v prints it, and a reader: accepted *)
Example gen_write_wf : wf false false [AcqW; SwapWords 7; IncReload; Other (*SetGlobal*); RelW] = true.
Proof. reflexivity. Qed.
Example gen_read_wf : wf false false [AcqR; ReadWords; RelR] = true. Proof. reflexivity. Qed.
(* mutants: lock taken for zero duration; swap before the lock *)
Example mutant_zero_duration : wf false false [AcqW; RelW; SwapWords 7] = false. Proof. reflexivity. Qed.
Example mutant_unlocked_read : wf false false [ReadWords] = false. Proof. reflexivity. Qed.

(* and the machine really exhibits the tear for the zero-duration mutant *)
Definition mutant_scripts (t : nat) : script :=
  match t with 0 => [AcqW; RelW; SwapWords 7] | 1 => [AcqR; ReadWords; RelR] | _ => [] end.
Example mutant_tears :
  results (th (run [0;0;0;0; 1;1;1;1;1] (init [0;0] mutant_scripts)) 1) = [[7;0]].
Proof. vm_compute. reflexivity. Qed.
