(* Loads only ever ADD entries to the cache: every evaluator function returns a state whose cache
   is the old one followed by new entries.  Hence existing entries are never overwritten, removed or
   reordered by load / load_owned / get_cached / get_or_insert, however Compounds nest. *)
From Coq Require Import List String NArith ZArith Bool Lia.
From AM Require Import Ref.Load Ref.Sys.
Import ListNotations.

Definition grows (s s' : st) : Prop := exists l, cache s' = cache s ++ l.

Lemma grows_refl s : grows s s.
Proof. exists []. now rewrite app_nil_r. Qed.

Lemma grows_trans a b c : grows a b -> grows b c -> grows a c.
Proof. intros [l1 H1] [l2 H2]. exists (l1 ++ l2). now rewrite H2, H1, app_assoc. Qed.

Lemma grows_same s s' : cache s' = cache s -> grows s s'.
Proof. intros H. exists []. now rewrite app_nil_r. Qed.

(* look-ups of keys that were present are unchanged by growth *)
Lemma assoc_app_some {K V} (eqb : K -> K -> bool) k (l l' : list (K * V)) v :
  assoc eqb k l = Some v -> assoc eqb k (l ++ l') = Some v.
Proof.
  induction l as [|[k' v'] r IH]; cbn; [discriminate|]. destruct (eqb k k'); auto.
Qed.

Lemma grows_get s s' k e : grows s s' -> cache_get s k = Some e -> cache_get s' k = Some e.
Proof. intros [l H] G. unfold cache_get in *. rewrite H. now apply assoc_app_some. Qed.

(* ---- the helpers that do not touch the cache ---- *)
Lemma cache_set_src s x : cache (set_src s x) = cache s. Proof. reflexivity. Qed.
Lemma cache_set_recs s x : cache (set_recs s x) = cache s. Proof. reflexivity. Qed.
Lemma cache_set_cm s x : cache (set_cm s x) = cache s. Proof. reflexivity. Qed.
Lemma cache_bump s : cache (fst (bump_tok s)) = cache s. Proof. reflexivity. Qed.
Lemma cache_rec_add s d : cache (rec_add s d) = cache s.
Proof. unfold rec_add. destruct (has_reloader s); [|reflexivity]. destruct (recs s) as [|[l|] r]; reflexivity. Qed.
Lemma cache_rec_push s r : cache (rec_push s r) = cache s. Proof. reflexivity. Qed.
Lemma cache_rec_pop s : cache (fst (rec_pop s)) = cache s.
Proof. unfold rec_pop. destruct (recs s) as [|[l|] r]; reflexivity. Qed.

Lemma cache_cache_read s id ext : cache (fst (fst (cache_read s id ext))) = cache s.
Proof.
  unfold cache_read. destruct (src_read (src (rec_add s (DepFile id ext))) id ext) as [[sr rd] e].
  cbn. apply cache_rec_add.
Qed.

Lemma cache_cache_read_dir s id : cache (fst (fst (cache_read_dir s id))) = cache s.
Proof.
  unfold cache_read_dir. destruct (src_read_dir (src (rec_add s (DepDir id))) id) as [[sr rd] e].
  cbn. apply cache_rec_add.
Qed.

Lemma cache_get_cached_rec s t id : cache (fst (get_cached_rec s t id)) = cache s.
Proof. unfold get_cached_rec. destruct (hot_reloaded t); cbn; [apply cache_rec_add|reflexivity]. Qed.

Lemma cache_insert_grows s k e : grows s (fst (fst (cache_insert s k e))).
Proof.
  unfold cache_insert. destruct (cache_get s k); cbn; [apply grows_refl|]. now exists [(k, e)].
Qed.

Lemma int_attempts_cache : forall es s t id acc tr,
  cache (fst (fst (int_attempts s t id es acc tr))) = cache s.
Proof.
  induction es as [|e r IH]; intros s t id acc tr; cbn [int_attempts]; [reflexivity|].
  pose proof (cache_cache_read s id e) as C.
  destruct (cache_read s id e) as [[s1 rd] evr]. cbn [fst] in C.
  destruct rd as [k|c].
  - rewrite IH. exact C.
  - destruct t, c; try (rewrite IH; exact C);
      try (destruct (parse_int b); [cbn [fst bump_tok cache]; exact C|rewrite IH; exact C]);
      cbn [fst bump_tok cache]; exact C.
Qed.

Lemma load_asset_value_cache s t id : cache (fst (fst (load_asset_value s t id))) = cache s.
Proof.
  unfold load_asset_value.
  pose proof (int_attempts_cache (exts t) s t id ENoDefault []) as C.
  destruct (int_attempts s t id (exts t) ENoDefault []) as [[s1 tr] r]. cbn in C.
  destruct r as [e|vt]; [|exact C]. destruct t; cbn; exact C.
Qed.

Section Eval.
  Variable load_entry_rec : st -> ty -> string -> st * list ev * res entry.
  Variable load_owned_rec : st -> ty -> string -> st * list ev * res (value * N).
  Hypothesis Hent : forall s t id, grows s (fst (fst (load_entry_rec s t id))).
  Hypothesis Hown : forall s t id, grows s (fst (fst (load_owned_rec s t id))).

  Notation run_line := (run_line load_entry_rec load_owned_rec).
  Notation run_lines := (run_lines load_entry_rec load_owned_rec).

  Lemma run_line_grows : forall l s, grows s (fst (fst (run_line s l))).
  Proof.
    induction l as [z|t id|t id|t id|l IH|l IH|id ext|id|id z|l IH|l IH| |]; intros s; cbn [Sys.run_line].
    - apply grows_refl.
    - destruct (is_loadable t); cbn [negb fst]; [|apply grows_refl].
      pose proof (Hent s t id) as G. destruct (load_entry_rec s t id) as [[s1 tr] r]. exact G.
    - pose proof (cache_get_cached_rec s t id) as C. destruct (get_cached_rec s t id) as [s1 o].
      cbn [fst] in *. now apply grows_same.
    - destruct (is_loadable t); cbn [negb fst]; [|apply grows_refl].
      pose proof (Hown s t id) as G. destruct (load_owned_rec s t id) as [[s1 tr] r].
      destruct r as [[v tok]|e| |]; exact G.
    - specialize (IH (rec_push s None)). destruct (run_line (rec_push s None) l) as [[s1 tr] r].
      cbn [fst] in *. eapply grows_trans; [exact IH|]. apply grows_same, cache_rec_pop.
    - specialize (IH s). destruct (run_line s l) as [[s1 tr] r]. exact IH.
    - pose proof (cache_cache_read s id ext) as C. destruct (cache_read s id ext) as [[s1 rd] e].
      cbn [fst] in *. now apply grows_same.
    - pose proof (cache_cache_read_dir s id) as C. destruct (cache_read_dir s id) as [[s1 rd] e].
      cbn [fst] in *. now apply grows_same.
    - destruct (bump_tok s) as [s1 tok] eqn:Eb.
      assert (C : cache s1 = cache s) by (unfold bump_tok in Eb; inversion Eb; reflexivity).
      destruct (cache_get s1 (TV, id)) eqn:E; cbn [fst].
      + now apply grows_same.
      + pose proof (cache_insert_grows s1 (TV, id) (mark_goi (mk_entry s1 TV (VInt z "insert") tok))) as G.
        destruct (cache_insert s1 (TV, id) (mark_goi (mk_entry s1 TV (VInt z "insert") tok))) as [[s2 e'] d].
        cbn [fst] in *. eapply grows_trans; [apply grows_same; exact C|exact G].
    - specialize (IH (rec_push s None)). destruct (run_line (rec_push s None) l) as [[s1 tr] r].
      cbn [fst] in *. eapply grows_trans; [exact IH|]. apply grows_same, cache_rec_pop.
    - specialize (IH s). destruct (run_line s l) as [[s1 tr] r]. exact IH.
    - apply grows_refl.
    - apply grows_refl.
  Qed.

  Lemma run_lines_grows : forall ls s sum tr, grows s (fst (fst (run_lines s ls sum tr))).
  Proof.
    induction ls as [|l r IH]; intros s sum tr; cbn [Sys.run_lines]; [apply grows_refl|].
    pose proof (run_line_grows l s) as G. destruct (run_line s l) as [[s1 tr1] x].
    destruct x; cbn [fst] in *; try exact G. eapply grows_trans; [exact G|apply IH].
  Qed.

  Lemma load_node_value_grows s t id :
    grows s (fst (fst (load_node_value load_entry_rec load_owned_rec s t id))).
  Proof.
    unfold load_node_value.
    pose proof (cache_cache_read s id "n") as C. destruct (cache_read s id "n") as [[s1 rd] e].
    cbn [fst] in C. destruct rd as [k|[b|n ls]]; cbn [fst]; try (now apply grows_same).
    pose proof (run_lines_grows ls s1 0%Z [e]) as G.
    destruct (run_lines s1 ls 0%Z [e]) as [[s2 tr] r]. cbn [fst] in G.
    assert (G' : grows s s2) by (eapply grows_trans; [apply grows_same; exact C|exact G]).
    destruct r; cbn [fst bump_tok]; exact G'.
  Qed.

  Lemma load_dir_value_grows s id : grows s (fst (fst (load_dir_value s id))).
  Proof.
    unfold load_dir_value.
    pose proof (cache_cache_read_dir s id) as C. destruct (cache_read_dir s id) as [[s1 rd] e].
    cbn [fst] in C. destruct rd; cbn [fst]; now apply grows_same.
  Qed.

  Lemma rdir_go_grows : forall ds s ids tr,
    grows s (fst (fst (rdir_go load_entry_rec s ds ids tr))).
  Proof.
    induction ds as [|d r IH]; intros s ids tr; cbn [rdir_go]; [apply grows_refl|].
    pose proof (Hent s TRI d) as G. destruct (load_entry_rec s TRI d) as [[s' tr'] x].
    cbn [fst] in G. destruct x as [child|e| |]; cbn [fst]; try exact G.
    - eapply grows_trans; [exact G|apply IH].
    - eapply grows_trans; [exact G|apply IH].
  Qed.

  Lemma load_rec_dir_value_grows s id :
    grows s (fst (fst (load_rec_dir_value load_entry_rec s id))).
  Proof.
    unfold load_rec_dir_value.
    pose proof (Hent s TDI id) as G1. destruct (load_entry_rec s TDI id) as [[s1 tr1] r1].
    cbn [fst] in G1. destruct r1 as [this|e| |]; cbn [fst]; try exact G1.
    pose proof (cache_cache_read_dir s1 id) as C. destruct (cache_read_dir s1 id) as [[s2 rd] e].
    cbn [fst] in C. destruct rd as [k|l]; cbn [fst]; [eapply grows_trans; [exact G1|now apply grows_same]|].
    assert (G2 : grows s s2) by (eapply grows_trans; [exact G1|now apply grows_same]).
    match goal with |- context [rdir_go load_entry_rec s2 ?ds ?ids ?tr] =>
      pose proof (rdir_go_grows ds s2 ids tr) as G3;
      destruct (rdir_go load_entry_rec s2 ds ids tr) as [[s3 tr3] x] end.
    cbn [fst] in *. eapply grows_trans; eauto.
  Qed.

  Lemma load_value_grows s t id :
    grows s (fst (fst (load_value load_entry_rec load_owned_rec s t id))).
  Proof.
    unfold load_value. destruct t; try (apply grows_same, load_asset_value_cache);
      try apply load_node_value_grows; try apply load_dir_value_grows;
      try apply load_rec_dir_value_grows; apply grows_refl.
  Qed.

  Lemma load_wrapped_grows s t id :
    grows s (fst (fst (load_wrapped load_entry_rec load_owned_rec s t id))).
  Proof.
    unfold load_wrapped. pose proof (load_value_grows s t id) as G.
    destruct (load_value load_entry_rec load_owned_rec s t id) as [[s1 tr] r]. exact G.
  Qed.

  Lemma load_and_record_grows s t id :
    grows s (fst (fst (load_and_record load_entry_rec load_owned_rec s t id))).
  Proof.
    unfold load_and_record. destruct (hot_reloaded t && has_reloader s); [|apply load_wrapped_grows].
    pose proof (load_wrapped_grows (rec_push s (Some [])) t id) as G.
    destruct (load_wrapped load_entry_rec load_owned_rec (rec_push s (Some [])) t id) as [[s1 tr] r].
    cbn [fst] in G. pose proof (cache_rec_pop s1) as C. destruct (rec_pop s1) as [s2 deps]. cbn [fst] in *.
    assert (G2 : grows s s2).
    { eapply grows_trans; [exact G|now apply grows_same]. }
    destruct r; exact G2.
  Qed.

  Lemma load_entry_grows s t id :
    grows s (fst (fst (load_entry load_entry_rec load_owned_rec s t id))).
  Proof.
    unfold load_entry. pose proof (cache_get_cached_rec s t id) as C.
    destruct (get_cached_rec s t id) as [s0 o]. cbn [fst] in C.
    destruct o as [e|]; cbn [fst]; [now apply grows_same|].
    pose proof (load_and_record_grows s0 t id) as G.
    destruct (load_and_record load_entry_rec load_owned_rec s0 t id) as [[s1 tr] r]. cbn [fst] in G.
    assert (G1 : grows s s1) by (eapply grows_trans; [apply grows_same; exact C|exact G]).
    destruct r as [[v tok]|e| |]; cbn [fst]; try exact G1.
    pose proof (cache_insert_grows s1 (t, id) (mk_entry s1 t v tok)) as G2.
    destruct (cache_insert s1 (t, id) (mk_entry s1 t v tok)) as [[s2 e'] d]. cbn [fst] in *.
    eapply grows_trans; eauto.
  Qed.

  Lemma load_owned_grows s t id :
    grows s (fst (fst (load_owned load_entry_rec load_owned_rec s t id))).
  Proof.
    unfold load_owned. eapply grows_trans; [|apply load_and_record_grows].
    destruct (hot_reloaded t); [apply grows_same, cache_rec_add|apply grows_refl].
  Qed.
End Eval.

(* ---- every fuel ---- *)
Lemma load_f_grows : forall fuel,
  (forall s t id, grows s (fst (fst (load_entry_f fuel s t id)))) /\
  (forall s t id, grows s (fst (fst (load_owned_f fuel s t id)))).
Proof.
  induction fuel as [|f [IHe IHo]]; split; intros s t id; cbn [load_entry_f load_owned_f];
    try apply grows_refl.
  - now apply load_entry_grows.
  - now apply load_owned_grows.
Qed.

Theorem load_entry_never_overwrites fuel s t id k e :
  cache_get s k = Some e -> cache_get (fst (fst (load_entry_f fuel s t id))) k = Some e.
Proof. intros H. eapply grows_get; [apply load_f_grows|exact H]. Qed.

Theorem load_owned_never_overwrites fuel s t id k e :
  cache_get s k = Some e -> cache_get (fst (fst (load_owned_f fuel s t id))) k = Some e.
Proof. intros H. eapply grows_get; [apply load_f_grows|exact H]. Qed.
