(* What loading never touches: the dependency graph, the set of changed entries, the reloader
   mode, the watchers; the recording cell is restored (same stack of Some/None) and the cache
   messages only accumulate.  For every fuel and every nesting of Compounds, whether the load
   succeeds, fails or panics. *)
From Coq Require Import List String NArith ZArith Bool Lia.
From AM Require Import Ref.Load Ref.Sys.
Import ListNotations.

Definition shape (r : list (option (list dep))) : list bool :=
  map (fun o => match o with Some _ => true | None => false end) r.

Record quiet (s s' : st) : Prop := {
  q_graph : graph s' = graph s;
  q_tor : to_reload s' = to_reload s;
  q_static : static_mode s' = static_mode s;
  q_watch : watchers s' = watchers s;
  q_rel : has_reloader s' = has_reloader s;
  q_shape : shape (recs s') = shape (recs s);
  q_cm : exists l, cm s' = cm s ++ l;
  (* the source is only read: its files, directories and fault plan are what they were *)
  q_files : files (src s') = files (src s);
  q_dirs : dirs (src s') = dirs (src s);
  q_faults : faults (src s') = faults (src s);
}.

Lemma quiet_refl s : quiet s s.
Proof. constructor; try reflexivity. exists []. now rewrite app_nil_r. Qed.

Lemma quiet_trans a b c : quiet a b -> quiet b c -> quiet a c.
Proof.
  intros [g1 t1 s1 w1 r1 h1 [l1 c1] f1 d1 x1] [g2 t2 s2 w2 r2 h2 [l2 c2] f2 d2 x2]. constructor; try congruence.
  exists (l1 ++ l2). now rewrite c2, c1, app_assoc.
Qed.

Ltac q_triv := constructor; cbn; try reflexivity; try (exists []; now rewrite app_nil_r).

Lemma quiet_set_src s x :
  files x = files (src s) -> dirs x = dirs (src s) -> faults x = faults (src s) -> quiet s (set_src s x).
Proof. intros F D X. constructor; cbn; try reflexivity; try assumption. exists []. now rewrite app_nil_r. Qed.
Lemma src_read_same x id ext :
  let y := fst (fst (src_read x id ext)) in files y = files x /\ dirs y = dirs x /\ faults y = faults x.
Proof. unfold src_read, src_tick. cbn. repeat split. Qed.
Lemma src_read_dir_same x id :
  let y := fst (fst (src_read_dir x id)) in files y = files x /\ dirs y = dirs x /\ faults y = faults x.
Proof. unfold src_read_dir, src_tick. cbn. repeat split. Qed.
Lemma rec_add_src s d : src (rec_add s d) = src s.
Proof. unfold rec_add. destruct (has_reloader s); [|reflexivity]. destruct (recs s) as [|[l|] r]; reflexivity. Qed.
Lemma quiet_set_cache s x : quiet s (set_cache s x). Proof. q_triv. Qed.
Lemma quiet_bump s : quiet s (fst (bump_tok s)). Proof. q_triv. Qed.
Lemma quiet_rec_add s d : quiet s (rec_add s d).
Proof.
  unfold rec_add. destruct (has_reloader s); [|apply quiet_refl].
  destruct (recs s) as [|[l|] r] eqn:E; try apply quiet_refl.
  constructor; cbn; try reflexivity; [now rewrite E|exists []; now rewrite app_nil_r].
Qed.

Lemma quiet_cache_read s id ext : quiet s (fst (fst (cache_read s id ext))).
Proof.
  unfold cache_read. pose proof (src_read_same (src (rec_add s (DepFile id ext))) id ext) as (F & D & X).
  destruct (src_read (src (rec_add s (DepFile id ext))) id ext) as [[sr rd] e].
  cbn [fst] in *. eapply quiet_trans; [apply quiet_rec_add|now apply quiet_set_src].
Qed.

Lemma quiet_cache_read_dir s id : quiet s (fst (fst (cache_read_dir s id))).
Proof.
  unfold cache_read_dir. pose proof (src_read_dir_same (src (rec_add s (DepDir id))) id) as (F & D & X).
  destruct (src_read_dir (src (rec_add s (DepDir id))) id) as [[sr rd] e].
  cbn [fst] in *. eapply quiet_trans; [apply quiet_rec_add|now apply quiet_set_src].
Qed.

Lemma quiet_get_cached_rec s t id : quiet s (fst (get_cached_rec s t id)).
Proof. unfold get_cached_rec. destruct (hot_reloaded t); cbn [fst]; [apply quiet_rec_add|apply quiet_refl]. Qed.

Lemma quiet_cache_insert s k e : quiet s (fst (fst (cache_insert s k e))).
Proof. unfold cache_insert. destruct (cache_get s k); cbn [fst]; [apply quiet_refl|apply quiet_set_cache]. Qed.

(* push ... pop: the shape is back *)
Lemma quiet_push_pop s o s1 :
  quiet (rec_push s o) s1 -> quiet s (fst (rec_pop s1)).
Proof.
  intros [g t st w r h [l c] qf qd qx]. unfold rec_pop. cbn in h.
  destruct (recs s1) as [|x rest] eqn:E; [discriminate|].
  cbn in h. inversion h as [[Hx Hrest]].
  destruct x; cbn [fst]; constructor; cbn; try assumption; exists l; exact c.
Qed.

Lemma int_attempts_quiet : forall es s t id acc tr, quiet s (fst (fst (int_attempts s t id es acc tr))).
Proof.
  induction es as [|e r IH]; intros s t id acc tr; cbn [int_attempts]; [apply quiet_refl|].
  pose proof (quiet_cache_read s id e) as Q.
  destruct (cache_read s id e) as [[s1 rd] evr]. cbn [fst] in Q.
  destruct rd as [k|c].
  - apply (quiet_trans _ _ _ Q). apply IH.
  - apply (quiet_trans _ _ _ Q).
    destruct t, c; try apply IH; try (destruct (parse_int b); [cbn [fst]; apply quiet_bump|apply IH]);
      cbn [fst]; apply quiet_bump.
Qed.

Lemma load_asset_value_quiet s t id : quiet s (fst (fst (load_asset_value s t id))).
Proof.
  unfold load_asset_value.
  pose proof (int_attempts_quiet (exts t) s t id ENoDefault []) as Q.
  destruct (int_attempts s t id (exts t) ENoDefault []) as [[s1 tr] r]. cbn [fst] in Q.
  destruct r as [e|vt]; [|exact Q].
  destruct t; cbn [fst]; try exact Q. eapply quiet_trans; [exact Q|apply quiet_bump].
Qed.

Section Eval.
  Variable load_entry_rec : st -> ty -> string -> st * list ev * res entry.
  Variable load_owned_rec : st -> ty -> string -> st * list ev * res (value * N).
  Hypothesis Hent : forall s t id, quiet s (fst (fst (load_entry_rec s t id))).
  Hypothesis Hown : forall s t id, quiet s (fst (fst (load_owned_rec s t id))).

  Notation run_line := (run_line load_entry_rec load_owned_rec).
  Notation run_lines := (run_lines load_entry_rec load_owned_rec).

  Lemma run_line_quiet : forall l s, quiet s (fst (fst (run_line s l))).
  Proof.
    induction l as [z|t id|t id|t id|l IH|l IH|id ext|id|id z|l IH|l IH| |]; intros s; cbn [Sys.run_line].
    - apply quiet_refl.
    - destruct (is_loadable t); cbn [negb fst]; [|apply quiet_refl].
      pose proof (Hent s t id) as G. destruct (load_entry_rec s t id) as [[s1 tr] r]. exact G.
    - pose proof (quiet_get_cached_rec s t id) as C. destruct (get_cached_rec s t id) as [s1 o]. exact C.
    - destruct (is_loadable t); cbn [negb fst]; [|apply quiet_refl].
      pose proof (Hown s t id) as G. destruct (load_owned_rec s t id) as [[s1 tr] r].
      destruct r as [[v tok]|e| |]; exact G.
    - specialize (IH (rec_push s None)). destruct (run_line (rec_push s None) l) as [[s1 tr] r].
      cbn [fst] in *. eapply quiet_push_pop; exact IH.
    - specialize (IH s). destruct (run_line s l) as [[s1 tr] r]. exact IH.
    - pose proof (quiet_cache_read s id ext) as C. destruct (cache_read s id ext) as [[s1 rd] e]. exact C.
    - pose proof (quiet_cache_read_dir s id) as C. destruct (cache_read_dir s id) as [[s1 rd] e]. exact C.
    - destruct (bump_tok s) as [s1 tok] eqn:Eb.
      assert (C : quiet s s1) by (replace s1 with (fst (bump_tok s)) by (now rewrite Eb); apply quiet_bump).
      destruct (cache_get s1 (TV, id)) eqn:E; cbn [fst]; [exact C|].
      pose proof (quiet_cache_insert s1 (TV, id) (mark_goi (mk_entry s1 TV (VInt z "insert") tok))) as G.
      destruct (cache_insert s1 (TV, id) (mark_goi (mk_entry s1 TV (VInt z "insert") tok))) as [[s2 e'] d].
      cbn [fst] in *. eapply quiet_trans; eauto.
    - specialize (IH (rec_push s None)). destruct (run_line (rec_push s None) l) as [[s1 tr] r].
      cbn [fst] in *. eapply quiet_push_pop; exact IH.
    - specialize (IH s). destruct (run_line s l) as [[s1 tr] r]. exact IH.
    - apply quiet_refl.
    - apply quiet_refl.
  Qed.

  Lemma run_lines_quiet : forall ls s sum tr, quiet s (fst (fst (run_lines s ls sum tr))).
  Proof.
    induction ls as [|l r IH]; intros s sum tr; cbn [Sys.run_lines]; [apply quiet_refl|].
    pose proof (run_line_quiet l s) as G. destruct (run_line s l) as [[s1 tr1] x].
    destruct x; cbn [fst] in *; try exact G. eapply quiet_trans; [exact G|apply IH].
  Qed.

  Lemma load_node_value_quiet s t id :
    quiet s (fst (fst (load_node_value load_entry_rec load_owned_rec s t id))).
  Proof.
    unfold load_node_value.
    pose proof (quiet_cache_read s id "n") as C. destruct (cache_read s id "n") as [[s1 rd] e].
    cbn [fst] in C. destruct rd as [k|[b|n ls]]; cbn [fst]; try exact C.
    pose proof (run_lines_quiet ls s1 0%Z [e]) as G.
    destruct (run_lines s1 ls 0%Z [e]) as [[s2 tr] r]. cbn [fst] in G.
    assert (G' : quiet s s2) by (eapply quiet_trans; eauto).
    destruct r; cbn [fst]; try exact G'. eapply quiet_trans; [exact G'|apply quiet_bump].
  Qed.

  Lemma load_dir_value_quiet s id : quiet s (fst (fst (load_dir_value s id))).
  Proof.
    unfold load_dir_value.
    pose proof (quiet_cache_read_dir s id) as C. destruct (cache_read_dir s id) as [[s1 rd] e].
    cbn [fst] in C. destruct rd; cbn [fst]; exact C.
  Qed.

  Lemma rdir_go_quiet : forall ds s ids tr, quiet s (fst (fst (rdir_go load_entry_rec s ds ids tr))).
  Proof.
    induction ds as [|d r IH]; intros s ids tr; cbn [rdir_go]; [apply quiet_refl|].
    pose proof (Hent s TRI d) as G. destruct (load_entry_rec s TRI d) as [[s' tr'] x].
    cbn [fst] in G. destruct x as [child|e| |]; cbn [fst]; try exact G.
    - eapply quiet_trans; [exact G|apply IH].
    - eapply quiet_trans; [exact G|apply IH].
  Qed.

  Lemma load_rec_dir_value_quiet s id :
    quiet s (fst (fst (load_rec_dir_value load_entry_rec s id))).
  Proof.
    unfold load_rec_dir_value.
    pose proof (Hent s TDI id) as G1. destruct (load_entry_rec s TDI id) as [[s1 tr1] r1].
    cbn [fst] in G1. destruct r1 as [this|e| |]; cbn [fst]; try exact G1.
    pose proof (quiet_cache_read_dir s1 id) as C. destruct (cache_read_dir s1 id) as [[s2 rd] e].
    cbn [fst] in C. destruct rd as [k|l]; cbn [fst]; [eapply quiet_trans; eauto|].
    assert (G2 : quiet s s2) by (eapply quiet_trans; eauto).
    match goal with |- context [rdir_go load_entry_rec s2 ?ds ?ids ?tr] =>
      pose proof (rdir_go_quiet ds s2 ids tr) as G3;
      destruct (rdir_go load_entry_rec s2 ds ids tr) as [[s3 tr3] x] end.
    cbn [fst] in *. eapply quiet_trans; eauto.
  Qed.

  Lemma load_value_quiet s t id :
    quiet s (fst (fst (load_value load_entry_rec load_owned_rec s t id))).
  Proof.
    unfold load_value. destruct t; try apply load_asset_value_quiet;
      try apply load_node_value_quiet; try apply load_dir_value_quiet;
      try apply load_rec_dir_value_quiet; apply quiet_refl.
  Qed.

  Lemma load_wrapped_quiet s t id :
    quiet s (fst (fst (load_wrapped load_entry_rec load_owned_rec s t id))).
  Proof.
    unfold load_wrapped. pose proof (load_value_quiet s t id) as G.
    destruct (load_value load_entry_rec load_owned_rec s t id) as [[s1 tr] r]. exact G.
  Qed.

  Lemma load_and_record_quiet s t id :
    quiet s (fst (fst (load_and_record load_entry_rec load_owned_rec s t id))).
  Proof.
    unfold load_and_record. destruct (hot_reloaded t && has_reloader s); [|apply load_wrapped_quiet].
    pose proof (load_wrapped_quiet (rec_push s (Some [])) t id) as G.
    destruct (load_wrapped load_entry_rec load_owned_rec (rec_push s (Some [])) t id) as [[s1 tr] r].
    cbn [fst] in G. pose proof (quiet_push_pop s (Some []) s1 G) as P.
    destruct (rec_pop s1) as [s2 deps]. cbn [fst] in *.
    destruct r; try exact P.
    (* success: one more cache message *)
    destruct P as [g tt st w rr h [l c] qf qd qx]. constructor; cbn; try assumption.
    exists (l ++ [MAddAsset (t, id) deps]). now rewrite c, app_assoc.
  Qed.

  Lemma load_entry_quiet s t id :
    quiet s (fst (fst (load_entry load_entry_rec load_owned_rec s t id))).
  Proof.
    unfold load_entry. pose proof (quiet_get_cached_rec s t id) as C.
    destruct (get_cached_rec s t id) as [s0 o]. cbn [fst] in C.
    destruct o as [e|]; cbn [fst]; [exact C|].
    pose proof (load_and_record_quiet s0 t id) as G.
    destruct (load_and_record load_entry_rec load_owned_rec s0 t id) as [[s1 tr] r]. cbn [fst] in G.
    assert (G1 : quiet s s1) by (eapply quiet_trans; eauto).
    destruct r as [[v tok]|e| |]; cbn [fst]; try exact G1.
    pose proof (quiet_cache_insert s1 (t, id) (mk_entry s1 t v tok)) as G2.
    destruct (cache_insert s1 (t, id) (mk_entry s1 t v tok)) as [[s2 e'] d]. cbn [fst] in *.
    eapply quiet_trans; eauto.
  Qed.

  Lemma load_owned_quiet s t id :
    quiet s (fst (fst (load_owned load_entry_rec load_owned_rec s t id))).
  Proof.
    unfold load_owned. eapply quiet_trans; [|apply load_and_record_quiet].
    destruct (hot_reloaded t); [apply quiet_rec_add|apply quiet_refl].
  Qed.
End Eval.

Lemma load_f_quiet : forall fuel,
  (forall s t id, quiet s (fst (fst (load_entry_f fuel s t id)))) /\
  (forall s t id, quiet s (fst (fst (load_owned_f fuel s t id)))).
Proof.
  induction fuel as [|f [IHe IHo]]; split; intros s t id; cbn [load_entry_f load_owned_f];
    try apply quiet_refl.
  - now apply load_entry_quiet.
  - now apply load_owned_quiet.
Qed.

(* C09: whatever happens during a load (error, panic, fault at any read), the recording cell of
   the calling thread is restored: same stack of Some/None as before *)
Theorem load_restores_recording fuel s t id :
  shape (recs (fst (fst (load_entry_f fuel s t id)))) = shape (recs s) /\
  shape (recs (fst (fst (load_owned_f fuel s t id)))) = shape (recs s).
Proof. split; apply q_shape, load_f_quiet. Qed.

(* C06: loading never touches the dependency graph nor the set of changed entries: only the
   reloader (draining its messages, running a pass) does *)
Theorem load_leaves_reloader_state fuel s t id :
  graph (fst (fst (load_entry_f fuel s t id))) = graph s /\
  to_reload (fst (fst (load_entry_f fuel s t id))) = to_reload s.
Proof. split; [apply q_graph|apply q_tor]; apply load_f_quiet. Qed.
