(* Spike for DESIGN A.4: one reload pass re-establishes consistency, with dynamic dependencies,
   provided no asset reloaded in the pass reads an asset that is reloaded later in the same pass. *)
From Coq Require Import List Bool Arith Lia.
Import ListNotations.

Definition A := nat. Definition E := nat.
Inductive dep := DE (e : E) | DA (a : A).
Definition src := E -> nat. Definition vals := A -> nat.
Definition loader := A -> src -> vals -> option (nat * list dep).

Definition agree (D : list dep) (s s' : src) (v v' : vals) :=
  (forall e, In (DE e) D -> s e = s' e) /\ (forall a, In (DA a) D -> v a = v' a).

(* the one property required of loaders: what they return depends only on what they report reading *)
Definition determined (F : loader) := forall a s v s' v' x D,
  F a s v = Some (x, D) -> agree D s s' v v' -> F a s' v' = Some (x, D).

Record st := { val : vals; deps : A -> list dep; failed : list A }.
Definition upd {T} (f : A -> T) (a : A) (x : T) : A -> T := fun b => if Nat.eqb b a then x else f b.

Definition reload (F : loader) (s' : src) (c : st) (a : A) : st :=
  match F a s' (val c) with
  | Some (x, D) => {| val := upd (val c) a x; deps := upd (deps c) a D; failed := failed c |}
  | None => {| val := val c; deps := deps c; failed := a :: failed c |}
  end.
Definition pass (F : loader) (s' : src) (order : list A) (c : st) : st := fold_left (reload F s') order c.

Definition consistent (F : loader) (s : src) (c : st) (a : A) := F a s (val c) = Some (val c a, deps c a).

Lemma upd_same {T} (f : A -> T) a x : upd f a x a = x. Proof. unfold upd. now rewrite Nat.eqb_refl. Qed.
Lemma upd_other {T} (f : A -> T) a x b : b <> a -> upd f a x b = f b.
Proof. unfold upd. intros H. apply Nat.eqb_neq in H. now rewrite H. Qed.

Lemma reload_untouched F s' c a b : b <> a -> val (reload F s' c a) b = val c b /\ deps (reload F s' c a) b = deps c b.
Proof. intros H. unfold reload. destruct (F a s' (val c)) as [[x D]|]; cbn; [now rewrite !upd_other by assumption | auto]. Qed.

Lemma pass_untouched F s' l : forall c b, ~ In b l -> val (pass F s' l c) b = val c b /\ deps (pass F s' l c) b = deps c b.
Proof.
  unfold pass. induction l as [|a l IH]; intros c b H; cbn [fold_left]; [auto|].
  destruct (IH (reload F s' c a) b) as [H1 H2]; [intros ?; apply H; now right|].
  destruct (reload_untouched F s' c a b) as [H3 H4]; [intros ->; apply H; now left|].
  split; congruence.
Qed.

Lemma pass_failed_mono F s' l : forall c a, In a (failed c) -> In a (failed (pass F s' l c)).
Proof. unfold pass. induction l as [|b l IH]; intros c a H; cbn [fold_left]; [auto|]. apply IH. unfold reload.
  destruct (F b s' (val c)) as [[x D]|]; cbn; auto. Qed.

Lemma pass_cons F s' a l c : pass F s' (a :: l) c = pass F s' l (reload F s' c a).
Proof. reflexivity. Qed.

Lemma pass_app F s' l1 l2 c : pass F s' (l1 ++ l2) c = pass F s' l2 (pass F s' l1 c).
Proof. apply fold_left_app. Qed.

(* "no late binding": when [a] is reloaded, nothing it reads is reloaded at or after [a]'s turn.
   Covers dependencies-first order for old dependencies, absence of self-dependency, and the absence
   of a NEW dependency on an asset scheduled later (the known finding D8 is exactly its failure). *)
Definition no_late (F : loader) (s' : src) (order : list A) (c0 : st) :=
  forall pre a post x D, order = pre ++ a :: post ->
    F a s' (val (pass F s' pre c0)) = Some (x, D) -> forall b, In (DA b) D -> ~ In b (a :: post).

Theorem pass_restores_consistency (F : loader) (s s' : src) (order : list A) (c0 : st) :
  determined F -> NoDup order -> no_late F s' order c0 ->
  (* assets outside the pass read nothing that changed and nothing that is reloaded *)
  (forall a, ~ In a order -> consistent F s c0 a ->
             (forall e, In (DE e) (deps c0 a) -> s e = s' e) /\ (forall b, In (DA b) (deps c0 a) -> ~ In b order)) ->
  forall a, (In a order \/ consistent F s c0 a) -> ~ In a (failed (pass F s' order c0)) ->
  consistent F s' (pass F s' order c0) a.
Proof.
  intros Hdet Hnd Hnl Hout a Ha Hnf. unfold consistent.
  destruct (in_dec Nat.eq_dec a order) as [Hin|Hnin].
  - (* reloaded in this pass *)
    destruct (in_split _ _ Hin) as (pre & post & Hord). subst order.
    apply NoDup_remove_2 in Hnd as Hnotin.
    assert (Hpre : ~ In a pre) by (intros ?; apply Hnotin, in_or_app; now left).
    assert (Hpost : ~ In a post) by (intros ?; apply Hnotin, in_or_app; now right).
    rewrite pass_app, pass_cons in *.
    set (cp := pass F s' pre c0) in *.
    destruct (F a s' (val cp)) as [[x D]|] eqn:EF.
    + pose proof (Hnl pre a post x D eq_refl EF) as Late.
      assert (Er : reload F s' cp a = {| val := upd (val cp) a x; deps := upd (deps cp) a D; failed := failed cp |})
        by (unfold reload; now rewrite EF).
      rewrite Er. set (ca := {| val := upd (val cp) a x; deps := upd (deps cp) a D; failed := failed cp |}).
      destruct (pass_untouched F s' post ca a Hpost) as [Hv Hd]. rewrite Hv, Hd. cbn. rewrite !upd_same.
      eapply Hdet; [exact EF|]. split; [reflexivity|].
      intros b Hb. specialize (Late b Hb).
      assert (b <> a) by (intros ->; apply Late; now left).
      assert (~ In b post) by (intros ?; apply Late; now right).
      destruct (pass_untouched F s' post ca b H0) as [Hvb _]. rewrite Hvb. cbn. now rewrite upd_other.
    + exfalso. apply Hnf.
      apply pass_failed_mono. unfold reload. rewrite EF. now left.
  - (* not part of the pass *)
    destruct Ha as [?|Hc]; [contradiction|].
    destruct (Hout a Hnin Hc) as [Hs Hb].
    destruct (pass_untouched F s' order c0 a Hnin) as [Hv Hd]. rewrite Hv, Hd.
    eapply Hdet; [exact Hc|]. split; [exact Hs|].
    intros b Hin. symmetry. apply (pass_untouched F s' order c0 b). now apply Hb.
Qed.

(* The hypothesis is necessary: D8 in the abstract.  b (=0) starts depending on c (=1) in the same
   batch in which c changes, and is scheduled first. *)
Definition Fw : loader := fun a s v => match a with
  | 0 => if Nat.eqb (s 0) 0 then Some (10, [DE 0]) else Some (10 + v 1, [DE 0; DA 1])
  | _ => Some (s 1, [DE 1]) end.
Definition s_old : src := fun e => match e with 0 => 0 | _ => 1 end.
Definition s_new : src := fun e => match e with 0 => 1 | _ => 2 end.
Definition c_old : st := {| val := fun a => match a with 0 => 10 | _ => 1 end;
                            deps := fun a => match a with 0 => [DE 0] | _ => [DE 1] end; failed := [] |}.
Example late_bound_stale_witness :
  consistent Fw s_old c_old 0 /\ consistent Fw s_old c_old 1 /\
  val (pass Fw s_new [0; 1] c_old) 0 = 11 /\ Fw 0 s_new (val (pass Fw s_new [0; 1] c_old)) = Some (12, [DE 0; DA 1]) /\
  (* the other order is fine *)
  val (pass Fw s_new [1; 0] c_old) 0 = 12.
Proof. vm_compute. repeat split. Qed.
