From Coq Require Import List Bool Arith Lia.
From AM Require Import Ref.Reloader.
Import ListNotations.

(* both inboxes empty and connected: the thread blocks (consumes nothing) *)
Lemma idle_blocks x p s :
  st s <> Exited -> qlen (cmq s) = 0 -> connected (cmq s) = true ->
  qlen (evq s) = 0 -> connected (evq s) = true ->
  st (iter x p s) = Blocked /\ consumed (iter x p s) = consumed s.
Proof.
  intros Hs Hc Hcc He Hec. unfold iter. destruct (st s); try congruence;
    unfold ready; rewrite Hc, Hcc, He, Hec; cbn; auto.
Qed.

(* with the repaired loop, an iteration that does not block and does not exit consumed a message:
   no busy spinning *)
Theorem no_spin p s :
  st s <> Exited ->
  let s' := iter true p s in
  st s' = Blocked \/ st s' = Exited \/ consumed s < consumed s'.
Proof.
  intros Hs. unfold iter. destruct (st s) eqn:E; try congruence.
  all: destruct s as [[cq cc] [eq ec] st0 n]; cbn in *; unfold ready; cbn.
  all: destruct cq, eq, cc, ec, p; cbn; auto; right; right; lia.
Qed.

(* once the cache is dropped (cache-message channel disconnected) the repaired loop exits at its
   next iteration, whatever the event channel holds and whichever index `ready` returns *)
Theorem exits_after_drop p s :
  st s <> Exited -> connected (cmq s) = false -> st (iter true p s) = Exited.
Proof.
  intros Hs Hc. unfold iter. destruct (st s) eqn:E; try congruence.
  all: destruct s as [[cq cc] [eq ec] st0 n]; cbn in *; subst cc; unfold ready; cbn.
  all: rewrite orb_true_r; cbn; reflexivity.
Qed.

(* ... hence for every create/use/drop history of k caches: each loop, once its cache is dropped,
   is Exited after one more iteration and stays so *)
Lemma exited_stays x picks s : st s = Exited -> st (iters x picks s) = Exited.
Proof.
  revert s; induction picks as [|p r IH]; intros s H; cbn; [exact H|].
  apply IH. unfold iter. now rewrite H.
Qed.

Theorem no_accumulation picks p s :
  connected (cmq s) = false -> st (iters true (p :: picks) s) = Exited.
Proof.
  intros Hc. cbn. apply exited_stays.
  destruct (st s) eqn:E.
  - apply exits_after_drop; congruence.
  - apply exits_after_drop; congruence.
  - unfold iter. now rewrite E.
Qed.

(* The loop as it was before the repair of D4 never exits nor blocks after the cache is dropped
   while the event sender is still held (by a watcher): it spins. *)
Lemma old_loop_fixpoint p : iter false p (mk 0 false 0 true) = mk 0 false 0 true.
Proof. destruct p; reflexivity. Qed.

Theorem spin_after_drop_refuted : forall picks,
  let s := iters false picks (mk 0 false 0 true) in
  st s = Running /\ consumed s = 0.
Proof.
  induction picks as [|p r IH]; [split; reflexivity|].
  change (iters false (p :: r) (mk 0 false 0 true)) with (iters false r (iter false p (mk 0 false 0 true))).
  rewrite old_loop_fixpoint. exact IH.
Qed.

(* the same state with the repaired loop: exits at once *)
Example repaired_loop_exits : st (iter true false (mk 0 false 0 true)) = Exited
                              /\ st (iter true true (mk 0 false 0 true)) = Exited.
Proof. split; reflexivity. Qed.
