(* The archive index (Ref/Archive.v) answers like the tree its members describe, whatever the
   member order and whether or not directories have members of their own. *)
From Coq Require Import List String NArith Bool Arith Lia Permutation.
From AM Require Import Ref.Tree Proofs.Tree Ref.Archive.
Import ListNotations.
Open Scope list_scope.

(* ---- association-list facts ---- *)
Lemma has_lookup m d : has m d = true <-> lookup m d <> None.
Proof.
  induction m as [|[k l] r IH]; cbn; [split; [discriminate|congruence]|].
  destruct (id_eqb k d); cbn; [split; [discriminate|reflexivity]|exact IH].
Qed.
Lemma has_false_lookup m d : has m d = false <-> lookup m d = None.
Proof.
  split; intros H.
  - destruct (lookup m d) eqn:L; [|reflexivity].
    assert (has m d = true) by (apply has_lookup; congruence). congruence.
  - destruct (has m d) eqn:Hh; [|reflexivity]. apply has_lookup in Hh. contradiction.
Qed.

Lemma has_push m d e k : has (push m d e) k = has m k.
Proof.
  unfold has. induction m as [|[a l] r IH]; cbn [push]; [reflexivity|].
  destruct (id_eqb a d); cbn [existsb fst]; [reflexivity|]. now rewrite IH.
Qed.

Lemma lookup_push_same m d e l : lookup m d = Some l -> lookup (push m d e) d = Some (l ++ [e]).
Proof.
  induction m as [|[a w] r IH]; cbn; [discriminate|].
  destruct (id_eqb a d) eqn:E; cbn; rewrite E; [intros H; now inversion H|exact IH].
Qed.

Lemma lookup_push_other m d e k : k <> d -> lookup (push m d e) k = lookup m k.
Proof.
  intros N. induction m as [|[a w] r IH]; cbn; [reflexivity|].
  destruct (id_eqb a d) eqn:E; cbn.
  - apply id_eqb_eq in E. subst a. destruct (id_eqb d k) eqn:E2; [apply id_eqb_eq in E2; congruence|reflexivity].
  - destruct (id_eqb a k); [reflexivity|exact IH].
Qed.

Lemma lookup_push_none m d e : lookup m d = None -> push m d e = m.
Proof.
  induction m as [|[a w] r IH]; cbn; [reflexivity|].
  destruct (id_eqb a d); [discriminate|]. intros H. now rewrite IH.
Qed.

(* what pushing does to any listing: it stays, or (the pushed-to key) gets the element appended *)
Lemma lookup_push_cases m d e k l :
  lookup (push m d e) k = Some l ->
  (k <> d /\ lookup m k = Some l) \/ (k = d /\ exists l0, lookup m d = Some l0 /\ l = l0 ++ [e]).
Proof.
  intros H. destruct (id_eqb k d) eqn:E.
  - apply id_eqb_eq in E. subst k. right. split; [reflexivity|].
    destruct (lookup m d) as [l0|] eqn:L.
    + rewrite (lookup_push_same _ _ _ _ L) in H. inversion H. eauto.
    + rewrite (lookup_push_none _ _ _ L) in H. congruence.
  - left. assert (N : k <> d) by (intros ->; now rewrite id_eqb_refl in E).
    split; [exact N|]. now rewrite lookup_push_other in H.
Qed.

(* ---- ids ---- *)
Lemma parent_some (d p : id) : parent d = Some p <-> d <> [] /\ p = removelast d.
Proof. destruct d; cbn; split; [discriminate|intros [H _]; congruence|intros H; inversion H; split; [discriminate|reflexivity]|intros [_ ->]; reflexivity]. Qed.

Lemma length_removelast {A} (l : list A) : l <> [] -> S (List.length (removelast l)) = List.length l.
Proof.
  intros N. destruct l as [|x r _] using rev_ind; [contradiction|].
  rewrite removelast_last, app_length. cbn. lia.
Qed.

(* ---- register_dir ---- *)
Definition ddirb (e : dentry) : bool := match e with DDir _ => true | DFile _ _ => false end.
Definition dfileb (e : dentry) : bool := negb (ddirb e).
Definition listed (m : dmap) (c : id) : Prop :=
  exists l, lookup m (removelast c) = Some l /\ In (DDir c) l.

(* [ps]: directories already inserted whose entry has not been pushed into the parent yet (the
   chain of calls of register_dir that are still open) *)
Record DInv (m : dmap) (ps : list id) : Prop := {
  d_comp : forall c, has m c = true -> c = [] \/ In c ps \/ listed m c;
  d_sound : forall p l c, lookup m p = Some l -> In (DDir c) l ->
                          has m c = true /\ parent c = Some p /\ ~ In c ps;
  d_nodup : forall p l, lookup m p = Some l -> NoDup (filter ddirb l);
  d_pend : forall c, In c ps -> has m c = true;
}.

Lemma has_cons k l m d : has ((k, l) :: m) d = id_eqb k d || has m d.
Proof. reflexivity. Qed.

Lemma rd_mono fuel : forall m d k, has m k = true -> has (register_dir fuel m d) k = true.
Proof.
  induction fuel as [|f IH]; intros m d k H; cbn [register_dir]; destruct (has m d) eqn:Hd; try exact H.
  - destruct (parent d); rewrite has_cons, H; apply orb_true_r.
  - destruct (parent d) as [p|]; [|rewrite has_cons, H; apply orb_true_r].
    rewrite has_push. apply IH. rewrite has_cons, H. apply orb_true_r.
Qed.

Lemma rd_has fuel m d : has (register_dir fuel m d) d = true.
Proof.
  destruct fuel as [|f]; cbn [register_dir]; destruct (has m d) eqn:Hd; try exact Hd.
  - destruct (parent d); rewrite has_cons, id_eqb_refl; reflexivity.
  - destruct (parent d) as [p|]; [|rewrite has_cons, id_eqb_refl; reflexivity].
    rewrite has_push. apply rd_mono. rewrite has_cons, id_eqb_refl. reflexivity.
Qed.

Lemma rd_new fuel : forall m d k,
  has (register_dir fuel m d) k = true -> has m k = true \/ is_prefix k d = true.
Proof.
  induction fuel as [|f IH]; intros m d k; cbn [register_dir]; destruct (has m d) eqn:Hd; try (now left).
  - destruct (parent d); rewrite has_cons; intros H; apply orb_true_iff in H as [E|H]; try (now left);
      apply id_eqb_eq in E; subst k; right; apply is_prefix_refl.
  - destruct (parent d) as [p|] eqn:P.
    + rewrite has_push. intros H. apply IH in H as [H|H].
      * rewrite has_cons in H. apply orb_true_iff in H as [E|H]; [|now left].
        apply id_eqb_eq in E; subst k; right; apply is_prefix_refl.
      * right. apply parent_some in P as [_ ->]. eapply is_prefix_trans; [exact H|apply removelast_prefix].
    + rewrite has_cons; intros H; apply orb_true_iff in H as [E|H]; [|now left].
      apply id_eqb_eq in E; subst k; right; apply is_prefix_refl.
Qed.

Lemma lookup_cons k l m d : lookup ((k, l) :: m) d = if id_eqb k d then Some l else lookup m d.
Proof. reflexivity. Qed.

Lemma listed_cons_new m d c : has m d = false -> listed m c -> listed ((d, []) :: m) c.
Proof.
  intros Hd (l & L & I). exists l. split; [|exact I]. rewrite lookup_cons.
  destruct (id_eqb d (removelast c)) eqn:E; [|exact L].
  apply id_eqb_eq in E. subst d. apply has_false_lookup in Hd. congruence.
Qed.

Lemma listed_push m p e c : listed m c -> listed (push m p e) c.
Proof.
  intros (l & L & I). unfold listed. destruct (id_eqb (removelast c) p) eqn:E.
  - apply id_eqb_eq in E. rewrite E in *. exists (l ++ [e]). split; [now apply lookup_push_same|].
    apply in_or_app. now left.
  - exists l. split; [|exact I]. rewrite lookup_push_other; [exact L|].
    intros Eq. rewrite Eq, id_eqb_refl in E. discriminate.
Qed.

(* inserting a fresh key with an empty listing: the key becomes pending *)
Lemma dinv_insert m ps d : DInv m ps -> has m d = false -> DInv ((d, []) :: m) (d :: ps).
Proof.
  intros I Hd. constructor.
  - intros c H. rewrite has_cons in H. apply orb_true_iff in H as [E|H].
    + apply id_eqb_eq in E. subst c. right. left. now left.
    + destruct (d_comp _ _ I c H) as [E|[E|E]]; [now left|right; left; now right|].
      right. right. now apply listed_cons_new.
  - intros p l c L Hin. rewrite lookup_cons in L. destruct (id_eqb d p) eqn:E.
    + inversion L; subst l. contradiction.
    + destruct (d_sound _ _ I p l c L Hin) as (H1 & H2 & H3). repeat split; [rewrite has_cons, H1; apply orb_true_r|exact H2|].
      intros [Eq|Hp]; [subst c; congruence|contradiction].
  - intros p l L. rewrite lookup_cons in L. destruct (id_eqb d p); [inversion L; constructor|].
    exact (d_nodup _ _ I p l L).
  - intros c [<-|Hc]; rewrite has_cons; [now rewrite id_eqb_refl|].
    rewrite (d_pend _ _ I c Hc). apply orb_true_r.
Qed.

(* the root has no parent: inserting it leaves nothing pending *)
Lemma dinv_insert_root m ps : DInv m ps -> has m [] = false -> DInv (([], []) :: m) ps.
Proof.
  intros I Hd. pose proof (dinv_insert m ps [] I Hd) as J. constructor.
  - intros c H. destruct (d_comp _ _ J c H) as [E|[[E|E]|E]]; [now left|now left|right; now left|right; now right].
  - intros p l c L Hin. destruct (d_sound _ _ J p l c L Hin) as (H1 & H2 & H3).
    repeat split; auto. intros Hc. apply H3. now right.
  - exact (d_nodup _ _ J).
  - intros c Hc. apply (d_pend _ _ J). now right.
Qed.

Lemma filter_app_last {A} (f : A -> bool) l x : filter f (l ++ [x]) = if f x then filter f l ++ [x] else filter f l.
Proof. rewrite filter_app. cbn. destruct (f x); [reflexivity|apply app_nil_r]. Qed.

(* pushing the pending directory into its (present) parent's listing completes it *)
Lemma dinv_push m ps d p :
  DInv m (d :: ps) -> parent d = Some p -> has m p = true -> ~ In d ps -> DInv (push m p (DDir d)) ps.
Proof.
  intros I P Hp Nd. apply parent_some in P as [Dn ->]. constructor.
  - intros c H. rewrite has_push in H. destruct (d_comp _ _ I c H) as [E|[[E|E]|E]].
    + now left.
    + subst c. right. right. apply has_lookup in Hp. destruct (lookup m (removelast d)) as [l0|] eqn:L; [|congruence].
      exists (l0 ++ [DDir d]). split; [now apply lookup_push_same|]. apply in_or_app. right. now left.
    + right. now left.
    + right. right. now apply listed_push.
  - intros k l c L Hin. destruct (lookup_push_cases _ _ _ _ _ L) as [[N L0]|[-> (l0 & L0 & ->)]].
    + destruct (d_sound _ _ I k l c L0 Hin) as (H1 & H2 & H3). rewrite has_push.
      repeat split; auto. intros Hc. apply H3. now right.
    + rewrite has_push. apply in_app_or in Hin as [Hin|[E|[]]].
      * destruct (d_sound _ _ I _ l0 c L0 Hin) as (H1 & H2 & H3). repeat split; auto. intros Hc. apply H3. now right.
      * inversion E; subst c. repeat split; [apply (d_pend _ _ I); now left|now apply parent_some|exact Nd].
  - intros k l L. destruct (lookup_push_cases _ _ _ _ _ L) as [[N L0]|[-> (l0 & L0 & ->)]].
    + exact (d_nodup _ _ I k l L0).
    + rewrite filter_app_last. cbn [ddirb].
      assert (NI : ~ In (DDir d) (filter ddirb l0)).
      { intros Hin. apply filter_In in Hin as [Hin _].
        destruct (d_sound _ _ I _ l0 d L0 Hin) as (_ & _ & H3). apply H3. now left. }
      pose proof (d_nodup _ _ I _ l0 L0) as ND. clear -ND NI.
      induction (filter ddirb l0) as [|x r IH]; cbn; [constructor; [intros []|constructor]|].
      inversion ND; subst. constructor.
      * intros Hin. apply in_app_or in Hin as [Hin|[<-|[]]]; [contradiction|apply NI; now left].
      * apply IH; [intros Hin; apply NI; now right|exact H2].
  - intros c Hc. rewrite has_push. apply (d_pend _ _ I). now right.
Qed.

Lemma rd_inv fuel : forall m d ps,
  List.length d <= fuel -> DInv m ps -> DInv (register_dir fuel m d) ps.
Proof.
  induction fuel as [|f IH]; intros m d ps Lf I; cbn [register_dir]; destruct (has m d) eqn:Hd; try exact I.
  - destruct d; [|cbn in Lf; lia]. cbn [parent]. now apply dinv_insert_root.
  - destruct (parent d) as [p|] eqn:P.
    + assert (Nd : ~ In d ps) by (intros Hin; apply (d_pend _ _ I) in Hin; congruence).
      apply (dinv_push _ ps d p); [|exact P|apply rd_has|exact Nd].
      apply IH; [|now apply dinv_insert].
      apply parent_some in P as [Dn ->]. pose proof (length_removelast d Dn). lia.
    + destruct d; [|discriminate]. now apply dinv_insert_root.
Qed.

Lemma reg_dir_inv m d : DInv m [] -> DInv (reg_dir m d) [].
Proof. intros I. apply rd_inv; [lia|exact I]. Qed.

(* ---- file entries of the listings ---- *)
Definition lfiles (m : dmap) (k : id) : list dentry :=
  match lookup m k with Some l => filter dfileb l | None => [] end.

Lemma lfiles_push_dir m p c k : lfiles (push m p (DDir c)) k = lfiles m k.
Proof.
  unfold lfiles. destruct (lookup m p) as [l0|] eqn:L; [|now rewrite (lookup_push_none _ _ _ L)].
  destruct (id_eqb k p) eqn:E.
  - apply id_eqb_eq in E. subst k. rewrite (lookup_push_same _ _ _ _ L), L, filter_app_last. reflexivity.
  - rewrite lookup_push_other; [reflexivity|]. intros ->. now rewrite id_eqb_refl in E.
Qed.

Lemma rd_files fuel : forall m d k, lfiles (register_dir fuel m d) k = lfiles m k.
Proof.
  assert (C : forall m d k, has m d = false -> lfiles ((d, []) :: m) k = lfiles m k).
  { intros m d k Hd. unfold lfiles. rewrite lookup_cons. destruct (id_eqb d k) eqn:E; [|reflexivity].
    apply id_eqb_eq in E. subst k. apply has_false_lookup in Hd. now rewrite Hd. }
  induction fuel as [|f IH]; intros m d k; cbn [register_dir]; destruct (has m d) eqn:Hd; try reflexivity.
  - destruct (parent d); now apply C.
  - destruct (parent d) as [p|]; [|now apply C]. rewrite lfiles_push_dir, IH. now apply C.
Qed.

Lemma dinv_push_file m p i x : DInv m [] -> DInv (push m p (DFile i x)) [].
Proof.
  intros I. constructor.
  - intros c H. rewrite has_push in H. destruct (d_comp _ _ I c H) as [E|[[]|E]]; [now left|].
    right. right. now apply listed_push.
  - intros k l c L Hin. rewrite has_push.
    destruct (lookup_push_cases _ _ _ _ _ L) as [[N L0]|[-> (l0 & L0 & ->)]].
    + exact (d_sound _ _ I k l c L0 Hin).
    + apply in_app_or in Hin as [Hin|[E|[]]]; [exact (d_sound _ _ I _ l0 c L0 Hin)|discriminate].
  - intros k l L. destruct (lookup_push_cases _ _ _ _ _ L) as [[N L0]|[-> (l0 & L0 & ->)]].
    + exact (d_nodup _ _ I k l L0).
    + rewrite filter_app_last. cbn [ddirb]. exact (d_nodup _ _ I _ l0 L0).
  - intros c [].
Qed.

(* ---- building the index ---- *)
Record BInv (ix : index) (done : list member) : Prop := {
  b_dinv : DInv (idirs ix) [];
  b_root : has (idirs ix) [] = true;
  b_keys : forall k, has (idirs ix) k = true ->
                     k = [] \/ exists m, In m done /\ is_prefix k (dir_part m) = true;
  b_keys2 : forall m, In m done -> has (idirs ix) (dir_part m) = true;
  b_files : forall k i x, In (DFile i x) (lfiles (idirs ix) k) <-> In (MFile i x) done /\ removelast i = k;
  b_fnodup : forall k, NoDup (lfiles (idirs ix) k);
  b_table : forall i x, idx_exists ix (DFile i x) = true <-> In (MFile i x) done;
}.

Lemma dinv_empty : DInv [] [].
Proof. constructor; cbn; try discriminate; intros; contradiction. Qed.

Lemma binv_init : BInv {| ifiles := []; idirs := reg_dir [] [] |} [].
Proof.
  constructor; cbn [idirs ifiles].
  - apply reg_dir_inv, dinv_empty.
  - reflexivity.
  - intros k H. cbn in H. rewrite orb_false_r in H. destruct k; [now left|discriminate].
  - intros m [].
  - intros k i x. cbn. destruct k; cbn; split; try contradiction; intros [[] _].
  - intros k. cbn. destruct k; constructor.
  - intros i x. cbn. split; [discriminate|contradiction].
Qed.

Lemma existsb_filter_key fs i x j y :
  existsb (fun a => file_key_eqb a j y) (filter (fun a => negb (file_key_eqb a i x)) fs) = true <->
  existsb (fun a => file_key_eqb a j y) fs = true /\ ~ (j = i /\ y = x).
Proof.
  unfold file_key_eqb. rewrite !existsb_exists. split.
  - intros (a & Hin & Ha). apply filter_In in Hin as [Hin Hn]. split; [eauto|].
    intros [-> ->]. rewrite Ha in Hn. discriminate.
  - intros [(a & Hin & Ha) N]. exists a. split; [|exact Ha]. apply filter_In. split; [exact Hin|].
    apply andb_true_iff in Ha as [A1 A2]. apply id_eqb_eq in A1. apply String.eqb_eq in A2.
    destruct (id_eqb (fst (fst a)) i && String.eqb (snd (fst a)) x) eqn:E; [|reflexivity].
    apply andb_true_iff in E as [E1 E2]. apply id_eqb_eq in E1. apply String.eqb_eq in E2.
    exfalso. apply N. split; congruence.
Qed.

Lemma binv_step ix done n m :
  BInv ix done -> ~ In m done -> BInv (register ix (n, m)) (done ++ [m]).
Proof.
  intros B Nm. destruct m as [i x|i]; cbn [register snd fst].
  - (* a file *)
    set (p := removelast i). set (dm := idirs ix).
    assert (Hp : has (reg_dir dm p) p = true) by apply rd_has.
    destruct (lookup (reg_dir dm p) p) as [l0|] eqn:L0; [|apply has_lookup in Hp; congruence].
    assert (LF : forall k, lfiles (push (reg_dir dm p) p (DFile i x)) k =
                           if id_eqb k p then lfiles dm p ++ [DFile i x] else lfiles dm k).
    { intros k. unfold lfiles at 1. destruct (id_eqb k p) eqn:E.
      - apply id_eqb_eq in E. subst k. rewrite (lookup_push_same _ _ _ _ L0), filter_app_last. cbn.
        f_equal. pose proof (rd_files (List.length p) dm p p) as R. unfold reg_dir, lfiles in *. now rewrite L0 in R.
      - rewrite lookup_push_other by (intros ->; now rewrite id_eqb_refl in E).
        apply (rd_files (List.length p) dm p k). }
    subst dm. constructor; cbn [idirs ifiles].
    + apply dinv_push_file, reg_dir_inv, (b_dinv _ _ B).
    + rewrite has_push. apply rd_mono, (b_root _ _ B).
    + intros k H. rewrite has_push in H. apply rd_new in H as [H|H].
      * destruct (b_keys _ _ B k H) as [E|(m & Hm & Pm)]; [now left|]. right. exists m. split; [apply in_or_app; now left|exact Pm].
      * right. exists (MFile i x). split; [apply in_or_app; right; now left|exact H].
    + intros m Hm. rewrite has_push. apply in_app_or in Hm as [Hm|[<-|[]]].
      * apply rd_mono, (b_keys2 _ _ B m Hm).
      * exact Hp.
    + intros k j y. rewrite LF. destruct (id_eqb k p) eqn:E.
      * apply id_eqb_eq in E. subst k. rewrite in_app_iff, (b_files _ _ B p j y), in_app_iff. cbn. split.
        -- intros [[H1 H2]|[H|[]]]; [split; [now left|exact H2]|]. inversion H; subst. split; [right; now left|reflexivity].
        -- intros [[H|[H|[]]] H2]; [left; now split|]. inversion H; subst. right. now left.
      * rewrite (b_files _ _ B k j y), in_app_iff. cbn. split.
        -- intros [H1 H2]. split; [now left|exact H2].
        -- intros [[H|[H|[]]] H2]; [now split|]. inversion H; subst. unfold p in E. now rewrite id_eqb_refl in E.
    + intros k. rewrite LF. destruct (id_eqb k p); [|apply (b_fnodup _ _ B)].
      assert (NI : ~ In (DFile i x) (lfiles (idirs ix) p)).
      { intros Hin. apply (b_files _ _ B) in Hin as [Hin _]. contradiction. }
      pose proof (b_fnodup _ _ B p) as ND. clear -ND NI.
      induction (lfiles (idirs ix) p) as [|a r IH]; cbn; [constructor; [intros []|constructor]|].
      inversion ND; subst. constructor.
      * intros Hin. apply in_app_or in Hin as [Hin|[<-|[]]]; [contradiction|apply NI; now left].
      * apply IH; [intros Hin; apply NI; now right|assumption].
    + intros j y. cbn [idx_exists ifiles insert_file existsb]. rewrite in_app_iff. cbn [In]. split.
      * intros H. apply orb_true_iff in H as [H|H].
        -- unfold file_key_eqb in H. cbn in H. apply andb_true_iff in H as [H1 H2].
           apply id_eqb_eq in H1. apply String.eqb_eq in H2. subst. right. now left.
        -- apply existsb_filter_key in H as [H _]. left. now apply (b_table _ _ B j y).
      * intros [H|[H|[]]].
        -- apply (b_table _ _ B j y) in H. cbn [idx_exists] in H.
           destruct (file_key_eqb (i, x, n) j y) eqn:E; [reflexivity|]. cbn [orb].
           apply existsb_filter_key. split; [exact H|]. intros [-> ->].
           unfold file_key_eqb in E. cbn in E. now rewrite id_eqb_refl, String.eqb_refl in E.
        -- inversion H; subst. unfold file_key_eqb at 1. cbn. now rewrite id_eqb_refl, String.eqb_refl.
  - (* a directory *)
    constructor; cbn [idirs ifiles].
    + apply reg_dir_inv, (b_dinv _ _ B).
    + apply rd_mono, (b_root _ _ B).
    + intros k H. apply rd_new in H as [H|H].
      * destruct (b_keys _ _ B k H) as [E|(m & Hm & Pm)]; [now left|]. right. exists m. split; [apply in_or_app; now left|exact Pm].
      * right. exists (MDir i). split; [apply in_or_app; right; now left|exact H].
    + intros m Hm. apply in_app_or in Hm as [Hm|[<-|[]]]; [apply rd_mono, (b_keys2 _ _ B m Hm)|apply rd_has].
    + intros k j y. unfold reg_dir. rewrite rd_files, (b_files _ _ B k j y), in_app_iff. cbn. split.
      * intros [H1 H2]. split; [now left|exact H2].
      * intros [[H|[H|[]]] H2]; [now split|discriminate].
    + intros k. unfold reg_dir. rewrite rd_files. apply (b_fnodup _ _ B).
    + intros j y. cbn [idx_exists]. rewrite (b_table _ _ B j y), in_app_iff. cbn. split; [now left|].
      intros [H|[H|[]]]; [exact H|discriminate].
Qed.

Lemma build_inv_gen : forall ms done ix n,
  BInv ix done -> NoDup (done ++ ms) -> BInv (fold_left register (enumerate n ms) ix) (done ++ ms).
Proof.
  induction ms as [|m r IH]; intros done ix n B ND; cbn [enumerate fold_left]; [now rewrite app_nil_r|].
  replace (done ++ m :: r) with ((done ++ [m]) ++ r) in * by (rewrite <- app_assoc; reflexivity).
  apply IH; [|exact ND]. apply binv_step; [exact B|].
  intros Hin. clear -ND Hin. rewrite <- app_assoc in ND. cbn in ND.
  apply NoDup_remove_2 in ND. apply ND. apply in_or_app. now left.
Qed.

Lemma build_inv ms : NoDup ms -> BInv (build ms) ms.
Proof. intros ND. apply (build_inv_gen ms [] _ 0%N binv_init ND). Qed.

(* keys are closed under taking prefixes *)
Lemma has_prefix_closed m d k : DInv m [] -> has m d = true -> is_prefix k d = true -> has m k = true.
Proof.
  intros I Hd P. apply is_prefix_inv in P as [c ->]. induction c as [|x c IH] using rev_ind.
  - now rewrite app_nil_r in Hd.
  - apply IH. destruct (d_comp _ _ I _ Hd) as [E|[[]|(l & L & _)]].
    + destruct k; destruct c; discriminate.
    + rewrite app_assoc, removelast_last in L. apply has_lookup. congruence.
Qed.

(* ---- the tree the members describe ---- *)
Definition prefixes (d : id) : list id := map (fun n => firstn n d) (seq 0 (S (List.length d))).

Lemma in_prefixes k d : In k (prefixes d) <-> is_prefix k d = true.
Proof.
  unfold prefixes. rewrite in_map_iff. split.
  - intros (n & <- & _). rewrite <- (firstn_skipn n d) at 2. apply is_prefix_app.
  - intros P. apply is_prefix_inv in P as [c ->]. exists (List.length k). split.
    + rewrite firstn_app, Nat.sub_diag, firstn_all. cbn. apply app_nil_r.
    + apply in_seq. rewrite app_length. lia.
Qed.

Definition tree_of (bytes : id -> string -> list N) (ms : list member) : tree :=
  {| tfiles := flat_map (fun m => match m with MFile i x => [(i, x, bytes i x)] | MDir _ => [] end) ms;
     tdirs := [] :: flat_map (fun m => prefixes (dir_part m)) ms |}.

Lemma tree_of_dirs bytes ms k :
  In k (tdirs (tree_of bytes ms)) <-> k = [] \/ exists m, In m ms /\ is_prefix k (dir_part m) = true.
Proof.
  cbn [tree_of tdirs In]. rewrite in_flat_map. split.
  - intros [H|(m & Hm & Hk)]; [left; now symmetry|right; exists m; split; [exact Hm|now apply in_prefixes]].
  - intros [->|(m & Hm & Hk)]; [now left|right; exists m; split; [exact Hm|now apply in_prefixes]].
Qed.

Lemma tree_of_is_dir bytes ms k :
  is_dir (tree_of bytes ms) k = true <-> k = [] \/ exists m, In m ms /\ is_prefix k (dir_part m) = true.
Proof.
  rewrite <- tree_of_dirs. unfold is_dir. rewrite existsb_exists. split.
  - intros (a & Ha & E). apply id_eqb_eq in E. now subst a.
  - intros H. exists k. split; [exact H|apply id_eqb_refl].
Qed.

Lemma tree_of_files bytes ms i x :
  (exists b, In (i, x, b) (tfiles (tree_of bytes ms))) <-> In (MFile i x) ms.
Proof.
  cbn [tree_of tfiles]. split.
  - intros (b & H). apply in_flat_map in H as ([j y|j] & Hm & Hin); [|contradiction].
    destruct Hin as [E|[]]. inversion E; subst. exact Hm.
  - intros H. exists (bytes i x). apply in_flat_map. exists (MFile i x). split; [exact H|now left].
Qed.

Lemma nodup_by_parts {A} (f : A -> bool) (l : list A) :
  NoDup (filter f l) -> NoDup (filter (fun a => negb (f a)) l) -> NoDup l.
Proof.
  induction l as [|a r IH]; cbn; [constructor|]. destruct (f a) eqn:E; cbn; intros N1 N2.
  - inversion N1; subst. constructor; [|now apply IH]. intros Hin. apply H1. apply filter_In. now split.
  - inversion N2; subst. constructor; [|now apply IH]. intros Hin. apply H1. apply filter_In. split; [exact Hin|now rewrite E].
Qed.

(* ---- the theorem ---- *)
Theorem index_answers_like_the_tree bytes ms :
  NoDup ms -> (forall i x, In (MFile i x) ms -> i <> []) ->
  let ix := build ms in let t := tree_of bytes ms in
  (forall d, idx_exists ix (DDir d) = is_dir t d) /\
  (forall i x, idx_exists ix (DFile i x) = spec_exists t (DFile i x)) /\
  (forall d, match idx_read_dir ix d, spec_read_dir t d with
             | Some l, Some l' => NoDup l /\ forall e, In e l <-> In e l'
             | None, None => True
             | _, _ => False
             end).
Proof.
  intros ND V ix t. pose proof (build_inv ms ND) as B. fold ix in B.
  assert (Dirs : forall d, has (idirs ix) d = true <-> is_dir t d = true).
  { intros d. unfold t. rewrite tree_of_is_dir. split.
    - apply (b_keys _ _ B).
    - intros [->|(m & Hm & P)]; [apply (b_root _ _ B)|].
      eapply has_prefix_closed; [apply (b_dinv _ _ B)|apply (b_keys2 _ _ B m Hm)|exact P]. }
  split; [|split].
  - intros d. cbn [idx_exists]. specialize (Dirs d). destruct (has (idirs ix) d), (is_dir t d); try reflexivity.
    + symmetry. now apply Dirs.
    + now apply Dirs.
  - intros i x. pose proof (b_table _ _ B i x) as T. unfold t. rewrite <- (tree_of_files bytes) in T.
    cbn [spec_exists]. unfold spec_read.
    destruct (find (fun f => id_eqb (fst (fst f)) i && String.eqb (snd (fst f)) x) (tfiles (tree_of bytes ms))) as [a|] eqn:F.
    + apply T. apply find_some in F as [Hin Ha]. apply andb_true_iff in Ha as [A1 A2].
      apply id_eqb_eq in A1. apply String.eqb_eq in A2. destruct a as [[j y] b]. cbn in *. subst. eauto.
    + destruct (idx_exists ix (DFile i x)) eqn:E; [|reflexivity]. destruct (proj1 T eq_refl) as (b & Hb).
      apply (find_none _ _ F) in Hb. cbn in Hb. now rewrite id_eqb_refl, String.eqb_refl in Hb.
  - intros d. unfold idx_read_dir.
    destruct (lookup (idirs ix) d) as [l|] eqn:L.
    + assert (Hd : has (idirs ix) d = true) by (apply has_lookup; congruence).
      apply Dirs in Hd. destruct (spec_read_dir t d) as [l'|] eqn:S;
        [|apply read_dir_iff_directory in Hd as [w Hw]; congruence].
      destruct (listing_is_exactly_the_children t d l' S) as [SF SD]. split.
      * apply (nodup_by_parts ddirb); [apply (d_nodup _ _ (b_dinv _ _ B) d l L)|].
        pose proof (b_fnodup _ _ B d) as N. unfold lfiles in N. now rewrite L in N.
      * intros [i x|c].
        -- rewrite SF. unfold t. rewrite tree_of_files. pose proof (b_files _ _ B d i x) as F.
           unfold lfiles in F. rewrite L in F. rewrite filter_In in F. cbn in F. split.
           ++ intros H. destruct (proj1 F (conj H eq_refl)) as [H1 H2]. split; [exact H1|].
              apply parent_some. split; [now apply (V i x)|now symmetry].
           ++ intros [H1 H2]. apply parent_some in H2 as [_ H2]. now apply F.
        -- rewrite SD. split.
           ++ intros H. destruct (d_sound _ _ (b_dinv _ _ B) d l c L H) as (H1 & H2 & _).
              split; [|exact H2]. apply Dirs in H1. unfold is_dir in H1. apply existsb_exists in H1 as (a & Ha & E).
              apply id_eqb_eq in E. now subst a.
           ++ intros [H1 H2]. assert (Hc : has (idirs ix) c = true).
              { apply Dirs. unfold is_dir. apply existsb_exists. exists c. split; [exact H1|apply id_eqb_refl]. }
              apply parent_some in H2 as [Nc ->].
              destruct (d_comp _ _ (b_dinv _ _ B) c Hc) as [E|[[]|(l2 & L2 & I2)]]; [contradiction|]. congruence.
    + assert (Hd : has (idirs ix) d = false) by (now apply has_false_lookup).
      destruct (spec_read_dir t d) as [l'|] eqn:S; [|exact I].
      assert (is_dir t d = true) by (apply read_dir_iff_directory; eauto).
      apply Dirs in H. congruence.
Qed.

(* ---- consequences: member order and redundant directory members do not matter ---- *)
Definition dir_of (ms : list member) (k : id) : Prop :=
  k = [] \/ exists m, In m ms /\ is_prefix k (dir_part m) = true.

Definition same_listing (a b : option (list dentry)) : Prop :=
  match a, b with
  | Some l, Some l' => forall e, In e l <-> In e l'
  | None, None => True
  | _, _ => False
  end.

Lemma same_members_same_answers ms ms' :
  NoDup ms -> NoDup ms' ->
  (forall i x, In (MFile i x) ms -> i <> []) -> (forall i x, In (MFile i x) ms' -> i <> []) ->
  (forall i x, In (MFile i x) ms <-> In (MFile i x) ms') -> (forall k, dir_of ms k <-> dir_of ms' k) ->
  forall d, same_listing (idx_read_dir (build ms) d) (idx_read_dir (build ms') d).
Proof.
  intros N N' V V' SF SD d.
  destruct (index_answers_like_the_tree (fun _ _ => []) ms N V) as (_ & _ & A).
  destruct (index_answers_like_the_tree (fun _ _ => []) ms' N' V') as (_ & _ & A').
  specialize (A d). specialize (A' d).
  set (t := tree_of (fun _ _ => []) ms) in *. set (t' := tree_of (fun _ _ => []) ms') in *.
  assert (D : forall k, is_dir t k = true <-> is_dir t' k = true).
  { intros k. unfold t, t'. rewrite !tree_of_is_dir. apply SD. }
  assert (E : same_listing (spec_read_dir t d) (spec_read_dir t' d)).
  { unfold same_listing. destruct (spec_read_dir t d) as [w|] eqn:S, (spec_read_dir t' d) as [w'|] eqn:S'.
    - destruct (listing_is_exactly_the_children t d w S) as [F1 D1].
      destruct (listing_is_exactly_the_children t' d w' S') as [F2 D2].
      intros [i x|c].
      + rewrite F1, F2. unfold t, t'. rewrite !tree_of_files, SF. reflexivity.
      + rewrite D1, D2. unfold t, t'. rewrite !tree_of_dirs. fold (dir_of ms c) (dir_of ms' c). now rewrite SD.
    - assert (is_dir t d = true) by (apply read_dir_iff_directory; eauto). apply D in H.
      apply read_dir_iff_directory in H as [? ?]. congruence.
    - assert (is_dir t' d = true) by (apply read_dir_iff_directory; eauto). apply D in H.
      apply read_dir_iff_directory in H as [? ?]. congruence.
    - exact I. }
  unfold same_listing in *.
  destruct (idx_read_dir (build ms) d) as [l|], (spec_read_dir t d) as [w|]; try contradiction;
    destruct (idx_read_dir (build ms') d) as [l'|], (spec_read_dir t' d) as [w'|]; try contradiction; try exact I.
  destruct A as [_ A], A' as [_ A']. intros e. now rewrite A, E, A'.
Qed.

Theorem member_order_is_irrelevant ms ms' :
  NoDup ms -> (forall i x, In (MFile i x) ms -> i <> []) -> Permutation ms ms' ->
  forall d, same_listing (idx_read_dir (build ms) d) (idx_read_dir (build ms') d).
Proof.
  intros N V P.
  assert (In_iff : forall m, In m ms <-> In m ms') by (intros m; split; [apply Permutation_in; exact P|apply Permutation_in; now apply Permutation_sym]).
  apply same_members_same_answers.
  - exact N.
  - eapply Permutation_NoDup; eauto.
  - exact V.
  - intros i x H. apply (V i x). now apply In_iff.
  - intros i x. apply In_iff.
  - intros k. unfold dir_of. split; intros [->|(m & Hm & Pm)]; try (now left); right; exists m; (split; [now apply In_iff|exact Pm]).
Qed.

(* a directory member for a directory some other member already implies changes nothing *)
Theorem implied_directory_members_are_redundant ms i :
  NoDup (MDir i :: ms) -> (forall j x, In (MFile j x) ms -> j <> []) ->
  (exists m, In m ms /\ is_prefix i (dir_part m) = true) ->
  forall d, same_listing (idx_read_dir (build (MDir i :: ms)) d) (idx_read_dir (build ms) d).
Proof.
  intros N V (m0 & Hm0 & P0). inversion N; subst.
  apply same_members_same_answers.
  - exact N.
  - assumption.
  - intros j x [H|H]; [discriminate|now apply (V j x)].
  - exact V.
  - intros j x. cbn. split; [intros [H|H]; [discriminate|exact H]|now right].
  - intros k. unfold dir_of. split.
    + intros [->|(m & [<-|Hm] & Pm)]; [now left| |right; eauto].
      right. exists m0. split; [exact Hm0|]. cbn in Pm. eapply is_prefix_trans; eauto.
    + intros [->|(m & Hm & Pm)]; [now left|right; exists m; split; [now right|exact Pm]].
Qed.
