From AM Require Import Proofs.AnsInv.
From Coq Require Import List Bool Arith Lia Permutation.
Import ListNotations.

Lemma wait_tok c t : wait_c c t -> tok c = Some t.
Proof. intros [-> | [-> | [-> | ->]]]; reflexivity. Qed.
Lemma pend_tok c t : pend_c c t -> tok c = Some t.
Proof. intros [-> | [-> | [-> | [-> | ->]]]]; reflexivity. Qed.
Lemma wait_pend c t : wait_c c t -> pend_c c t.
Proof. unfold wait_c, pend_c. tauto. Qed.
Lemma wait_not_holds_r4 c t : wait_c c t -> c <> C4 t. Proof. intros [-> | [-> | [-> | ->]]]; discriminate. Qed.

Lemma wake_c_holds c : holds_c (wake_c c) <-> holds_c c. Proof. destruct c; cbn; tauto. Qed.
Lemma wake_c_tok c : tok (wake_c c) = tok c. Proof. destruct c; reflexivity. Qed.
Lemma wake_c_eq_C4 c t : wake_c c = C4 t <-> c = C4 t. Proof. destruct c; cbn; split; congruence. Qed.
Lemma wake_c_eq_C4n c t : wake_c c = C4n t <-> c = C4n t. Proof. destruct c; cbn; split; congruence. Qed.
Lemma wake_c_eq_C1 c t : wake_c c = C1 t <-> c = C1 t. Proof. destruct c; cbn; split; congruence. Qed.
Lemma wake_c_ne_Cw c t : wake_c c <> Cw t. Proof. destruct c; cbn; congruence. Qed.
Lemma wake_c_pend c t : pend_c (wake_c c) t <-> pend_c c t.
Proof. unfold pend_c. destruct c; cbn; intuition congruence. Qed.
Lemma wake_c_wait c t : wait_c (wake_c c) t <-> wait_c c t.
Proof. unfold wait_c. destruct c; cbn; intuition congruence. Qed.

Lemma nodup_move_mid (a : list nat) t b : NoDup ((t :: a) ++ b) -> NoDup (a ++ [t] ++ b).
Proof. intros H. eapply Permutation_NoDup; [|exact H]. cbn. apply Permutation_middle. Qed.
Lemma nodup_move_end (a : list nat) t : NoDup (a ++ [t] ++ []) -> NoDup (a ++ [] ++ [t]).
Proof. cbn. auto. Qed.

(* ---------- reloader steps preserve the invariant ---------- *)
Ltac rw_rl := repeat match goal with E : rl ?s = _ |- _ => rewrite E in *; clear E end.
Ltac easy_goal := solve [ intros; cbn in *; first [discriminate | congruence | tauto | eauto
                          | match goal with H : _ \/ _ |- _ => destruct H; first [discriminate|congruence] end ] ].
(* clause-shaped helpers *)
Tactic Notation "by_cw" constr(Hcw) := let i := fresh in let t := fresh in let Hc := fresh in let E := fresh in
  intros i t Hc; destruct (Hcw i t Hc) as [|E]; [left; assumption | first [discriminate E | right; congruence]].
Ltac no_r56 := let E := fresh in intros ? [E|E]; discriminate E.

Lemma inv_R0 s t r : Inv s -> rl s = R0 -> chan s = t :: r ->
  Inv {| slot := slot s; mtx := mtx s; next_tok := next_tok s; chan := r; cs := cs s; rl := R1 t |}.
Proof.
  intros I E Ec. destruct I as [Imt Imf Ioc Ior Ic4 Icw Irw Islot Iwhere Ir4 Ir56 Ipipe Ind Iuniq Ilt Ic1]. rewrite E, Ec in *. constructor; cbn [slot mtx next_tok chan cs rl]; auto; try easy_goal.
  - by_cw Icw.
  - intros i t0 Hw. destruct (Iwhere i t0 Hw) as [[<-|]|[[]|]]; cbn; auto.
  - no_r56.
  - intros t0 Hin. apply Ipipe. cbn in *. rewrite app_nil_r. apply in_app_or in Hin. destruct Hin as [|[<-|[]]]; auto.
  - cbn in *. now apply nodup_move_mid.
  - intros i t0 Hc Hin. apply (Ic1 i t0 Hc). cbn in *. apply in_app_or in Hin.
    destruct Hin as [Hin|[<-|Hin]]; [right; apply in_or_app; now left | now left | right; apply in_or_app; now right].
Qed.

Ltac dI I := destruct I as [Imt Imf Ioc Ior Ic4 Icw Irw Islot Iwhere Ir4 Ir56 Ipipe Ind Iuniq Ilt Ic1].
Ltac start := constructor; cbn [slot mtx next_tok chan cs rl]; auto; try easy_goal.
Ltac left_over := match goal with |- ?G => idtac "LEFT:" G end.

Lemma inv_R1 s t : Inv s -> rl s = R1 t ->
  Inv {| slot := slot s; mtx := mtx s; next_tok := next_tok s; chan := chan s; cs := cs s; rl := R2 t |}.
Proof. intros I E. dI I. rewrite E in *. start; [by_cw Icw | no_r56]. Qed.

Lemma inv_R2 s t : Inv s -> (rl s = R2 t \/ rl s = Rwk t) -> mtx s = false ->
  Inv {| slot := slot s; mtx := true; next_tok := next_tok s; chan := chan s; cs := cs s; rl := R3 t |}.
Proof.
  intros I E Hm. dI I. destruct (Imf Hm) as [Hnc Hnr].
  destruct E as [E|E]; rewrite E in *; start.
  all: try (by_cw Icw). all: try no_r56.
  all: try (intros _ i Hh; exact (Hnc i Hh)).
Qed.

Lemma inv_R3y s t : Inv s -> rl s = R3 t -> slot s = None ->
  Inv {| slot := slot s; mtx := mtx s; next_tok := next_tok s; chan := chan s; cs := cs s; rl := R4 t |}.
Proof. intros I E Hs. dI I. rewrite E in *. start. all: try (by_cw Icw). all: try no_r56. Qed.

Lemma inv_R3n s t : Inv s -> rl s = R3 t -> slot s <> None ->
  Inv {| slot := slot s; mtx := false; next_tok := next_tok s; chan := chan s; cs := cs s; rl := Rw t |}.
Proof. intros I E Hs. dI I. rewrite E in *. start. all: try (by_cw Icw). all: try no_r56. Qed.

Lemma inv_R4 s t : Inv s -> rl s = R4 t ->
  Inv {| slot := Some t; mtx := mtx s; next_tok := next_tok s; chan := chan s; cs := cs s; rl := R5 t |}.
Proof.
  intros I E. dI I. rewrite E in *. pose proof (Ir4 t eq_refl) as Hs. rewrite Hs in *. start.
  - intros i t0 Hc. specialize (Ic4 i t0 Hc). discriminate.
  - intros i t0 Hc. destruct (Nat.eq_dec t t0) as [->|Hne]; [now right | left; congruence].
  - intros t0 [= <-]. destruct (Ipipe t) as [i Hi]; [apply in_or_app; right; now left|]. exists i. now apply wait_pend.
  - intros i t0 Hw. destruct (Iwhere i t0 Hw) as [|[[<-|[]]|]]; auto. discriminate.
  - intros t0 [[= <-]|[=]]. reflexivity.
  - intros t0 Hin. apply Ipipe. cbn in *. rewrite app_nil_r in Hin. apply in_or_app. now left.
Qed.

Lemma inv_R5 s t : Inv s -> rl s = R5 t ->
  Inv {| slot := slot s; mtx := mtx s; next_tok := next_tok s; chan := chan s; cs := fun j => wake_c (cs s j); rl := R6 t |}.
Proof.
  intros I E. dI I. rewrite E in *. pose proof (Ir56 t (or_introl eq_refl)) as Hs. start.
  - intros i j Hi Hj. apply (proj1 (wake_c_holds _)) in Hi. apply (proj1 (wake_c_holds _)) in Hj. exact (Ioc i j Hi Hj).
  - intros _ i Hi. apply (proj1 (wake_c_holds _)) in Hi. exact (Ior I i Hi).
  - intros i t0 Hc. apply (proj1 (wake_c_eq_C4 _ _)) in Hc. exact (Ic4 i t0 Hc).
  - intros i t0 Hc. exfalso. eapply wake_c_ne_Cw; eauto.
  - intros t0 Ht. destruct (Islot t0 Ht) as [i Hi]. exists i. apply (proj2 (wake_c_pend _ _)). exact Hi.
  - intros i t0 Hw. apply (proj1 (wake_c_wait _ _)) in Hw. destruct (Iwhere i t0 Hw) as [|[[]|]]; auto.
  - intros t0 [[=]|[= <-]]. exact Hs.
  - intros t0 Hin. destruct (Ipipe t0 Hin) as [i Hi]. exists i. apply (proj2 (wake_c_wait _ _)). exact Hi.
  - intros i j t0 Hi Hj. rewrite wake_c_tok in Hi. rewrite wake_c_tok in Hj. exact (Iuniq i j t0 Hi Hj).
  - intros i t0 Hi. rewrite wake_c_tok in Hi. exact (Ilt i t0 Hi).
  - intros i t0 Hc. apply (proj1 (wake_c_eq_C1 _ _)) in Hc. exact (Ic1 i t0 Hc).
Qed.

Lemma inv_R6 s t : Inv s -> rl s = R6 t ->
  Inv {| slot := slot s; mtx := false; next_tok := next_tok s; chan := chan s; cs := cs s; rl := R0 |}.
Proof. intros I E. dI I. rewrite E in *. start. all: try (by_cw Icw). all: try no_r56. Qed.

Lemma inv_rstep s s' : Inv s -> rstep s s' -> Inv s'.
Proof. intros I H. destruct H; eauto using inv_R0, inv_R1, inv_R2, inv_R3y, inv_R3n, inv_R4, inv_R5, inv_R6. Qed.
