From Coq Require Import List String Ascii Bool Arith Lia.
From AM Require Import Ref.Watcher.
Import ListNotations.
Open Scope string_scope.
Open Scope list_scope.

Lemma has_dot_app a b : has_dot (a ++ b)%string = has_dot a || has_dot b.
Proof. induction a as [|c a IH]; cbn; [reflexivity|]. now rewrite IH, orb_assoc. Qed.

Lemma split_nodot s : has_dot s = false -> split_last_dot s = None.
Proof.
  induction s as [|c r IH]; cbn; [reflexivity|]. intros H. apply orb_false_iff in H as [Hc Hr].
  now rewrite (IH Hr), Hc.
Qed.

(* stem.ext with a dot-free extension splits back *)
Lemma split_stem_ext stem ext :
  has_dot ext = false -> split_last_dot (stem ++ "." ++ ext)%string = Some (stem, ext).
Proof.
  intros He. induction stem as [|c r IH].
  - cbn. now rewrite (split_nodot _ He).
  - change (String c r ++ "." ++ ext)%string with (String c (r ++ "." ++ ext)%string).
    cbn [split_last_dot]. now rewrite IH.
Qed.

Lemma split_name_file stem ext :
  seg_ok stem = true -> has_dot ext = false ->
  split_name (file_name stem ext) = (stem, if String.eqb ext "" then None else Some ext).
Proof.
  intros Hs He. unfold seg_ok in Hs. apply andb_true_iff in Hs as [Hne Hnd].
  apply negb_true_iff in Hne, Hnd. unfold file_name, split_name.
  destruct (String.eqb ext "") eqn:Ee.
  - now rewrite (split_nodot _ Hnd).
  - rewrite (split_stem_ext stem ext He). destruct stem; [discriminate|reflexivity].
Qed.

Lemma strip_prefix_app root rest : root_ok root = true -> strip_prefix root (root ++ rest) = Some rest.
Proof.
  induction root as [|c r IH]; cbn; [reflexivity|]. destruct c; try discriminate.
  intros H. now rewrite String.eqb_refl, (IH H).
Qed.

Lemma walk_segments : forall segs b,
  forallb seg_ok segs = true -> walk b (map CNormal segs) = Some (b ++ segs).
Proof.
  induction segs as [|s r IH]; intros b H; cbn; [now rewrite app_nil_r|].
  cbn in H. apply andb_true_iff in H as [Hs Hr]. unfold id_push.
  unfold seg_ok in Hs. apply andb_true_iff in Hs as [_ Hd]. apply negb_true_iff in Hd. rewrite Hd.
  rewrite (IH _ Hr). now rewrite <- app_assoc.
Qed.

Lemma forallb_app {A} (f : A -> bool) l1 l2 : forallb f (l1 ++ l2) = forallb f l1 && forallb f l2.
Proof. induction l1; cbn; [reflexivity|]. now rewrite IHl1, andb_assoc. Qed.

Lemma forallb_rev {A} (f : A -> bool) l : forallb f (rev l) = forallb f l.
Proof. induction l; cbn; [reflexivity|]. rewrite forallb_app, IHl. cbn. now rewrite andb_true_r, andb_comm. Qed.

(* C12: id_of_path is the inverse of path_of, for every valid entry under any root, at any depth:
   the notification names exactly the entry (same id, same extension, right kind). *)
Theorem id_of_path_inverse fixed root e :
  root_ok root = true -> entry_ok e = true -> e <> EDir [] ->
  id_of_path fixed root (path_of root e) (is_dir_entry e) = Some e.
Proof.
  intros Hr He Hne. unfold id_of_path.
  assert (Hnot_root : path_eqb (path_of root e) root = false).
  { assert (G : forall (r rest : path), rest <> [] -> path_eqb (r ++ rest) r = false).
    { induction r as [|c r IH]; intros rest Hrest; cbn.
      - destruct rest as [|[]]; [congruence|reflexivity..].
      - destruct c; auto. rewrite (IH rest Hrest). apply andb_false_r. }
    destruct e as [id ext|id]; cbn.
    - cbn in He. destruct (rev id) eqn:E.
      + destruct id; [apply andb_true_iff in He as [_ He]; discriminate|].
        apply (f_equal (@List.length _)) in E. rewrite rev_length in E. discriminate.
      + apply G. destruct (map CNormal (rev l)); discriminate.
    - apply G. destruct id; [congruence|discriminate]. }
  rewrite Hnot_root, andb_false_r.
  destruct e as [id ext|id]; cbn [path_of is_dir_entry].
  - (* file *)
    cbn in He. apply andb_true_iff in He as [He Hne0]. apply andb_true_iff in He as [Hsegs Hext].
    apply negb_true_iff in Hext.
    destruct (rev id) as [|stem rinit] eqn:E.
    { destruct id; [discriminate|]. apply (f_equal (@List.length _)) in E. rewrite rev_length in E. discriminate. }
    assert (Hid : id = rev rinit ++ [stem]) by (rewrite <- (rev_involutive id), E; reflexivity).
    rewrite app_assoc, rev_app_distr. cbn [rev app].
    rewrite rev_involutive.
    rewrite Hid, forallb_app in Hsegs. cbn in Hsegs. apply andb_true_iff in Hsegs as [Hinit Hstem].
    rewrite andb_true_r in Hstem.
    rewrite (strip_prefix_app _ _ Hr), (walk_segments _ [] Hinit). cbn [app].
    rewrite (split_name_file _ _ Hstem Hext). unfold id_push.
    unfold seg_ok in Hstem. apply andb_true_iff in Hstem as [_ Hd]. apply negb_true_iff in Hd. rewrite Hd.
    rewrite Hid. destruct (String.eqb ext "") eqn:Ee; [apply String.eqb_eq in Ee; now subst|reflexivity].
  - (* directory *)
    cbn in He. destruct (rev id) as [|name rinit] eqn:E.
    { destruct id; [congruence|]. apply (f_equal (@List.length _)) in E. rewrite rev_length in E. discriminate. }
    assert (Hid : id = rev rinit ++ [name]) by (rewrite <- (rev_involutive id), E; reflexivity).
    rewrite Hid, map_app, app_assoc, rev_app_distr. cbn [map rev app]. rewrite rev_involutive.
    rewrite Hid, forallb_app in He. cbn in He. apply andb_true_iff in He as [Hinit Hname].
    rewrite andb_true_r in Hname.
    rewrite (strip_prefix_app _ _ Hr), (walk_segments _ [] Hinit). cbn [app].
    assert (Hsplit : split_name name = (name, None)).
    { unfold seg_ok in Hname. apply andb_true_iff in Hname as [_ Hd]. apply negb_true_iff in Hd.
      unfold split_name. now rewrite (split_nodot _ Hd). }
    rewrite Hsplit. unfold id_push. unfold seg_ok in Hname. apply andb_true_iff in Hname as [_ Hd].
    apply negb_true_iff in Hd. now rewrite Hd.
Qed.

(* the root directory itself is an entry (repaired behaviour) *)
Theorem root_is_directory_entry root b : id_of_path true root root b = Some (EDir []).
Proof.
  unfold id_of_path. assert (H : path_eqb root root = true).
  { induction root as [|[s| |] r IH]; cbn; auto. now rewrite String.eqb_refl. }
  now rewrite H.
Qed.

(* ids and paths round-trip: two different valid entries of the same kind never share a path *)
Theorem path_of_injective root e1 e2 :
  root_ok root = true -> entry_ok e1 = true -> entry_ok e2 = true ->
  is_dir_entry e1 = is_dir_entry e2 -> path_of root e1 = path_of root e2 -> e1 = e2.
Proof.
  intros Hr H1 H2 Hk Hp.
  assert (Root : forall id, path_of root (EDir id) = root -> id = []).
  { intros id H. cbn in H. destruct id as [|x l]; [reflexivity|].
    apply (f_equal (@List.length _)) in H. rewrite app_length in H. cbn in H. lia. }
  destruct e1 as [id1 x1|[|a1 l1]], e2 as [id2 x2|[|a2 l2]]; cbn in Hk; try discriminate; try reflexivity.
  - pose proof (id_of_path_inverse true root (EFile id1 x1) Hr H1 ltac:(discriminate)) as I1.
    pose proof (id_of_path_inverse true root (EFile id2 x2) Hr H2 ltac:(discriminate)) as I2.
    rewrite Hp in I1. cbn [is_dir_entry] in *. congruence.
  - symmetry in Hp. change (path_of root (EDir [])) with (root ++ []) in Hp. rewrite app_nil_r in Hp.
    apply Root in Hp. discriminate.
  - change (path_of root (EDir [])) with (root ++ []) in Hp. rewrite app_nil_r in Hp.
    apply Root in Hp. discriminate.
  - pose proof (id_of_path_inverse true root (EDir (a1 :: l1)) Hr H1 ltac:(discriminate)) as I1.
    pose proof (id_of_path_inverse true root (EDir (a2 :: l2)) Hr H2 ltac:(discriminate)) as I2.
    rewrite Hp in I1. cbn [is_dir_entry] in *. congruence.
Qed.

(* a path outside the root yields nothing; a dotted directory component yields nothing *)
Theorem outside_root_none fixed root p b :
  (fixed && path_eqb p root = false) ->
  (forall last rparent, rev p = last :: rparent -> strip_prefix root (rev rparent) = None) ->
  id_of_path fixed root p b = None.
Proof.
  intros Hne H. unfold id_of_path. rewrite Hne. destruct (rev p) as [|last rparent] eqn:E; [reflexivity|].
  now rewrite (H last rparent eq_refl).
Qed.

(* the repaired table: the entry itself for every kind that changes it, and its parent directory
   for creations, renames and deletions *)
Theorem events_cover fixed_root roots is_dir k p r e :
  In r roots -> id_of_path fixed_root r p (is_dir p) = Some e ->
  k <> KAccess -> k <> KOther ->
  In e (flat_map (fun q => flat_map (fun r => match id_of_path fixed_root r q (is_dir q) with
                                              | Some e => [e] | None => [] end) roots)
          (event_paths true k p)).
Proof.
  intros Hr He Hk1 Hk2. apply in_flat_map. exists p. split.
  - destruct k; cbn; try congruence; try (now left); destruct (parent_of p); now left.
  - apply in_flat_map. exists r. split; [exact Hr|]. rewrite He. now left.
Qed.

Theorem events_cover_parent fixed_root roots is_dir k p q r e :
  In r roots -> parent_of p = Some q -> id_of_path fixed_root r q (is_dir q) = Some e ->
  (k = KCreate \/ k = KModifyName \/ k = KRemove) ->
  In e (flat_map (fun q => flat_map (fun r => match id_of_path fixed_root r q (is_dir q) with
                                              | Some e => [e] | None => [] end) roots)
          (event_paths true k p)).
Proof.
  intros Hr Hq He Hk. apply in_flat_map. exists q. split.
  - destruct Hk as [->|[->| ->]]; cbn; rewrite Hq; right; now left.
  - apply in_flat_map. exists r. split; [exact Hr|]. rewrite He. now left.
Qed.
