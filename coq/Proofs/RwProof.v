From AM Require Import Ref.RwCell.
From Coq Require Import List Bool Arith Lia.
Import ListNotations.

Lemma uniform_repeat v n : uniform (repeat v n).
Proof. exists v. now rewrite repeat_length. Qed.

Lemma set_nth_length l i v : length (set_nth l i v) = length l.
Proof. revert i; induction l as [|x l IH]; intros [|i]; cbn; auto. Qed.

Lemma firstn_set_nth l : forall i v, i < length l -> firstn (S i) (set_nth l i v) = firstn i l ++ [v].
Proof. induction l as [|x l IH]; intros [|i] v H; cbn in *; try lia; auto. f_equal. apply IH. lia. Qed.

Lemma skipn_set_nth l : forall i v, skipn (S i) (set_nth l i v) = skipn (S i) l.
Proof. induction l as [|x l IH]; intros [|i] v; cbn [set_nth]; auto. change (skipn (S (S i)) (x :: set_nth l i v)) with (skipn (S i) (set_nth l i v)). rewrite IH. reflexivity. Qed.

Lemma uniform_tail x l : uniform (x :: l) -> uniform l.
Proof. intros [v H]. cbn in H. inversion H. exists v. congruence. Qed.

Lemma skipn_S_tail {A} (l : list A) : forall i, skipn (S i) l = tl (skipn i l).
Proof. intros i; revert l; induction i as [|i IH]; intros [|x l]; try reflexivity.
  change (skipn (S (S i)) (x :: l)) with (skipn (S i) l). change (skipn (S i) (x :: l)) with (skipn i l). apply IH. Qed.

Lemma uniform_skipn_S l i : uniform (skipn i l) -> uniform (skipn (S i) l).
Proof. rewrite skipn_S_tail. destruct (skipn i l) as [|x r]; cbn; auto. apply uniform_tail. Qed.

Lemma firstn_S_nth (l : list nat) : forall i, i < length l -> firstn (S i) l = firstn i l ++ [nth i l 0].
Proof. induction l as [|x l IH]; intros [|i] H; cbn in *; try lia; auto. f_equal. apply IH. lia. Qed.

Lemma repeat_snoc (v : nat) n : repeat v n ++ [v] = repeat v (S n).
Proof. induction n as [|n IH]; cbn; [reflexivity|]. cbn in IH. rewrite IH. reflexivity. Qed.

Lemma in_remove_iff (l : list nat) x y : In x (remove Nat.eq_dec y l) <-> In x l /\ x <> y.
Proof. split. apply in_remove. intros [? ?]. apply in_in_remove; auto. Qed.

Lemma andb3 a b c : a && b && c = true -> a = true /\ b = true /\ c = true.
Proof. destruct a, b, c; cbn; auto. Qed.

(* updating one thread *)
Lemma updt_same f t l : updt f t l t = l. Proof. unfold updt. now rewrite Nat.eqb_refl. Qed.
Lemma updt_other f t l u : u <> t -> updt f t l u = f u.
Proof. unfold updt. intros H. apply Nat.eqb_neq in H. now rewrite H. Qed.

(* at most one thread is writing, and nobody writes while somebody holds the read lock *)
Lemma writer_unique c u u' : Inv c -> hw (th c u) = true -> hw (th c u') = true -> u = u'.
Proof. intros I H1 H2. apply (v_hw c I) in H1. apply (v_hw c I) in H2. congruence. Qed.

Lemma no_writer_while_reading c t u : Inv c -> hr (th c t) = true -> hw (th c u) = true -> False.
Proof. intros I Hr Hw. apply (v_hw c I) in Hw. apply (v_lock c I) in Hw. apply (v_hr c I) in Hr. rewrite Hw in Hr. destruct Hr. Qed.

Lemma wprog_needs_hw c u i v : Inv c -> wprog (th c u) = Some (i, v) -> hw (th c u) = true.
Proof. intros I H. now destruct (v_wp c I u i v H). Qed.
