(* Bounded work of the hot_reload mailbox protocol: every step of N callers and the reloader
   strictly decreases a natural-number measure, so every execution is finite (at most
   [work_bound N] steps, whatever the scheduler does -- no fairness assumption), and by
   deadlock-freedom it can only end with every caller returned. *)
From Coq Require Import List Bool Arith Lia.
From AM Require Import Proofs.AnsInv Proofs.AnsC.
Import ListNotations.

Definition W (N : nat) : nat := 2 * (N + 1).

(* callers: rank in the straight-line part + what the loop around the wait may still cost:
   W for the notification the caller itself still owes, W for the one the reloader owes for
   its token as long as the token has not been sent *)
Definition cw (N : nat) (c : cpc) : nat :=
  match c with
  | C0 => 16 + 2 * W N
  | C1 _ => 15 + 2 * W N
  | C2 _ => 6 + W N
  | Cwk _ => 6 + W N
  | C3 _ => 5 + W N
  | Cw _ => 4 + W N
  | C4 _ => 3 + W N
  | C4n _ => 2 + W N
  | C5 _ => 1
  | CDone => 0
  end.

Definition rw (N : nat) (r : rpc) : nat :=
  match r with
  | R0 => 1
  | R1 _ => 8 + W N
  | R2 _ => 7 + W N
  | Rwk _ => 7 + W N
  | R3 _ => 6 + W N
  | Rw _ => 5 + W N
  | R4 _ => 4 + W N
  | R5 _ => 3 + W N
  | R6 _ => 2
  end.

Fixpoint sumf (g : nat -> nat) (n : nat) : nat :=
  match n with O => 0 | S k => sumf g k + g k end.

Definition measure (N : nat) (s : st) : nat :=
  sumf (fun i => cw N (cs s i)) N + rw N (rl s) + (8 + W N) * List.length (chan s).

Lemma sumf_ext g h n : (forall i, i < n -> g i = h i) -> sumf g n = sumf h n.
Proof. induction n as [|k IH]; cbn; intros E; [reflexivity|]. rewrite IH, (E k) by auto. reflexivity. Qed.

Lemma sumf_le g h n c : (forall i, i < n -> g i <= h i + c) -> sumf g n <= sumf h n + c * n.
Proof.
  induction n as [|k IH]; cbn; intros E; [lia|].
  assert (sumf g k <= sumf h k + c * k) by (apply IH; auto). pose proof (E k). nia.
Qed.

Lemma sumf_updf (c : cpc -> nat) f i x n : i < n ->
  sumf (fun j => c (updf f i x j)) n + c (f i) = sumf (fun j => c (f j)) n + c x.
Proof.
  induction n as [|k IH]; intros Hi; [lia|]. cbn [sumf].
  destruct (Nat.eq_dec i k) as [->|Ne].
  - rewrite updf_same. rewrite (sumf_ext (fun j => c (updf f k x j)) (fun j => c (f j)) k); [lia|].
    intros j Hj. rewrite updf_other by lia. reflexivity.
  - rewrite (updf_other f i x k) by lia. assert (i < k) by lia. specialize (IH H). lia.
Qed.

Lemma cw_wake N c : cw N (wake_c c) <= cw N c + 2.
Proof. destruct c; cbn; lia. Qed.
Lemma rw_wake N r : rw N (wake_r r) <= rw N r + 2.
Proof. destruct r; cbn; lia. Qed.

Ltac upd i Hi :=
  match goal with
  | |- context [sumf (fun j => cw ?N (updf ?f i ?x j)) ?N] =>
    pose proof (sumf_updf (cw N) f i x N Hi)
  end.

Theorem step_decreases N x y : stepN N x y -> measure N y < measure N x.
Proof.
  intros [i a b Hi H|a b H]; unfold measure.
  - destruct H as [s E|s t E|s t E Hm|s t E Hs|s t E Hs|s t E|s t E|s t E]; cbn [cs rl chan].
    + upd i Hi. rewrite E in *. cbn [cw] in *. lia.
    + upd i Hi. rewrite E in *. cbn [cw] in *. rewrite app_length. cbn [List.length]. nia.
    + upd i Hi. destruct E as [E|E]; rewrite E in *; cbn [cw] in *; lia.
    + upd i Hi. rewrite E in *. cbn [cw] in *. lia.
    + upd i Hi. rewrite E in *. cbn [cw] in *. lia.
    + upd i Hi. rewrite E in *. cbn [cw] in *. lia.
    + (* the caller notifies: everybody asleep wakes up *)
      assert (B : sumf (fun j => cw N (wake_c (updf (cs s) i (C5 t) j))) N
                  <= sumf (fun j => cw N (updf (cs s) i (C5 t) j)) N + 2 * N).
      { apply sumf_le. intros j _. apply cw_wake. }
      pose proof (sumf_updf (cw N) (cs s) i (C5 t) N Hi) as U. rewrite E in U. cbn [cw] in U.
      pose proof (rw_wake N (rl s)). unfold W in *. lia.
    + upd i Hi. rewrite E in *. cbn [cw] in *. lia.
  - destruct H as [s t r E Ec|s t E|s t E Hm|s t E Hs|s t E Hs|s t E|s t E|s t E]; cbn [cs rl chan].
    + rewrite E, Ec. cbn [rw List.length]. nia.
    + rewrite E. cbn [rw]. lia.
    + destruct E as [E|E]; rewrite E; cbn [rw]; lia.
    + rewrite E. cbn [rw]. lia.
    + rewrite E. cbn [rw]. lia.
    + rewrite E. cbn [rw]. lia.
    + (* the reloader notifies *)
      assert (B : sumf (fun j => cw N (wake_c (cs s j))) N <= sumf (fun j => cw N (cs s j)) N + 2 * N).
      { apply sumf_le. intros j _. apply cw_wake. }
      rewrite E. cbn [rw]. unfold W in *. lia.
    + rewrite E. cbn [rw]. lia.
Qed.

(* executions, counted *)
Inductive runN (N : nat) : nat -> st -> st -> Prop :=
| rn_refl s : runN N 0 s s
| rn_cons k s s' s'' : stepN N s s' -> runN N k s' s'' -> runN N (S k) s s''.

Lemma runN_stepsN N k s s' : runN N k s s' -> stepsN N s s'.
Proof. induction 1; econstructor; eauto. Qed.

Lemma run_measure N k s s' : runN N k s s' -> k + measure N s' <= measure N s.
Proof.
  induction 1 as [|k s s' s'' Hs _ IH]; [lia|]. pose proof (step_decreases N s s' Hs). lia.
Qed.

Definition work_bound (N : nat) : nat := N * (16 + 2 * W N) + 1.

Lemma sumf_const c n : sumf (fun _ => c) n = n * c.
Proof. induction n as [|k IH]; cbn; [reflexivity|]. rewrite IH. lia. Qed.

Lemma measure_init N : measure N init = work_bound N.
Proof. unfold measure, work_bound. cbn [cs rl chan init cw rw List.length]. rewrite sumf_const. lia. Qed.

(* every execution of N callers is at most work_bound N steps long ... *)
Theorem bounded_work N k s : runN N k init s -> k <= work_bound N.
Proof. intros H. apply run_measure in H. rewrite measure_init in H. lia. Qed.

(* ... and when it cannot go on, every caller has returned *)
Theorem stuck_means_all_returned N k s :
  runN N k init s -> ~ can_stepN N s -> forall i, i < N -> cs s i = CDone.
Proof.
  intros H Stuck i Hi. destruct (cs s i) eqn:E; try reflexivity; exfalso; apply Stuck;
    apply (answers_no_deadlock N s (runN_stepsN _ _ _ _ H)); exists i; split; auto; congruence.
Qed.
