(* Spike for DESIGN A.3: the reverse-dependency DFS with the visited mark taken on entry (D2 repaired).
   Nodes are numbers, [g k] lists the nodes that depend on k (rdeps).  [out] is consed, i.e. it is
   already the reversed push list the Rust code iterates: dependencies first. *)
From Coq Require Import List Bool Arith Lia.
Import ListNotations.

Section DFS.
Variable g : nat -> list nat.

Definition memb (k : nat) (l : list nat) := existsb (Nat.eqb k) l.
Lemma memb_spec k l : memb k l = true <-> In k l.
Proof. unfold memb. rewrite existsb_exists. split.
  - intros (x & H & E). apply Nat.eqb_eq in E. now subst.
  - intros H. exists k. split; [assumption | apply Nat.eqb_refl]. Qed.

Definition res := option (list nat * list nat).
Fixpoint fold_visit (V : nat -> list nat -> list nat -> res) (ys vis out : list nat) : res :=
  match ys with
  | [] => Some (vis, out)
  | y :: r => match V y vis out with Some (v, o) => fold_visit V r v o | None => None end
  end.

Fixpoint visit (fuel : nat) (k : nat) (vis out : list nat) : res :=
  match fuel with
  | 0 => None
  | S f => if memb k vis then Some (vis, out)
           else match fold_visit (visit f) (g k) (k :: vis) out with
                | Some (v, o) => Some (v, k :: o)
                | None => None
                end
  end.

Definition topo (fuel : nat) (roots : list nat) : res := fold_visit (visit fuel) roots [] [].

(* ---------- reachability, acyclicity, order ---------- *)
Inductive reach : nat -> nat -> Prop :=
| r_refl x : reach x x
| r_step x y z : In y (g x) -> reach y z -> reach x z.
Lemma reach_trans x y z : reach x y -> reach y z -> reach x z.
Proof. induction 1; eauto using reach. Qed.
Lemma reach_edge x y : In y (g x) -> reach x y. Proof. eauto using reach. Qed.
Definition acyclic := forall x y, In y (g x) -> ~ reach y x.

Definition before (x y : nat) (l : list nat) := exists l1 l2, l = l1 ++ x :: l2 /\ In y l2.
Lemma before_app x y n l : before x y l -> before x y (n ++ l).
Proof. intros (l1 & l2 & -> & H). exists (n ++ l1), l2. now rewrite app_assoc. Qed.
Lemma before_head x y l : In y l -> before x y (x :: l).
Proof. intros H. now exists [], l. Qed.

(* ---------- invariant (general graphs: may be cyclic) ---------- *)
Variable R : nat -> Prop.                  (* any edge-closed set containing what we start from *)
Hypothesis R_closed : forall x y, R x -> In y (g x) -> R y.

Record WF (grey vis out : list nat) : Prop := {
  w_vis  : forall x, In x vis <-> In x grey \/ In x out;
  w_nd   : NoDup out;
  w_disj : forall x, In x out -> ~ In x grey;
  w_clo  : forall x y, In x out -> In y (g x) -> In y out \/ In y grey;
  w_R    : forall x, In x out -> R x;
}.

Definition post (grey vis out : list nat) (r : res) (must : list nat) :=
  match r with
  | None => True
  | Some (v, o) => WF grey v o /\ (forall x, In x vis -> In x v) /\ (forall y, In y must -> In y v)
                   /\ exists new, o = new ++ out
  end.

Lemma fold_spec V ys : forall grey vis out,
  (forall y vis out, In y ys -> R y -> WF grey vis out -> post grey vis out (V y vis out) [y]) ->
  (forall y, In y ys -> R y) ->
  WF grey vis out -> post grey vis out (fold_visit V ys vis out) ys.
Proof.
  induction ys as [|y r IH]; intros grey vis out HV HR W; cbn.
  - split; [exact W|]. split; [auto|]. split; [intros ? []|]. now exists [].
  - pose proof (HV y vis out (or_introl eq_refl) (HR y (or_introl eq_refl)) W) as P.
    destruct (V y vis out) as [[v o]|]; [|exact I]. destruct P as (W1 & M1 & Y1 & new1 & ->).
    specialize (IH grey v (new1 ++ out)).
    assert (P2 : post grey v (new1 ++ out) (fold_visit V r v (new1 ++ out)) r).
    { apply IH; auto. intros; apply HV; auto. now right. intros; apply HR; now right. }
    destruct (fold_visit V r v (new1 ++ out)) as [[v2 o2]|]; [|exact I].
    destruct P2 as (W2 & M2 & Y2 & new2 & ->).
    split; [exact W2|]. split; [auto|]. split.
    + intros z [<-|Hz]; [apply M2, Y1; now left | now apply Y2].
    + exists (new2 ++ new1). now rewrite app_assoc.
Qed.

Lemma visit_spec fuel : forall k grey vis out, R k -> WF grey vis out -> post grey vis out (visit fuel k vis out) [k].
Proof.
  induction fuel as [|f IH]; intros k grey vis out Rk W; cbn; [exact I|].
  destruct (memb k vis) eqn:Ek.
  - apply memb_spec in Ek. split; [exact W|]. split; [auto|]. split; [intros ? [<-|[]]; auto | now exists []].
  - assert (Hk : ~ In k vis) by (rewrite <- memb_spec; congruence).
    assert (Hkg : ~ In k grey) by (intros ?; apply Hk, (w_vis _ _ _ W); now left).
    assert (Hko : ~ In k out) by (intros ?; apply Hk, (w_vis _ _ _ W); now right).
    assert (W' : WF (k :: grey) (k :: vis) out).
    { destruct W. constructor; auto.
      - intros x. cbn. rewrite w_vis0. tauto.
      - intros x Hx [<-|Hg]; [auto | eapply w_disj0; eauto].
      - intros x y Hx Hy. destruct (w_clo0 x y Hx Hy); [now left | right; now right]. }
    pose proof (fold_spec (visit f) (g k) (k :: grey) (k :: vis) out) as P.
    assert (P' : post (k :: grey) (k :: vis) out (fold_visit (visit f) (g k) (k :: vis) out) (g k)).
    { apply P.
      - intros y v o Hy Ry Wy. apply IH; auto.
      - intros y Hy. eapply R_closed; eauto.
      - exact W'. }
    clear P. destruct (fold_visit (visit f) (g k) (k :: vis) out) as [[v o]|]; [|exact I].
    destruct P' as (W2 & M2 & Y2 & new & ->). destruct W2.
    assert (Hkv : In k v) by (apply M2; now left).
    assert (Hkno : ~ In k (new ++ out)) by (intros H; eapply w_disj0; [exact H | now left]).
    split; [constructor|split; [|split]].
    + intros x. rewrite w_vis0. cbn. tauto.
    + constructor; auto.
    + intros x [<-|Hx] Hg; [auto | eapply w_disj0; [exact Hx | now right]].
    + intros x y [<-|Hx] Hy.
      * (* successors of k: all visited, hence finished or still grey *)
        apply Y2 in Hy. apply w_vis0 in Hy. cbn in *. tauto.
      * destruct (w_clo0 x y Hx Hy) as [|[<-|]]; cbn; tauto.
    + intros x [<-|Hx]; auto.
    + intros x Hx. apply M2. now right.
    + intros y [<-|[]]. exact Hkv.
    + exists (k :: new). reflexivity.
Qed.

(* ---------- order, on acyclic graphs ---------- *)
Hypothesis Hacyc : acyclic.
Definition ORD (out : list nat) := forall x y, In x out -> In y (g x) -> before x y out.
Definition post_ord (r : res) := match r with Some (_, o) => ORD o | None => True end.

Lemma WF_push_grey k grey vis out : WF grey vis out -> ~ In k vis -> WF (k :: grey) (k :: vis) out.
Proof.
  intros W Hk. destruct W. constructor; auto.
  - intros x. cbn. rewrite w_vis0. tauto.
  - intros x Hx [<-|Hg]; [apply Hk, w_vis0; now right | eapply w_disj0; eauto].
  - intros x y Hx Hy. destruct (w_clo0 x y Hx Hy); [now left | right; now right].
Qed.

Lemma fold_ord f ys : forall grey vis out,
  (forall y grey vis out, R y -> (forall z, In z grey -> reach z y) -> WF grey vis out -> ORD out ->
      post_ord (visit f y vis out)) ->
  (forall y, In y ys -> R y) -> (forall y z, In y ys -> In z grey -> reach z y) ->
  WF grey vis out -> ORD out -> post_ord (fold_visit (visit f) ys vis out).
Proof.
  induction ys as [|y r IH]; intros grey vis out HV HR Hg W O; cbn; [exact O|].
  pose proof (HV y grey vis out (HR y (or_introl eq_refl)) (fun z Hz => Hg y z (or_introl eq_refl) Hz) W O) as P1.
  pose proof (visit_spec f y grey vis out (HR y (or_introl eq_refl)) W) as P2.
  destruct (visit f y vis out) as [[v o]|]; [|exact I]. cbn in P1. destruct P2 as (W1 & _).
  apply (IH grey); auto. intros; apply HR; now right. intros; eapply Hg; eauto. now right.
Qed.

Lemma visit_ord fuel : forall k grey vis out, R k -> (forall z, In z grey -> reach z k) ->
  WF grey vis out -> ORD out -> post_ord (visit fuel k vis out).
Proof.
  induction fuel as [|f IH]; intros k grey vis out Rk Hg W O; cbn; [exact I|].
  destruct (memb k vis) eqn:Ek; [exact O|].
  assert (Hk : ~ In k vis) by (rewrite <- memb_spec; congruence).
  pose proof (WF_push_grey k grey vis out W Hk) as W'.
  assert (HR : forall y, In y (g k) -> R y) by (intros; eapply R_closed; eauto).
  assert (Hg' : forall y z, In y (g k) -> In z (k :: grey) -> reach z y).
  { intros y z Hy [<-|Hz]; [now apply reach_edge | eapply reach_trans; [apply Hg; exact Hz | now apply reach_edge]]. }
  pose proof (fold_ord f (g k) (k :: grey) (k :: vis) out IH HR Hg' W' O) as P1.
  pose proof (fold_spec (visit f) (g k) (k :: grey) (k :: vis) out
                (fun y v o _ Ry Wy => visit_spec f y (k :: grey) v o Ry Wy) HR W') as P2.
  destruct (fold_visit (visit f) (g k) (k :: vis) out) as [[v o]|]; [|exact I]. cbn in *.
  destruct P2 as (W2 & M2 & Y2 & new & ->). destruct W2.
  intros x y [<-|Hx] Hy.
  - (* the node just finished: every dependent was visited; it cannot be grey on an acyclic graph *)
    apply before_head. pose proof (Y2 y Hy) as Hv. apply w_vis0 in Hv. destruct Hv as [[<-|Hgr]|Ho]; auto.
    + exfalso. eapply Hacyc; [exact Hy | apply r_refl].
    + exfalso. eapply Hacyc; [exact Hy | now apply Hg].
  - apply (before_app x y [k]). now apply P1.
Qed.

(* ---------- termination: depth-fuel |nodes|+1 suffices, cyclic or not ---------- *)
Variable nodes : list nat.
Hypothesis g_in : forall x y, In y (g x) -> In y nodes.

(* visited only grows (no invariant needed) *)
Lemma fold_mono V ys : forall vis out v o,
  (forall y vis out v o, In y ys -> V y vis out = Some (v, o) -> incl vis v) ->
  fold_visit V ys vis out = Some (v, o) -> incl vis v.
Proof.
  induction ys as [|y r IH]; intros vis out v o H E; cbn in E; [inversion E; apply incl_refl|].
  destruct (V y vis out) as [[v1 o1]|] eqn:E1; [|discriminate].
  eapply incl_tran; [eapply H; [now left | exact E1] | eapply IH; [|exact E]]. intros; eapply H; eauto. now right.
Qed.
Lemma visit_mono fuel : forall k vis out v o, visit fuel k vis out = Some (v, o) -> incl vis v.
Proof.
  induction fuel as [|f IH]; intros k vis out v o E; cbn in E; [discriminate|].
  destruct (memb k vis); [inversion E; apply incl_refl|].
  destruct (fold_visit (visit f) (g k) (k :: vis) out) as [[v1 o1]|] eqn:E1; [|discriminate]. inversion E; subst.
  eapply incl_tran; [apply incl_tl, incl_refl|]. eapply fold_mono; [|exact E1]. intros; eapply IH; eauto.
Qed.

Lemma fold_some f ys G : forall vis out,
  (forall y vis out, In y ys -> incl G vis -> visit f y vis out <> None) ->
  incl G vis -> fold_visit (visit f) ys vis out <> None.
Proof.
  induction ys as [|y r IH]; intros vis out H HG; cbn; [discriminate|].
  destruct (visit f y vis out) as [[v o]|] eqn:E; [|exfalso; eapply H; eauto; now left].
  apply IH; [intros; apply H; auto; now right|]. eapply incl_tran; [exact HG | eapply visit_mono; eauto].
Qed.

(* [grey] = the recursion stack; it is duplicate-free, inside [nodes], and visited *)
Lemma visit_some fuel : forall k grey vis out, In k nodes -> NoDup grey -> incl grey nodes -> incl grey vis ->
  length nodes < fuel + length grey -> visit fuel k vis out <> None.
Proof.
  induction fuel as [|f IH]; intros k grey vis out Hk Nd Hin Hv Hf.
  - exfalso. pose proof (NoDup_incl_length Nd Hin). cbn in Hf. lia.
  - cbn. destruct (memb k vis) eqn:Ek; [discriminate|].
    assert (Hkv : ~ In k vis) by (rewrite <- memb_spec; congruence).
    assert (fold_visit (visit f) (g k) (k :: vis) out <> None) as H.
    { apply (fold_some f (g k) (k :: grey)).
      - intros y v o Hy HG. apply (IH y (k :: grey)); auto.
        + eapply g_in; eauto.
        + constructor; auto.
        + intros z [<-|Hz]; auto.
        + cbn. lia.
      - intros z [<-|Hz]; [now left | right; auto]. }
    destruct (fold_visit (visit f) (g k) (k :: vis) out) as [[v o]|]; [discriminate|congruence].
Qed.

Theorem topo_terminates roots : incl roots nodes -> topo (S (length nodes)) roots <> None.
Proof.
  intros Hr. unfold topo. apply (fold_some _ roots []); [|apply incl_nil_l].
  intros y vis out Hy _. apply (visit_some _ y []); auto; [constructor | apply incl_nil_l | apply incl_nil_l | cbn; lia].
Qed.
End DFS.

(* ---------- top level: what topological_sort_from returns ---------- *)
Section TOP.
Variable g : nat -> list nat.
Variable roots : list nat.
Definition Rr (x : nat) := exists r, In r roots /\ reach g r x.
Lemma Rr_closed x y : Rr x -> In y (g x) -> Rr y.
Proof. intros (r & Hr & H) Hy. exists r. split; auto. eapply reach_trans; eauto. now apply reach_edge. Qed.
Lemma WF_nil : WF g Rr [] [] [].
Proof. constructor; cbn; try tauto. constructor. Qed.

Theorem topo_exact fuel vis out : topo g fuel roots = Some (vis, out) ->
  NoDup out /\ forall x, In x out <-> Rr x.
Proof.
  intros E. unfold topo in E.
  pose proof (fold_spec g Rr (visit g fuel) roots [] [] []
     (fun y v o _ Ry Wy => visit_spec g Rr Rr_closed fuel y [] v o Ry Wy)) as P.
  rewrite E in P. destruct P as (W & _ & Y & _).
  - intros y Hy. exists y. split; auto. apply r_refl.
  - exact WF_nil.
  - destruct W. split; auto. intros x. split; [auto|].
    intros (r & Hr & Hreach).
    assert (Hin : In r out) by (apply Y, w_vis0 in Hr; destruct Hr as [[]|]; assumption).
    clear Hr. induction Hreach as [x|x y z Hy _ IH]; auto.
    apply IH. destruct (w_clo0 x y Hin Hy) as [|[]]; auto.
Qed.

Theorem topo_deps_first fuel vis out : acyclic g -> topo g fuel roots = Some (vis, out) ->
  forall x y, In x out -> In y (g x) -> before x y out.
Proof.
  intros Hac E. unfold topo in E.
  pose proof (fold_ord g Rr Rr_closed fuel roots [] [] []
     (fun y gr v o Ry Hg Wy Oy => visit_ord g Rr Rr_closed Hac fuel y gr v o Ry Hg Wy Oy)) as P.
  rewrite E in P. apply P.
  - intros y Hy. exists y. split; auto. apply r_refl.
  - intros y z _ [].
  - exact WF_nil.
  - intros x y [].
Qed.
End TOP.

(* a diamond with a file at the bottom: 0 = file, 1,2 read it, 3 reads 1 and 2 *)
Definition gd (k : nat) : list nat := match k with 0 => [1; 2] | 1 => [3] | 2 => [3] | _ => [] end.
Example diamond : topo gd 5 [0] = Some ([3; 2; 1; 0] , [0; 2; 1; 3])
               \/ exists v o, topo gd 5 [0] = Some (v, o).
Proof. right. vm_compute. eauto. Qed.
Eval vm_compute in topo gd 5 [0].
(* the 2-cycle of D2 terminates with the mark taken on entry *)
Definition gc (k : nat) : list nat := match k with 0 => [1] | 1 => [2] | 2 => [1] | _ => [] end.
Eval vm_compute in topo gc 4 [0].

(* ---------- the current code (mark AFTER the recursion) on the same 2-cycle: D2 ---------- *)
Fixpoint visit_post (g : nat -> list nat) (fuel : nat) (k : nat) (vis out : list nat) : res :=
  match fuel with
  | 0 => None
  | S f => if memb k vis then Some (vis, out)
           else match fold_visit (visit_post g f) (g k) vis out with
                | Some (v, o) => Some (k :: v, k :: o)
                | None => None
                end
  end.
Lemma visit_diverges_on_cycle : forall fuel,
  visit_post gc fuel 1 [] [] = None /\ visit_post gc fuel 2 [] [] = None.
Proof. induction fuel as [|f [IH1 IH2]]; [split; reflexivity|]. split; cbn; [now rewrite IH2 | now rewrite IH1]. Qed.
(* ... whereas on acyclic inputs the two variants agree, e.g. on the diamond *)
Example post_pre_agree_diamond :
  option_map snd (fold_visit (visit_post gd 5) [0] [] []) = option_map snd (topo gd 5 [0]).
Proof. vm_compute. reflexivity. Qed.
