(* C05, the base case of "cached values follow the source": for the plain asset types (no nested
   loads) what a load makes is a function of the source's files alone -- when no fault is planned --
   and a reload installs exactly that value: the value a fresh load of the same key would return at
   that moment. *)
From Coq Require Import List String NArith ZArith Bool Lia.
From AM Require Import Ref.Load Ref.Sys Proofs.SysStatic Proofs.SysGrows Proofs.SysFrame Proofs.SysMap Proofs.SysReload.
Import ListNotations.

(* the value the attempts over the extension list yield, read off the files *)
Fixpoint p_attempts (fs : list ((string * string) * fstate)) (t : ty) (id : string) (es : list string) (acc : ekind)
  : sum ekind value :=
  match es with
  | [] => inl acc
  | e :: r =>
      match assoc fkey_eqb (id, e) fs with
      | None => p_attempts fs t id r (Load.or (EIo KNotFound 0) acc)
      | Some (FUnreadable k) => p_attempts fs t id r (Load.or (EIo k 0) acc)
      | Some (FPresent c) =>
          match t, c with
          | TB, CBytes b => inr (VBytes b)
          | TB, CScript _ _ => inr (VBytes [])
          | _, CBytes b => match parse_int b with
                           | Some n => inr (VInt n e)
                           | None => p_attempts fs t id r (Load.or (EConv 0) acc)
                           end
          | _, CScript _ _ => p_attempts fs t id r (Load.or (EConv 0) acc)
          end
      end
  end.

(* T::load for a plain asset type, as a function of the files *)
Definition p_load (fs : list ((string * string) * fstate)) (t : ty) (id : string) : option value :=
  match p_attempts fs t id (exts t) ENoDefault with
  | inr v => Some v
  | inl e => match t with
             | TD => Some (VInt (default_code e) ("default:" ++ class_leaf e)%string)
             | _ => None
             end
  end.

Lemma cache_read_no_fault s id e :
  faults (src s) = [] ->
  let x := cache_read s id e in
  snd (fst x) = match assoc fkey_eqb (id, e) (files (src s)) with
                | Some (FPresent c) => inr c
                | Some (FUnreadable k) => inl k
                | None => inl KNotFound
                end.
Proof.
  intros F. unfold cache_read. rewrite (rec_add_src s (DepFile id e)).
  unfold src_read, src_tick. rewrite F. cbn [assoc fst snd]. reflexivity.
Qed.

Lemma int_attempts_pure : forall es s t id acc tr,
  faults (src s) = [] ->
  match snd (int_attempts s t id es acc tr), p_attempts (files (src s)) t id es acc with
  | inl e, inl e' => e = e'
  | inr (v, _), inr v' => v = v'
  | _, _ => False
  end.
Proof.
  induction es as [|e r IH]; intros s t id acc tr F; cbn [int_attempts p_attempts]; [reflexivity|].
  pose proof (cache_read_no_fault s id e F) as R. pose proof (quiet_cache_read s id e) as Q.
  destruct (cache_read s id e) as [[s1 rd] evr]. cbn [fst snd] in R, Q.
  assert (F1 : faults (src s1) = []) by (rewrite (q_faults _ _ Q); exact F).
  assert (Fl : files (src s1) = files (src s)) by apply (q_files _ _ Q).
  destruct (assoc fkey_eqb (id, e) (files (src s))) as [[c|k]|]; subst rd.
  - destruct t, c as [b|n ls];
      try (rewrite <- Fl; apply IH; exact F1);
      try (destruct (bump_tok s1) as [s2 tok]; cbn [snd]; reflexivity);
      try (destruct (parse_int b); [destruct (bump_tok s1) as [s2 tok]; cbn [snd]; reflexivity | rewrite <- Fl; apply IH; exact F1]).
  - rewrite <- Fl. apply IH. exact F1.
  - rewrite <- Fl. apply IH. exact F1.
Qed.

Definition plain_asset (t : ty) : bool :=
  match t with TN | TNS | TDI | TRI | TV => false | _ => true end.

Lemma load_asset_value_pure s t id :
  faults (src s) = [] ->
  match snd (load_asset_value s t id), p_load (files (src s)) t id with
  | ROk (v, _), Some v' => v = v'
  | RErr _, None => True
  | _, _ => False
  end.
Proof.
  intros F. unfold load_asset_value, p_load.
  pose proof (int_attempts_pure (exts t) s t id ENoDefault [] F) as P.
  destruct (int_attempts s t id (exts t) ENoDefault []) as [[s1 tr] r]. cbn [snd] in P.
  destruct r as [e|[v tok]], (p_attempts (files (src s)) t id (exts t) ENoDefault) as [e'|v']; try contradiction.
  - subst e'. destruct t; cbn [snd]; try exact I. destruct (bump_tok s1) as [s2 tok]. reflexivity.
  - cbn [snd]. exact P.
Qed.

Lemma load_value_plain lr lo s t id :
  plain_asset t = true -> load_value lr lo s t id = load_asset_value s t id.
Proof. destruct t; cbn; intros H; try discriminate H; reflexivity. Qed.

(* a reload of a plain asset installs exactly what the files say, or leaves the entry alone *)
Theorem reload_installs_what_the_source_holds fuel s t id n old :
  plain_asset t = true -> faults (src s) = [] ->
  g_get (graph s) (DepAsset (t, id)) = Some n -> g_typ n = Some t ->
  cache_get s (t, id) = Some old -> en_dyn old = true ->
  let s' := fst (reload_one fuel s (t, id)) in
  match p_load (files (src s)) t id with
  | Some v => exists e, cache_get s' (t, id) = Some e /\ en_val e = v /\ en_rid e = N.succ (en_rid old)
  | None => cache_get s' (t, id) = Some old
  end.
Proof.
  intros P F G T C D. cbv zeta. unfold reload_one. rewrite G, T, C, D. cbn [negb snd].
  unfold load_wrapped. rewrite (load_value_plain _ _ _ _ _ P).
  assert (F0 : faults (src (rec_push s (Some []))) = []) by exact F.
  pose proof (load_asset_value_pure (rec_push s (Some [])) t id F0) as L.
  pose proof (load_asset_value_cache (rec_push s (Some [])) t id) as Cc.
  destruct (load_asset_value (rec_push s (Some [])) t id) as [[s1 tr] r]. cbn [fst snd] in L, Cc.
  change (files (src (rec_push s (Some [])))) with (files (src s)) in L.
  pose proof (cache_rec_pop s1) as Cp. destruct (rec_pop s1) as [s2 deps]. cbn [fst] in Cp.
  destruct r as [[v tok]|e| |], (p_load (files (src s)) t id) as [v'|]; try contradiction; cbn [fst].
  - subst v'. eexists. split; [unfold cache_get, cache_set, set_graph, set_cache; cbn [cache]; apply assoc_set_same|].
    split; reflexivity.
  - unfold cache_get in *. rewrite Cp, Cc. exact C.
Qed.

(* ... and that is what a load of the same key into a cache that does not hold it returns *)
Theorem fresh_load_returns_what_the_source_holds f s t id :
  plain_asset t = true -> faults (src s) = [] -> cache_get s (t, id) = None ->
  match snd (load_entry_f (S f) s t id), p_load (files (src s)) t id with
  | ROk e, Some v => en_val e = v
  | RErr _, None => True
  | _, _ => False
  end.
Proof.
  intros P F C. cbn [load_entry_f]. unfold load_entry.
  pose proof (cache_get_cached_rec s t id) as Cg. pose proof (quiet_get_cached_rec s t id) as Q.
  unfold get_cached_rec in *. set (s0 := if hot_reloaded t then rec_add s (DepAsset (t, id)) else s) in *. cbn [fst] in Cg, Q.
  assert (C0 : cache_get s0 (t, id) = None) by (unfold cache_get in *; now rewrite Cg).
  rewrite C0.
  assert (F0 : faults (src s0) = []) by (rewrite (q_faults _ _ Q); exact F).
  assert (Fl : files (src s0) = files (src s)) by apply (q_files _ _ Q).
  assert (Core : forall x, faults (src x) = [] -> files (src x) = files (src s) ->
                 let y := load_wrapped (load_entry_f f) (load_owned_f f) x t id in
                 cache (fst (fst y)) = cache x /\
                 match snd y, p_load (files (src s)) t id with
                 | ROk (v, _), Some v' => v = v'
                 | RErr _, None => True
                 | _, _ => False
                 end).
  { intros x Fx Flx. unfold load_wrapped. rewrite (load_value_plain _ _ _ _ _ P).
    pose proof (load_asset_value_pure x t id Fx) as L. rewrite Flx in L.
    pose proof (load_asset_value_cache x t id) as Cc.
    destruct (load_asset_value x t id) as [[x1 tr] r]. cbn [fst snd] in *. split; [exact Cc|].
    destruct r as [[v tok]|e| |], (p_load (files (src s)) t id); try contradiction; auto. }
  unfold load_and_record. destruct (hot_reloaded t && has_reloader s0).
  - destruct (Core (rec_push s0 (Some [])) F0 Fl) as [Cc L].
    destruct (load_wrapped (load_entry_f f) (load_owned_f f) (rec_push s0 (Some [])) t id) as [[s1 tr] r].
    pose proof (cache_rec_pop s1) as Cp. destruct (rec_pop s1) as [s2 deps]. cbn [fst snd] in *.
    destruct r as [[v tok]|e| |], (p_load (files (src s)) t id) as [v'|]; try contradiction; try exact I.
    subst v'. unfold cache_insert.
    assert (X : cache_get (set_cm s2 (cm s2 ++ [MAddAsset (t, id) deps])) (t, id) = None).
    { unfold cache_get in *. cbn [cache set_cm]. rewrite Cp, Cc. exact C0. }
    rewrite X. reflexivity.
  - destruct (Core s0 F0 Fl) as [Cc L].
    destruct (load_wrapped (load_entry_f f) (load_owned_f f) s0 t id) as [[s1 tr] r]. cbn [fst snd] in *.
    destruct r as [[v tok]|e| |], (p_load (files (src s)) t id) as [v'|]; try contradiction; try exact I.
    subst v'. unfold cache_insert.
    assert (X : cache_get s1 (t, id) = None) by (unfold cache_get in *; rewrite Cc; exact C0).
    rewrite X. reflexivity.
Qed.
