(* The tables of an Embedded source are the index an archive with the same content, listed depth
   first, would get (Ref/Archive.v) -- literally the same tables -- for every directory tree whose
   entries have distinct ids; hence (Proofs/Archive.v) the Embedded source answers like the tree. *)
From Coq Require Import List String NArith Bool Arith Lia.
From AM Require Import Ref.Tree Proofs.Tree Ref.Archive Proofs.Archive Ref.Embed.
Import ListNotations.
Open Scope list_scope.

Lemma walk_dir_unfold stem cs dir st :
  walk (FDir stem cs) dir st =
  walk_list cs (dir ++ [stem])
    ({| ifiles := ifiles (fst st); idirs := push_dir (idirs (fst st)) (Some dir) (dir ++ [stem]) |}, N.succ (snd st)).
Proof.
  cbn [walk]. generalize ({| ifiles := ifiles (fst st); idirs := push_dir (idirs (fst st)) (Some dir) (dir ++ [stem]) |}, N.succ (snd st)).
  induction cs as [|c r IH]; intros s; cbn [walk_list]; [reflexivity|apply IH].
Qed.
Lemma members_dir_unfold stem cs dir :
  members_of (FDir stem cs) dir = MDir (dir ++ [stem]) :: members_of_list cs (dir ++ [stem]).
Proof. cbn [members_of]. f_equal. induction cs as [|c r IH]; cbn [members_of_list]; [reflexivity|now rewrite IH]. Qed.

Definition dir_ids_of (ms : list member) : list id :=
  flat_map (fun m => match m with MDir i => [i] | MFile _ _ => [] end) ms.
Lemma dir_ids_app a b : dir_ids_of (a ++ b) = dir_ids_of a ++ dir_ids_of b.
Proof. unfold dir_ids_of. apply flat_map_app. Qed.

Lemma fold_register_app ms1 ms2 c ix :
  fold_left register (enumerate c (ms1 ++ ms2)) ix =
  fold_left register (enumerate (c + N.of_nat (List.length ms1)) ms2) (fold_left register (enumerate c ms1) ix).
Proof.
  revert c ix. induction ms1 as [|m r IH]; intros c ix; cbn [app enumerate fold_left List.length].
  - now rewrite N.add_0_r.
  - rewrite IH. f_equal. f_equal. lia.
Qed.

Lemma removelast_snoc {A} (l : list A) x : removelast (l ++ [x]) = l.
Proof. apply removelast_last. Qed.

(* registering a directory whose parent is there and which is new = Content::push_dir *)
Lemma register_dir_present n m d : has m d = true -> register_dir n m d = m.
Proof. intros H. destruct n; cbn [register_dir]; now rewrite H. Qed.

Lemma reg_dir_fresh m dir stem :
  has m dir = true -> has m (dir ++ [stem]) = false ->
  reg_dir m (dir ++ [stem]) = push_dir m (Some dir) (dir ++ [stem]).
Proof.
  intros Hp Hf. unfold reg_dir, push_dir. rewrite app_length. cbn [List.length]. rewrite Nat.add_1_r.
  cbn [register_dir]. rewrite Hf.
  assert (P : parent (dir ++ [stem]) = Some dir).
  { unfold parent. destruct (dir ++ [stem]) as [|a l] eqn:E; [destruct dir; discriminate|]. now rewrite <- E, removelast_snoc. }
  rewrite P.
  assert (Hp1 : has ((dir ++ [stem], []) :: m) dir = true) by (rewrite has_cons, Hp; apply orb_true_r).
  rewrite (register_dir_present _ _ _ Hp1). cbn [push].
  destruct (id_eqb (dir ++ [stem]) dir) eqn:X; [|reflexivity].
  apply id_eqb_eq in X. apply (f_equal (@List.length string)) in X. rewrite app_length in X. cbn in X. lia.
Qed.
Lemma reg_dir_present m d : has m d = true -> reg_dir m d = m.
Proof. intros H. unfold reg_dir. destruct (List.length d); cbn [register_dir]; now rewrite H. Qed.

(* keys after a walk: what was there, plus the directories visited *)
Lemma has_push_dir m p i k : has (push_dir m p i) k = id_eqb i k || has m k.
Proof. unfold push_dir. rewrite has_cons. destruct p; [now rewrite has_push|reflexivity]. Qed.

Lemma nodup_app_l {A} (a b : list A) : NoDup (a ++ b) -> NoDup a.
Proof. induction a as [|x r IH]; cbn; intros H; [constructor|]. inversion H as [|? ? Hn Nr]; subst. constructor; [intros X; apply Hn, in_or_app; now left|now apply IH]. Qed.
Lemma nodup_app_r {A} (a b : list A) : NoDup (a ++ b) -> NoDup b.
Proof. induction a as [|x r IH]; cbn; intros H; [exact H|]. inversion H; subst. now apply IH. Qed.

Fixpoint size (n : fsnode) : nat :=
  match n with FFile _ _ => 1 | FDir _ cs => S (fold_right (fun c a => size c + a) 0 cs) end.

(* the main lemma, by induction on the size of the tree *)
Lemma walk_is_register : forall k n dir ix c,
  size n <= k ->
  has (idirs ix) dir = true ->
  (forall i, In i (dir_ids_of (members_of n dir)) -> has (idirs ix) i = false) ->
  NoDup (dir_ids_of (members_of n dir)) ->
  walk n dir (ix, c) =
  (fold_left register (enumerate c (members_of n dir)) ix, c + N.of_nat (List.length (members_of n dir)))%N
  /\ (forall j, has (idirs (fst (walk n dir (ix, c)))) j = existsb (fun i => id_eqb i j) (dir_ids_of (members_of n dir)) || has (idirs ix) j).
Proof.
  induction k as [|k IH]; intros n dir ix c Hs Hp Hf Nd; [destruct n; cbn in Hs; lia|].
  destruct n as [stem x|stem cs].
  - (* a file *)
    cbn [walk members_of enumerate fold_left fst snd List.length dir_ids_of flat_map app existsb orb].
    split.
    + f_equal; [|lia]. unfold register, push_file. cbn [snd fst]. rewrite removelast_snoc, (reg_dir_present _ _ Hp). reflexivity.
    + intros j. unfold push_file. cbn [idirs]. apply has_push.
  - (* a directory *)
    rewrite walk_dir_unfold, members_dir_unfold in *. cbn [fst snd].
    cbn [dir_ids_of flat_map app] in Hf, Nd. fold (dir_ids_of (members_of_list cs (dir ++ [stem]))) in Hf, Nd.
    assert (Hfresh : has (idirs ix) (dir ++ [stem]) = false) by (apply Hf; now left).
    cbn [enumerate fold_left]. unfold register at 2. cbn [snd fst]. rewrite (reg_dir_fresh _ _ _ Hp Hfresh).
    set (this := dir ++ [stem]) in *.
    set (ix1 := {| ifiles := ifiles ix; idirs := push_dir (idirs ix) (Some dir) this |}).
    (* the children, one after the other *)
    assert (L : forall l ixa ca,
               fold_right (fun c a => size c + a) 0 l <= k ->
               has (idirs ixa) this = true ->
               (forall i, In i (dir_ids_of (members_of_list l this)) -> has (idirs ixa) i = false) ->
               NoDup (dir_ids_of (members_of_list l this)) ->
               walk_list l this (ixa, ca) =
               (fold_left register (enumerate ca (members_of_list l this)) ixa,
                ca + N.of_nat (List.length (members_of_list l this)))%N
               /\ (forall j, has (idirs (fst (walk_list l this (ixa, ca)))) j
                             = existsb (fun i => id_eqb i j) (dir_ids_of (members_of_list l this)) || has (idirs ixa) j)).
    { induction l as [|ch r IHl]; intros ixa ca Hsz Hpa Hfa Nda.
      - cbn. split; [f_equal; lia|reflexivity].
      - cbn [walk_list members_of_list fold_right] in *. rewrite dir_ids_app in Hfa, Nda.
        assert (Sc : size ch <= k) by lia.
        destruct (IH ch this ixa ca Sc Hpa) as [E1 K1].
        { intros i Hi. apply Hfa, in_or_app. now left. }
        { eapply nodup_app_l. exact Nda. }
        rewrite E1. rewrite E1 in K1. cbn [fst] in K1.
        set (ixb := fold_left register (enumerate ca (members_of ch this)) ixa) in *.
        destruct (IHl ixb (ca + N.of_nat (List.length (members_of ch this)))%N) as [E2 K2].
        { lia. }
        { rewrite K1, Hpa. apply orb_true_r. }
        { intros i Hi. rewrite K1. rewrite (Hfa i) by (apply in_or_app; now right). rewrite orb_false_r.
          apply not_true_is_false. intros X. apply existsb_exists in X. destruct X as (i' & Hi' & E). apply id_eqb_eq in E. subst i'.
          (* i in both halves contradicts NoDup *)
          clear -Nda Hi Hi'. induction (dir_ids_of (members_of ch this)) as [|a l IH]; [destruct Hi'|].
          cbn in Nda. inversion Nda as [|? ? Hn Nr]; subst. destruct Hi' as [->|Hi'].
          - apply Hn, in_or_app. now right.
          - now apply IH. }
        { eapply nodup_app_r. exact Nda. }
        rewrite E2. split.
        + rewrite fold_register_app, app_length. f_equal. lia.
        + intros j. rewrite E2 in K2. cbn [fst] in K2. rewrite K2, K1, dir_ids_app, existsb_app.
          destruct (existsb (fun i => id_eqb i j) (dir_ids_of (members_of ch this))),
                   (existsb (fun i => id_eqb i j) (dir_ids_of (members_of_list r this))); reflexivity. }
    inversion Nd as [|? ? Hn Nr]; subst.
    destruct (L cs ix1 (N.succ c)) as [E K].
    + cbn [size] in Hs. lia.
    + unfold ix1. cbn [idirs]. rewrite has_push_dir, id_eqb_refl. reflexivity.
    + intros i Hi. unfold ix1. cbn [idirs]. rewrite has_push_dir. rewrite (Hf i) by (now right). rewrite orb_false_r.
      apply not_true_is_false. intros X. apply id_eqb_eq in X. subst i. contradiction.
    + exact Nr.
    + rewrite E. split.
      * f_equal. cbn [List.length]. lia.
      * intros j. rewrite E in K. cbn [fst] in K. rewrite K. unfold ix1. cbn [idirs]. rewrite has_push_dir.
        change (dir_ids_of (MDir this :: members_of_list cs this)) with (this :: dir_ids_of (members_of_list cs this)).
        cbn [existsb].
        destruct (id_eqb this j), (existsb (fun i => id_eqb i j) (dir_ids_of (members_of_list cs this))); reflexivity.
Qed.

Lemma walk_list_is_register : forall l dir ix c,
  has (idirs ix) dir = true ->
  (forall i, In i (dir_ids_of (members_of_list l dir)) -> has (idirs ix) i = false) ->
  NoDup (dir_ids_of (members_of_list l dir)) ->
  walk_list l dir (ix, c) =
  (fold_left register (enumerate c (members_of_list l dir)) ix, c + N.of_nat (List.length (members_of_list l dir)))%N
  /\ (forall j, has (idirs (fst (walk_list l dir (ix, c)))) j
                = existsb (fun i => id_eqb i j) (dir_ids_of (members_of_list l dir)) || has (idirs ix) j).
Proof.
  induction l as [|ch r IHl]; intros dir ixa ca Hpa Hfa Nda.
  - cbn. split; [f_equal; lia|reflexivity].
  - cbn [walk_list members_of_list] in *. rewrite dir_ids_app in Hfa, Nda.
    destruct (walk_is_register (size ch) ch dir ixa ca (le_n _) Hpa) as [E1 K1].
    { intros i Hi. apply Hfa, in_or_app. now left. }
    { eapply nodup_app_l. exact Nda. }
    rewrite E1. rewrite E1 in K1. cbn [fst] in K1.
    set (ixb := fold_left register (enumerate ca (members_of ch dir)) ixa) in *.
    destruct (IHl dir ixb (ca + N.of_nat (List.length (members_of ch dir)))%N) as [E2 K2].
    { rewrite K1, Hpa. apply orb_true_r. }
    { intros i Hi. rewrite K1. rewrite (Hfa i) by (apply in_or_app; now right). rewrite orb_false_r.
      apply not_true_is_false. intros X. apply existsb_exists in X. destruct X as (i' & Hi' & E). apply id_eqb_eq in E. subst i'.
      clear -Nda Hi Hi'. induction (dir_ids_of (members_of ch dir)) as [|a l IH]; [destruct Hi'|].
      cbn in Nda. inversion Nda as [|? ? Hn Nr]; subst. destruct Hi' as [->|Hi'].
      - apply Hn, in_or_app. now right.
      - now apply IH. }
    { eapply nodup_app_r. exact Nda. }
    rewrite E2. split.
    + rewrite fold_register_app, app_length. f_equal. lia.
    + intros j. rewrite E2 in K2. cbn [fst] in K2. rewrite K2, K1, dir_ids_app, existsb_app.
      destruct (existsb (fun i => id_eqb i j) (dir_ids_of (members_of ch dir))),
               (existsb (fun i => id_eqb i j) (dir_ids_of (members_of_list r dir))); reflexivity.
Qed.

(* every directory id below [dir] is longer than [dir]: never the root *)
Lemma dir_ids_longer : forall k n dir i, size n <= k -> In i (dir_ids_of (members_of n dir)) -> List.length dir < List.length i.
Proof.
  induction k as [|k IH]; intros n dir i Hs Hi; [destruct n; cbn in Hs; lia|].
  destruct n as [stem x|stem cs]; [destruct Hi|].
  rewrite members_dir_unfold in Hi. cbn [dir_ids_of flat_map app] in Hi. fold (dir_ids_of (members_of_list cs (dir ++ [stem]))) in Hi.
  destruct Hi as [<-|Hi]; [rewrite app_length; cbn; lia|].
  cbn [size] in Hs. revert Hs Hi. induction cs as [|c r IHc]; intros Hs Hi; [destruct Hi|].
  cbn [members_of_list fold_right] in *. rewrite dir_ids_app in Hi. apply in_app_or in Hi. destruct Hi as [Hi|Hi].
  - assert (Sc : size c <= k) by lia. pose proof (IH c (dir ++ [stem]) i Sc Hi) as L. rewrite app_length in L. cbn in L. lia.
  - apply IHc; [lia|exact Hi].
Qed.
Lemma dir_ids_list_nonroot l i : In i (dir_ids_of (members_of_list l [])) -> i <> [].
Proof.
  induction l as [|c r IH]; cbn [members_of_list]; [intros []|]. rewrite dir_ids_app. intros H. apply in_app_or in H.
  destruct H as [H|H]; [|now apply IH]. apply (dir_ids_longer (size c) c [] i (le_n _)) in H. intros ->. cbn in H. lia.
Qed.

Lemma nodup_dir_ids ms : NoDup ms -> NoDup (dir_ids_of ms).
Proof.
  induction ms as [|m r IH]; intros N; [constructor|]. inversion N as [|? ? Hn Nr]; subst. cbn [dir_ids_of flat_map].
  destruct m as [i x|i]; cbn [app]; [now apply IH|]. constructor; [|now apply IH].
  intros X. apply Hn. clear -X. induction r as [|m r IH]; [destruct X|]. cbn [dir_ids_of flat_map] in X.
  destruct m as [j y|j]; cbn [app] in X; [right; now apply IH|]. destruct X as [->|X]; [now left|right; now apply IH].
Qed.

(* the tables the macro builds ARE the index of the archive that lists the same directory depth first *)
Theorem embed_is_an_archive root :
  NoDup (members_of_list root []) -> embed_build root = build (members_of_list root []).
Proof.
  intros N. unfold embed_build, build.
  destruct (walk_list_is_register root [] {| ifiles := []; idirs := push_dir [] None [] |} 0%N) as [E _].
  - reflexivity.
  - intros i Hi. apply dir_ids_list_nonroot in Hi. cbn. destruct i; [congruence|reflexivity].
  - now apply nodup_dir_ids.
  - rewrite E. reflexivity.
Qed.

Lemma file_ids_nonempty : forall k n dir i x, size n <= k -> In (MFile i x) (members_of n dir) -> i <> [].
Proof.
  induction k as [|k IH]; intros n dir i x Hs Hi; [destruct n; cbn in Hs; lia|].
  destruct n as [stem y|stem cs].
  - destruct Hi as [H|[]]. inversion H. subst. destruct dir; discriminate.
  - rewrite members_dir_unfold in Hi. destruct Hi as [H|Hi]; [discriminate|].
    cbn [size] in Hs. revert Hs Hi. induction cs as [|c r IHc]; intros Hs Hi; [destruct Hi|].
    cbn [members_of_list fold_right] in *. apply in_app_or in Hi. destruct Hi as [Hi|Hi].
    + eapply (IH c); [lia|exact Hi].
    + apply IHc; [lia|exact Hi].
Qed.
Lemma file_ids_list_nonempty l dir i x : In (MFile i x) (members_of_list l dir) -> i <> [].
Proof.
  induction l as [|c r IH]; cbn [members_of_list]; [intros []|]. intros H. apply in_app_or in H.
  destruct H as [H|H]; [eapply (file_ids_nonempty (size c) c); [apply le_n|exact H]|now apply IH].
Qed.

(* hence the Embedded source answers like the tree, for every directory tree with distinct entries *)
Theorem embedded_answers_like_the_tree bytes root :
  NoDup (members_of_list root []) ->
  let ix := embed_build root in let t := tree_of bytes (members_of_list root []) in
  (forall d, idx_exists ix (DDir d) = is_dir t d) /\
  (forall i x, idx_exists ix (DFile i x) = spec_exists t (DFile i x)) /\
  (forall d, match idx_read_dir ix d, spec_read_dir t d with
             | Some l, Some l' => NoDup l /\ forall e, In e l <-> In e l'
             | None, None => True
             | _, _ => False
             end).
Proof.
  intros N. cbv zeta. rewrite (embed_is_an_archive root N).
  apply index_answers_like_the_tree; [exact N|]. intros i x H. eapply file_ids_list_nonempty. exact H.
Qed.
