From Coq Require Import List NArith ZArith Bool Lia.
From AM Require Import Ref.Utf8 Proofs.Utf8 Ref.Loaders.
Import ListNotations.

Lemma drop_ws_app_ws a l : forallb white_space a = true -> drop_ws (a ++ l) = drop_ws l.
Proof.
  induction a as [|c r IH]; cbn [app drop_ws forallb]; [reflexivity|].
  intros H. apply andb_true_iff in H. destruct H as [Hc Hr]. rewrite Hc. now apply IH.
Qed.
Lemma drop_ws_all cs : forallb white_space cs = true -> drop_ws cs = [].
Proof. intros H. rewrite <- (app_nil_r cs). now rewrite drop_ws_app_ws. Qed.
Lemma drop_ws_nil cs : drop_ws cs = [] -> forallb white_space cs = true.
Proof.
  induction cs as [|c r IH]; cbn [drop_ws forallb]; [reflexivity|].
  destruct (white_space c); [exact IH|discriminate].
Qed.
Lemma drop_ws_app_keep cs b : drop_ws cs <> [] -> drop_ws (cs ++ b) = drop_ws cs ++ b.
Proof.
  induction cs as [|c r IH]; cbn [app drop_ws]; [congruence|].
  destruct (white_space c); [exact IH|reflexivity].
Qed.
Lemma forallb_rev {A} (p : A -> bool) l : forallb p (rev l) = forallb p l.
Proof.
  induction l as [|x r IH]; [reflexivity|]. cbn [rev forallb]. rewrite forallb_app, IH. cbn. rewrite andb_true_r. apply andb_comm.
Qed.

(* whitespace around the content never matters *)
Theorem trim_surrounding a cs b :
  forallb white_space a = true -> forallb white_space b = true -> trim (a ++ cs ++ b) = trim cs.
Proof.
  intros Ha Hb. unfold trim. rewrite (drop_ws_app_ws a _ Ha).
  destruct (drop_ws cs) as [|x t] eqn:E.
  - apply drop_ws_nil in E. rewrite (drop_ws_all (cs ++ b)); [reflexivity|]. rewrite forallb_app. now rewrite E, Hb.
  - rewrite drop_ws_app_keep by (rewrite E; discriminate). rewrite E, rev_app_distr.
    rewrite drop_ws_app_ws; [reflexivity|]. now rewrite forallb_rev.
Qed.

(* what is left has no whitespace at either end *)
Lemma drop_ws_head cs c r : drop_ws cs = c :: r -> white_space c = false.
Proof.
  induction cs as [|x t IH]; cbn [drop_ws]; [discriminate|].
  destruct (white_space x) eqn:E; [exact IH|]. intros H. inversion H. now subst.
Qed.
Theorem trim_ends cs : match trim cs with
                       | [] => True
                       | c :: _ => white_space c = false /\ white_space (last (trim cs) 0%N) = false
                       end.
Proof.
  unfold trim. destruct (drop_ws (rev (drop_ws cs))) as [|y u] eqn:E; [exact I|].
  pose proof (drop_ws_head _ _ _ E) as Hy.
  (* rev (y :: u) = rev u ++ [y]: its last element is y, its first is the first of drop_ws cs *)
  assert (L : last (rev (y :: u)) 0%N = y) by (cbn [rev]; apply last_last).
  destruct (rev (y :: u)) as [|c r] eqn:R; [exact I|]. rewrite L. split; [|exact Hy].
  (* c is the head of the reversed reversed tail of drop_ws cs *)
  assert (S : exists pre, rev (drop_ws cs) = pre ++ y :: u).
  { clear -E. induction (rev (drop_ws cs)) as [|x t IH]; cbn [drop_ws] in E; [discriminate|].
    destruct (white_space x); [destruct (IH E) as [p Hp]; exists (x :: p); now rewrite Hp|exists []; exact E]. }
  destruct S as [pre S]. apply (f_equal (@rev N)) in S. rewrite rev_involutive, rev_app_distr, R in S.
  cbn [app] in S. eapply drop_ws_head. exact S.
Qed.

Theorem parse_loader_ignores_surrounding_whitespace a cs b :
  forallb scalar (a ++ cs ++ b) = true ->
  forallb white_space a = true -> forallb white_space b = true ->
  parse_loader (encode (a ++ cs ++ b)) = parse_loader (encode cs).
Proof.
  intros Hs Ha Hb. unfold parse_loader. rewrite (decode_encode _ Hs).
  rewrite !forallb_app in Hs. apply andb_true_iff in Hs. destruct Hs as [_ Hs].
  apply andb_true_iff in Hs. destruct Hs as [Hc _]. rewrite (decode_encode _ Hc).
  now rewrite trim_surrounding.
Qed.

Theorem parse_loader_rejects_ill_formed_utf8 bytes : valid bytes = false -> parse_loader bytes = None.
Proof. unfold valid, parse_loader. destruct (decode bytes); [discriminate|reflexivity]. Qed.

Theorem parse_i64_in_range cs z : parse_i64 cs = Some z -> (i64_min <= z <= i64_max)%Z.
Proof.
  unfold parse_i64. destruct cs as [|c r]; [discriminate|].
  destruct (if ((c =? 45) || (c =? 43))%N then r else c :: r) as [|d ds]; [discriminate|].
  destruct (digits (d :: ds) 0) as [v|]; [|discriminate].
  destruct (in_i64 (if (c =? 45)%N then (- v)%Z else v)) eqn:R; [|discriminate].
  intros H. inversion H. subst. unfold in_i64 in R. apply andb_true_iff in R. lia.
Qed.

(* nothing but an optional sign and ASCII digits is accepted: whitespace inside is refused *)
Lemma digits_all cs : forall acc v, digits cs acc = Some v -> forallb (fun c => (48 <=? c)%N && (c <=? 57)%N) cs = true.
Proof.
  induction cs as [|c r IH]; intros acc v H; [reflexivity|]. cbn [digits forallb] in *.
  destruct ((48 <=? c)%N && (c <=? 57)%N); [|discriminate]. cbn. eapply IH; eauto.
Qed.

Theorem string_loader_keeps_the_bytes bytes s : string_loader bytes = Some s -> s = bytes /\ valid bytes = true.
Proof. unfold string_loader. destruct (valid bytes); [intros H; inversion H; auto|discriminate]. Qed.
