(* SharedBytes machine: the allocator ledger is exactly the blocks of the objects that still have an
   owner (or a pending drop_slow), for every sequence of steps; no double free, no wrong layout, no
   use after free; everything is released once everybody let go. *)
From Coq Require Import List NArith Bool Lia.
From AM Require Import Ref.Bytes.
Import ListNotations.
Open Scope N_scope.

Definition alive (o : obj) : bool := (0 <? o_owners o) || o_pending o.
Definition hdr_layout (o : obj) : layout :=
  if o_cap o =? 0 then layout_inline (len (o_bytes o)) else layout_header.
Definition buf_blocks (o : obj) : list (N * layout) :=
  match o_buf o with Some b => [(b, layout_vec (o_cap o))] | None => [] end.
Definition blocks_of (o : obj) : list (N * layout) :=
  if alive o then (o_hdr o, hdr_layout o) :: buf_blocks o else [].
Definition ids (o : obj) : list N := o_hdr o :: match o_buf o with Some b => [b] | None => [] end.

Definition ok_obj (o : obj) : Prop :=
  o_count o = o_owners o /\ (o_pending o = true -> o_owners o = 0) /\ (o_cap o = 0 <-> o_buf o = None).

Record Inv (s : st) : Prop := {
  i_errs : errs s = [];
  i_live : live s = flat_map blocks_of (objs s);
  i_objs : Forall ok_obj (objs s);
  i_ids : NoDup (flat_map ids (objs s));
  i_next : forall id, In id (flat_map ids (objs s)) -> id < next s;
  i_count : N.of_nat (List.length (live s)) + N.of_nat (List.length (freed s)) = next s;
}.

Lemma inv_init : Inv init.
Proof. constructor; cbn; try constructor; try reflexivity. intros id []. Qed.

(* ---- lists of blocks ---- *)
Lemma find_block_app_notin id A B :
  ~ In id (map fst A) -> find_block id (A ++ B) = find_block id B.
Proof.
  induction A as [|[i y] r IH]; cbn; [reflexivity|]. intros NI.
  destruct (N.eqb_spec i id); [subst; tauto|]. apply IH. tauto.
Qed.
Lemma remove_block_app_notin id A B :
  ~ In id (map fst A) -> remove_block id (A ++ B) = A ++ remove_block id B.
Proof.
  induction A as [|[i y] r IH]; cbn; [reflexivity|]. intros NI.
  destruct (N.eqb_spec i id); [subst; tauto|]. f_equal. apply IH. tauto.
Qed.
Lemma find_block_head id l B : find_block id ((id, l) :: B) = Some l.
Proof. cbn. now rewrite N.eqb_refl. Qed.
Lemma remove_block_head id l B : remove_block id ((id, l) :: B) = B.
Proof. cbn. now rewrite N.eqb_refl. Qed.

Lemma blocks_ids o : incl (map fst (blocks_of o)) (ids o).
Proof.
  unfold blocks_of, ids, buf_blocks. destruct (alive o); [|intros x []].
  destruct (o_buf o); cbn; intros x H; exact H.
Qed.
Lemma blocks_ids_list os : incl (map fst (flat_map blocks_of os)) (flat_map ids os).
Proof.
  induction os as [|o r IH]; cbn [flat_map map]; [intros x []|]. rewrite map_app.
  apply incl_app; [apply incl_appl, blocks_ids|apply incl_appr, IH].
Qed.

(* ---- objects ---- *)
Lemma get_obj_split h os o :
  get_obj h os = Some o ->
  exists pre post, os = pre ++ o :: post /\ o_hdr o = h /\
    forall o', o_hdr o' = h -> put_obj o' os = pre ++ o' :: post.
Proof.
  induction os as [|x r IH]; cbn; [discriminate|].
  destruct (N.eqb_spec (o_hdr x) h) as [E|E].
  - intros Eq; inversion Eq; subst x. exists [], r. repeat split; auto.
    intros o' H'. cbn. rewrite H', E. now rewrite N.eqb_refl.
  - intros G. destruct (IH G) as (pre & post & -> & Hh & P). exists (x :: pre), post. repeat split; auto.
    intros o' H'. cbn. rewrite H'. destruct (N.eqb_spec (o_hdr x) h); [contradiction|]. now rewrite P.
Qed.

Lemma nodup_app_r {A} (a b : list A) : NoDup (a ++ b) -> NoDup b.
Proof. induction a as [|z a IH]; cbn; auto. intros H; inversion H; auto. Qed.
Lemma nodup_app_disj {A} (a b : list A) : NoDup (a ++ b) -> forall y, In y a -> ~ In y b.
Proof.
  induction a as [|z a IH]; cbn; [intros _ y []|]. intros H y Hy. inversion H; subst.
  destruct Hy as [->|Hy]; [intros Hb; apply H2; apply in_or_app; now right|now apply IH].
Qed.
Lemma nodup_mid {A} (a b : list A) (x : list A) :
  NoDup (a ++ x ++ b) -> forall y, In y x -> ~ In y a /\ ~ In y b.
Proof.
  intros ND y Hy. split.
  - intros Ha. apply (nodup_app_disj _ _ ND y Ha). apply in_or_app; now left.
  - apply nodup_app_r in ND. now apply (nodup_app_disj _ _ ND).
Qed.

(* the state after replacing object o (in the middle) by o' with the same identity *)
Section Replace.
  Variables (s : st) (pre post : list obj) (o o' : obj).
  Hypothesis HI : Inv s.
  Hypothesis Hos : objs s = pre ++ o :: post.
  Hypothesis Hid : ids o' = ids o.

  Lemma ids_replace : flat_map ids (pre ++ o' :: post) = flat_map ids (objs s).
  Proof. rewrite Hos, !flat_map_app. cbn [flat_map]. now rewrite Hid. Qed.

  Lemma hdr_notin_pre : ~ In (o_hdr o) (map fst (flat_map blocks_of pre)).
  Proof.
    pose proof (i_ids s HI) as ND. rewrite Hos, flat_map_app in ND. cbn [flat_map] in ND.
    intros Hin. apply blocks_ids_list in Hin.
    destruct (nodup_mid _ _ _ ND (o_hdr o)) as [N1 _]; [now left|]. exact (N1 Hin).
  Qed.

  Lemma buf_facts b : o_buf o = Some b ->
    ~ In b (map fst (flat_map blocks_of pre)) /\ b <> o_hdr o.
  Proof.
    intros Hb. pose proof (i_ids s HI) as ND. rewrite Hos, flat_map_app in ND. cbn [flat_map] in ND.
    split.
    - intros Hin. apply blocks_ids_list in Hin.
      destruct (nodup_mid _ _ _ ND b) as [N1 _]; [unfold ids; rewrite Hb; right; now left|]. exact (N1 Hin).
    - apply nodup_app_r in ND. unfold ids in ND. rewrite Hb in ND. cbn [app] in ND.
      inversion ND as [|x l NI _]; subst. intros ->. apply NI. now left.
  Qed.
End Replace.

Lemma ok_replace pre post o o' :
  Forall ok_obj (pre ++ o :: post) -> ok_obj o' -> Forall ok_obj (pre ++ o' :: post).
Proof.
  intros F K. apply Forall_app in F as [F1 F2]. inversion F2; subst.
  apply Forall_app. split; [exact F1|constructor; assumption].
Qed.

Lemma ok_of pre post o : Forall ok_obj (pre ++ o :: post) -> ok_obj o.
Proof. intros F. apply Forall_app in F as [_ F2]. now inversion F2. Qed.

Lemma alive_found s pre post o :
  Inv s -> objs s = pre ++ o :: post -> alive o = true ->
  find_block (o_hdr o) (live s) = Some (hdr_layout o).
Proof.
  intros HI Hos Al. rewrite (i_live s HI), Hos, flat_map_app.
  rewrite find_block_app_notin by (eapply hdr_notin_pre; eauto).
  cbn [flat_map]. unfold blocks_of. rewrite Al. cbn [app]. apply find_block_head.
Qed.

Lemma inv_replace_same s pre post o o' :
  Inv s -> objs s = pre ++ o :: post -> ids o' = ids o -> blocks_of o' = blocks_of o -> ok_obj o' ->
  Inv (set_objs s (pre ++ o' :: post)).
Proof.
  intros HI Hos Hid Hb Hok. constructor; cbn [set_objs errs live objs next freed].
  - apply (i_errs s HI).
  - rewrite (i_live s HI), Hos, !flat_map_app. cbn [flat_map]. now rewrite Hb.
  - eapply ok_replace; [rewrite <- Hos; apply (i_objs s HI)|exact Hok].
  - rewrite (ids_replace s pre post o o' Hos Hid). apply (i_ids s HI).
  - rewrite (ids_replace s pre post o o' Hos Hid). apply (i_next s HI).
  - apply (i_count s HI).
Qed.

Lemma length_remove_found id l y :
  find_block id l = Some y -> S (List.length (remove_block id l)) = List.length l.
Proof.
  induction l as [|[i z] r IH]; cbn; [discriminate|].
  destruct (i =? id); [reflexivity|]. intros F. cbn. now rewrite IH.
Qed.

Lemma dealloc_found s id l y :
  find_block id (live s) = Some y -> layout_eqb y l = true ->
  dealloc s id l = {| live := remove_block id (live s); next := next s; objs := objs s; errs := errs s;
                      freed := (id, l) :: freed s |}.
Proof. intros F E. unfold dealloc. now rewrite F, E. Qed.

Lemma layout_eqb_refl l : layout_eqb l l = true.
Proof. unfold layout_eqb. now rewrite !N.eqb_refl. Qed.

Theorem inv_step s x : Inv s -> Inv (fst (step s x)).
Proof.
  intros HI. unfold step. destruct (enabled s x) eqn:En; cbn [negb]; [|exact HI].
  destruct x as [bs|bs cap|h|h|h|h]; cbn [enabled] in En.
  - (* from_slice *)
    cbn [alloc fst set_objs live next objs errs freed].
    constructor; cbn [set_objs errs live objs next freed flat_map].
    + apply (i_errs s HI).
    + unfold blocks_of at 1, alive, hdr_layout, buf_blocks. cbn. now rewrite (i_live s HI).
    + constructor; [|apply (i_objs s HI)]. repeat split; cbn; try discriminate; auto.
    + cbn [ids o_hdr o_buf app]. constructor; [|apply (i_ids s HI)].
      intros Hin. apply (i_next s HI) in Hin. lia.
    + cbn [ids o_hdr o_buf app]. intros id [<-|Hin]; [lia|]. apply (i_next s HI) in Hin. lia.
    + cbn [List.length]. pose proof (i_count s HI). lia.
  - (* from_vec *)
    apply N.leb_le in En.
    destruct (N.eqb_spec cap 0) as [C0|C0].
    + assert (L0 : len bs = 0) by lia.
      cbn [alloc fst set_objs live next objs errs freed].
      constructor; cbn [set_objs errs live objs next freed flat_map].
      * apply (i_errs s HI).
      * unfold blocks_of at 1, alive, hdr_layout, buf_blocks. cbn [o_owners o_pending o_cap o_bytes o_buf o_hdr].
        subst cap. cbn [N.ltb N.compare orb N.eqb app]. rewrite L0. now rewrite (i_live s HI).
      * constructor; [|apply (i_objs s HI)]. repeat split; cbn; try discriminate; auto.
      * cbn [ids o_hdr o_buf app]. constructor; [|apply (i_ids s HI)].
        intros Hin. apply (i_next s HI) in Hin. lia.
      * cbn [ids o_hdr o_buf app]. intros id [<-|Hin]; [lia|]. apply (i_next s HI) in Hin. lia.
      * cbn [List.length]. pose proof (i_count s HI). lia.
    + cbn [alloc fst set_objs live next objs errs freed].
      constructor; cbn [set_objs errs live objs next freed flat_map].
      * apply (i_errs s HI).
      * unfold blocks_of at 1, alive, hdr_layout, buf_blocks. cbn [o_owners o_pending o_cap o_bytes o_buf o_hdr].
        destruct (N.eqb_spec cap 0); [contradiction|]. cbn [N.ltb N.compare orb app]. now rewrite (i_live s HI).
      * constructor; [|apply (i_objs s HI)]. repeat split; cbn; try discriminate; auto. intros ->; contradiction.
      * cbn [ids o_hdr o_buf app]. constructor; [|constructor; [|apply (i_ids s HI)]].
        -- intros [E|Hin]; [lia|]. apply (i_next s HI) in Hin. lia.
        -- intros Hin. apply (i_next s HI) in Hin. lia.
      * cbn [ids o_hdr o_buf app]. intros id [<-|[<-|Hin]]; [lia|lia|]. apply (i_next s HI) in Hin. lia.
      * cbn [List.length]. pose proof (i_count s HI). lia.
  - (* clone *)
    destruct (get_obj h (objs s)) as [o|] eqn:G; [|discriminate].
    destruct (get_obj_split _ _ _ G) as (pre & post & Hos & Hh & P).
    assert (Al : alive o = true) by (unfold alive; now rewrite En).
    subst h. rewrite (alive_found s pre post o HI Hos Al). cbn [fst]. rewrite P by reflexivity.
    apply (inv_replace_same s pre post o); auto.
    + unfold blocks_of, alive, hdr_layout, buf_blocks; cbn [o_owners o_pending o_cap o_bytes o_buf o_hdr].
      fold (alive o). rewrite Al. apply N.ltb_lt in En. destruct (N.ltb_spec 0 (o_owners o + 1)); [reflexivity|lia].
    + pose proof (ok_of pre post o) as K. rewrite <- Hos in K. destruct (K (i_objs s HI)) as (K1 & K2 & K3).
      repeat split; cbn [o_count o_owners o_pending o_cap o_buf]; try apply K3; [lia|].
      intros Pd. apply K2 in Pd. apply N.ltb_lt in En. lia.
  - (* drop: the decrement *)
    destruct (get_obj h (objs s)) as [o|] eqn:G; [|discriminate].
    destruct (get_obj_split _ _ _ G) as (pre & post & Hos & Hh & P).
    assert (Al : alive o = true) by (unfold alive; now rewrite En).
    subst h. rewrite (alive_found s pre post o HI Hos Al). cbn [fst]. rewrite P by reflexivity.
    pose proof (ok_of pre post o) as K. rewrite <- Hos in K. destruct (K (i_objs s HI)) as (K1 & K2 & K3).
    apply N.ltb_lt in En.
    assert (Pf : o_pending o = false) by (destruct (o_pending o); [specialize (K2 eq_refl); lia|reflexivity]).
    apply (inv_replace_same s pre post o); auto.
    + unfold blocks_of, alive, hdr_layout, buf_blocks; cbn [o_owners o_pending o_cap o_bytes o_buf o_hdr].
      rewrite Pf. cbn [orb]. destruct (N.ltb_spec 0 (o_owners o)); [|lia]. cbn [orb].
      destruct (N.eqb_spec (o_count o) 1); destruct (N.ltb_spec 0 (o_owners o - 1)); cbn [orb]; try reflexivity; lia.
    + repeat split; cbn [o_count o_owners o_pending o_cap o_buf]; try apply K3; [lia|].
      rewrite Pf. cbn [orb]. intros E1. apply N.eqb_eq in E1. lia.
  - (* drop_slow *)
    destruct (get_obj h (objs s)) as [o|] eqn:G; [|discriminate].
    destruct (get_obj_split _ _ _ G) as (pre & post & Hos & Hh & P).
    assert (Al : alive o = true) by (unfold alive; rewrite En; apply orb_true_r).
    pose proof (ok_of pre post o) as K. rewrite <- Hos in K. destruct (K (i_objs s HI)) as (K1 & K2 & K3).
    specialize (K2 En). subst h.
    pose proof (hdr_notin_pre s pre post o HI Hos) as NH.
    assert (Live : live s = flat_map blocks_of pre ++ ((o_hdr o, hdr_layout o) :: buf_blocks o) ++ flat_map blocks_of post).
    { rewrite (i_live s HI), Hos, flat_map_app. cbn [flat_map]. unfold blocks_of at 2. now rewrite Al. }
    set (o' := {| o_hdr := o_hdr o; o_buf := o_buf o; o_count := o_count o; o_bytes := o_bytes o;
                  o_cap := o_cap o; o_owners := o_owners o; o_pending := false |}).
    assert (Dead : blocks_of o' = []).
    { unfold blocks_of, alive, o'; cbn [o_owners o_pending]. rewrite K2. reflexivity. }
    destruct (N.eqb_spec (o_cap o) 0) as [C0|C0].
    + (* inline bytes *)
      assert (Bn : o_buf o = None) by (now apply K3).
      assert (HL : hdr_layout o = layout_inline (len (o_bytes o))) by (unfold hdr_layout; now rewrite C0).
      unfold buf_blocks in Live. rewrite Bn in Live. cbn [app] in Live.
      assert (F1 : find_block (o_hdr o) (live s) = Some (hdr_layout o)).
      { rewrite Live, find_block_app_notin by exact NH. apply find_block_head. }
      rewrite (dealloc_found s (o_hdr o) _ _ F1) by (rewrite HL; apply layout_eqb_refl).
      cbn [fst set_objs live next objs errs freed]. rewrite P by reflexivity. fold o'.
      constructor; cbn [set_objs errs live objs next freed].
      * apply (i_errs s HI).
      * rewrite Live, remove_block_app_notin by exact NH. rewrite remove_block_head.
        rewrite flat_map_app. cbn [flat_map]. now rewrite Dead.
      * eapply ok_replace; [rewrite <- Hos; apply (i_objs s HI)|]. repeat split; cbn; auto; try apply K3; try discriminate.
      * rewrite (ids_replace s pre post o o' Hos eq_refl). apply (i_ids s HI).
      * rewrite (ids_replace s pre post o o' Hos eq_refl). apply (i_next s HI).
      * pose proof (i_count s HI) as Cn. rewrite Live in Cn at 1.
        rewrite Live, remove_block_app_notin by exact NH. rewrite remove_block_head.
        rewrite !app_length in *. cbn [List.length] in *. lia.
    + (* leaked Vec *)
      destruct (o_buf o) as [b|] eqn:Bb; [|exfalso; apply C0; now apply K3].
      destruct (buf_facts s pre post o HI Hos b Bb) as [NB Nbh].
      assert (HL : hdr_layout o = layout_header) by (unfold hdr_layout; destruct (N.eqb_spec (o_cap o) 0); [contradiction|reflexivity]).
      unfold buf_blocks in Live. rewrite Bb in Live. cbn [app] in Live.
      assert (F1 : find_block b (live s) = Some (layout_vec (o_cap o))).
      { rewrite Live, find_block_app_notin by exact NB. cbn [find_block].
        destruct (N.eqb_spec (o_hdr o) b) as [E|_]; [symmetry in E; contradiction|]. now rewrite N.eqb_refl. }
      rewrite (dealloc_found s b _ _ F1) by apply layout_eqb_refl.
      assert (R1 : remove_block b (live s) = flat_map blocks_of pre ++ (o_hdr o, hdr_layout o) :: flat_map blocks_of post).
      { rewrite Live, remove_block_app_notin by exact NB. cbn [remove_block].
        destruct (N.eqb_spec (o_hdr o) b) as [E|_]; [symmetry in E; contradiction|]. now rewrite N.eqb_refl. }
      rewrite R1.
      match goal with |- context [dealloc ?s1 _ _] => set (s1' := s1) end.
      assert (F2 : find_block (o_hdr o) (live s1') = Some (hdr_layout o)).
      { unfold s1'; cbn [live]. rewrite find_block_app_notin by exact NH. apply find_block_head. }
      rewrite (dealloc_found s1' (o_hdr o) _ _ F2) by (rewrite HL; apply layout_eqb_refl).
      unfold s1'. cbn [fst set_objs live next objs errs freed]. rewrite P by reflexivity. fold o'.
      constructor; cbn [set_objs errs live objs next freed].
      * apply (i_errs s HI).
      * rewrite remove_block_app_notin by exact NH. rewrite remove_block_head.
        rewrite flat_map_app. cbn [flat_map]. now rewrite Dead.
      * eapply ok_replace; [rewrite <- Hos; apply (i_objs s HI)|]. repeat split; cbn; auto; try apply K3; try discriminate.
      * rewrite (ids_replace s pre post o o' Hos); [apply (i_ids s HI)|]. unfold ids, o'; cbn. now rewrite Bb.
      * rewrite (ids_replace s pre post o o' Hos); [apply (i_next s HI)|]. unfold ids, o'; cbn. now rewrite Bb.
      * pose proof (i_count s HI) as Cn. rewrite Live in Cn at 1.
        rewrite remove_block_app_notin by exact NH. rewrite remove_block_head.
        rewrite !app_length in *. cbn [List.length] in *. lia.
  - (* deref *)
    destruct (get_obj h (objs s)) as [o|] eqn:G; [|discriminate].
    destruct (get_obj_split _ _ _ G) as (pre & post & Hos & Hh & P).
    assert (Al : alive o = true) by (unfold alive; now rewrite En).
    subst h. rewrite (alive_found s pre post o HI Hos Al). exact HI.
Qed.

Lemma inv_run xs : forall s, Inv s -> Inv (fst (run s xs)).
Proof.
  induction xs as [|x r IH]; intros s HI; [exact HI|]. cbn [run].
  pose proof (inv_step s x HI) as H1. destruct (step s x) as [s1 o1]. cbn [fst] in H1.
  specialize (IH s1 H1). destruct (run s1 r) as [s2 os]. exact IH.
Qed.

(* ---- 1. no double free, no wrong layout, no use after free; the count is the number of owners ---- *)
Theorem no_memory_errors xs : errs (fst (run init xs)) = [].
Proof. apply i_errs, inv_run, inv_init. Qed.

Theorem count_is_owners xs h o :
  get_obj h (objs (fst (run init xs))) = Some o -> o_count o = o_owners o.
Proof.
  intros G. pose proof (i_objs _ (inv_run xs init inv_init)) as F.
  destruct (get_obj_split _ _ _ G) as (pre & post & Hos & _). rewrite Hos in F.
  now destruct (ok_of _ _ _ F).
Qed.

(* ---- 2. while somebody owns the value its blocks are allocated, with the layouts drop_slow will give back ---- *)
Theorem blocks_live_while_owned xs h :
  let s := fst (run init xs) in
  enabled s (SRead h) = true ->
  exists o, get_obj h (objs s) = Some o /\ find_block h (live s) = Some (hdr_layout o) /\
            (o_cap o <> 0 -> exists b, o_buf o = Some b /\ find_block b (live s) = Some (layout_vec (o_cap o))).
Proof.
  intros s En. cbn [enabled] in En. destruct (get_obj h (objs s)) as [o|] eqn:G; [|discriminate].
  exists o. split; [reflexivity|].
  pose proof (inv_run xs init inv_init) as HI. fold s in HI.
  destruct (get_obj_split _ _ _ G) as (pre & post & Hos & Hh & _).
  assert (Al : alive o = true) by (unfold alive; now rewrite En).
  split; [subst h; now apply (alive_found s pre post)|].
  intros C0. pose proof (ok_of pre post o) as K. rewrite <- Hos in K. destruct (K (i_objs s HI)) as (_ & _ & K3).
  destruct (o_buf o) as [b|] eqn:Bb; [|exfalso; apply C0; now apply K3]. exists b. split; [reflexivity|].
  destruct (buf_facts s pre post o HI Hos b Bb) as [NB Nbh].
  rewrite (i_live s HI), Hos, flat_map_app, find_block_app_notin by exact NB.
  cbn [flat_map]. unfold blocks_of. rewrite Al. unfold buf_blocks. rewrite Bb. cbn [app find_block].
  destruct (N.eqb_spec (o_hdr o) b) as [E|_]; [symmetry in E; contradiction|]. now rewrite N.eqb_refl.
Qed.

(* ---- 3. when everybody let go: nothing is left, every block went back exactly once ---- *)
Theorem released_exactly_once xs :
  let s := fst (run init xs) in
  all_released s = true ->
  live s = [] /\ errs s = [] /\ N.of_nat (List.length (freed s)) = next s.
Proof.
  intros s R. pose proof (inv_run xs init inv_init) as HI. fold s in HI.
  assert (L : live s = []).
  { rewrite (i_live s HI). unfold all_released in R. induction (objs s) as [|o r IH]; [reflexivity|].
    cbn [forallb] in R. apply andb_true_iff in R as [Ro Rr]. cbn [flat_map]. rewrite (IH Rr), app_nil_r.
    unfold blocks_of, alive. apply andb_true_iff in Ro as [R1 R2]. apply N.eqb_eq in R1. rewrite R1.
    destruct (o_pending o); [discriminate|reflexivity]. }
  split; [exact L|]. split; [apply (i_errs s HI)|].
  pose proof (i_count s HI) as C. rewrite L in C. cbn in C. lia.
Qed.

(* ---- 4. contents: a value always dereferences to the bytes it was built from ---- *)
Lemma get_put h os o2 :
  get_obj h (put_obj o2 os) =
  if o_hdr o2 =? h then match get_obj h os with Some _ => Some o2 | None => None end else get_obj h os.
Proof.
  induction os as [|x r IH]; cbn [put_obj get_obj]; [now destruct (o_hdr o2 =? h)|].
  destruct (N.eqb_spec (o_hdr x) (o_hdr o2)) as [E|E]; cbn [get_obj].
  - destruct (N.eqb_spec (o_hdr o2) h) as [E2|E2].
    + rewrite E, E2, N.eqb_refl. reflexivity.
    + destruct (N.eqb_spec (o_hdr x) h); [congruence|reflexivity].
  - destruct (N.eqb_spec (o_hdr x) h) as [E3|E3].
    + destruct (N.eqb_spec (o_hdr o2) h); [congruence|reflexivity].
    + exact IH.
Qed.

Lemma get_in_ids h os o : get_obj h os = Some o -> In h (flat_map ids os).
Proof.
  induction os as [|x r IH]; cbn [get_obj flat_map]; [discriminate|].
  destruct (N.eqb_spec (o_hdr x) h); intros G; apply in_or_app; [left; unfold ids; now left|right; auto].
Qed.

Lemma step_bytes s x h o :
  Inv s -> get_obj h (objs s) = Some o ->
  exists o', get_obj h (objs (fst (step s x))) = Some o' /\ o_bytes o' = o_bytes o.
Proof.
  intros HI G. pose proof (i_next s HI h (get_in_ids _ _ _ G)) as Lt.
  unfold step. destruct (enabled s x); cbn [negb]; [|exists o; now split].
  destruct x as [bs|bs cap|h2|h2|h2|h2].
  - cbn [alloc fst set_objs objs get_obj o_hdr]. destruct (N.eqb_spec (next s) h); [lia|]. exists o; now split.
  - destruct (cap =? 0); cbn [alloc fst set_objs objs get_obj o_hdr next].
    + destruct (N.eqb_spec (next s) h); [lia|]. exists o; now split.
    + destruct (N.eqb_spec (N.succ (next s)) h); [lia|]. exists o; now split.
  - destruct (get_obj h2 (objs s)) as [o2|] eqn:G2; [|exists o; now split].
    assert (H2 : o_hdr o2 = h2) by (destruct (get_obj_split _ _ _ G2) as (? & ? & _ & E & _); exact E).
    destruct (find_block h2 (live s)); cbn [fst set_objs add_err objs]; rewrite get_put; cbn [o_hdr o_bytes];
      rewrite H2; (destruct (N.eqb_spec h2 h) as [->|_]; [rewrite G; rewrite G in G2; inversion G2; subst; eexists; split; [reflexivity|reflexivity]|exists o; now split]).
  - destruct (get_obj h2 (objs s)) as [o2|] eqn:G2; [|exists o; now split].
    assert (H2 : o_hdr o2 = h2) by (destruct (get_obj_split _ _ _ G2) as (? & ? & _ & E & _); exact E).
    destruct (find_block h2 (live s)); cbn [fst set_objs add_err objs]; rewrite get_put; cbn [o_hdr o_bytes];
      rewrite H2; (destruct (N.eqb_spec h2 h) as [->|_]; [rewrite G; rewrite G in G2; inversion G2; subst; eexists; split; [reflexivity|reflexivity]|exists o; now split]).
  - destruct (get_obj h2 (objs s)) as [o2|] eqn:G2; [|exists o; now split].
    assert (H2 : o_hdr o2 = h2) by (destruct (get_obj_split _ _ _ G2) as (? & ? & _ & E & _); exact E).
    cbn [fst set_objs objs]. rewrite get_put. cbn [o_hdr o_bytes]. rewrite H2.
    assert (OD : forall s0 id l, objs (dealloc s0 id l) = objs s0) by (intros; unfold dealloc; now destruct (find_block _ _)).
    rewrite OD. destruct (o_cap o2 =? 0); [|destruct (o_buf o2); [rewrite OD|cbn [add_err objs]]];
      (destruct (N.eqb_spec h2 h) as [->|_]; [rewrite G; rewrite G in G2; inversion G2; subst; eexists; split; [reflexivity|reflexivity]|exists o; now split]).
  - destruct (get_obj h2 (objs s)) as [o2|] eqn:G2; [|exists o; now split].
    destruct (find_block h2 (live s)); cbn [fst add_err objs]; exists o; now split.
Qed.

Lemma run_bytes xs : forall s h o,
  Inv s -> get_obj h (objs s) = Some o ->
  exists o', get_obj h (objs (fst (run s xs))) = Some o' /\ o_bytes o' = o_bytes o.
Proof.
  induction xs as [|x r IH]; intros s h o HI G; [exists o; now split|]. cbn [run].
  destruct (step_bytes s x h o HI G) as (o1 & G1 & B1). pose proof (inv_step s x HI) as H1.
  destruct (step s x) as [s1 out1]. cbn [fst] in *.
  destruct (IH s1 h o1 H1 G1) as (o2 & G2 & B2). destruct (run s1 r) as [s2 os]. cbn [fst] in *.
  exists o2. split; [exact G2|congruence].
Qed.

Definition ctor_bytes (x : step_t) : option (list N) :=
  match x with SFromSlice bs | SFromVec bs _ => Some bs | _ => None end.

(* whatever happens between construction and a later deref (clones, drops of other values, any
   other constructions): the deref gives the constructor's bytes *)
Theorem deref_is_source before ctor bs h between s1 :
  ctor_bytes ctor = Some bs ->
  step (fst (run init before)) ctor = (s1, ONew h) ->
  forall out, snd (step (fst (run s1 between)) (SRead h)) = OBytes out -> out = bs.
Proof.
  intros Cb St out Rd. pose proof (inv_run before init inv_init) as H0.
  pose proof (inv_step _ ctor H0) as H1. rewrite St in H1. cbn [fst] in H1.
  assert (G : exists o, get_obj h (objs s1) = Some o /\ o_bytes o = bs).
  { unfold step in St. destruct (enabled _ ctor); cbn [negb] in St; [|inversion St].
    destruct ctor as [b|b cap| | | |]; try discriminate; cbn in Cb; inversion Cb; subst b.
    - cbn [alloc set_objs] in St. inversion St; subst. cbn [objs set_objs get_obj o_hdr]. rewrite N.eqb_refl. eexists; split; reflexivity.
    - destruct (cap =? 0); cbn [alloc set_objs next] in St; inversion St; subst; cbn [objs set_objs get_obj o_hdr];
        rewrite N.eqb_refl; eexists; split; reflexivity. }
  destruct G as (o & G & Bo). destruct (run_bytes between s1 h o H1 G) as (o' & G' & B').
  unfold step in Rd. destruct (enabled _ (SRead h)); cbn [negb] in Rd; [|discriminate].
  rewrite G' in Rd. destruct (find_block h _); cbn [snd] in Rd; inversion Rd; congruence.
Qed.
