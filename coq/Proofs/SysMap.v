(* The cache as a map keyed by (type, id): what each operation does to it. *)
From Coq Require Import List String NArith ZArith Bool Lia.
From AM Require Import Ref.Load Ref.Sys Proofs.SysGrows Proofs.SysStatic.
Import ListNotations.

Lemma assoc_del_same (l : list (key * entry)) k : assoc key_eqb k (assoc_del key_eqb k l) = None.
Proof.
  unfold assoc_del. induction l as [|[a b] r IH]; cbn; [reflexivity|].
  destruct (key_eqb k a) eqn:E; cbn; [exact IH|]. now rewrite E.
Qed.

Lemma assoc_app_none {V} (l l' : list (key * V)) k :
  assoc key_eqb k l = None -> assoc key_eqb k (l ++ l') = assoc key_eqb k l'.
Proof.
  induction l as [|[a b] r IH]; cbn; [reflexivity|]. destruct (key_eqb k a); [discriminate|exact IH].
Qed.

(* get_cached and contains add nothing *)
Theorem get_cached_adds_nothing fuel s t id :
  cache (fst (fst (step fuel s (OGetCached t id)))) = cache s /\
  cache (fst (fst (step fuel s (OContains t id)))) = cache s.
Proof.
  split; cbn [step]; [|reflexivity].
  pose proof (cache_get_cached_rec s t id) as C. destruct (get_cached_rec s t id) as [s1 o]. exact C.
Qed.

(* get_or_insert never overwrites: on a present key the map is unchanged, the stored value is
   returned and the argument is dropped at once *)
Theorem goi_never_overwrites fuel s t id z e :
  cache_get s (t, id) = Some e ->
  let r := step fuel s (OGetOrInsert t id z) in
  cache (fst (fst r)) = cache s /\ snd (fst r) = OutVal (en_val e) (en_tok e) /\ snd r = [EDrop (next_tok s)].
Proof.
  intros H. cbn [step]. unfold bump_tok. cbv zeta. cbn [fst snd].
  match goal with |- context [get_cached_rec ?s1 t id] =>
    pose proof (cache_get_cached_rec s1 t id) as C; unfold get_cached_rec in *;
    set (s0 := if hot_reloaded t then rec_add s1 (DepAsset (t, id)) else s1) in * end.
  cbn [fst] in C.
  assert (G : cache_get s0 (t, id) = Some e) by (unfold cache_get in *; rewrite C; exact H).
  rewrite G. cbn [fst snd]. repeat split. exact C.
Qed.

(* ... and inserts exactly the given value, as a non-reloadable entry, when the key is absent *)
Theorem goi_inserts_when_absent fuel s t id z :
  cache_get s (t, id) = None ->
  let r := step fuel s (OGetOrInsert t id z) in
  exists e, cache_get (fst (fst r)) (t, id) = Some e /\ en_val e = VInt z "insert" /\
            en_dyn e = false /\ snd (fst r) = OutVal (en_val e) (en_tok e) /\ snd r = [].
Proof.
  intros H. cbn [step]. unfold bump_tok. cbv zeta. cbn [fst snd].
  match goal with |- context [get_cached_rec ?s1 t id] =>
    pose proof (cache_get_cached_rec s1 t id) as C; unfold get_cached_rec in *;
    set (s0 := if hot_reloaded t then rec_add s1 (DepAsset (t, id)) else s1) in * end.
  cbn [fst] in C.
  assert (G : cache_get s0 (t, id) = None) by (unfold cache_get in *; rewrite C; exact H).
  rewrite G. unfold cache_insert. rewrite G. cbn [fst snd].
  eexists. split.
  { unfold cache_get, set_cache; cbn [cache]. unfold cache_get in G. rewrite (assoc_app_none _ _ _ G).
    cbn. now rewrite key_eqb_refl. }
  repeat split; reflexivity.
Qed.

(* remove / take / clear delete exactly what they name; take hands the stored value back *)
Theorem remove_exact fuel s t id :
  let s' := fst (fst (step fuel s (ORemove t id))) in
  cache_get s' (t, id) = None /\ forall k, k <> (t, id) -> cache_get s' k = cache_get s k.
Proof.
  cbn [step]. destruct (cache_get s (t, id)) eqn:E; cbn [fst].
  - unfold forget_watchers, set_watchers, set_cache, cache_get; cbn [cache]. split.
    + apply assoc_del_same.
    + intros k Hk. now apply assoc_del_other.
  - split; [exact E|reflexivity].
Qed.

Theorem take_exact fuel s t id :
  let r := step fuel s (OTake t id) in
  cache_get (fst (fst r)) (t, id) = None /\
  (forall k, k <> (t, id) -> cache_get (fst (fst r)) k = cache_get s k) /\
  snd (fst r) = match cache_get s (t, id) with Some e => OutVal (en_val e) (en_tok e) | None => OutNone end.
Proof.
  cbn [step]. destruct (cache_get s (t, id)) eqn:E; cbn [fst snd].
  - unfold forget_watchers, set_watchers, set_cache, cache_get; cbn [cache]. repeat split.
    + apply assoc_del_same.
    + intros k Hk. now apply assoc_del_other.
  - repeat split. exact E.
Qed.

Theorem clear_empties fuel s : cache (fst (fst (step fuel s OClear))) = [].
Proof. cbn [step]. destruct (has_reloader s); reflexivity. Qed.

(* a load of a present key returns the stored entry and reads nothing *)
Theorem load_hit fuel s t id e :
  cache_get s (t, id) = Some e ->
  let r := step (S fuel) s (OLoad t id) in
  cache (fst (fst r)) = cache s /\ snd (fst r) = OutVal (en_val e) (en_tok e) /\ snd r = [].
Proof.
  intros H. cbn [step load_entry_f]. unfold load_entry.
  pose proof (cache_get_cached_rec s t id) as C. unfold get_cached_rec in *.
  set (s0 := if hot_reloaded t then rec_add s (DepAsset (t, id)) else s) in *. cbn [fst] in C.
  assert (G : cache_get s0 (t, id) = Some e) by (unfold cache_get in *; rewrite C; exact H).
  rewrite G. cbn [fst snd]. repeat split. exact C.
Qed.

(* what a successful load returns is what the cache now holds under that key *)
Lemma cache_insert_get s k e :
  let r := cache_insert s k e in cache_get (fst (fst r)) k = Some (snd (fst r)).
Proof.
  unfold cache_insert. destruct (cache_get s k) eqn:E; cbn [fst snd]; [exact E|].
  unfold cache_get, set_cache in *; cbn [cache]. rewrite (assoc_app_none _ _ _ E). cbn.
  now rewrite key_eqb_refl.
Qed.

Theorem load_success_caches fuel s t id v tok :
  snd (fst (step (S fuel) s (OLoad t id))) = OutVal v tok ->
  exists e, cache_get (fst (fst (step (S fuel) s (OLoad t id)))) (t, id) = Some e /\ en_val e = v /\ en_tok e = tok.
Proof.
  cbn [step load_entry_f]. unfold load_entry.
  pose proof (cache_get_cached_rec s t id) as C. unfold get_cached_rec in *.
  set (s0 := if hot_reloaded t then rec_add s (DepAsset (t, id)) else s) in *. cbn [fst] in C.
  destruct (cache_get s0 (t, id)) as [e|] eqn:G; cbn [fst snd].
  - intros H. inversion H; subst. exists e. auto.
  - destruct (load_and_record (load_entry_f fuel) (load_owned_f fuel) s0 t id) as [[s1 tr] r].
    destruct r as [[v' tok']|e| |]; cbn [fst snd]; try discriminate.
    pose proof (cache_insert_get s1 (t, id) (mk_entry s1 t v' tok')) as I.
    destruct (cache_insert s1 (t, id) (mk_entry s1 t v' tok')) as [[s2 e'] d]. cbn [fst snd] in *.
    intros H. inversion H; subst. exists e'. auto.
Qed.

(* entries under other keys are untouched by a load, whatever it nests *)
Theorem load_frame fuel s t id k e :
  cache_get s k = Some e -> cache_get (fst (fst (step fuel s (OLoad t id)))) k = Some e.
Proof.
  intros H. cbn [step]. pose proof (proj1 (load_f_grows fuel) s t id) as G.
  destruct (load_entry_f fuel s t id) as [[s1 tr] r]. cbn [fst] in *. eapply grows_get; eauto.
Qed.

(* load_owned adds nothing under its own key by itself: the map only grows by nested loads *)
Theorem load_owned_only_nested fuel s t id k e :
  cache_get s k = Some e -> cache_get (fst (fst (step fuel s (OLoadOwned t id)))) k = Some e.
Proof.
  intros H. cbn [step]. pose proof (proj2 (load_f_grows fuel) s t id) as G.
  destruct (load_owned_f fuel s t id) as [[s1 tr] r]. cbn [fst] in *. eapply grows_get; eauto.
Qed.

(* ---- drops (C13) ---- *)
Theorem remove_drops_the_removed fuel s t id e :
  cache_get s (t, id) = Some e -> snd (step fuel s (ORemove t id)) = drop_of e.
Proof. intros H. cbn [step]. now rewrite H. Qed.

Theorem take_drops_after_handing_over fuel s t id e :
  cache_get s (t, id) = Some e -> snd (step fuel s (OTake t id)) = drop_of e.
Proof. intros H. cbn [step]. now rewrite H. Qed.

Theorem clear_drops_everything fuel s :
  snd (step fuel s OClear) = flat_map (fun kv => drop_of (snd kv)) (cache s).
Proof. cbn [step]. destruct (has_reloader s); reflexivity. Qed.

Theorem insertion_loser_dropped_at_once s k e old :
  cache_get s k = Some old -> snd (cache_insert s k e) = drop_of_tok (en_tok e) /\ fst (fst (cache_insert s k e)) = s.
Proof. intros H. unfold cache_insert. rewrite H. split; reflexivity. Qed.

(* ---- failed loads (C02) ---- *)
(* types whose loader asks the cache for nothing: every kind but the Compounds and the directories *)
Definition plain (t : ty) : bool := match t with TN | TNS | TDI | TRI => false | _ => true end.

(* a load of a plain type that does not succeed -- error, panic -- leaves the map exactly as it was *)
Theorem failed_plain_load_adds_nothing fuel s t id :
  plain t = true ->
  (forall e, snd (load_entry_f fuel s t id) <> ROk e) ->
  cache (fst (fst (load_entry_f fuel s t id))) = cache s.
Proof.
  intros P. destruct fuel as [|f]; [reflexivity|]. cbn [load_entry_f]. unfold load_entry.
  pose proof (cache_get_cached_rec s t id) as C. unfold get_cached_rec in *.
  set (s0 := if hot_reloaded t then rec_add s (DepAsset (t, id)) else s) in *. cbn [fst] in C.
  destruct (cache_get s0 (t, id)) as [e|] eqn:G; cbn [fst snd].
  - intros H. exfalso. now apply (H e).
  - assert (V : forall x, cache (fst (fst (load_value (load_entry_f f) (load_owned_f f) x t id))) = cache x).
    { intros x. unfold load_value. destruct t; try discriminate P; try apply load_asset_value_cache; reflexivity. }
    assert (W : forall x, cache (fst (fst (load_wrapped (load_entry_f f) (load_owned_f f) x t id))) = cache x).
    { intros x. unfold load_wrapped. specialize (V x).
      destruct (load_value (load_entry_f f) (load_owned_f f) x t id) as [[x1 tr] r]. exact V. }
    assert (R : cache (fst (fst (load_and_record (load_entry_f f) (load_owned_f f) s0 t id))) = cache s0).
    { unfold load_and_record. destruct (hot_reloaded t && has_reloader s0); [|apply W].
      specialize (W (rec_push s0 (Some []))).
      destruct (load_wrapped (load_entry_f f) (load_owned_f f) (rec_push s0 (Some [])) t id) as [[x1 tr] r].
      pose proof (cache_rec_pop x1) as Q. destruct (rec_pop x1) as [x2 deps]. cbn [fst snd] in *.
      destruct r; try rewrite cache_set_cm; rewrite Q, W; reflexivity. }
    destruct (load_and_record (load_entry_f f) (load_owned_f f) s0 t id) as [[s1 tr] r]. cbn [fst snd] in R.
    destruct r as [[v tok]|e| |]; cbn [fst snd]; intros H; try congruence.
    exfalso. destruct (cache_insert s1 (t, id) (mk_entry s1 t v tok)) as [[s2 e'] d]. cbn [snd] in H.
    now apply (H e').
Qed.

(* whatever the type: a load that does not succeed performs no insertion of its own -- the map it
   leaves is the map its loader left (nested loads of a Compound included) *)
Theorem failed_load_inserts_nothing_itself f s t id :
  (forall e, snd (load_entry_f (S f) s t id) <> ROk e) ->
  cache (fst (fst (load_entry_f (S f) s t id))) =
  cache (fst (fst (load_and_record (load_entry_f f) (load_owned_f f) (fst (get_cached_rec s t id)) t id))).
Proof.
  cbn [load_entry_f]. unfold load_entry. unfold get_cached_rec.
  set (s0 := if hot_reloaded t then rec_add s (DepAsset (t, id)) else s). cbn [fst snd].
  destruct (cache_get s0 (t, id)) as [e|] eqn:G; cbn [fst snd].
  - intros H. exfalso. now apply (H e).
  - destruct (load_and_record (load_entry_f f) (load_owned_f f) s0 t id) as [[s1 tr] r]. cbn [fst snd].
    destruct r as [[v tok]|e| |]; cbn [fst snd]; intros H; try reflexivity.
    exfalso. destruct (cache_insert s1 (t, id) (mk_entry s1 t v tok)) as [[s2 e'] d]. cbn [snd] in H.
    now apply (H e').
Qed.
