From Coq Require Import List Bool Arith Lia.
From AM Require Import Ref.OnceInit.
Import ListNotations.

Definition count (p : tpc -> bool) (l : list tpc) : nat := length (filter p l).
Definition is_running p := match p with TRunning _ => true | _ => false end.
Definition is_dropseed p := match p with TDropSeed => true | _ => false end.
Definition is_gotvalue p := match p with TGotValue => true | _ => false end.

(* the invariant, for the path where the seed has a destructor *)
Record Inv (c : cell) : Prop := {
  i_run : count is_running (threads c) = (if running c then 1 else 0);
  i_succ : successes c = (if inited c then 1 else 0);
  i_run_init : running c = true -> inited c = false;
  i_seed : seed_in_cell c = negb (inited c);
  i_drops : seed_drops c + count is_dropseed (threads c) = (if inited c then 1 else 0);
  i_vdrops : value_drops c = 0;
  i_got : inited c = false -> count is_gotvalue (threads c) = 0 /\ count is_dropseed (threads c) = 0;
}.

Lemma count_upd p l t old :
  nth_error l t = Some old -> forall x,
  count p (upd l t x) + (if p old then 1 else 0) = count p l + (if p x then 1 else 0).
Proof.
  revert t; induction l as [|y r IH]; intros [|t] H x; cbn in H; try discriminate.
  - inversion H; subst. clear IH. unfold count; cbn. destruct (p old) eqn:A, (p x) eqn:B; cbn; lia.
  - specialize (IH t H x). unfold count in *; cbn. destruct (p y) eqn:A; cbn; lia.
Qed.

Lemma inv_init outs : Inv (init outs).
Proof.
  assert (Z : forall p, (forall o, p (TStart o) = false) -> count p (map TStart outs) = 0).
  { intros p Hp. unfold count. induction outs as [|o r IH]; cbn; [reflexivity|]. now rewrite Hp. }
  constructor; unfold init; cbn [inited running seed_drops value_drops successes seed_in_cell threads negb].
  - apply Z; auto.
  - reflexivity.
  - discriminate.
  - reflexivity.
  - rewrite Z; auto.
  - reflexivity.
  - intros _. split; apply Z; auto.
Qed.

Ltac prep E x :=
  let A := fresh "A" in let B := fresh "B" in let C := fresh "C" in
  pose proof (count_upd is_running _ _ _ E x) as A;
  pose proof (count_upd is_dropseed _ _ _ E x) as B;
  pose proof (count_upd is_gotvalue _ _ _ E x) as C;
  cbn [is_running is_dropseed is_gotvalue] in A, B, C.

Ltac close :=
  constructor; cbn [inited running seed_drops value_drops successes seed_in_cell threads negb];
  intros;
  repeat match goal with
         | H : inited ?c = _ |- _ => rewrite H in *
         | H : running ?c = _ |- _ => rewrite H in *
         end;
  cbn [negb] in *;
  repeat split; try discriminate; try reflexivity; try assumption; try congruence; try lia;
  try (match goal with I : true = true -> true = false |- _ => discriminate (I eq_refl) end).

Lemma inv_step c t : Inv c -> Inv (step true c t).
Proof.
  intros [Ir Is Iri Ise Id Iv Ig]. unfold step.
  destruct (nth_error (threads c) t) as [p|] eqn:E; [|constructor; auto].
  destruct p as [o|o|o| | | |]; try (constructor; auto; fail).
  - (* TStart *)
    destruct (inited c) eqn:Ei.
    + prep E TGotValue. unfold set_threads. close.
    + destruct (Ig eq_refl) as [G1 G2]. destruct (running c) eqn:Er.
      * prep E (TWaiting o). unfold set_threads. close.
      * prep E (TRunning o). close.
  - (* TWaiting *)
    destruct (inited c) eqn:Ei.
    + prep E TGotValue. unfold set_threads. close.
    + destruct (Ig eq_refl) as [G1 G2]. destruct (running c) eqn:Er.
      * prep E (TWaiting o). unfold set_threads. close.
      * prep E (TRunning o). close.
  - (* TRunning *)
    assert (Hr : running c = true).
    { destruct (running c); [reflexivity|]. prep E TGotErr. lia. }
    pose proof (Iri Hr) as Hi. rewrite Hr, Hi in *. destruct (Ig eq_refl) as [G1 G2].
    destruct o.
    + prep E TDropSeed. close.
    + prep E TGotErr. close.
    + prep E TPanicked. close.
  - (* TDropSeed *)
    assert (Hi : inited c = true).
    { destruct (inited c) eqn:Ei; [reflexivity|]. destruct (Ig eq_refl) as [_ G2].
      prep E TGotValue. lia. }
    prep E TGotValue. rewrite Hi in *. close.
Qed.

Theorem inv_all_schedules sched : forall c, Inv c -> Inv (run true sched c).
Proof. induction sched as [|t r IH]; intros c I; cbn; [exact I|]. apply IH, inv_step, I. Qed.

(* C17: however many threads, whatever their initialisers do, whatever the schedule *)
Theorem one_success_all_schedules outs sched :
  let c := run true sched (init outs) in
  successes c = (if inited c then 1 else 0) /\          (* the succeeding initialiser ran exactly once *)
  seed_in_cell c = negb (inited c) /\                   (* exactly one of seed and value is in the cell *)
  seed_drops c <= 1 /\ value_drops c = 0 /\             (* nothing dropped twice, the value never before the cell *)
  (inited c = false -> seed_drops c = 0 /\              (* a failure keeps the seed ... *)
                       count is_gotvalue (threads c) = 0). (* ... and nobody got a value *)
Proof.
  intros c. destruct (inv_all_schedules sched _ (inv_init outs)) as [Ir Is Iri Ise Id Iv Ig]. fold c in Ir, Is, Iri, Ise, Id, Iv, Ig.
  split; [exact Is|]. split; [exact Ise|]. split; [destruct (inited c); lia|]. split; [exact Iv|].
  intros Hf. rewrite Hf in Id. destruct (Ig Hf) as [G1 G2]. split; [lia|exact G1].
Qed.

(* once everybody has returned and the cell is dropped, seed and value were each dropped exactly
   once if they ever existed: the seed always, the value iff the cell got initialised *)
Theorem each_dropped_once outs sched :
  let c := run true sched (init outs) in
  quiescent c = true ->
  let d := drop_cell c in
  seed_drops d = 1 /\ value_drops d = (if inited c then 1 else 0).
Proof.
  intros c Q d. destruct (inv_all_schedules sched _ (inv_init outs)) as [Ir Is Iri Ise Id Iv Ig]. fold c in Ir, Is, Iri, Ise, Id, Iv, Ig.
  assert (Z : forall l, forallb (fun p => match p with TGotValue | TGotErr | TPanicked => true | _ => false end) l = true ->
                        count is_dropseed l = 0).
  { induction l as [|p r IH]; intros Hq; [reflexivity|].
    cbn in Hq. apply andb_true_iff in Hq as [Qp Qr]. unfold count in *. cbn.
    destruct p; cbn in *; try discriminate; auto. }
  specialize (Z _ Q).
  unfold d, drop_cell. destruct (inited c) eqn:Ei; cbn; rewrite ?Ei in *; split; lia.
Qed.

(* `get` never blocks and never runs anything: it only reads [inited] (no step of the machine) *)

(* the path for seeds without destructor: same protocol, the seed is forgotten, never dropped
   by an initialiser *)
Definition no_dropseed (l : list tpc) : bool := forallb (fun p => negb (is_dropseed p)) l.

Lemma no_dropseed_upd l t x : no_dropseed l = true -> is_dropseed x = false -> no_dropseed (upd l t x) = true.
Proof.
  revert t; induction l as [|y r IH]; intros [|t] H Hx; cbn in *; auto.
  - apply andb_true_iff in H as [_ H]. now rewrite Hx, H.
  - apply andb_true_iff in H as [Hy H]. now rewrite Hy, IH.
Qed.

Lemma no_dropseed_nth l t : no_dropseed l = true -> nth_error l t <> Some TDropSeed.
Proof.
  revert t; induction l as [|y r IH]; intros [|t] H; cbn in *; try discriminate.
  - apply andb_true_iff in H as [Hy _]. intros E. inversion E; subst. discriminate.
  - apply andb_true_iff in H as [_ H]. now apply IH.
Qed.

Lemma step_no_drop c t :
  no_dropseed (threads c) = true -> seed_drops c = 0 ->
  no_dropseed (threads (step false c t)) = true /\ seed_drops (step false c t) = 0.
Proof.
  intros N Z. unfold step. destruct (nth_error (threads c) t) as [p|] eqn:E; [|auto].
  destruct p as [o|o|[]| | | |]; try (split; assumption);
    try (destruct (inited c); [|destruct (running c)]); cbn [threads seed_drops set_threads];
    try (split; [apply no_dropseed_upd; [exact N|reflexivity]|exact Z]).
  all: exfalso; exact (no_dropseed_nth _ _ N E).
Qed.

Theorem no_drop_path_never_drops_the_seed_early outs sched :
  seed_drops (run false sched (init outs)) = 0.
Proof.
  assert (G : forall sched c, no_dropseed (threads c) = true -> seed_drops c = 0 ->
              seed_drops (run false sched c) = 0).
  { induction sched0 as [|t r IH]; intros c N Z; cbn; [exact Z|].
    destruct (step_no_drop c t N Z) as [N' Z']. now apply IH. }
  apply G; [|reflexivity]. cbn. induction outs; cbn; auto.
Qed.
