From Coq Require Import List NArith Bool Arith Lia.
From AM Require Import Ref.Sharded.
Import ListNotations.

(* ---------------- the flat map ---------------- *)
Lemma aget_app_some k m m' v : aget k m = Some v -> aget k (m ++ m') = Some v.
Proof. induction m as [|[a b] r IH]; cbn; [discriminate|]. destruct (N.eqb k a); auto. Qed.

Lemma aget_app_none k m m' : aget k m = None -> aget k (m ++ m') = aget k m'.
Proof. induction m as [|[a b] r IH]; cbn; [reflexivity|]. destruct (N.eqb k a); [discriminate|auto]. Qed.

(* or_insert keeps the first value, returns what is stored, never touches other keys *)
Lemma aor_insert_spec k v m :
  let '(m', w) := aor_insert k v m in
  aget k m' = Some w /\ (forall w0, aget k m = Some w0 -> w = w0 /\ m' = m) /\
  (aget k m = None -> w = v) /\ (forall k', k' <> k -> aget k' m' = aget k' m).
Proof.
  unfold aor_insert. destruct (aget k m) eqn:E.
  - split; [exact E|]. split; [intros w0 H; inversion H; auto|]. split; [discriminate|reflexivity].
  - split; [|split; [discriminate|split; [reflexivity|]]].
    + rewrite (aget_app_none _ _ _ E). cbn. now rewrite N.eqb_refl.
    + intros k' Hk. destruct (aget k' m) eqn:E'.
      * now apply aget_app_some.
      * rewrite (aget_app_none _ _ _ E'). cbn. apply N.eqb_neq in Hk. now rewrite Hk.
Qed.

Lemma aget_remove_same k m : aget k (aremove k m) = None.
Proof.
  unfold aremove. induction m as [|[a b] r IH]; cbn; [reflexivity|].
  destruct (N.eqb k a) eqn:E; cbn; [exact IH|]. now rewrite E.
Qed.

Lemma aget_remove_other k k' m : k' <> k -> aget k' (aremove k m) = aget k' m.
Proof.
  intros H. unfold aremove. induction m as [|[a b] r IH]; cbn; [reflexivity|].
  destruct (N.eqb k a) eqn:E; cbn.
  - apply N.eqb_eq in E; subst a. apply N.eqb_neq in H. now rewrite H.
  - destruct (N.eqb k' a); auto.
Qed.

(* ---------------- sharded refines flat ---------------- *)
Definition abs_get (h : key -> N) (s : shards) (k : key) : option addr := sget h s k.

(* each shard only holds keys that hash to it *)
Definition placed (h : key -> N) (s : shards) : Prop :=
  forall i k, i < length s -> aget k (nth i s []) <> None -> shard_of h (length s) k = i.

(* the flat map [m] and the shards [s] hold the same associations *)
Definition same (h : key -> N) (s : shards) (m : amap) : Prop :=
  forall k, sget h s k = aget k m.

Lemma length_upd_nth {A} i (f : A -> A) l : length (upd_nth i f l) = length l.
Proof. revert i; induction l as [|x r IH]; intros [|i]; cbn; auto. Qed.

Lemma nth_upd_nth_same {A} i (f : A -> A) l d : i < length l -> nth i (upd_nth i f l) d = f (nth i l d).
Proof. revert i; induction l as [|x r IH]; intros [|i] H; cbn in *; try lia; auto. apply IH. lia. Qed.

Lemma nth_upd_nth_other {A} i j (f : A -> A) l d : i <> j -> nth j (upd_nth i f l) d = nth j l d.
Proof. revert i j; induction l as [|x r IH]; intros [|i] [|j] H; cbn; auto; try lia. Qed.

Lemma shard_of_lt h n k : 0 < n -> shard_of h n k < n.
Proof.
  intros H. unfold shard_of.
  assert (N.of_nat n <> 0%N) by lia.
  pose proof (N.mod_lt (h k) (N.of_nat n) H0). lia.
Qed.

Lemma nth_map_nil (s : shards) i : nth i (map (fun _ : amap => @nil (key * addr)) s) [] = [].
Proof. revert i; induction s as [|x r IH]; intros [|i]; cbn; auto. Qed.

Lemma nth_repeat_nil n i : nth i (repeat (@nil (key * addr)) n) [] = [].
Proof. revert i; induction n as [|n IH]; intros [|i]; cbn; auto. Qed.

Theorem shard_step_refines h s m o :
  0 < length s -> same h s m ->
  let '(s', r) := shard_step h s o in
  let '(m', r') := flat_step m o in
  r = r' /\ same h s' m' /\ length s' = length s.
Proof.
  intros Hn Hs. destruct o as [k|k v|k|k|]; cbn [shard_step flat_step].
  - rewrite (Hs k). auto.
  - unfold sor_insert. set (i := shard_of h (length s) k).
    pose proof (shard_of_lt h (length s) k Hn) as Hi. fold i in Hi.
    assert (Hg : aget k (nth i s []) = aget k m) by (rewrite <- (Hs k); reflexivity).
    pose proof (aor_insert_spec k v (nth i s [])) as Sp1.
    pose proof (aor_insert_spec k v m) as Sp2.
    destruct (aor_insert k v (nth i s [])) as [m1 w1], (aor_insert k v m) as [m2 w2].
    destruct Sp1 as (G1 & K1 & N1 & O1), Sp2 as (G2 & K2 & N2 & O2).
    assert (w1 = w2).
    { destruct (aget k m) as [w0|] eqn:E.
      - destruct (K1 w0 Hg), (K2 w0 eq_refl). congruence.
      - rewrite (N1 Hg), (N2 eq_refl). reflexivity. }
    subst w2. split; [reflexivity|]. split; [|apply length_upd_nth].
    intros k'. unfold sget. rewrite length_upd_nth.
    destruct (N.eq_dec k' k) as [->|Hk].
    + fold i. rewrite nth_upd_nth_same by exact Hi. congruence.
    + destruct (Nat.eq_dec (shard_of h (length s) k') i) as [Ei|Ei].
      * rewrite Ei, nth_upd_nth_same by exact Hi. rewrite (O1 k' Hk), (O2 k' Hk).
        rewrite <- (Hs k'). unfold sget. now rewrite Ei.
      * rewrite nth_upd_nth_other by auto. rewrite (O2 k' Hk). apply Hs.
  - rewrite (Hs k). auto.
  - unfold stake. set (i := shard_of h (length s) k).
    pose proof (shard_of_lt h (length s) k Hn) as Hi. fold i in Hi.
    split; [f_equal; apply Hs|]. split; [|apply length_upd_nth].
    intros k'. unfold sget. rewrite length_upd_nth.
    destruct (N.eq_dec k' k) as [->|Hk].
    + fold i. rewrite nth_upd_nth_same by exact Hi. now rewrite !aget_remove_same.
    + rewrite (aget_remove_other k k' m Hk).
      destruct (Nat.eq_dec (shard_of h (length s) k') i) as [Ei|Ei].
      * rewrite Ei, nth_upd_nth_same by exact Hi. rewrite aget_remove_other by exact Hk.
        rewrite <- (Hs k'). unfold sget. now rewrite Ei.
      * rewrite nth_upd_nth_other by auto. apply Hs.
  - split; [reflexivity|]. split; [|apply map_length].
    intros k. unfold sget, sclear. now rewrite nth_map_nil.
Qed.

Lemma same_empty h n : same h (empty_shards n) [].
Proof. intros k. unfold sget, empty_shards. now rewrite nth_repeat_nil. Qed.

(* every operation sequence, every hash function, every shard count *)
Fixpoint flat_run (m : amap) (ops : list mop) : list mout :=
  match ops with [] => [] | o :: r => let '(m', x) := flat_step m o in x :: flat_run m' r end.
Fixpoint shard_run (h : key -> N) (s : shards) (ops : list mop) : list mout :=
  match ops with [] => [] | o :: r => let '(s', x) := shard_step h s o in x :: shard_run h s' r end.

Theorem sharded_refines_flat h n ops : 0 < n -> shard_run h (empty_shards n) ops = flat_run [] ops.
Proof.
  intros Hn.
  assert (G : forall ops s m, 0 < length s -> same h s m -> shard_run h s ops = flat_run m ops).
  { induction ops0 as [|o r IH]; intros s m Hl Hs; cbn; [reflexivity|].
    pose proof (shard_step_refines h s m o Hl Hs) as R.
    destruct (shard_step h s o) as [s' x], (flat_step m o) as [m' x'].
    destruct R as (-> & Hs' & Hl'). f_equal. apply IH; [lia|exact Hs']. }
  apply G; [unfold empty_shards; now rewrite repeat_length|apply same_empty].
Qed.

(* ---------------- racing loaders: every schedule ---------------- *)

(* once a key is present it stays present with the same address *)
Lemma rstep_keeps c t k w : aget k (rmap c) = Some w -> aget k (rmap (rstep c t)) = Some w.
Proof.
  intros H. unfold rstep. destruct (nth_error (rthreads c) t) as [[k0 v|k0 v|k0 g d]|]; auto.
  - destruct (aget k0 (rmap c)); exact H.
  - pose proof (aor_insert_spec k0 v (rmap c)) as Sp. destruct (aor_insert k0 v (rmap c)) as [m w0].
    cbn. destruct Sp as (G & K & N & O). destruct (N.eq_dec k k0) as [->|Hk].
    + destruct (K w H) as [-> ->]. exact H.
    + now rewrite (O k Hk).
Qed.

Lemma rrun_keeps sched : forall c k w, aget k (rmap c) = Some w -> aget k (rmap (rrun sched c)) = Some w.
Proof. induction sched as [|t r IH]; intros c k w H; cbn; [exact H|]. apply IH, rstep_keeps, H. Qed.

(* invariant: every finished thread got what the map holds for its key *)
Definition agree (c : rcfg) : Prop :=
  forall t k g d, nth_error (rthreads c) t = Some (PDone k g d) -> aget k (rmap c) = Some g.

Lemma nth_error_upd_nth {A} i j (f : A -> A) l :
  nth_error (upd_nth i f l) j = if Nat.eqb i j then option_map f (nth_error l j) else nth_error l j.
Proof.
  revert i j; induction l as [|x r IH]; intros [|i] [|j]; cbn; auto.
  all: try (destruct (Nat.eqb i j); reflexivity).
Qed.

Lemma rstep_agree c t : agree c -> agree (rstep c t).
Proof.
  intros A. unfold rstep. destruct (nth_error (rthreads c) t) as [[k0 v|k0 v|k0 g0 d0]|] eqn:E; auto.
  - destruct (aget k0 (rmap c)) as [w|] eqn:G; intros u k g d H; cbn in *;
      rewrite nth_error_upd_nth in H; destruct (Nat.eqb t u) eqn:Et.
    + apply Nat.eqb_eq in Et; subst u. rewrite E in H. inversion H; subst. exact G.
    + eapply A; eauto.
    + apply Nat.eqb_eq in Et; subst u. rewrite E in H. discriminate.
    + eapply A; eauto.
  - pose proof (aor_insert_spec k0 v (rmap c)) as Sp. destruct (aor_insert k0 v (rmap c)) as [m w0].
    destruct Sp as (G & K & N & O). intros u k g d H. cbn in *.
    rewrite nth_error_upd_nth in H. destruct (Nat.eqb t u) eqn:Et.
    + apply Nat.eqb_eq in Et; subst u. rewrite E in H. inversion H; subst. exact G.
    + specialize (A u k g d H). destruct (N.eq_dec k k0) as [->|Hk].
      * destruct (K g A) as [-> ->]. exact A.
      * now rewrite (O k Hk).
Qed.

Lemma rrun_agree sched : forall c, agree c -> agree (rrun sched c).
Proof. induction sched as [|t r IH]; intros c A; cbn; [exact A|]. apply IH, rstep_agree, A. Qed.

(* C01: however the racers are scheduled, any two of them that finished on the same key hold the
   very same address, and it is the one the map holds: one winner, observed by everybody *)
Theorem race_unique_winner threads sched t1 t2 k g1 d1 g2 d2 :
  (forall t p, nth_error threads t = Some p -> exists k v, p = PStart k v) ->
  let c := rrun sched {| rmap := []; rthreads := threads |} in
  nth_error (rthreads c) t1 = Some (PDone k g1 d1) ->
  nth_error (rthreads c) t2 = Some (PDone k g2 d2) ->
  g1 = g2 /\ aget k (rmap c) = Some g1.
Proof.
  intros Hstart c H1 H2.
  assert (A : agree c).
  { apply rrun_agree. intros t k0 g d H. cbn in H. destruct (Hstart t _ H) as (? & ? & ?). discriminate. }
  pose proof (A _ _ _ _ H1) as G1. pose proof (A _ _ _ _ H2) as G2. split; congruence.
Qed.

(* presence never flips back, and the address never changes, along any continuation *)
Theorem presence_is_monotone sched1 sched2 threads k w :
  let c1 := rrun sched1 {| rmap := []; rthreads := threads |} in
  aget k (rmap c1) = Some w -> aget k (rmap (rrun sched2 c1)) = Some w.
Proof. intros c1 H. now apply rrun_keeps. Qed.

(* a racer drops its own value exactly when it lost (and then at once), keeps it when it won *)
Lemma rstep_drop_spec c t : 
  (forall u k g d, nth_error (rthreads c) u = Some (PDone k g d) -> forall v, d = Some v -> v <> g) ->
  forall u k g d, nth_error (rthreads (rstep c t)) u = Some (PDone k g d) -> forall v, d = Some v -> v <> g.
Proof.
  intros A u k g d H v Hd. subst d. unfold rstep in H.
  destruct (nth_error (rthreads c) t) as [[k0 v0|k0 v0|k0 g0 d0]|] eqn:E; eauto.
  - destruct (aget k0 (rmap c)); cbn in H; rewrite nth_error_upd_nth in H;
      destruct (Nat.eqb t u) eqn:Et; eauto;
      apply Nat.eqb_eq in Et; subst u; rewrite E in H; cbn in H; inversion H.
  - destruct (aor_insert k0 v0 (rmap c)) as [m w0]. cbn in H. rewrite nth_error_upd_nth in H.
    destruct (Nat.eqb t u) eqn:Et; eauto.
    apply Nat.eqb_eq in Et; subst u. rewrite E in H. cbn in H.
    destruct (N.eqb_spec w0 v0) as [|Hne]; inversion H; subst. congruence.
Qed.
