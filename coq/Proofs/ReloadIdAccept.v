(* Completeness of the acceptance predicate used by the concurrent part of the `ridiff`
   correspondence engine: whatever the schedule, the per-thread observations (offered id, answer)
   of an update-only program and the final id satisfy [accept_updates].  Hence the engine never
   rejects a behaviour the model allows. *)
From Coq Require Import List Arith NArith Bool Lia Permutation.
From AM Require Import Ref.ReloadId Proofs.ReloadId.
Import ListNotations.
Open Scope N_scope.

Definition ob (e : event) : list (rid * bool) :=
  match ev_op e, ev_out e with
  | AUpdate n, OBool b => [(n, b)]
  | _, _ => []
  end.

(* what thread [t] saw, oldest first *)
Definition obs_of (t : nat) (L : list event) : list (rid * bool) :=
  rev (flat_map ob (filter (fun e => Nat.eqb (ev_tid e) t) L)).

Definition all_obs (n : nat) (L : list event) : list (list (rid * bool)) :=
  map (fun t => obs_of t L) (seq 0 n).

Lemma filter_split_perm {A} (p q r : A -> bool) (L : list A) :
  (forall x, p x = q x || r x) -> (forall x, q x && r x = false) ->
  Permutation (filter p L) (filter q L ++ filter r L).
Proof.
  intros Hp Hd. induction L as [|x L IH]; cbn; [constructor|].
  rewrite Hp. specialize (Hd x).
  destruct (q x), (r x); cbn in *; try discriminate.
  - now constructor.
  - now apply Permutation_cons_app.
  - exact IH.
Qed.

Lemma filter_none {A} (p : A -> bool) (L : list A) : (forall x, p x = false) -> filter p L = [].
Proof. intros H. induction L as [|x L IH]; cbn [filter]; [reflexivity|]. now rewrite H. Qed.

Lemma filter_all {A} (p : A -> bool) (L : list A) : (forall x, In x L -> p x = true) -> filter p L = L.
Proof.
  induction L as [|x L IH]; intros H; cbn [filter]; [reflexivity|].
  rewrite H by now left. f_equal. apply IH. intros y Hy. apply H. now right.
Qed.

Lemma perm_by_tid (L : list event) : forall n s,
  Permutation (filter (fun e => Nat.leb s (ev_tid e) && Nat.ltb (ev_tid e) (s + n)) L)
              (concat (map (fun t => filter (fun e => Nat.eqb (ev_tid e) t) L) (seq s n))).
Proof.
  induction n as [|n IH]; intros s; cbn [seq map concat].
  - rewrite filter_none; [constructor|].
    intros x. destruct (Nat.leb_spec s (ev_tid x)), (Nat.ltb_spec (ev_tid x) (s + 0)); auto; lia.
  - etransitivity.
    + apply (filter_split_perm _ (fun e => Nat.eqb (ev_tid e) s)
               (fun e => Nat.leb (S s) (ev_tid e) && Nat.ltb (ev_tid e) (S s + n))).
      * intros x. destruct (Nat.eqb_spec (ev_tid x) s), (Nat.leb_spec s (ev_tid x)),
          (Nat.ltb_spec (ev_tid x) (s + S n)), (Nat.leb_spec (S s) (ev_tid x)),
          (Nat.ltb_spec (ev_tid x) (S s + n)); cbn; try reflexivity; lia.
      * intros x. destruct (Nat.eqb_spec (ev_tid x) s), (Nat.leb_spec (S s) (ev_tid x)); cbn;
          try reflexivity; lia.
    + apply Permutation_app_head, IH.
Qed.

Lemma perm_all_threads (L : list event) n :
  (forall e, In e L -> (ev_tid e < n)%nat) ->
  Permutation L (concat (map (fun t => filter (fun e => Nat.eqb (ev_tid e) t) L) (seq 0 n))).
Proof.
  intros H. etransitivity; [|apply perm_by_tid].
  replace (filter _ L) with L; [reflexivity|].
  symmetry. apply filter_all. intros e He. specialize (H e He).
  cbn [Nat.leb andb]. apply Nat.ltb_lt. lia.
Qed.

Lemma concat_map_flat_map {A B} (f : A -> list B) (ls : list (list A)) :
  flat_map f (concat ls) = concat (map (flat_map f) ls).
Proof.
  induction ls as [|l ls IH]; cbn; [reflexivity|]. now rewrite flat_map_app, IH.
Qed.

Lemma perm_concat_rev {A} (ls : list (list A)) :
  Permutation (concat ls) (concat (map (@rev A) ls)).
Proof.
  induction ls as [|l ls IH]; cbn; [constructor|].
  apply Permutation_app; [apply Permutation_rev|exact IH].
Qed.

(* all observations, in any grouping, are a permutation of the log's observations *)
Lemma all_obs_perm n L :
  (forall e, In e L -> (ev_tid e < n)%nat) ->
  Permutation (flat_map ob L) (concat (all_obs n L)).
Proof.
  intros H.
  assert (E : all_obs n L =
              map (@rev (rid * bool))
                (map (flat_map ob)
                   (map (fun t => filter (fun e => Nat.eqb (ev_tid e) t) L) (seq 0 n)))).
  { unfold all_obs, obs_of. rewrite !map_map. reflexivity. }
  rewrite E.
  etransitivity; [|apply perm_concat_rev].
  rewrite <- concat_map_flat_map.
  apply Permutation_flat_map, perm_all_threads, H.
Qed.

Lemma trues_flat_map (l : list (rid * bool)) :
  trues l = flat_map (fun x : rid * bool => if snd x then [fst x] else []) l.
Proof.
  unfold trues. induction l as [|[n b] l IH]; cbn; [reflexivity|].
  destruct b; cbn; now rewrite IH.
Qed.

Lemma trues_app l1 l2 : trues (l1 ++ l2) = trues l1 ++ trues l2.
Proof. unfold trues. now rewrite filter_app, map_app. Qed.

Lemma trues_rev l : trues (rev l) = rev (trues l).
Proof.
  induction l as [|x l IH]; [reflexivity|]. cbn [rev]. rewrite trues_app, IH.
  unfold trues. cbn [filter map]. destruct (snd x); cbn [map rev]; [reflexivity|].
  now rewrite app_nil_r.
Qed.

Lemma true_offers_cons e L : true_offers (e :: L) = true_offers [e] ++ true_offers L.
Proof. unfold true_offers. cbn [flat_map]. now rewrite app_nil_r. Qed.

Lemma true_offers_trues L : true_offers L = trues (flat_map ob L).
Proof.
  induction L as [|e L IH]; [reflexivity|].
  rewrite true_offers_cons.
  cbn [flat_map]. rewrite trues_app, <- IH. f_equal.
  unfold true_offers, ob, trues. cbn [flat_map]. rewrite app_nil_r.
  destruct (ev_op e); try reflexivity. destruct (ev_out e) as [[|]| |]; reflexivity.
Qed.

Lemma offers_obs c0 L c : hist c0 L c -> update_only L -> map fst (flat_map ob L) = offers L.
Proof.
  induction 1 as [|L c t o H IH]; intros U; [reflexivity|].
  apply update_only_cons in U as [[n Hn] U]. cbn in Hn; subst o.
  cbn. f_equal. now apply IH.
Qed.

Lemma perm_trues l1 l2 : Permutation l1 l2 -> Permutation (trues l1) (trues l2).
Proof. rewrite !trues_flat_map. apply Permutation_flat_map. Qed.

Lemma sdec_filter p L :
  sdec (true_offers L) ->
  sdec (true_offers (filter p L)) /\
  forall y, In y (true_offers (filter p L)) -> In y (true_offers L).
Proof.
  induction L as [|e L IH]; cbn [filter]; [now split|].
  rewrite true_offers_cons.
  intros S.
  assert (SL : sdec (true_offers L)).
  { destruct (true_offers [e]) as [|x [|? ?]] eqn:E; cbn in S; try tauto.
    unfold true_offers in E; cbn in E. rewrite app_nil_r in E.
    destruct (ev_op e); try discriminate. destruct (ev_out e) as [[|]| |]; discriminate. }
  destruct (IH SL) as (S' & Sub).
  destruct (p e).
  - rewrite (true_offers_cons e (filter p L)).
    split.
    + destruct (true_offers [e]) as [|x [|? ?]] eqn:E; cbn; auto.
      * cbn in S. destruct S as [S1 S2]. split; auto.
      * unfold true_offers in E; cbn in E. rewrite app_nil_r in E.
        destruct (ev_op e); try discriminate. destruct (ev_out e) as [[|]| |]; discriminate.
    + intros y Hy. apply in_app_or in Hy as [Hy|Hy]; apply in_or_app; auto.
  - split; auto. intros y Hy. apply in_or_app. auto.
Qed.

Lemma sdec_rev_increasing l : sdec l -> strictly_increasing (rev l) = true.
Proof.
  induction l as [|x l IH]; cbn; [reflexivity|]. intros [Hx S]. specialize (IH S).
  assert (G : forall (r : list rid), strictly_increasing r = true ->
              (forall y, In y r -> y < x) -> strictly_increasing (r ++ [x]) = true).
  { induction r as [|a r IHr]; intros Hr Hlt; [reflexivity|].
    destruct r as [|b r].
    - cbn. rewrite (proj2 (N.ltb_lt a x)); [reflexivity|]. apply Hlt. now left.
    - cbn in Hr |- *. apply andb_prop in Hr as [Hab Hr]. rewrite Hab. cbn.
      apply IHr; [exact Hr|]. intros y Hy. apply Hlt. now right. }
  apply G; [exact IH|]. intros y Hy. apply Hx. now apply in_rev.
Qed.

Lemma nodupb_NoDup l : NoDup l -> nodupb l = true.
Proof.
  induction 1 as [|x l Hx H IH]; cbn; [reflexivity|]. rewrite IH, andb_true_r.
  apply negb_true_iff. destruct (existsb (N.eqb x) l) eqn:E; [|reflexivity].
  apply existsb_exists in E as (y & Hy & Hxy). apply N.eqb_eq in Hxy; subst. contradiction.
Qed.

(* C18, correspondence side: every schedule of every update-only program is accepted. *)
Theorem accept_updates_complete c0 threads sched :
  update_only_prog threads ->
  let c := run sched (init_cfg c0 threads) in
  all_done c = true ->
  accept_updates c0 (all_obs (length threads) (log c)) (cell c) = true.
Proof.
  intros U c Hd.
  pose proof (run_hist c0 sched (init_cfg c0 threads) (hist_nil c0)) as H.
  pose proof (run_book threads sched _ (init_book c0 threads)) as B. fold c in H, B.
  assert (Uo : update_only (log c)).
  { intros e He. apply U. eapply log_ops_in_program; eauto. }
  destruct (trues_are_the_growths _ _ _ H Uo) as (S & Bd & G & Z).
  destruct B as (_ & _ & Bt).
  pose proof (all_obs_perm (length threads) (log c) Bt) as P.
  pose proof (perm_trues _ _ P) as PT. rewrite <- true_offers_trues in PT.
  unfold accept_updates. repeat (apply andb_true_intro; split).
  - apply N.eqb_eq.
    apply (is_max_unique c0 (map fst (concat (all_obs (length threads) (log c)))));
      [|apply maxl_is_max].
    eapply is_max_ext; [|apply (cell_is_running_max _ _ _ H (update_only_max_only _ Uo))].
    intros n. rewrite <- (offers_obs _ _ _ H Uo). split; intros Hn.
    + eapply Permutation_in; [apply Permutation_map, P|exact Hn].
    + eapply Permutation_in; [apply Permutation_map, Permutation_sym, P|exact Hn].
  - apply forallb_forall. intros l Hl. unfold all_obs in Hl. apply in_map_iff in Hl as (t & <- & _).
    unfold obs_of. rewrite trues_rev, <- true_offers_trues.
    apply sdec_rev_increasing. now apply sdec_filter.
  - apply nodupb_NoDup. eapply Permutation_NoDup; [exact PT|]. now apply sdec_NoDup.
  - apply forallb_forall. intros n Hn. apply N.ltb_lt.
    apply (Permutation_in _ (Permutation_sym PT)) in Hn. now apply Bd.
  - destruct (N.ltb_spec c0 (cell c)) as [Hlt|Hge].
    + apply existsb_exists. exists (cell c). split; [|apply N.eqb_refl].
      eapply Permutation_in; [exact PT|]. now apply G.
    + assert (E : cell c = c0).
      { destruct (cell_is_running_max _ _ _ H (update_only_max_only _ Uo)) as (_ & Gc & _). lia. }
      rewrite (Z E) in PT. apply Permutation_nil in PT. now rewrite PT.
Qed.
