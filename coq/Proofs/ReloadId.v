(* Lemmas about Ref.ReloadId: sequential laws, and the concurrent cell under every schedule. *)
From Coq Require Import List Arith NArith Bool Lia.
From AM Require Import Ref.ReloadId.
Import ListNotations.
Open Scope N_scope.

(* ---------------- sequential laws ---------------- *)

Lemma update_max c n : fst (update c n) = N.max c n.
Proof. reflexivity. Qed.

Lemma update_true_iff_grew c n : snd (update c n) = true <-> c < fst (update c n).
Proof. unfold update; cbn [fst snd]. rewrite N.ltb_lt. lia. Qed.

Lemma update_true_stores_new c n : snd (update c n) = true -> fst (update c n) = n.
Proof. unfold update; cbn [fst snd]. rewrite N.ltb_lt. lia. Qed.

Lemma update_false_keeps c n : snd (update c n) = false -> fst (update c n) = c.
Proof. unfold update; cbn [fst snd]. rewrite N.ltb_ge. lia. Qed.

Lemma never_least n : NEVER <= n.
Proof. unfold NEVER; lia. Qed.

Lemma update_never_is_noop c : update c NEVER = (c, false).
Proof. unfold update, NEVER. f_equal. lia. apply N.ltb_ge. lia. Qed.

Lemma update_idempotent c n :
  update (fst (update c n)) n = (fst (update c n), false).
Proof. unfold update; cbn [fst]. f_equal. lia. apply N.ltb_ge. lia. Qed.

(* a sequence of offers to one ReloadId *)
Definition updates (c : rid) (l : list rid) : rid * list bool :=
  fold_left (fun '(c, bs) n => let '(c', b) := update c n in (c', bs ++ [b])) l (c, []).

Lemma maxl_ge c l : c <= maxl c l.
Proof. revert c; induction l as [|x l IH]; intros c; cbn; [lia|]. specialize (IH (N.max c x)). lia. Qed.

Lemma maxl_ge_all c l x : In x l -> x <= maxl c l.
Proof.
  revert c; induction l as [|y l IH]; intros c H; cbn; [easy|].
  destruct H as [->|H]; [|now apply IH].
  pose proof (maxl_ge (N.max c x) l). lia.
Qed.

Lemma maxl_in c l : maxl c l = c \/ In (maxl c l) l.
Proof.
  revert c; induction l as [|y l IH]; intros c; cbn; [now left|].
  destruct (IH (N.max c y)) as [H|H]; [|now right; right].
  rewrite H. destruct (N.max_spec c y) as [[_ ->]|[_ ->]]; auto.
Qed.

(* [m] is the maximum of [c0] and the elements of [l] *)
Definition is_max (c0 : rid) (l : list rid) (m : rid) : Prop :=
  (m = c0 \/ In m l) /\ c0 <= m /\ forall x, In x l -> x <= m.

Lemma maxl_is_max c l : is_max c l (maxl c l).
Proof. split; [apply maxl_in|split; [apply maxl_ge|intros; now apply maxl_ge_all]]. Qed.

Lemma is_max_unique c l m1 m2 : is_max c l m1 -> is_max c l m2 -> m1 = m2.
Proof.
  intros (I1 & G1 & A1) (I2 & G2 & A2).
  assert (m1 <= m2) by (destruct I1 as [->|I1]; auto).
  assert (m2 <= m1) by (destruct I2 as [->|I2]; auto).
  lia.
Qed.

Lemma is_max_ext c l l' m : (forall x, In x l <-> In x l') -> is_max c l m -> is_max c l' m.
Proof.
  intros E (I & G & A). split; [|split]; auto.
  - destruct I; [now left|right; now apply E].
  - intros x Hx. apply A. now apply E.
Qed.

Lemma updates_fst_gen l : forall c bs,
  fst (fold_left (fun '(c, bs) n => let '(c', b) := update c n in (c', bs ++ [b])) l (c, bs))
  = maxl c l.
Proof. induction l as [|x l IH]; intros c bs; cbn; [reflexivity|]. apply IH. Qed.

Lemma updates_fst c l : fst (updates c l) = maxl c l.
Proof. apply updates_fst_gen. Qed.

(* ---------------- histories of the atomic cell ---------------- *)

Definition mk_event (t : nat) (o : aop) (c : rid) : event :=
  {| ev_tid := t; ev_op := o; ev_before := c;
     ev_after := fst (astep c o); ev_out := snd (astep c o) |}.

(* newest first *)
Inductive hist (c0 : rid) : list event -> rid -> Prop :=
| hist_nil : hist c0 [] c0
| hist_cons L c t o : hist c0 L c -> hist c0 (mk_event t o c :: L) (fst (astep c o)).

Definition max_only (L : list event) : Prop := forall e, In e L -> is_max_op (ev_op e) = true.
Definition update_only (L : list event) : Prop := forall e, In e L -> exists n, ev_op e = AUpdate n.

Lemma update_only_max_only L : update_only L -> max_only L.
Proof. intros H e He. destruct (H e He) as [n ->]. reflexivity. Qed.

Definition offers (L : list event) : list rid :=
  flat_map (fun e => match offered (ev_op e) with Some n => [n] | None => [] end) L.

(* offers answered [true] by update, newest first *)
Definition true_offers (L : list event) : list rid :=
  flat_map (fun e => match ev_op e, ev_out e with
                     | AUpdate n, OBool true => [n]
                     | _, _ => []
                     end) L.

Lemma max_only_cons e L : max_only (e :: L) -> is_max_op (ev_op e) = true /\ max_only L.
Proof. intros H; split; [apply H; now left|intros x Hx; apply H; now right]. Qed.

Lemma update_only_cons e L : update_only (e :: L) -> (exists n, ev_op e = AUpdate n) /\ update_only L.
Proof. intros H; split; [apply H; now left|intros x Hx; apply H; now right]. Qed.

(* every update answers true exactly when the stored id grew at that very step *)
Theorem update_answer_iff_growth c0 L c :
  hist c0 L c ->
  forall e n, In e L -> ev_op e = AUpdate n ->
    ev_out e = OBool (N.ltb (ev_before e) (ev_after e)) /\
    (ev_before e < ev_after e -> ev_after e = n).
Proof.
  induction 1 as [|L c t o H IH]; intros e n He Hop; [easy|].
  destruct He as [<-|He]; [|eauto].
  cbn in Hop; subst o; cbn. split.
  - f_equal. destruct (N.ltb_spec c n), (N.ltb_spec c (N.max c n)); try reflexivity; lia.
  - lia.
Qed.

(* with only update / fetch_max / load, the cell is the running maximum *)
Theorem cell_is_running_max c0 L c :
  hist c0 L c -> max_only L -> is_max c0 (offers L) c.
Proof.
  induction 1 as [|L c t o H IH]; intros M.
  - split; [now left|split; [lia|easy]].
  - apply max_only_cons in M as [Mo M]. specialize (IH M) as (I & G & A).
    destruct o as [n|n| | | |]; try discriminate; cbn [astep fst offers flat_map mk_event ev_op offered app].
    + (* AUpdate *) split; [|split].
      * destruct (N.max_spec c n) as [[_ ->]|[_ ->]]; [right; now left|].
        destruct I; [now left|right; now right].
      * lia.
      * intros x [<-|Hx]; [lia|]. specialize (A x Hx). lia.
    + (* AFetchMax *) split; [|split].
      * destruct (N.max_spec c n) as [[_ ->]|[_ ->]]; [right; now left|].
        destruct I; [now left|right; now right].
      * lia.
      * intros x [<-|Hx]; [lia|]. specialize (A x Hx). lia.
    + (* ALoad *) split; [|split]; auto.
Qed.

Theorem cell_monotone c0 L c :
  hist c0 L c -> max_only L -> forall e, In e L -> ev_before e <= ev_after e /\ ev_after e <= c.
Proof.
  induction 1 as [|L c t o H IH]; intros M e He; [easy|].
  apply max_only_cons in M as [Mo M].
  assert (c <= fst (astep c o)) by (destruct o; try discriminate; cbn; lia).
  destruct He as [<-|He]; [cbn; lia|].
  specialize (IH M e He). lia.
Qed.

(* strictly decreasing (the list is newest first) *)
Fixpoint sdec (l : list rid) : Prop :=
  match l with
  | [] => True
  | x :: r => (forall y, In y r -> y < x) /\ sdec r
  end.

Lemma sdec_NoDup l : sdec l -> NoDup l.
Proof.
  induction l as [|x l IH]; cbn; intros H; constructor.
  - intros Hin. destruct H as [H _]. specialize (H x Hin). lia.
  - apply IH, H.
Qed.

(* each growth of an update-only history is reported: the trues are strictly increasing in time,
   all above the initial id, bounded by the cell, and the current cell value, if it ever grew, is
   one of them *)
Theorem trues_are_the_growths c0 L c :
  hist c0 L c -> update_only L ->
  sdec (true_offers L) /\
  (forall n, In n (true_offers L) -> c0 < n /\ n <= c) /\
  (c0 < c -> In c (true_offers L)) /\
  (c = c0 -> true_offers L = []).
Proof.
  induction 1 as [|L c t o H IH]; intros U.
  - cbn. repeat split; try easy. lia.
  - apply update_only_cons in U as [[n Hn] U]. cbn in Hn; subst o.
    specialize (IH U) as (S & B & G & Z).
    pose proof (cell_is_running_max _ _ _ H (update_only_max_only _ U)) as (_ & Gc & _).
    cbn [true_offers flat_map mk_event ev_op ev_out astep fst snd].
    fold (true_offers L).
    destruct (N.ltb_spec c n) as [Hlt|Hge]; cbn [app].
    + replace (N.max c n) with n by lia. repeat split.
      * intros y Hy. destruct (B y Hy). lia.
      * exact S.
      * destruct H0 as [<-|H0]; [lia|]. destruct (B n0 H0); lia.
      * destruct H0 as [<-|H0]; [lia|]. destruct (B n0 H0); lia.
      * intros _. now left.
      * intros ->. lia.
    + replace (N.max c n) with c by lia. repeat split; auto.
      * apply B in H0. lia.
      * apply B in H0. lia.
Qed.

(* ---------------- the machine: every schedule ---------------- *)

Lemma step_hist c0 c t : hist c0 (log c) (cell c) -> hist c0 (log (step c t)) (cell (step c t)).
Proof.
  intros H. unfold step. destruct (pop_nth t (todo c)) as [[o todo']|]; [|exact H].
  destruct (astep (cell c) o) as [c' out] eqn:E. cbn [log cell].
  replace c' with (fst (astep (cell c) o)) by now rewrite E.
  replace out with (snd (astep (cell c) o)) by now rewrite E.
  now apply (hist_cons c0 (log c) (cell c) t o).
Qed.

Lemma run_hist c0 sched c :
  hist c0 (log c) (cell c) -> hist c0 (log (run sched c)) (cell (run sched c)).
Proof.
  revert c; induction sched as [|t s IH]; intros c H; cbn; [exact H|].
  apply IH, step_hist, H.
Qed.

(* per-thread bookkeeping: what a thread has executed (oldest first) followed by what it still
   has to do is its original program *)
Definition done_by (t : nat) (L : list event) : list aop :=
  rev (map ev_op (filter (fun e => Nat.eqb (ev_tid e) t) L)).

Lemma pop_nth_spec t l o l' :
  pop_nth t l = Some (o, l') ->
  nth t l [] = o :: nth t l' [] /\ (forall u, u <> t -> nth u l' [] = nth u l []) /\ length l' = length l /\ (t < length l)%nat.
Proof.
  revert l o l'; induction t as [|t IH]; intros [|x l] o l' H; cbn in H; try discriminate.
  - destruct x as [|o' r]; [discriminate|]. inversion H; subst. cbn.
    repeat split; auto; try lia. intros [|u] Hu; [easy|reflexivity].
  - destruct (pop_nth t l) as [[o' l'']|] eqn:E; [|discriminate]. inversion H; subst.
    destruct (IH _ _ _ E) as (A & B & C & D). cbn. repeat split; auto; try lia.
    intros [|u] Hu; [reflexivity|]. apply B. lia.
Qed.

Lemma pop_nth_none t l : pop_nth t l = None -> nth t l [] = [].
Proof.
  revert l; induction t as [|t IH]; intros [|x l] H; cbn in *; auto.
  - destruct x; [reflexivity|discriminate].
  - destruct (pop_nth t l) as [[? ?]|] eqn:E; [discriminate|]. now apply IH.
Qed.

Definition book (threads : list (list aop)) (c : cfg) : Prop :=
  length (todo c) = length threads /\
  (forall t, done_by t (log c) ++ nth t (todo c) [] = nth t threads []) /\
  (forall e, In e (log c) -> (ev_tid e < length threads)%nat).

Lemma step_book threads c t : book threads c -> book threads (step c t).
Proof.
  intros (Hl & Hb & Ht). unfold step.
  destruct (pop_nth t (todo c)) as [[o todo']|] eqn:E; [|now split].
  destruct (pop_nth_spec _ _ _ _ E) as (A & B & C & D).
  destruct (astep (cell c) o) as [c' out]. unfold book; cbn [todo log]. split; [congruence|split].
  - intros u. unfold done_by. cbn [filter ev_tid].
    destruct (Nat.eqb_spec t u) as [->|Hne].
    + cbn [map rev ev_op]. rewrite <- app_assoc. cbn [app]. rewrite <- A. apply Hb.
    + rewrite B by congruence. apply Hb.
  - intros e [<-|He]; [cbn; lia|auto].
Qed.

Lemma run_book threads sched c : book threads c -> book threads (run sched c).
Proof.
  revert c; induction sched as [|t s IH]; intros c H; cbn; [exact H|]. apply IH, step_book, H.
Qed.

Lemma init_book c0 threads : book threads (init_cfg c0 threads).
Proof. split; [reflexivity|split; [intros t; reflexivity|easy]]. Qed.

Lemma all_done_nth c t : all_done c = true -> nth t (todo c) [] = [].
Proof.
  unfold all_done. rewrite forallb_forall. intros H.
  destruct (Nat.ltb_spec t (length (todo c))) as [Hlt|Hge].
  - specialize (H _ (nth_In _ [] Hlt)). now destruct (nth t (todo c) []).
  - now apply nth_overflow.
Qed.

Lemma in_done_by t L o : In o (done_by t L) <-> exists e, In e L /\ ev_tid e = t /\ ev_op e = o.
Proof.
  unfold done_by. rewrite <- in_rev, in_map_iff. split.
  - intros (e & <- & He). apply filter_In in He as [He Ht]. apply Nat.eqb_eq in Ht. eauto.
  - intros (e & He & Ht & <-). exists e. split; [reflexivity|]. apply filter_In. split; [exact He|].
    now apply Nat.eqb_eq.
Qed.

(* the ops in a finished run's log are exactly the ops of the program *)
Lemma finished_ops threads c :
  book threads c -> all_done c = true ->
  forall o, (exists e, In e (log c) /\ ev_op e = o) <-> In o (concat threads).
Proof.
  intros (Hl & Hb & Ht) Hd o. split.
  - intros (e & He & <-). apply in_concat. exists (nth (ev_tid e) threads []). split.
    + apply nth_In. auto.
    + rewrite <- Hb, all_done_nth, app_nil_r by exact Hd. apply in_done_by. eauto.
  - intros H. apply in_concat in H as (ops & Hops & Ho).
    destruct (In_nth _ _ [] Hops) as (t & Hlt & <-).
    rewrite <- Hb, all_done_nth, app_nil_r in Ho by exact Hd.
    apply in_done_by in Ho as (e & He & _ & Hop). eauto.
Qed.

Definition program_offers (threads : list (list aop)) : list rid :=
  flat_map (fun o => match offered o with Some n => [n] | None => [] end) (concat threads).

Lemma in_offers L n : In n (offers L) <-> exists e, In e L /\ offered (ev_op e) = Some n.
Proof.
  unfold offers. rewrite in_flat_map. split.
  - intros (e & He & Hn). exists e. split; [exact He|].
    destruct (offered (ev_op e)); [destruct Hn as [->|[]]; reflexivity|easy].
  - intros (e & He & Hn). exists e. split; [exact He|]. rewrite Hn. now left.
Qed.

Lemma in_program_offers threads n :
  In n (program_offers threads) <-> exists o, In o (concat threads) /\ offered o = Some n.
Proof.
  unfold program_offers. rewrite in_flat_map. split.
  - intros (o & Ho & Hn). exists o. split; [exact Ho|].
    destruct (offered o); [destruct Hn as [->|[]]; reflexivity|easy].
  - intros (o & Ho & Hn). exists o. split; [exact Ho|]. rewrite Hn. now left.
Qed.

Definition max_only_prog (threads : list (list aop)) : Prop :=
  forall o, In o (concat threads) -> is_max_op o = true.

Lemma log_ops_in_program threads c :
  book threads c -> forall e, In e (log c) -> In (ev_op e) (concat threads).
Proof.
  intros (Hl & Hb & Ht) e He. apply in_concat. exists (nth (ev_tid e) threads []). split.
  - apply nth_In; auto.
  - rewrite <- Hb. apply in_or_app. left. apply in_done_by. eauto.
Qed.

(* C18, concurrent part: for EVERY schedule of ANY number of threads offering ids through
   update / fetch_max (and reading through load), once all are done the cell holds the maximum of
   the initial id and every offered id. *)
Theorem final_is_max_all_schedules c0 threads sched :
  max_only_prog threads ->
  let c := run sched (init_cfg c0 threads) in
  all_done c = true ->
  cell c = maxl c0 (program_offers threads).
Proof.
  intros M c Hd.
  pose proof (run_hist c0 sched (init_cfg c0 threads) (hist_nil c0)) as H.
  pose proof (run_book threads sched _ (init_book c0 threads)) as B.
  fold c in H, B.
  assert (Mo : max_only (log c)).
  { intros e He. apply M. eapply log_ops_in_program; eauto. }
  apply (is_max_unique c0 (program_offers threads)); [|apply maxl_is_max].
  eapply is_max_ext; [|apply cell_is_running_max; eauto].
  intros n. rewrite in_offers, in_program_offers. split.
  - intros (e & He & Hn). exists (ev_op e). split; [|exact Hn].
    apply (finished_ops threads c B Hd). eauto.
  - intros (o & Ho & Hn). apply (finished_ops threads c B Hd) in Ho as (e & He & <-). eauto.
Qed.

(* ... and at every moment of every schedule the cell never decreases *)
Theorem monotone_all_schedules c0 threads sched :
  max_only_prog threads ->
  let c := run sched (init_cfg c0 threads) in
  c0 <= cell c /\ forall e, In e (log c) -> ev_before e <= ev_after e <= cell c.
Proof.
  intros M c.
  pose proof (run_hist c0 sched (init_cfg c0 threads) (hist_nil c0)) as H.
  pose proof (run_book threads sched _ (init_book c0 threads)) as B. fold c in H, B.
  assert (Mo : max_only (log c)).
  { intros e He. apply M. eapply log_ops_in_program; eauto. }
  split.
  - now destruct (cell_is_running_max _ _ _ H Mo) as (_ & G & _).
  - intros e He. now apply (cell_monotone _ _ _ H Mo).
Qed.

Definition update_only_prog (threads : list (list aop)) : Prop :=
  forall o, In o (concat threads) -> exists n, o = AUpdate n.

(* ... and each distinct growth is reported to exactly one caller: the offers answered [true]
   are pairwise distinct (no growth reported twice), each is a real growth above the initial id,
   and the final id, if the cell grew at all, is among them (no growth is lost). *)
Theorem one_true_per_growth_all_schedules c0 threads sched :
  update_only_prog threads ->
  let c := run sched (init_cfg c0 threads) in
  NoDup (true_offers (log c)) /\
  (forall n, In n (true_offers (log c)) -> c0 < n <= cell c) /\
  (c0 < cell c -> In (cell c) (true_offers (log c))) /\
  (cell c = c0 -> true_offers (log c) = []).
Proof.
  intros U c.
  pose proof (run_hist c0 sched (init_cfg c0 threads) (hist_nil c0)) as H.
  pose proof (run_book threads sched _ (init_book c0 threads)) as B. fold c in H, B.
  assert (Uo : update_only (log c)).
  { intros e He. apply U. eapply log_ops_in_program; eauto. }
  destruct (trues_are_the_growths _ _ _ H Uo) as (S & Bd & G & Z).
  split; [now apply sdec_NoDup|]. repeat split; auto; apply Bd; auto.
Qed.
