(* Entries that are not reloadable (en_dyn = false: get_or_insert, types that opt out, every entry of
   a cache without reloader) are never changed by ANY operation of the system model, reload passes
   included, except by the removal operations that name them. *)
From Coq Require Import List String NArith ZArith Bool Lia.
From AM Require Import Ref.Load Ref.Sys Proofs.SysGrows.
Import ListNotations.

Lemma ty_eqb_eq a b : ty_eqb a b = true <-> a = b.
Proof. destruct a, b; cbn; split; intros H; try reflexivity; try discriminate. Qed.

Lemma key_eqb_eq a b : key_eqb a b = true <-> a = b.
Proof.
  destruct a as [t i], b as [u j]. unfold key_eqb; cbn. rewrite andb_true_iff, ty_eqb_eq, String.eqb_eq.
  split; [intros [-> ->]; reflexivity|intros H; inversion H; auto].
Qed.

Lemma key_eqb_refl k : key_eqb k k = true. Proof. now apply key_eqb_eq. Qed.

Lemma key_eqb_neq a b : a <> b -> key_eqb a b = false.
Proof. intros H. destruct (key_eqb a b) eqn:E; [apply key_eqb_eq in E; contradiction|reflexivity]. Qed.

Lemma assoc_set_other (l : list (key * entry)) k k' v :
  k <> k' -> assoc key_eqb k (assoc_set key_eqb k' v l) = assoc key_eqb k l.
Proof.
  intros H. induction l as [|[a b] r IH]; cbn.
  - now rewrite key_eqb_neq.
  - destruct (key_eqb k' a) eqn:E1; cbn.
    + apply key_eqb_eq in E1; subst a. now rewrite !key_eqb_neq.
    + destruct (key_eqb k a); auto.
Qed.

Lemma assoc_del_other (l : list (key * entry)) k k' :
  k <> k' -> assoc key_eqb k (assoc_del key_eqb k' l) = assoc key_eqb k l.
Proof.
  intros H. unfold assoc_del. induction l as [|[a b] r IH]; cbn; [reflexivity|].
  destruct (key_eqb k' a) eqn:E1; cbn.
  - apply key_eqb_eq in E1; subst a. now rewrite key_eqb_neq.
  - destruct (key_eqb k a); auto.
Qed.

(* static entries of [s] are still there, unchanged, in [s'] *)
Definition static_kept (s s' : st) : Prop :=
  forall k e, cache_get s k = Some e -> en_dyn e = false -> cache_get s' k = Some e.

Lemma static_kept_refl s : static_kept s s. Proof. intros k e H _. exact H. Qed.
Lemma static_kept_trans a b c : static_kept a b -> static_kept b c -> static_kept a c.
Proof. intros H1 H2 k e G D. apply H2; auto. Qed.
Lemma grows_static_kept s s' : grows s s' -> static_kept s s'.
Proof. intros G k e H _. eapply grows_get; eauto. Qed.
Lemma same_cache_static_kept s s' : cache s' = cache s -> static_kept s s'.
Proof. intros H. apply grows_static_kept, grows_same, H. Qed.

Lemma cache_drain s : cache (drain s) = cache s.
Proof.
  unfold drain. cbn. generalize (cm s) as l. intros l. revert s.
  induction l as [|m r IH]; intros s; cbn; [reflexivity|]. rewrite IH. destruct m; reflexivity.
Qed.

Lemma cache_take_events es : forall s, cache (take_events s es) = cache s.
Proof.
  unfold take_events. induction es as [|d r IH]; intros s; cbn; [reflexivity|]. rewrite IH.
  destruct (g_get (graph s) (dep_of_dentry d)); reflexivity.
Qed.

Lemma reload_one_static fuel s k : static_kept s (fst (reload_one fuel s k)).
Proof.
  unfold reload_one.
  destruct (g_get (graph s) (DepAsset k)) as [n|]; [|apply static_kept_refl].
  destruct (g_typ n) as [t|]; [|apply static_kept_refl].
  destruct (cache_get s k) as [old|] eqn:Eold; [|apply static_kept_refl].
  destruct (en_dyn old) eqn:Edyn; cbn [negb]; [|apply static_kept_refl].
  pose proof (load_wrapped_grows _ _ (proj1 (load_f_grows fuel)) (proj2 (load_f_grows fuel))
                (rec_push s (Some [])) t (snd k)) as G.
  destruct (load_wrapped (load_entry_f fuel) (load_owned_f fuel) (rec_push s (Some [])) t (snd k))
    as [[s1 tr] r]. cbn [fst] in G.
  pose proof (cache_rec_pop s1) as C. destruct (rec_pop s1) as [s2 deps]. cbn [fst] in C.
  assert (G2 : grows s s2).
  { eapply grows_trans; [|apply grows_same; exact C]. exact G. }
  destruct r as [[v tok]|e| |]; cbn [fst]; try (now apply grows_static_kept).
  intros k' e' H D. unfold cache_get, cache_set, set_graph, set_cache in *. cbn [cache].
  destruct (key_eqb k' k) eqn:E.
  - apply key_eqb_eq in E; subst k'. rewrite Eold in H. inversion H; subst. congruence.
  - rewrite assoc_set_other.
    + eapply (grows_get s s2); eauto.
    + intros ->. now rewrite key_eqb_refl in E.
Qed.

Lemma reload_all_static fuel : forall order s tr, static_kept s (fst (reload_all fuel s order tr)).
Proof.
  induction order as [|k r IH]; intros s tr; cbn [reload_all]; [apply static_kept_refl|].
  pose proof (reload_one_static fuel s k) as H. destruct (reload_one fuel s k) as [s1 tr1].
  cbn [fst] in H. eapply static_kept_trans; [exact H|apply IH].
Qed.

Lemma run_pass_static fuel s order : static_kept s (fst (fst (run_pass fuel s order))).
Proof.
  unfold run_pass.
  pose proof (reload_all_static fuel order (set_to_reload s []) []) as H.
  destruct (reload_all fuel (set_to_reload s []) order []) as [s1 tr]. exact H.
Qed.

Definition removes (o : op) (k : key) : bool :=
  match o with
  | ORemove t id | OTake t id => key_eqb (t, id) k
  | OClear => true
  | _ => false
  end.

Theorem static_never_written fuel s o k e :
  cache_get s k = Some e -> en_dyn e = false -> removes o k = false ->
  cache_get (fst (fst (step fuel s o))) k = Some e.
Proof.
  intros H D R. destruct o; cbn [step removes] in *.
  - (* load *)
    pose proof (proj1 (load_f_grows fuel) s t id) as G.
    destruct (load_entry_f fuel s t id) as [[s1 tr] r]. cbn [fst] in *. eapply grows_get; eauto.
  - pose proof (proj2 (load_f_grows fuel) s t id) as G.
    destruct (load_owned_f fuel s t id) as [[s1 tr] r]. cbn [fst] in *. eapply grows_get; eauto.
  - pose proof (cache_get_cached_rec s t id) as C. destruct (get_cached_rec s t id) as [s1 o].
    cbn [fst] in *. unfold cache_get in *. now rewrite C.
  - (* get_or_insert *)
    destruct (bump_tok s) as [s1 tok] eqn:Eb.
    assert (C1 : cache s1 = cache s) by (unfold bump_tok in Eb; inversion Eb; reflexivity).
    pose proof (cache_get_cached_rec s1 t id) as C2. destruct (get_cached_rec s1 t id) as [s2 o].
    cbn [fst] in C2. destruct o as [e0|]; cbn [fst].
    + unfold cache_get in *. now rewrite C2, C1.
    + pose proof (cache_insert_grows s2 (t, id) (mark_goi (mk_entry s2 t (VInt z "insert") tok))) as G.
      destruct (cache_insert s2 (t, id) (mark_goi (mk_entry s2 t (VInt z "insert") tok))) as [[s3 e'] d].
      cbn [fst] in *. eapply grows_get; [exact G|]. unfold cache_get in *. now rewrite C2, C1.
  - exact H.
  - (* remove *)
    destruct (cache_get s (t, id)) as [e0|]; cbn [fst]; [|exact H].
    unfold forget_watchers, set_watchers, set_cache, cache_get in *; cbn [cache].
    rewrite assoc_del_other; [exact H|]. intros ->. now rewrite key_eqb_refl in R.
  - destruct (cache_get s (t, id)) as [e0|]; cbn [fst]; [|exact H].
    unfold forget_watchers, set_watchers, set_cache, cache_get in *; cbn [cache].
    rewrite assoc_del_other; [exact H|]. intros ->. now rewrite key_eqb_refl in R.
  - discriminate.
  - exact H. - exact H. - exact H. - exact H. - exact H. - exact H. - exact H.
  - (* notify *)
    destruct (has_reloader s); cbn [fst]; [|exact H].
    assert (H1 : cache_get (take_events (drain s) es) k = Some e).
    { unfold cache_get in *. now rewrite cache_take_events, cache_drain. }
    destruct (static_mode (take_events (drain s) es)); cbn [fst]; [|exact H1].
    pose proof (run_pass_static fuel (take_events (drain s) es) order) as P.
    destruct (run_pass fuel (take_events (drain s) es) order) as [[s2 ok] tr]. cbn [fst] in *.
    now apply P.
  - (* hot_reload *)
    destruct (has_reloader s); cbn [fst]; [|exact H].
    assert (H1 : cache_get (drain s) k = Some e) by (unfold cache_get in *; now rewrite cache_drain).
    destruct (static_mode s); cbn [fst]; [exact H1|].
    pose proof (run_pass_static fuel (drain s) order) as P.
    destruct (run_pass fuel (drain s) order) as [[s2 ok] tr]. cbn [fst] in *. now apply P.
  - (* enhance *)
    destruct (has_reloader s && negb (static_mode s)); cbn [fst]; [|exact H].
    assert (H1 : cache_get (set_static (drain s) true) k = Some e).
    { unfold cache_get in *. cbn [cache set_static]. now rewrite cache_drain. }
    pose proof (run_pass_static fuel (set_static (drain s) true) order) as P.
    destruct (run_pass fuel (set_static (drain s) true) order) as [[s2 ok] tr]. cbn [fst] in *.
    now apply P.
  - exact H.
  - (* poll_global *)
    destruct (cache_get s (t, id)) as [e0|] eqn:E0; cbn [fst]; [|exact H].
    destruct (en_dyn e0) eqn:D0; cbn [fst]; [|exact H].
    unfold cache_set, set_cache, cache_get in *; cbn [cache].
    destruct (key_eqb k (t, id)) eqn:E.
    + apply key_eqb_eq in E; subst k. rewrite E0 in H. inversion H; subst. congruence.
    + rewrite assoc_set_other; [exact H|]. intros ->. now rewrite key_eqb_refl in E.
  - destruct (cache_get s (t, id)); cbn [fst]; exact H.
  - destruct (assoc N.eqb w (watchers s)) as [[k0 last]|]; cbn [fst]; [|exact H].
    destruct (cache_get s k0); cbn [fst]; exact H.
Qed.

(* ... hence along whole histories *)
Fixpoint never_removed (ops : list op) (k : key) : bool :=
  match ops with [] => true | o :: r => negb (removes o k) && never_removed r k end.

Theorem static_never_written_run : forall ops s k e,
  cache_get s k = Some e -> en_dyn e = false -> never_removed ops k = true ->
  cache_get (fst (run s ops)) k = Some e.
Proof.
  induction ops as [|o r IH]; intros s k e H D N; cbn [run]; [exact H|].
  cbn [never_removed] in N. apply andb_true_iff in N as [N1 N2]. apply negb_true_iff in N1.
  pose proof (static_never_written default_fuel s o k e H D N1) as H1.
  destruct (step default_fuel s o) as [[s1 x] tr]. cbn [fst] in H1.
  specialize (IH s1 k e H1 D N2). destruct (run s1 r) as [s2 rest]. exact IH.
Qed.

(* which entries are static: everything in a cache without reloader, every entry of a type that
   opts out, everything stored by get_or_insert *)
Lemma mk_entry_static s t v tok :
  has_reloader s = false \/ hot_reloaded t = false -> en_dyn (mk_entry s t v tok) = false.
Proof. intros [H|H]; unfold mk_entry; cbn; rewrite H; [apply andb_false_r|reflexivity]. Qed.

Lemma goi_entry_static s t v tok : en_dyn (mark_goi (mk_entry s t v tok)) = false.
Proof. reflexivity. Qed.
