(* The dependency graph of the reloader (Ref.Sys: graph_insert = DepsGraph::insert) keeps its two
   directions consistent: a is listed among the dependents of d exactly when d is listed among the
   dependencies of a -- after every insertion, hence in every state the system reaches.  After an
   insertion the asset's dependency set is exactly the set just recorded (older edges that are not
   recorded any more are gone), every other asset keeps its own. *)
From Coq Require Import List String NArith ZArith Bool Lia.
From AM Require Import Ref.Load Ref.Sys Proofs.SysStatic Proofs.SysFrame.
Import ListNotations.

Lemma dep_eqb_eq a b : dep_eqb a b = true <-> a = b.
Proof.
  destruct a as [i e|i|k], b as [j f|j|l]; cbn; try (split; [discriminate|congruence]).
  - rewrite andb_true_iff, !String.eqb_eq. split; [intros [-> ->]; reflexivity|intros H; inversion H; auto].
  - rewrite String.eqb_eq. split; congruence.
  - rewrite key_eqb_eq. split; congruence.
Qed.
Lemma dep_eqb_refl a : dep_eqb a a = true. Proof. now apply dep_eqb_eq. Qed.
Lemma dep_eqb_neq a b : a <> b -> dep_eqb a b = false.
Proof. intros H. destruct (dep_eqb a b) eqn:E; [apply dep_eqb_eq in E; contradiction|reflexivity]. Qed.
Lemma dep_eqb_sym a b : dep_eqb a b = dep_eqb b a.
Proof.
  destruct (dep_eqb a b) eqn:E.
  - apply dep_eqb_eq in E. subst. symmetry. apply dep_eqb_refl.
  - symmetry. apply dep_eqb_neq. intros ->. now rewrite dep_eqb_refl in E.
Qed.
Lemma dep_eq_dec (a b : dep) : {a = b} + {a <> b}.
Proof. destruct (dep_eqb a b) eqn:E; [left; now apply dep_eqb_eq|right; intros ->; now rewrite dep_eqb_refl in E]. Qed.

(* ---- association lists keyed by dep ---- *)
Section AssocDep.
  Context {V : Type}.
  Lemma aset_same (l : list (dep * V)) k v : assoc dep_eqb k (assoc_set dep_eqb k v l) = Some v.
  Proof.
    induction l as [|[k' v'] r IH]; cbn; [now rewrite dep_eqb_refl|].
    destruct (dep_eqb k k') eqn:E; cbn; [now rewrite dep_eqb_refl|]. now rewrite E.
  Qed.
  Lemma aset_other (l : list (dep * V)) k k' v : k' <> k -> assoc dep_eqb k' (assoc_set dep_eqb k v l) = assoc dep_eqb k' l.
  Proof.
    intros N. induction l as [|[k0 v0] r IH]; cbn; [now rewrite dep_eqb_neq|].
    destruct (dep_eqb k k0) eqn:E; cbn.
    - apply dep_eqb_eq in E. subst k0. now rewrite !dep_eqb_neq.
    - destruct (dep_eqb k' k0); [reflexivity|exact IH].
  Qed.
  Lemma aapp_none (l l' : list (dep * V)) k : assoc dep_eqb k l = None -> assoc dep_eqb k (l ++ l') = assoc dep_eqb k l'.
  Proof. induction l as [|[k0 v0] r IH]; cbn; [auto|]. destruct (dep_eqb k k0); [discriminate|exact IH]. Qed.
  Lemma aapp_some (l l' : list (dep * V)) k v : assoc dep_eqb k l = Some v -> assoc dep_eqb k (l ++ l') = Some v.
  Proof. induction l as [|[k0 v0] r IH]; cbn; [discriminate|]. destruct (dep_eqb k k0); [auto|exact IH]. Qed.
End AssocDep.

(* ---- membership ---- *)
Lemma dep_mem_app y l l' : dep_mem y (l ++ l') = dep_mem y l || dep_mem y l'.
Proof. unfold dep_mem. apply existsb_app. Qed.
Lemma dep_mem_add y a l : dep_mem y (dep_add a l) = dep_eqb y a || dep_mem y l.
Proof.
  unfold dep_add. destruct (dep_mem a l) eqn:E.
  - destruct (dep_eqb y a) eqn:F; [|reflexivity]. apply dep_eqb_eq in F. subst. now rewrite E.
  - rewrite dep_mem_app. cbn. rewrite orb_false_r. apply orb_comm.
Qed.
Lemma dep_mem_filter y (p : dep -> bool) l : dep_mem y (filter p l) = p y && dep_mem y l.
Proof.
  unfold dep_mem. induction l as [|x r IH]; cbn; [now rewrite andb_false_r|].
  destruct (p x) eqn:P; cbn; rewrite IH.
  - destruct (dep_eqb y x) eqn:E; cbn; [|reflexivity]. apply dep_eqb_eq in E. subst. now rewrite P.
  - destruct (dep_eqb y x) eqn:E; cbn; [|reflexivity]. apply dep_eqb_eq in E. subst. rewrite P. reflexivity.
Qed.
Lemma dep_mem_del y a l : dep_mem y (dep_del a l) = negb (dep_eqb a y) && dep_mem y l.
Proof. unfold dep_del. apply dep_mem_filter. Qed.

(* ---- the two views of the graph ---- *)
Definition deps_of (g : list (dep * gnode)) (a : dep) : list dep :=
  match g_get g a with Some n => g_deps n | None => [] end.
Definition rdeps_of (g : list (dep * gnode)) (d : dep) : list dep :=
  match g_get g d with Some n => g_rdeps n | None => [] end.
Definition GInv (g : list (dep * gnode)) : Prop :=
  forall a d, dep_mem a (rdeps_of g d) = dep_mem d (deps_of g a).

(* step 1: a becomes a dependent of every recorded dependency *)
Definition addr (a : dep) (g : list (dep * gnode)) (d : dep) : list (dep * gnode) :=
  let n := match g_get g d with Some n => n | None => gnode_default end in
  assoc_set dep_eqb d {| g_typ := g_typ n; g_rdeps := dep_add a (g_rdeps n); g_deps := g_deps n |} g.

Lemma addr_deps a g d x : deps_of (addr a g d) x = deps_of g x.
Proof.
  unfold deps_of, addr, g_get. destruct (dep_eq_dec x d) as [->|N].
  - rewrite aset_same. cbn. destruct (assoc dep_eqb d g); reflexivity.
  - now rewrite aset_other.
Qed.
Lemma addr_rdeps a g d x y :
  dep_mem y (rdeps_of (addr a g d) x) = (dep_eqb y a && dep_eqb x d) || dep_mem y (rdeps_of g x).
Proof.
  unfold rdeps_of, addr, g_get. destruct (dep_eq_dec x d) as [->|N].
  - rewrite aset_same. cbn [g_rdeps]. rewrite dep_mem_add, dep_eqb_refl, andb_true_r.
    destruct (assoc dep_eqb d g); reflexivity.
  - rewrite aset_other by assumption. now rewrite (dep_eqb_neq x d N), andb_false_r.
Qed.

Lemma fold_addr_deps a : forall deps g x, deps_of (fold_left (addr a) deps g) x = deps_of g x.
Proof. induction deps as [|d r IH]; intros g x; cbn [fold_left]; [reflexivity|]. now rewrite IH, addr_deps. Qed.
Lemma fold_addr_rdeps a : forall deps g x y,
  dep_mem y (rdeps_of (fold_left (addr a) deps g) x) = (dep_eqb y a && dep_mem x deps) || dep_mem y (rdeps_of g x).
Proof.
  induction deps as [|d r IH]; intros g x y; cbn [fold_left]; [cbn; now rewrite andb_false_r|].
  rewrite IH, addr_rdeps. cbn [dep_mem existsb]. fold (dep_mem x r).
  destruct (dep_eqb y a), (dep_eqb x d), (dep_mem x r), (dep_mem y (rdeps_of g x)); reflexivity.
Qed.

(* step 3: a stops being a dependent of what it no longer depends on *)
Definition delr (a : dep) (g : list (dep * gnode)) (d : dep) : list (dep * gnode) :=
  g_upd g d (fun m => {| g_typ := g_typ m; g_rdeps := dep_del a (g_rdeps m); g_deps := g_deps m |}).

Lemma delr_deps a g d x : deps_of (delr a g d) x = deps_of g x.
Proof.
  unfold deps_of, delr, g_upd, g_get. destruct (assoc dep_eqb d g) as [n|] eqn:E; [|reflexivity].
  destruct (dep_eq_dec x d) as [->|N]; [rewrite aset_same, E; reflexivity | now rewrite aset_other].
Qed.
Lemma delr_rdeps a g d x y :
  dep_mem y (rdeps_of (delr a g d) x) = negb (dep_eqb y a && dep_eqb x d) && dep_mem y (rdeps_of g x).
Proof.
  unfold rdeps_of, delr, g_upd, g_get. destruct (assoc dep_eqb d g) as [n|] eqn:E.
  - destruct (dep_eq_dec x d) as [->|N].
    + rewrite aset_same, E. cbn [g_rdeps]. rewrite dep_mem_del, dep_eqb_refl, andb_true_r, (dep_eqb_sym a y). reflexivity.
    + rewrite aset_other by assumption. now rewrite (dep_eqb_neq x d N), andb_false_r.
  - destruct (dep_eq_dec x d) as [->|N].
    + rewrite E. cbn. now rewrite andb_false_r.
    + now rewrite (dep_eqb_neq x d N), andb_false_r.
Qed.
Lemma fold_delr_deps a : forall ds g x, deps_of (fold_left (delr a) ds g) x = deps_of g x.
Proof. induction ds as [|d r IH]; intros g x; cbn [fold_left]; [reflexivity|]. now rewrite IH, delr_deps. Qed.
Lemma fold_delr_rdeps a : forall ds g x y,
  dep_mem y (rdeps_of (fold_left (delr a) ds g) x) = negb (dep_eqb y a && dep_mem x ds) && dep_mem y (rdeps_of g x).
Proof.
  induction ds as [|d r IH]; intros g x y; cbn [fold_left]; [cbn; now rewrite andb_false_r|].
  rewrite IH, delr_rdeps. cbn [dep_mem existsb]. fold (dep_mem x r).
  destruct (dep_eqb y a), (dep_eqb x d), (dep_mem x r), (dep_mem y (rdeps_of g x)); reflexivity.
Qed.

(* ---- graph_insert, in the two views ---- *)
Lemma graph_insert_unfold g a deps t :
  graph_insert g a deps t =
  let g1 := fold_left (addr a) deps g in
  match g_get g1 a with
  | None => g1 ++ [(a, {| g_typ := Some t; g_rdeps := []; g_deps := deps |})]
  | Some n =>
      fold_left (delr a) (filter (fun d => negb (dep_mem d deps)) (g_deps n))
        (assoc_set dep_eqb a {| g_typ := Some t; g_rdeps := g_rdeps n; g_deps := deps |} g1)
  end.
Proof. reflexivity. Qed.

Theorem graph_insert_deps_self g a deps t : deps_of (graph_insert g a deps t) a = deps.
Proof.
  rewrite graph_insert_unfold. cbv zeta. set (g1 := fold_left (addr a) deps g).
  destruct (g_get g1 a) as [n|] eqn:E.
  - rewrite fold_delr_deps. unfold deps_of, g_get. now rewrite aset_same.
  - unfold deps_of, g_get in *. rewrite (aapp_none _ _ _ E). cbn. now rewrite dep_eqb_refl.
Qed.

Theorem graph_insert_deps_other g a deps t x : x <> a -> deps_of (graph_insert g a deps t) x = deps_of g x.
Proof.
  intros N. rewrite graph_insert_unfold. cbv zeta. set (g1 := fold_left (addr a) deps g).
  assert (D1 : deps_of g1 x = deps_of g x) by apply fold_addr_deps.
  destruct (g_get g1 a) as [n|] eqn:E.
  - rewrite fold_delr_deps. unfold deps_of, g_get in *. now rewrite aset_other.
  - unfold deps_of, g_get in *. destruct (assoc dep_eqb x g1) as [m|] eqn:F.
    + now rewrite (aapp_some _ _ _ _ F).
    + rewrite (aapp_none _ _ _ F). cbn. now rewrite (dep_eqb_neq x a N).
Qed.

Lemma graph_insert_rdeps g a deps t x y :
  dep_mem y (rdeps_of (graph_insert g a deps t) x) =
  if dep_eqb y a then dep_mem x deps || (dep_mem y (rdeps_of g x) && negb (dep_mem x (deps_of (fold_left (addr a) deps g) a)))
  else dep_mem y (rdeps_of g x).
Proof.
  rewrite graph_insert_unfold. cbv zeta. set (g1 := fold_left (addr a) deps g).
  assert (R1 : forall x y, dep_mem y (rdeps_of g1 x) = (dep_eqb y a && dep_mem x deps) || dep_mem y (rdeps_of g x))
    by (intros; apply fold_addr_rdeps).
  destruct (g_get g1 a) as [n|] eqn:E.
  - rewrite fold_delr_rdeps.
    assert (R2 : dep_mem y (rdeps_of (assoc_set dep_eqb a {| g_typ := Some t; g_rdeps := g_rdeps n; g_deps := deps |} g1) x)
                 = dep_mem y (rdeps_of g1 x)).
    { unfold rdeps_of, g_get in *. destruct (dep_eq_dec x a) as [->|N]; [rewrite aset_same, E; reflexivity | now rewrite aset_other]. }
    rewrite R2, R1, dep_mem_filter. unfold deps_of. rewrite E.
    destruct (dep_eqb y a), (dep_mem x deps), (dep_mem x (g_deps n)), (dep_mem y (rdeps_of g x)); reflexivity.
  - assert (R2 : dep_mem y (rdeps_of (g1 ++ [(a, {| g_typ := Some t; g_rdeps := []; g_deps := deps |})]) x) = dep_mem y (rdeps_of g1 x)).
    { unfold rdeps_of, g_get in *. destruct (assoc dep_eqb x g1) as [m|] eqn:F.
      - now rewrite (aapp_some _ _ _ _ F).
      - rewrite (aapp_none _ _ _ F). cbn. destruct (dep_eqb x a); reflexivity. }
    rewrite R2, R1. unfold deps_of. rewrite E. cbn [dep_mem existsb]. rewrite andb_true_r.
    destruct (dep_eqb y a) eqn:Y; cbn; [|reflexivity].
    (* a had no node in g1, so nothing listed it ... but then it is not in any old rdeps either; the
       formula keeps the old membership, which the invariant (below) shows to be false *)
    reflexivity.
Qed.

(* the invariant is kept by an insertion *)
Theorem graph_insert_inv g a deps t : GInv g -> GInv (graph_insert g a deps t).
Proof.
  intros I y x. rewrite graph_insert_rdeps.
  destruct (dep_eqb y a) eqn:Y.
  - apply dep_eqb_eq in Y. subst y. rewrite graph_insert_deps_self.
    rewrite fold_addr_deps, (I a x).
    destruct (dep_mem x deps), (dep_mem x (deps_of g a)); reflexivity.
  - assert (N : y <> a) by (intros ->; now rewrite dep_eqb_refl in Y).
    rewrite (graph_insert_deps_other _ _ _ _ _ N). apply I.
Qed.

(* who depends on whom after an insertion: a depends on exactly the recorded entries ... *)
Theorem graph_insert_rdeps_self g a deps t x : GInv g ->
  dep_mem a (rdeps_of (graph_insert g a deps t) x) = dep_mem x deps.
Proof. intros I. rewrite (graph_insert_inv g a deps t I a x), graph_insert_deps_self. reflexivity. Qed.
(* ... and nobody else's edges move *)
Theorem graph_insert_rdeps_other g a deps t x y : y <> a ->
  dep_mem y (rdeps_of (graph_insert g a deps t) x) = dep_mem y (rdeps_of g x).
Proof. intros N. rewrite graph_insert_rdeps, (dep_eqb_neq y a N). reflexivity. Qed.

Theorem insertion_attributes_exactly g a deps t :
  GInv g ->
  deps_of (graph_insert g a deps t) a = deps /\
  (forall x, dep_mem a (rdeps_of (graph_insert g a deps t) x) = dep_mem x deps) /\
  (forall x, x <> a -> deps_of (graph_insert g a deps t) x = deps_of g x) /\
  (forall x y, y <> a -> dep_mem y (rdeps_of (graph_insert g a deps t) x) = dep_mem y (rdeps_of g x)).
Proof.
  intros I. split; [apply graph_insert_deps_self|]. split; [intros x; now apply graph_insert_rdeps_self|].
  split; [intros x N; now apply graph_insert_deps_other | intros x y N; now apply graph_insert_rdeps_other].
Qed.

Lemma ginv_nil : GInv []. Proof. intros a d. reflexivity. Qed.

(* ---- every state the system reaches ---- *)
Lemma process_msg_inv s m : GInv (graph s) -> GInv (graph (process_msg s m)).
Proof. destruct m as [k deps|]; cbn; [apply graph_insert_inv|auto]. Qed.
Lemma fold_process_inv : forall l s, GInv (graph s) -> GInv (graph (fold_left process_msg l s)).
Proof. induction l as [|m r IH]; intros s I; cbn [fold_left]; [exact I|]. apply IH, process_msg_inv, I. Qed.
Lemma drain_inv s : GInv (graph s) -> GInv (graph (drain s)).
Proof. intros I. unfold drain. cbn. now apply fold_process_inv. Qed.
Lemma take_events_graph es : forall s, graph (take_events s es) = graph s.
Proof.
  unfold take_events. induction es as [|d r IH]; intros s; cbn [fold_left]; [reflexivity|].
  rewrite IH. destruct (g_get (graph s) (dep_of_dentry d)); reflexivity.
Qed.

Lemma reload_one_inv fuel s k : GInv (graph s) -> GInv (graph (fst (reload_one fuel s k))).
Proof.
  intros I. unfold reload_one.
  destruct (g_get (graph s) (DepAsset k)) as [n|]; [|exact I].
  destruct (g_typ n) as [t|]; [|exact I].
  destruct (cache_get s k) as [old|]; [|exact I].
  destruct (en_dyn old); cbn [negb]; [|exact I].
  pose proof (load_wrapped_quiet _ _ (proj1 (load_f_quiet fuel)) (proj2 (load_f_quiet fuel))
                (rec_push s (Some [])) t (snd k)) as Q.
  destruct (load_wrapped (load_entry_f fuel) (load_owned_f fuel) (rec_push s (Some [])) t (snd k)) as [[s1 tr] r].
  cbn [fst] in Q. pose proof (quiet_push_pop s (Some []) s1 Q) as P.
  destruct (rec_pop s1) as [s2 deps]. cbn [fst] in P.
  assert (G : graph s2 = graph s) by apply (q_graph _ _ P).
  destruct r as [[v tok]|e| |]; cbn [fst]; try (rewrite G; exact I).
  cbn [graph set_graph]. rewrite G. now apply graph_insert_inv.
Qed.

Lemma reload_all_inv fuel : forall order s tr, GInv (graph s) -> GInv (graph (fst (reload_all fuel s order tr))).
Proof.
  induction order as [|k r IH]; intros s tr I; cbn [reload_all]; [exact I|].
  pose proof (reload_one_inv fuel s k I) as I1. destruct (reload_one fuel s k) as [s1 tr1]. now apply IH.
Qed.
Lemma run_pass_inv fuel s order : GInv (graph s) -> GInv (graph (fst (fst (run_pass fuel s order)))).
Proof.
  intros I. unfold run_pass.
  pose proof (reload_all_inv fuel order (set_to_reload s []) [] I) as R.
  destruct (reload_all fuel (set_to_reload s []) order []) as [s1 tr]. exact R.
Qed.

Theorem step_keeps_graph_symmetric fuel s o : GInv (graph s) -> GInv (graph (fst (fst (step fuel s o)))).
Proof.
  intros I. destruct o; cbn [step].
  - pose proof (q_graph _ _ (proj1 (load_f_quiet fuel) s t id)) as G.
    destruct (load_entry_f fuel s t id) as [[s1 tr] r]. cbn [fst] in *. now rewrite G.
  - pose proof (q_graph _ _ (proj2 (load_f_quiet fuel) s t id)) as G.
    destruct (load_owned_f fuel s t id) as [[s1 tr] r]. cbn [fst] in *. now rewrite G.
  - pose proof (q_graph _ _ (quiet_get_cached_rec s t id)) as G.
    destruct (get_cached_rec s t id) as [s1 o]. cbn [fst] in *. now rewrite G.
  - pose proof (q_graph _ _ (quiet_get_cached_rec (fst (bump_tok s)) t id)) as G.
    destruct (bump_tok s) as [s1 tok] eqn:B. cbn [fst] in G.
    assert (G1 : graph s1 = graph s) by (unfold bump_tok in B; inversion B; reflexivity).
    destruct (get_cached_rec s1 t id) as [s2 o]. cbn [fst] in G.
    destruct o as [e|]; cbn [fst]; [now rewrite G, G1|].
    pose proof (q_graph _ _ (quiet_cache_insert s2 (t, id) (mark_goi (mk_entry s2 t (VInt z "insert") tok)))) as G3.
    destruct (cache_insert s2 (t, id) (mark_goi (mk_entry s2 t (VInt z "insert") tok))) as [[s3 e'] d].
    cbn [fst] in *. now rewrite G3, G, G1.
  - exact I.
  - destruct (cache_get s (t, id)); exact I.
  - destruct (cache_get s (t, id)); exact I.
  - destruct (has_reloader s); exact I.
  - exact I. - exact I. - exact I. - exact I. - exact I. - exact I. - exact I.
  - destruct (has_reloader s); [|exact I].
    assert (I1 : GInv (graph (take_events (drain s) es))) by (rewrite take_events_graph; now apply drain_inv).
    destruct (static_mode (take_events (drain s) es)); [|exact I1].
    pose proof (run_pass_inv fuel _ order I1) as R.
    destruct (run_pass fuel (take_events (drain s) es) order) as [[s2 ok] tr]. exact R.
  - destruct (has_reloader s); [|exact I].
    destruct (static_mode s); [now apply drain_inv|].
    pose proof (run_pass_inv fuel _ order (drain_inv s I)) as R.
    destruct (run_pass fuel (drain s) order) as [[s2 ok] tr]. exact R.
  - destruct (has_reloader s && negb (static_mode s)); [|exact I].
    pose proof (run_pass_inv fuel (set_static (drain s) true) order (drain_inv s I)) as R.
    destruct (run_pass fuel (set_static (drain s) true) order) as [[s2 ok] tr]. exact R.
  - exact I.
  - destruct (cache_get s (t, id)) as [e|]; [|exact I]. destruct (en_dyn e); exact I.
  - destruct (cache_get s (t, id)); exact I.
  - destruct (assoc N.eqb w (watchers s)) as [[k last]|]; [|exact I]. destruct (cache_get s k); exact I.
Qed.

Theorem graph_symmetric_in_every_history : forall ops s,
  GInv (graph s) -> GInv (graph (fst (run s ops))).
Proof.
  induction ops as [|o r IH]; intros s I; cbn [run]; [exact I|].
  pose proof (step_keeps_graph_symmetric default_fuel s o I) as I1.
  destruct (step default_fuel s o) as [[s1 x] tr]. cbn [fst] in I1.
  specialize (IH s1 I1). destruct (run s1 r) as [s2 rest]. exact IH.
Qed.

Corollary graph_symmetric_from_the_start reloader ops : GInv (graph (fst (run (init_st reloader) ops))).
Proof. apply graph_symmetric_in_every_history. apply ginv_nil. Qed.

(* what the graph holds about an asset after a successful reload is exactly what that reload
   recorded (dependency sets are re-learned, not accumulated) *)
Theorem reload_relearns_dependencies fuel s k n t old s1 tr v tok :
  g_get (graph s) (DepAsset k) = Some n -> g_typ n = Some t -> cache_get s k = Some old -> en_dyn old = true ->
  load_wrapped (load_entry_f fuel) (load_owned_f fuel) (rec_push s (Some [])) t (snd k) = (s1, tr, ROk (v, tok)) ->
  deps_of (graph (fst (reload_one fuel s k))) (DepAsset k) = snd (rec_pop s1).
Proof.
  intros G T C D L. unfold reload_one. rewrite G, T, C, D. cbn [negb]. rewrite L.
  destruct (rec_pop s1) as [s2 deps]. cbn [fst snd graph set_graph]. apply graph_insert_deps_self.
Qed.

(* ---- precision of a pass: what it visits depends on a changed entry ---- *)
(* y is reached from x along "is a dependent of" edges *)
Inductive rreach (g : list (dep * gnode)) : dep -> dep -> Prop :=
| rr_refl x : rreach g x x
| rr_step x m y : In m (rdeps_of g x) -> rreach g m y -> rreach g x y.

(* a depends on d, transitively, along "is a dependency of" edges *)
Inductive tdep (g : list (dep * gnode)) : dep -> dep -> Prop :=
| td_refl x : tdep g x x
| td_step a m d : tdep g a m -> dep_mem d (deps_of g m) = true -> tdep g a d.

Lemma In_dep_mem y l : In y l -> dep_mem y l = true.
Proof. intros H. apply existsb_exists. exists y. split; [exact H|apply dep_eqb_refl]. Qed.
Lemma dep_mem_In y l : dep_mem y l = true -> In y l.
Proof. intros H. apply existsb_exists in H. destruct H as (x & Hx & E). apply dep_eqb_eq in E. now subst. Qed.

Lemma rreach_tdep g x y : GInv g -> rreach g x y -> tdep g y x.
Proof.
  intros I H. induction H as [x|x m y Hm _ IH]; [constructor|].
  eapply td_step; [exact IH|]. rewrite <- (I m x). now apply In_dep_mem.
Qed.

Lemma fold_new_in y : forall front seen,
  In y (fold_left (fun acc d => if dep_mem d acc then acc else acc ++ [d]) front seen) -> In y seen \/ In y front.
Proof.
  induction front as [|d r IH]; intros seen H; cbn [fold_left] in H; [now left|].
  apply IH in H. destruct H as [H|H]; [|right; now right].
  destruct (dep_mem d seen); [now left|]. apply in_app_or in H. destruct H as [H|[<-|[]]]; [now left|right; now left].
Qed.

Lemma reach_from_sound g : forall fuel front seen y,
  In y (reach_from fuel g front seen) -> In y seen \/ exists r, In r front /\ rreach g r y.
Proof.
  induction fuel as [|f IH]; intros front seen y H; cbn [reach_from] in H; [now left|].
  set (new := fold_left (fun acc d => if dep_mem d acc then acc else acc ++ [d]) front seen) in *.
  set (next := flat_map (fun d => match g_get g d with
                                  | Some n => filter (fun x => negb (dep_mem x new)) (g_rdeps n)
                                  | None => [] end) front) in *.
  assert (Hnew : In y new -> In y seen \/ exists r, In r front /\ rreach g r y).
  { intros Hn. apply fold_new_in in Hn. destruct Hn as [Hn|Hn]; [now left|right; exists y; split; [exact Hn|constructor]]. }
  destruct next as [|n0 nx] eqn:En; [now apply Hnew|].
  apply IH in H. destruct H as [H|(r & Hr & Hreach)]; [now apply Hnew|].
  right. rewrite <- En in Hr. unfold next in Hr. apply in_flat_map in Hr. destruct Hr as (d & Hd & Hin).
  exists d. split; [exact Hd|]. destruct (g_get g d) as [n|] eqn:G; [|destruct Hin].
  apply filter_In in Hin. destruct Hin as [Hin _]. eapply rr_step; [|exact Hreach].
  unfold rdeps_of. rewrite G. exact Hin.
Qed.

Lemma key_mem_In k l : key_mem k l = true -> In k l.
Proof. unfold key_mem. intros H. apply existsb_exists in H. destruct H as (x & Hx & E). apply key_eqb_eq in E. now subst. Qed.
Lemma In_key_mem k l : In k l -> key_mem k l = true.
Proof. intros H. apply existsb_exists. exists k. split; [exact H|apply key_eqb_refl]. Qed.

(* every asset of the set a pass must visit depends, transitively, on an entry that was reported
   changed (and that the graph knows) *)
Theorem pass_set_only_dependents s k : GInv (graph s) ->
  In k (pass_set s) -> exists r, In r (to_reload s) /\ tdep (graph s) (DepAsset k) r.
Proof.
  intros I H. unfold pass_set in H. apply in_flat_map in H. destruct H as (d & Hd & Hk).
  destruct d as [i e|i|k']; [destruct Hk|destruct Hk|]. destruct Hk as [<-|[]].
  apply reach_from_sound in Hd. destruct Hd as [[]|(r & Hr & Hreach)].
  apply filter_In in Hr. destruct Hr as [Hr _]. exists r. split; [exact Hr|]. now apply rreach_tdep.
Qed.

(* hence every asset a legal pass reloads: nothing is reloaded that does not depend on a change *)
Theorem legal_pass_is_precise s order k : GInv (graph s) ->
  legal_order s order = true -> In k order ->
  exists r, In r (to_reload s) /\ tdep (graph s) (DepAsset k) r.
Proof.
  intros I L Hk. unfold legal_order in L. apply andb_true_iff in L. destruct L as [L _].
  apply andb_true_iff in L. destruct L as [_ L]. unfold same_keys in L. apply andb_true_iff in L. destruct L as [L _].
  rewrite forallb_forall in L. specialize (L k Hk). apply key_mem_In in L. now apply pass_set_only_dependents.
Qed.

(* in the states hot_reload / a notification run their pass on, after any history *)
Theorem hot_reload_is_precise reloader ops order k :
  let s := drain (fst (run (init_st reloader) ops)) in
  legal_order s order = true -> In k order ->
  exists r, In r (to_reload s) /\ tdep (graph s) (DepAsset k) r.
Proof.
  intros s. apply legal_pass_is_precise. apply drain_inv. apply graph_symmetric_from_the_start.
Qed.

Theorem notified_pass_is_precise reloader ops es order k :
  let s := take_events (drain (fst (run (init_st reloader) ops))) es in
  legal_order s order = true -> In k order ->
  exists r, In r (to_reload s) /\ tdep (graph s) (DepAsset k) r.
Proof.
  intros s. apply legal_pass_is_precise. unfold s. rewrite take_events_graph.
  apply drain_inv. apply graph_symmetric_from_the_start.
Qed.

(* ---- completeness of a pass: everything that depends on a change is visited ---- *)
(* well-formedness: whoever is listed as a dependent has a node of its own *)
Definition has_node (g : list (dep * gnode)) (d : dep) : Prop := g_get g d <> None.
Definition GWf (g : list (dep * gnode)) : Prop := forall x y, In y (rdeps_of g x) -> has_node g y.

Definition gkeys (g : list (dep * gnode)) : list dep := map fst g.
Lemma has_node_key g d : has_node g d -> In d (gkeys g).
Proof.
  unfold has_node, g_get, gkeys. induction g as [|[k n] r IH]; cbn; [congruence|].
  destruct (dep_eqb d k) eqn:E; [apply dep_eqb_eq in E; now left|]. intros H. right. now apply IH.
Qed.

Lemma nodup_snoc {A} (l : list A) x : NoDup l -> ~ In x l -> NoDup (l ++ [x]).
Proof.
  induction l as [|y r IH]; intros N H; cbn; [constructor; [intros []|constructor]|].
  inversion N as [|? ? Hy Nr]; subst. constructor.
  - rewrite in_app_iff. cbn. intros [H1|[->|[]]]; [contradiction|apply H; now left].
  - apply IH; [exact Nr|]. intros H1. apply H. now right.
Qed.

Section Bfs.
  Variable g : list (dep * gnode).
  Hypothesis Wf : GWf g.

  Let newf (front seen : list dep) := fold_left (fun acc d => if dep_mem d acc then acc else acc ++ [d]) front seen.
  Let nextf (front new : list dep) :=
    flat_map (fun d => match g_get g d with
                       | Some n => filter (fun x => negb (dep_mem x new)) (g_rdeps n)
                       | None => [] end) front.

  Lemma newf_in y : forall front seen, In y (newf front seen) <-> In y seen \/ In y front.
  Proof.
    unfold newf. induction front as [|d r IH]; intros seen; cbn [fold_left]; [cbn; tauto|].
    rewrite IH. destruct (dep_mem d seen) eqn:M.
    - apply dep_mem_In in M. cbn. intuition (subst; auto).
    - rewrite in_app_iff. cbn. tauto.
  Qed.
  Lemma newf_nodup : forall front seen, NoDup seen -> NoDup (newf front seen).
  Proof.
    unfold newf. induction front as [|d r IH]; intros seen N; cbn [fold_left]; [exact N|].
    apply IH. destruct (dep_mem d seen) eqn:M; [exact N|].
    apply nodup_snoc; [exact N|]. intros H. apply In_dep_mem in H. congruence.
  Qed.
  Lemma nextf_in m front new :
    In m (nextf front new) <-> exists d, In d front /\ In m (rdeps_of g d) /\ dep_mem m new = false.
  Proof.
    unfold nextf. rewrite in_flat_map. split.
    - intros (d & Hd & Hm). exists d. split; [exact Hd|]. unfold rdeps_of. destruct (g_get g d) as [n|]; [|destruct Hm].
      apply filter_In in Hm. destruct Hm as [Hm Hn]. split; [exact Hm|]. now destruct (dep_mem m new).
    - intros (d & Hd & Hm & Hn). exists d. split; [exact Hd|]. unfold rdeps_of in Hm. destruct (g_get g d) as [n|]; [|destruct Hm].
      apply filter_In. split; [exact Hm|]. now rewrite Hn.
  Qed.

  Lemma reach_from_unfold f front seen :
    reach_from (S f) g front seen =
    match nextf front (newf front seen) with [] => newf front seen | _ => reach_from f g (nextf front (newf front seen)) (newf front seen) end.
  Proof. reflexivity. Qed.

  Definition closed (R : list dep) : Prop := forall x m, In x R -> In m (rdeps_of g x) -> In m R.

  Lemma bfs_closed : forall fuel front seen,
    NoDup seen -> incl seen (gkeys g) -> incl front (gkeys g) ->
    (forall x m, In x seen -> In m (rdeps_of g x) -> In m seen \/ In m front) ->
    (front = [] \/ exists x, In x front /\ ~ In x seen) ->
    List.length (gkeys g) + 1 <= fuel + List.length seen ->
    let R := reach_from fuel g front seen in
    incl seen R /\ incl front R /\ closed R.
  Proof.
    induction fuel as [|f IH]; intros front seen Nd Is If Inv Fresh Fuel.
    - exfalso. pose proof (NoDup_incl_length Nd Is). lia.
    - cbv zeta. rewrite reach_from_unfold.
      set (new := newf front seen).
      assert (Hnew : forall y, In y new <-> In y seen \/ In y front) by (intros; apply newf_in).
      assert (Nnew : NoDup new) by (now apply newf_nodup).
      assert (Inew : incl new (gkeys g)) by (intros y Hy; apply Hnew in Hy; destruct Hy; auto).
      remember (nextf front new) as next eqn:En.
      assert (Hnext : forall m, In m next <-> exists d, In d front /\ In m (rdeps_of g d) /\ dep_mem m new = false)
        by (intros; rewrite En; apply nextf_in).
      clear En.
      assert (Cnew : forall x m, In x new -> In m (rdeps_of g x) -> In m new \/ In m next).
      { intros x m Hx Hm. destruct (dep_mem m new) eqn:M; [left; now apply dep_mem_In|].
        apply Hnew in Hx. destruct Hx as [Hx|Hx].
        - destruct (Inv x m Hx Hm) as [H|H]; left; apply Hnew; auto.
        - right. apply Hnext. exists x. auto. }
      destruct next as [|n0 nx].
      + split; [intros y Hy; apply Hnew; auto|]. split; [intros y Hy; apply Hnew; auto|].
        intros x m Hx Hm. destruct (Cnew x m Hx Hm) as [H|[]]. exact H.
      + set (next := n0 :: nx) in *.
        assert (Hn0 : exists x, In x next /\ ~ In x new).
        { assert (In n0 next) as H0 by now left.
          exists n0. split; [exact H0|]. apply Hnext in H0. destruct H0 as (d & _ & _ & M).
          intros H. apply In_dep_mem in H. congruence. }
        assert (Inext : incl next (gkeys g)).
        { intros m Hm. apply Hnext in Hm. destruct Hm as (d & _ & Hm & _). apply has_node_key. eapply Wf; eauto. }
        assert (Len : S (List.length seen) <= List.length new).
        { destruct Fresh as [->|(x & Hx & Hnx)].
          - exfalso. destruct Hn0 as (x & Hx & _). apply Hnext in Hx. destruct Hx as (d & [] & _).
          - assert (N2 : NoDup (x :: seen)) by (constructor; assumption).
            assert (I2 : incl (x :: seen) new) by (intros y [<-|Hy]; apply Hnew; auto).
            exact (NoDup_incl_length N2 I2). }
        destruct (IH next new Nnew Inew Inext Cnew (or_intror Hn0)) as (A & B & C); [lia|].
        split; [intros y Hy; apply A, Hnew; auto|]. split; [intros y Hy; apply A, Hnew; auto|]. exact C.
  Qed.
End Bfs.

Lemma closed_rreach g R : closed g R -> forall x y, rreach g x y -> In x R -> In y R.
Proof. intros C x y H. induction H as [x|x m y Hm _ IH]; [auto|]. intros Hx. apply IH. eapply C; eauto. Qed.

Theorem reach_from_complete g roots : GWf g -> (forall r, In r roots -> has_node g r) ->
  forall r y, In r roots -> rreach g r y -> In y (reach_from (S (List.length g)) g roots []).
Proof.
  intros Wf Hroots r y Hr Hreach.
  destruct (bfs_closed g Wf (S (List.length g)) roots []) as (_ & B & C).
  - constructor.
  - intros x [].
  - intros x Hx. apply has_node_key. now apply Hroots.
  - intros x m [].
  - destruct roots as [|r0 rs]; [now left|right]. exists r0. split; [now left|intros []].
  - unfold gkeys. rewrite map_length. cbn. lia.
  - eapply closed_rreach; eauto.
Qed.

(* nodes are never removed, and an insertion gives the asset a node *)
Lemma addr_has_node a g d x : has_node g x -> has_node (addr a g d) x.
Proof.
  unfold has_node, addr, g_get. intros H. destruct (dep_eq_dec x d) as [->|N]; [rewrite aset_same; discriminate|now rewrite aset_other].
Qed.
Lemma fold_addr_has_node a : forall deps g x, has_node g x -> has_node (fold_left (addr a) deps g) x.
Proof. induction deps as [|d r IH]; intros g x H; cbn [fold_left]; [exact H|]. apply IH. now apply addr_has_node. Qed.
Lemma delr_has_node a g d x : has_node g x -> has_node (delr a g d) x.
Proof.
  unfold has_node, delr, g_upd, g_get. intros H. destruct (assoc dep_eqb d g) as [n|] eqn:E; [|exact H].
  destruct (dep_eq_dec x d) as [->|N]; [rewrite aset_same; discriminate|now rewrite aset_other].
Qed.
Lemma fold_delr_has_node a : forall ds g x, has_node g x -> has_node (fold_left (delr a) ds g) x.
Proof. induction ds as [|d r IH]; intros g x H; cbn [fold_left]; [exact H|]. apply IH. now apply delr_has_node. Qed.

Lemma graph_insert_has_node g a deps t x : has_node g x -> has_node (graph_insert g a deps t) x.
Proof.
  intros H. rewrite graph_insert_unfold. cbv zeta. set (g1 := fold_left (addr a) deps g).
  assert (H1 : has_node g1 x) by now apply fold_addr_has_node.
  destruct (g_get g1 a) as [n|] eqn:E.
  - apply fold_delr_has_node. unfold has_node, g_get in *.
    destruct (dep_eq_dec x a) as [->|N]; [rewrite aset_same; discriminate|now rewrite aset_other].
  - unfold has_node, g_get in *. destruct (assoc dep_eqb x g1) as [m|] eqn:F; [|congruence].
    rewrite (aapp_some _ _ _ _ F). discriminate.
Qed.
Lemma graph_insert_has_self g a deps t : has_node (graph_insert g a deps t) a.
Proof.
  rewrite graph_insert_unfold. cbv zeta. set (g1 := fold_left (addr a) deps g).
  destruct (g_get g1 a) as [n|] eqn:E.
  - apply fold_delr_has_node. unfold has_node, g_get. rewrite aset_same. discriminate.
  - unfold has_node, g_get in *. rewrite (aapp_none _ _ _ E). cbn. rewrite dep_eqb_refl. discriminate.
Qed.

Theorem graph_insert_wf g a deps t : GWf g -> GWf (graph_insert g a deps t).
Proof.
  intros W x y Hy. apply In_dep_mem in Hy. rewrite graph_insert_rdeps in Hy.
  destruct (dep_eqb y a) eqn:Y.
  - apply dep_eqb_eq in Y. subst y. apply graph_insert_has_self.
  - apply dep_mem_In in Hy. apply graph_insert_has_node. eapply W; eauto.
Qed.
Lemma gwf_nil : GWf []. Proof. intros x y []. Qed.

(* both invariants together, through every operation *)
Definition GOk (g : list (dep * gnode)) : Prop := GInv g /\ GWf g.

Lemma process_msg_ok s m : GOk (graph s) -> GOk (graph (process_msg s m)).
Proof. intros [I W]. destruct m as [k deps|]; cbn; [split; [now apply graph_insert_inv|now apply graph_insert_wf]|split; auto]. Qed.
Lemma fold_process_ok : forall l s, GOk (graph s) -> GOk (graph (fold_left process_msg l s)).
Proof. induction l as [|m r IH]; intros s H; cbn [fold_left]; [exact H|]. apply IH, process_msg_ok, H. Qed.
Lemma drain_ok s : GOk (graph s) -> GOk (graph (drain s)).
Proof. intros H. unfold drain. cbn. now apply fold_process_ok. Qed.

Lemma reload_one_ok fuel s k : GOk (graph s) -> GOk (graph (fst (reload_one fuel s k))).
Proof.
  intros I. unfold reload_one.
  destruct (g_get (graph s) (DepAsset k)) as [n|]; [|exact I].
  destruct (g_typ n) as [t|]; [|exact I].
  destruct (cache_get s k) as [old|]; [|exact I].
  destruct (en_dyn old); cbn [negb]; [|exact I].
  pose proof (load_wrapped_quiet _ _ (proj1 (load_f_quiet fuel)) (proj2 (load_f_quiet fuel))
                (rec_push s (Some [])) t (snd k)) as Q.
  destruct (load_wrapped (load_entry_f fuel) (load_owned_f fuel) (rec_push s (Some [])) t (snd k)) as [[s1 tr] r].
  cbn [fst] in Q. pose proof (quiet_push_pop s (Some []) s1 Q) as P.
  destruct (rec_pop s1) as [s2 deps]. cbn [fst] in P.
  assert (G : graph s2 = graph s) by apply (q_graph _ _ P).
  destruct r as [[v tok]|e| |]; cbn [fst]; try (rewrite G; exact I).
  cbn [graph set_graph]. rewrite G. destruct I as [I W]. split; [now apply graph_insert_inv|now apply graph_insert_wf].
Qed.
Lemma reload_all_ok fuel : forall order s tr, GOk (graph s) -> GOk (graph (fst (reload_all fuel s order tr))).
Proof.
  induction order as [|k r IH]; intros s tr I; cbn [reload_all]; [exact I|].
  pose proof (reload_one_ok fuel s k I) as I1. destruct (reload_one fuel s k) as [s1 tr1]. now apply IH.
Qed.
Lemma run_pass_ok fuel s order : GOk (graph s) -> GOk (graph (fst (fst (run_pass fuel s order)))).
Proof.
  intros I. unfold run_pass.
  pose proof (reload_all_ok fuel order (set_to_reload s []) [] I) as R.
  destruct (reload_all fuel (set_to_reload s []) order []) as [s1 tr]. exact R.
Qed.

Theorem step_keeps_graph_ok fuel s o : GOk (graph s) -> GOk (graph (fst (fst (step fuel s o)))).
Proof.
  intros I. destruct o; cbn [step].
  - pose proof (q_graph _ _ (proj1 (load_f_quiet fuel) s t id)) as G.
    destruct (load_entry_f fuel s t id) as [[s1 tr] r]. cbn [fst] in *. now rewrite G.
  - pose proof (q_graph _ _ (proj2 (load_f_quiet fuel) s t id)) as G.
    destruct (load_owned_f fuel s t id) as [[s1 tr] r]. cbn [fst] in *. now rewrite G.
  - pose proof (q_graph _ _ (quiet_get_cached_rec s t id)) as G.
    destruct (get_cached_rec s t id) as [s1 o]. cbn [fst] in *. now rewrite G.
  - pose proof (q_graph _ _ (quiet_get_cached_rec (fst (bump_tok s)) t id)) as G.
    destruct (bump_tok s) as [s1 tok] eqn:B. cbn [fst] in G.
    assert (G1 : graph s1 = graph s) by (unfold bump_tok in B; inversion B; reflexivity).
    destruct (get_cached_rec s1 t id) as [s2 o]. cbn [fst] in G.
    destruct o as [e|]; cbn [fst]; [now rewrite G, G1|].
    pose proof (q_graph _ _ (quiet_cache_insert s2 (t, id) (mark_goi (mk_entry s2 t (VInt z "insert") tok)))) as G3.
    destruct (cache_insert s2 (t, id) (mark_goi (mk_entry s2 t (VInt z "insert") tok))) as [[s3 e'] d].
    cbn [fst] in *. now rewrite G3, G, G1.
  - exact I.
  - destruct (cache_get s (t, id)); exact I.
  - destruct (cache_get s (t, id)); exact I.
  - destruct (has_reloader s); exact I.
  - exact I. - exact I. - exact I. - exact I. - exact I. - exact I. - exact I.
  - destruct (has_reloader s); [|exact I].
    assert (I1 : GOk (graph (take_events (drain s) es))) by (rewrite take_events_graph; now apply drain_ok).
    destruct (static_mode (take_events (drain s) es)); [|exact I1].
    pose proof (run_pass_ok fuel _ order I1) as R.
    destruct (run_pass fuel (take_events (drain s) es) order) as [[s2 ok] tr]. exact R.
  - destruct (has_reloader s); [|exact I].
    destruct (static_mode s); [now apply drain_ok|].
    pose proof (run_pass_ok fuel _ order (drain_ok s I)) as R.
    destruct (run_pass fuel (drain s) order) as [[s2 ok] tr]. exact R.
  - destruct (has_reloader s && negb (static_mode s)); [|exact I].
    pose proof (run_pass_ok fuel (set_static (drain s) true) order (drain_ok s I)) as R.
    destruct (run_pass fuel (set_static (drain s) true) order) as [[s2 ok] tr]. exact R.
  - exact I.
  - destruct (cache_get s (t, id)) as [e|]; [|exact I]. destruct (en_dyn e); exact I.
  - destruct (cache_get s (t, id)); exact I.
  - destruct (assoc N.eqb w (watchers s)) as [[k last]|]; [|exact I]. destruct (cache_get s k); exact I.
Qed.

Theorem graph_ok_in_every_history : forall ops s, GOk (graph s) -> GOk (graph (fst (run s ops))).
Proof.
  induction ops as [|o r IH]; intros s I; cbn [run]; [exact I|].
  pose proof (step_keeps_graph_ok default_fuel s o I) as I1.
  destruct (step default_fuel s o) as [[s1 x] tr]. cbn [fst] in I1.
  specialize (IH s1 I1). destruct (run s1 r) as [s2 rest]. exact IH.
Qed.
Corollary graph_ok_from_the_start reloader ops : GOk (graph (fst (run (init_st reloader) ops))).
Proof. apply graph_ok_in_every_history. split; [apply ginv_nil|apply gwf_nil]. Qed.

(* the other direction of the invariant *)
Lemma tdep_rreach g x y : GInv g -> tdep g y x -> rreach g x y.
Proof.
  intros I H. induction H as [x|a m d _ IH Hd]; [constructor|].
  (* a depends on m (IH: rreach m a), d is a dependency of m: m is among the dependents of d *)
  eapply rr_step; [|exact IH]. apply dep_mem_In. now rewrite (I m d).
Qed.

(* every asset that depends, transitively, on an entry that was reported changed and that the graph
   knows is in the set the pass must visit *)
Theorem pass_set_complete s k r : GOk (graph s) ->
  In r (to_reload s) -> has_node (graph s) r -> tdep (graph s) (DepAsset k) r -> In k (pass_set s).
Proof.
  intros [I W] Hr Hn T. unfold pass_set. apply in_flat_map. exists (DepAsset k). split; [|now left].
  set (roots := filter (fun d => match g_get (graph s) d with Some _ => true | None => false end) (to_reload s)).
  apply (reach_from_complete (graph s) roots W) with (r := r).
  - intros x Hx. apply filter_In in Hx. destruct Hx as [_ Hx]. unfold has_node. destruct (g_get (graph s) x); [discriminate|discriminate].
  - apply filter_In. split; [exact Hr|]. unfold has_node in Hn. destruct (g_get (graph s) r); [reflexivity|congruence].
  - now apply tdep_rreach.
Qed.

(* hence of every pass the model accepts: nothing that depends on a change is skipped *)
Theorem legal_pass_is_complete s order k r : GOk (graph s) ->
  legal_order s order = true ->
  In r (to_reload s) -> has_node (graph s) r -> tdep (graph s) (DepAsset k) r -> In k order.
Proof.
  intros Ok L Hr Hn T. pose proof (pass_set_complete s k r Ok Hr Hn T) as P.
  unfold legal_order in L. apply andb_true_iff in L. destruct L as [L _].
  apply andb_true_iff in L. destruct L as [_ L]. unfold same_keys in L. apply andb_true_iff in L. destruct L as [_ L].
  rewrite forallb_forall in L. specialize (L k P). now apply key_mem_In.
Qed.

Theorem hot_reload_is_complete reloader ops order k r :
  let s := drain (fst (run (init_st reloader) ops)) in
  legal_order s order = true ->
  In r (to_reload s) -> has_node (graph s) r -> tdep (graph s) (DepAsset k) r -> In k order.
Proof. intros s. apply legal_pass_is_complete. apply drain_ok. apply graph_ok_from_the_start. Qed.

(* ---- a cache never gains or loses its reloader ---- *)
Lemma fold_process_rel : forall l s, has_reloader (fold_left process_msg l s) = has_reloader s.
Proof. induction l as [|m r IH]; intros s; cbn [fold_left]; [reflexivity|]. rewrite IH. destruct m; reflexivity. Qed.
Lemma drain_rel s : has_reloader (drain s) = has_reloader s.
Proof. unfold drain. cbn. apply fold_process_rel. Qed.
Lemma take_events_rel es : forall s, has_reloader (take_events s es) = has_reloader s.
Proof.
  unfold take_events. induction es as [|d r IH]; intros s; cbn [fold_left]; [reflexivity|].
  rewrite IH. destruct (g_get (graph s) (dep_of_dentry d)); reflexivity.
Qed.
Lemma reload_one_rel fuel s k : has_reloader (fst (reload_one fuel s k)) = has_reloader s.
Proof.
  unfold reload_one.
  destruct (g_get (graph s) (DepAsset k)) as [n|]; [|reflexivity].
  destruct (g_typ n) as [t|]; [|reflexivity].
  destruct (cache_get s k) as [old|]; [|reflexivity].
  destruct (en_dyn old); cbn [negb]; [|reflexivity].
  pose proof (load_wrapped_quiet _ _ (proj1 (load_f_quiet fuel)) (proj2 (load_f_quiet fuel))
                (rec_push s (Some [])) t (snd k)) as Q.
  destruct (load_wrapped (load_entry_f fuel) (load_owned_f fuel) (rec_push s (Some [])) t (snd k)) as [[s1 tr] r].
  cbn [fst] in Q. pose proof (quiet_push_pop s (Some []) s1 Q) as P.
  destruct (rec_pop s1) as [s2 deps]. cbn [fst] in P. pose proof (q_rel _ _ P) as G.
  destruct r as [[v tok]|e| |]; cbn [fst]; exact G.
Qed.
Lemma reload_all_rel fuel : forall order s tr, has_reloader (fst (reload_all fuel s order tr)) = has_reloader s.
Proof.
  induction order as [|k r IH]; intros s tr; cbn [reload_all]; [reflexivity|].
  pose proof (reload_one_rel fuel s k) as H. destruct (reload_one fuel s k) as [s1 tr1]. cbn [fst] in H.
  now rewrite IH.
Qed.
Lemma run_pass_rel fuel s order : has_reloader (fst (fst (run_pass fuel s order))) = has_reloader s.
Proof.
  unfold run_pass. pose proof (reload_all_rel fuel order (set_to_reload s []) []) as R.
  destruct (reload_all fuel (set_to_reload s []) order []) as [s1 tr]. exact R.
Qed.

Theorem step_keeps_the_reloader fuel s o : has_reloader (fst (fst (step fuel s o))) = has_reloader s.
Proof.
  destruct o; cbn [step].
  - pose proof (q_rel _ _ (proj1 (load_f_quiet fuel) s t id)) as G.
    destruct (load_entry_f fuel s t id) as [[s1 tr] r]. exact G.
  - pose proof (q_rel _ _ (proj2 (load_f_quiet fuel) s t id)) as G.
    destruct (load_owned_f fuel s t id) as [[s1 tr] r]. exact G.
  - pose proof (q_rel _ _ (quiet_get_cached_rec s t id)) as G.
    destruct (get_cached_rec s t id) as [s1 o]. exact G.
  - pose proof (q_rel _ _ (quiet_get_cached_rec (fst (bump_tok s)) t id)) as G.
    destruct (bump_tok s) as [s1 tok] eqn:B. cbn [fst] in G.
    assert (G1 : has_reloader s1 = has_reloader s) by (unfold bump_tok in B; inversion B; reflexivity).
    destruct (get_cached_rec s1 t id) as [s2 o]. cbn [fst] in G.
    destruct o as [e|]; cbn [fst]; [congruence|].
    pose proof (q_rel _ _ (quiet_cache_insert s2 (t, id) (mark_goi (mk_entry s2 t (VInt z "insert") tok)))) as G3.
    destruct (cache_insert s2 (t, id) (mark_goi (mk_entry s2 t (VInt z "insert") tok))) as [[s3 e'] d].
    cbn [fst] in *. congruence.
  - reflexivity.
  - destruct (cache_get s (t, id)); reflexivity.
  - destruct (cache_get s (t, id)); reflexivity.
  - destruct (has_reloader s) eqn:H; cbn [fst]; [exact H|exact H].
  - reflexivity. - reflexivity. - reflexivity. - reflexivity. - reflexivity. - reflexivity. - reflexivity.
  - destruct (has_reloader s) eqn:H; [|exact H].
    assert (I1 : has_reloader (take_events (drain s) es) = true) by (now rewrite take_events_rel, drain_rel).
    destruct (static_mode (take_events (drain s) es)); [|exact I1].
    pose proof (run_pass_rel fuel (take_events (drain s) es) order) as R.
    destruct (run_pass fuel (take_events (drain s) es) order) as [[s2 ok] tr]. cbn [fst] in *. congruence.
  - destruct (has_reloader s) eqn:H; [|exact H].
    destruct (static_mode s); [cbn [fst]; now rewrite drain_rel|].
    pose proof (run_pass_rel fuel (drain s) order) as R.
    destruct (run_pass fuel (drain s) order) as [[s2 ok] tr]. cbn [fst] in *. now rewrite R, drain_rel.
  - destruct (has_reloader s && negb (static_mode s)) eqn:H; [|reflexivity].
    pose proof (run_pass_rel fuel (set_static (drain s) true) order) as R.
    destruct (run_pass fuel (set_static (drain s) true) order) as [[s2 ok] tr]. cbn [fst] in *.
    rewrite R. cbn [has_reloader set_static]. apply drain_rel.
  - reflexivity.
  - destruct (cache_get s (t, id)) as [e|]; [|reflexivity]. destruct (en_dyn e); reflexivity.
  - destruct (cache_get s (t, id)); reflexivity.
  - destruct (assoc N.eqb w (watchers s)) as [[k last]|]; [|reflexivity]. destruct (cache_get s k); reflexivity.
Qed.

Theorem reloader_is_fixed_at_construction : forall ops s, has_reloader (fst (run s ops)) = has_reloader s.
Proof.
  induction ops as [|o r IH]; intros s; cbn [run]; [reflexivity|].
  pose proof (step_keeps_the_reloader default_fuel s o) as H.
  destruct (step default_fuel s o) as [[s1 x] tr]. cbn [fst] in H.
  specialize (IH s1). destruct (run s1 r) as [s2 rest]. cbn [fst] in *. congruence.
Qed.

(* ---- the changed set holds files and directories only ---- *)
Definition is_entry (d : dep) : Prop := match d with DepAsset _ => False | _ => True end.
Definition TRInv (s : st) : Prop := forall d, In d (to_reload s) -> is_entry d.

Lemma dep_add_in d x l : In d (dep_add x l) -> d = x \/ In d l.
Proof. unfold dep_add. destruct (dep_mem x l); [now right|]. intros H. apply in_app_or in H. destruct H as [H|[<-|[]]]; auto. Qed.

Lemma fold_process_tr : forall l s, TRInv s -> TRInv (fold_left process_msg l s).
Proof.
  induction l as [|m r IH]; intros s I; cbn [fold_left]; [exact I|]. apply IH.
  destruct m as [k deps|]; cbn; [exact I|intros d []].
Qed.
Lemma drain_tr s : TRInv s -> TRInv (drain s).
Proof. intros I. unfold drain. intros d Hd. cbn [to_reload set_cm] in Hd. exact (fold_process_tr (cm s) s I d Hd). Qed.
Lemma take_events_tr es : forall s, TRInv s -> TRInv (take_events s es).
Proof.
  unfold take_events. induction es as [|e r IH]; intros s I; cbn [fold_left]; [exact I|]. apply IH.
  destruct (g_get (graph s) (dep_of_dentry e)); [|exact I].
  intros d Hd. cbn [to_reload set_to_reload] in Hd. apply dep_add_in in Hd. destruct Hd as [->|Hd]; [destruct e; exact Logic.I|now apply I].
Qed.
Lemma reload_one_tr fuel s k : to_reload (fst (reload_one fuel s k)) = to_reload s.
Proof.
  unfold reload_one.
  destruct (g_get (graph s) (DepAsset k)) as [n|]; [|reflexivity].
  destruct (g_typ n) as [t|]; [|reflexivity].
  destruct (cache_get s k) as [old|]; [|reflexivity].
  destruct (en_dyn old); cbn [negb]; [|reflexivity].
  pose proof (load_wrapped_quiet _ _ (proj1 (load_f_quiet fuel)) (proj2 (load_f_quiet fuel))
                (rec_push s (Some [])) t (snd k)) as Q.
  destruct (load_wrapped (load_entry_f fuel) (load_owned_f fuel) (rec_push s (Some [])) t (snd k)) as [[s1 tr] r].
  cbn [fst] in Q. pose proof (quiet_push_pop s (Some []) s1 Q) as P.
  destruct (rec_pop s1) as [s2 deps]. cbn [fst] in P. pose proof (q_tor _ _ P) as G.
  destruct r as [[v tok]|e| |]; cbn [fst]; exact G.
Qed.
Lemma reload_all_tr fuel : forall order s tr, to_reload (fst (reload_all fuel s order tr)) = to_reload s.
Proof.
  induction order as [|k r IH]; intros s tr; cbn [reload_all]; [reflexivity|].
  pose proof (reload_one_tr fuel s k) as H. destruct (reload_one fuel s k) as [s1 tr1]. cbn [fst] in H. now rewrite IH.
Qed.
Lemma run_pass_tr fuel s order : to_reload (fst (fst (run_pass fuel s order))) = [].
Proof.
  unfold run_pass. pose proof (reload_all_tr fuel order (set_to_reload s []) []) as R.
  destruct (reload_all fuel (set_to_reload s []) order []) as [s1 tr]. exact R.
Qed.

Theorem step_keeps_the_changed_set_entries fuel s o : TRInv s -> TRInv (fst (fst (step fuel s o))).
Proof.
  intros I. assert (Same : forall s', to_reload s' = to_reload s -> TRInv s') by (intros s' E d Hd; rewrite E in Hd; now apply I).
  assert (Nil : forall s', to_reload s' = [] -> TRInv s') by (intros s' E d Hd; rewrite E in Hd; destruct Hd).
  destruct o; cbn [step].
  - pose proof (q_tor _ _ (proj1 (load_f_quiet fuel) s t id)) as G.
    destruct (load_entry_f fuel s t id) as [[s1 tr] r]. now apply Same.
  - pose proof (q_tor _ _ (proj2 (load_f_quiet fuel) s t id)) as G.
    destruct (load_owned_f fuel s t id) as [[s1 tr] r]. now apply Same.
  - pose proof (q_tor _ _ (quiet_get_cached_rec s t id)) as G.
    destruct (get_cached_rec s t id) as [s1 o]. now apply Same.
  - pose proof (q_tor _ _ (quiet_get_cached_rec (fst (bump_tok s)) t id)) as G.
    destruct (bump_tok s) as [s1 tok] eqn:B. cbn [fst] in G.
    assert (G1 : to_reload s1 = to_reload s) by (unfold bump_tok in B; inversion B; reflexivity).
    destruct (get_cached_rec s1 t id) as [s2 o]. cbn [fst] in G.
    destruct o as [e|]; cbn [fst]; [apply Same; congruence|].
    pose proof (q_tor _ _ (quiet_cache_insert s2 (t, id) (mark_goi (mk_entry s2 t (VInt z "insert") tok)))) as G3.
    destruct (cache_insert s2 (t, id) (mark_goi (mk_entry s2 t (VInt z "insert") tok))) as [[s3 e'] d].
    cbn [fst] in *. apply Same. congruence.
  - exact I.
  - destruct (cache_get s (t, id)); [now apply Same|exact I].
  - destruct (cache_get s (t, id)); [now apply Same|exact I].
  - destruct (has_reloader s); now apply Same.
  - now apply Same. - now apply Same. - now apply Same. - now apply Same. - now apply Same. - now apply Same. - now apply Same.
  - destruct (has_reloader s); [|exact I].
    assert (I1 : TRInv (take_events (drain s) es)) by (apply take_events_tr, drain_tr, I).
    destruct (static_mode (take_events (drain s) es)); [|exact I1].
    pose proof (run_pass_tr fuel (take_events (drain s) es) order) as R.
    destruct (run_pass fuel (take_events (drain s) es) order) as [[s2 ok] tr]. now apply Nil.
  - destruct (has_reloader s); [|exact I].
    destruct (static_mode s); [cbn [fst]; now apply drain_tr|].
    pose proof (run_pass_tr fuel (drain s) order) as R.
    destruct (run_pass fuel (drain s) order) as [[s2 ok] tr]. now apply Nil.
  - destruct (has_reloader s && negb (static_mode s)); [|exact I].
    pose proof (run_pass_tr fuel (set_static (drain s) true) order) as R.
    destruct (run_pass fuel (set_static (drain s) true) order) as [[s2 ok] tr]. now apply Nil.
  - exact I.
  - destruct (cache_get s (t, id)) as [e|]; [|exact I]. destruct (en_dyn e); [now apply Same|exact I].
  - destruct (cache_get s (t, id)); [now apply Same|exact I].
  - destruct (assoc N.eqb w (watchers s)) as [[k last]|]; [|exact I]. destruct (cache_get s k); [now apply Same|exact I].
Qed.

Theorem changed_set_holds_entries_in_every_history reloader ops :
  TRInv (fst (run (init_st reloader) ops)).
Proof.
  assert (G : forall ops s, TRInv s -> TRInv (fst (run s ops))).
  { induction ops0 as [|o r IH]; intros s I; cbn [run]; [exact I|].
    pose proof (step_keeps_the_changed_set_entries default_fuel s o I) as I1.
    destruct (step default_fuel s o) as [[s1 x] tr]. cbn [fst] in I1.
    specialize (IH s1 I1). destruct (run s1 r) as [s2 rest]. exact IH. }
  apply G. intros d [].
Qed.

(* an asset whose latest successful load recorded nothing is in no pass: nothing it read can change *)
Theorem nothing_recorded_never_reloaded reloader ops order k :
  let s := drain (fst (run (init_st reloader) ops)) in
  legal_order s order = true -> deps_of (graph s) (DepAsset k) = [] -> ~ In k order.
Proof.
  intros s L D Hk. destruct (hot_reload_is_precise reloader ops order k L Hk) as (r & Hr & T).
  assert (X : forall a d, tdep (graph s) a d -> a = DepAsset k -> d = DepAsset k).
  { intros a d H. induction H as [x|a m d H IH Hm]; intros E; [exact E|].
    specialize (IH E). subst m. rewrite D in Hm. discriminate. }
  pose proof (X _ _ T eq_refl) as E. subst r.
  assert (I : TRInv s) by (apply drain_tr, changed_set_holds_entries_in_every_history).
  exact (I _ Hr).
Qed.

(* ---- the cache only reads its source ---- *)
Definition src_same (s s' : st) : Prop :=
  files (src s') = files (src s) /\ dirs (src s') = dirs (src s) /\ faults (src s') = faults (src s).
Lemma src_same_refl s : src_same s s. Proof. repeat split. Qed.
Lemma src_same_trans a b c : src_same a b -> src_same b c -> src_same a c.
Proof. intros (A & B & C) (D & E & F). repeat split; congruence. Qed.
Lemma quiet_src_same s s' : quiet s s' -> src_same s s'.
Proof. intros Q. repeat split; [apply (q_files _ _ Q)|apply (q_dirs _ _ Q)|apply (q_faults _ _ Q)]. Qed.
Lemma src_same_by_src s s' : src s' = src s -> src_same s s'.
Proof. intros E. unfold src_same. now rewrite E. Qed.

Lemma fold_process_src : forall l s, src (fold_left process_msg l s) = src s.
Proof. induction l as [|m r IH]; intros s; cbn [fold_left]; [reflexivity|]. rewrite IH. destruct m; reflexivity. Qed.
Lemma drain_src s : src (drain s) = src s.
Proof. unfold drain. cbn. apply fold_process_src. Qed.
Lemma take_events_src es : forall s, src (take_events s es) = src s.
Proof.
  unfold take_events. induction es as [|d r IH]; intros s; cbn [fold_left]; [reflexivity|].
  rewrite IH. destruct (g_get (graph s) (dep_of_dentry d)); reflexivity.
Qed.
Lemma reload_one_src fuel s k : src_same s (fst (reload_one fuel s k)).
Proof.
  unfold reload_one.
  destruct (g_get (graph s) (DepAsset k)) as [n|]; [|apply src_same_refl].
  destruct (g_typ n) as [t|]; [|apply src_same_refl].
  destruct (cache_get s k) as [old|]; [|apply src_same_refl].
  destruct (en_dyn old); cbn [negb]; [|apply src_same_refl].
  pose proof (load_wrapped_quiet _ _ (proj1 (load_f_quiet fuel)) (proj2 (load_f_quiet fuel))
                (rec_push s (Some [])) t (snd k)) as Q.
  destruct (load_wrapped (load_entry_f fuel) (load_owned_f fuel) (rec_push s (Some [])) t (snd k)) as [[s1 tr] r].
  cbn [fst] in Q. pose proof (quiet_push_pop s (Some []) s1 Q) as P.
  destruct (rec_pop s1) as [s2 deps]. cbn [fst] in P. apply quiet_src_same in P.
  destruct r as [[v tok]|e| |]; cbn [fst]; exact P.
Qed.
Lemma reload_all_src fuel : forall order s tr, src_same s (fst (reload_all fuel s order tr)).
Proof.
  induction order as [|k r IH]; intros s tr; cbn [reload_all]; [apply src_same_refl|].
  pose proof (reload_one_src fuel s k) as H. destruct (reload_one fuel s k) as [s1 tr1]. cbn [fst] in H.
  eapply src_same_trans; [exact H|apply IH].
Qed.
Lemma run_pass_src fuel s order : src_same s (fst (fst (run_pass fuel s order))).
Proof.
  unfold run_pass. pose proof (reload_all_src fuel order (set_to_reload s []) []) as R.
  destruct (reload_all fuel (set_to_reload s []) order []) as [s1 tr]. exact R.
Qed.

Definition edits_source (o : op) : bool :=
  match o with
  | OWrite _ _ _ | ODelete _ _ | OUnreadable _ _ _ | OMkdir _ | ORmdir _ | ODirUnreadable _ _ | OSetFaults _ => true
  | _ => false
  end.

(* no operation of the cache -- loads of any kind, look-ups, removals, notifications, reload passes,
   polling -- changes a file, a directory or the fault plan of the source *)
Ltac ss := first [apply src_same_refl | (unfold src_same; cbn; repeat split; reflexivity)].

Theorem cache_operations_only_read_the_source fuel s o :
  edits_source o = false -> src_same s (fst (fst (step fuel s o))).
Proof.
  intros E. destruct o; try discriminate E; cbn [step].
  - pose proof (quiet_src_same _ _ (proj1 (load_f_quiet fuel) s t id)) as G.
    destruct (load_entry_f fuel s t id) as [[s1 tr] r]. exact G.
  - pose proof (quiet_src_same _ _ (proj2 (load_f_quiet fuel) s t id)) as G.
    destruct (load_owned_f fuel s t id) as [[s1 tr] r]. exact G.
  - pose proof (quiet_src_same _ _ (quiet_get_cached_rec s t id)) as G.
    destruct (get_cached_rec s t id) as [s1 o]. exact G.
  - pose proof (quiet_src_same _ _ (quiet_get_cached_rec (fst (bump_tok s)) t id)) as G.
    destruct (bump_tok s) as [s1 tok] eqn:B. cbn [fst] in G.
    assert (G1 : src_same s s1) by (unfold bump_tok in B; inversion B; repeat split).
    destruct (get_cached_rec s1 t id) as [s2 o]. cbn [fst] in G.
    destruct o as [e|]; cbn [fst]; [eapply src_same_trans; eauto|].
    pose proof (quiet_src_same _ _ (quiet_cache_insert s2 (t, id) (mark_goi (mk_entry s2 t (VInt z "insert") tok)))) as G3.
    destruct (cache_insert s2 (t, id) (mark_goi (mk_entry s2 t (VInt z "insert") tok))) as [[s3 e'] d].
    cbn [fst] in *. eapply src_same_trans; [exact G1|]. eapply src_same_trans; eauto.
  - ss.
  - destruct (cache_get s (t, id)); ss.
  - destruct (cache_get s (t, id)); ss.
  - destruct (has_reloader s); ss.
  - destruct (has_reloader s); [|ss].
    assert (I1 : src_same s (take_events (drain s) es)) by (apply src_same_by_src; now rewrite take_events_src, drain_src).
    destruct (static_mode (take_events (drain s) es)); [|exact I1].
    pose proof (run_pass_src fuel (take_events (drain s) es) order) as R.
    destruct (run_pass fuel (take_events (drain s) es) order) as [[s2 ok] tr]. cbn [fst] in *. eapply src_same_trans; eauto.
  - destruct (has_reloader s); [|ss].
    assert (I1 : src_same s (drain s)) by (apply src_same_by_src, drain_src).
    destruct (static_mode s); [exact I1|].
    pose proof (run_pass_src fuel (drain s) order) as R.
    destruct (run_pass fuel (drain s) order) as [[s2 ok] tr]. cbn [fst] in *. eapply src_same_trans; eauto.
  - destruct (has_reloader s && negb (static_mode s)); [|ss].
    assert (I1 : src_same s (set_static (drain s) true)) by (apply src_same_by_src; cbn; apply drain_src).
    pose proof (run_pass_src fuel (set_static (drain s) true) order) as R.
    destruct (run_pass fuel (set_static (drain s) true) order) as [[s2 ok] tr]. cbn [fst] in *. eapply src_same_trans; eauto.
  - ss.
  - destruct (cache_get s (t, id)) as [e|]; [|ss]. destruct (en_dyn e); ss.
  - destruct (cache_get s (t, id)); ss.
  - destruct (assoc N.eqb w (watchers s)) as [[k last]|]; [|ss]. destruct (cache_get s k); ss.
Qed.
