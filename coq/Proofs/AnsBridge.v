(* The bridge between the two models of the Answers protocol: the executable one (Ref/Answers.v, a
   list of callers, [step] a function -- the one the refutation of the unfixed protocol runs on) and
   the relational one the theorems are proved on (Proofs/AnsInv.v, callers as a function).  Every
   executable step is a relational step and every relational step of a related state is enabled in
   the executable model, so freedom from deadlock and the bound on the work carry over to every
   schedule of the executable model.  No axiom: states are related pointwise, not by equality. *)
From Coq Require Import List Bool Arith Lia.
Import ListNotations.
Require AM.Ref.Answers AM.Proofs.AnsInv AM.Proofs.AnsC AM.Proofs.AnsWork.
Module E := AM.Ref.Answers.
Module R := AM.Proofs.AnsInv.
Module RC := AM.Proofs.AnsC.
Module RW := AM.Proofs.AnsWork.

Definition cc (c : E.cpc) : R.cpc :=
  match c with
  | E.C0 => R.C0 | E.C1 t => R.C1 t | E.C2 t => R.C2 t | E.C3 t => R.C3 t | E.Cw t => R.Cw t
  | E.Cwk t => R.Cwk t | E.C4 t => R.C4 t | E.C4n t => R.C4n t | E.C5 t => R.C5 t | E.CDone => R.CDone
  end.
Definition rc (r : E.rpc) : R.rpc :=
  match r with
  | E.R0 => R.R0 | E.R1 t => R.R1 t | E.R2 t => R.R2 t | E.R3 t => R.R3 t | E.Rw t => R.Rw t
  | E.Rwk t => R.Rwk t | E.R4 t => R.R4 t | E.R5 t => R.R5 t | E.R6 t => R.R6 t
  end.
Definition look (l : list E.cpc) (j : nat) : R.cpc :=
  match nth_error l j with Some c => cc c | None => R.C0 end.

Record rel (r : R.st) (s : E.st) : Prop := {
  e_slot : R.slot r = E.slot s;
  e_mtx : R.mtx r = E.mtx s;
  e_tok : R.next_tok r = E.next_tok s;
  e_chan : R.chan r = E.chan s;
  e_cs : forall j, R.cs r j = look (E.callers s) j;
  e_rl : R.rl r = rc (E.rl s);
}.

Lemma cc_wake c : cc (E.wake_c c) = R.wake_c (cc c). Proof. destruct c; reflexivity. Qed.
Lemma rc_wake r : rc (E.wake_r r) = R.wake_r (rc r). Proof. destruct r; reflexivity. Qed.

Lemma nth_error_upd_same {A} (l : list A) i x y : nth_error l i = Some y -> nth_error (E.upd l i x) i = Some x.
Proof. revert i; induction l as [|a l IH]; intros [|i] H; cbn in *; try discriminate; auto. Qed.
Lemma nth_error_upd_other {A} (l : list A) i j x : j <> i -> nth_error (E.upd l i x) j = nth_error l j.
Proof. revert i j; induction l as [|a l IH]; intros [|i] [|j] H; cbn; auto; try congruence. Qed.
Lemma length_upd {A} (l : list A) i x : length (E.upd l i x) = length l.
Proof. revert i; induction l as [|a l IH]; intros [|i]; cbn; auto. Qed.

Lemma look_upd l i c y j : nth_error l i = Some y -> look (E.upd l i c) j = R.updf (look l) i (cc c) j.
Proof.
  intros H. unfold look, R.updf. destruct (Nat.eqb_spec j i) as [->|Hn].
  - now rewrite (nth_error_upd_same l i c y H).
  - now rewrite nth_error_upd_other.
Qed.
Lemma look_wake l j : look (map E.wake_c l) j = R.wake_c (look l j).
Proof. unfold look. rewrite nth_error_map. destruct (nth_error l j); cbn; [apply cc_wake|reflexivity]. Qed.

Lemma opt_eqb_spec a b : E.opt_eqb a b = true <-> a = b.
Proof.
  destruct a as [x|], b as [y|]; cbn; try (split; congruence).
  rewrite Nat.eqb_eq. split; congruence.
Qed.

Lemma look_inv l i c : i < length l -> look l i = cc c -> nth_error l i = Some c.
Proof.
  intros Hi. unfold look. destruct (nth_error l i) as [c0|] eqn:E.
  - intros H. f_equal. destruct c0, c; cbn in H; congruence.
  - apply nth_error_None in E. lia.
Qed.

(* ---- forward: an executable step is a relational step ---- *)
Ltac fin := constructor; try (match goal with U' : forall c c', c' = cc c -> _ |- forall j, R.updf _ _ _ j = _ => apply U'; reflexivity end); cbn [R.slot R.mtx R.next_tok R.chan R.cs R.rl E.slot E.mtx E.next_tok E.chan E.callers E.rl
                              E.set_c E.set_r E.set_mtx E.set_slot E.set_chan E.bump_tok E.notify_all rc]; auto; try congruence.

Lemma sim_r r s s' N : rel r s -> E.rstep s = Some s' -> exists r', RC.stepN N r r' /\ rel r' s'.
Proof.
  intros [Hs Hm Ht Hc Hcs Hr] H. unfold E.rstep in H. destruct (E.rl s) eqn:Er; cbn [rc] in Hr.
  - destruct (E.chan s) as [|t q] eqn:Ec; [discriminate|]. injection H as <-.
    eexists. split; [apply RC.sn_r; eapply R.s_R0; eauto|]. fin.
  - injection H as <-. eexists. split; [apply RC.sn_r; eapply R.s_R1; eauto|]. fin.
  - destruct (E.mtx s) eqn:Em; [discriminate|]. injection H as <-.
    eexists. split; [apply RC.sn_r; eapply R.s_R2; eauto|]. fin.
  - destruct (E.slot s) eqn:Es; injection H as <-.
    + eexists. split; [apply RC.sn_r; eapply R.s_R3n; eauto; congruence|]. fin.
    + eexists. split; [apply RC.sn_r; eapply R.s_R3y; eauto|]. fin.
  - discriminate.
  - destruct (E.mtx s) eqn:Em; [discriminate|]. injection H as <-.
    eexists. split; [apply RC.sn_r; eapply R.s_R2; eauto|]. fin.
  - injection H as <-. eexists. split; [apply RC.sn_r; eapply R.s_R4; eauto|]. fin.
  - injection H as <-. eexists. split; [apply RC.sn_r; eapply R.s_R5; eauto|]. fin.
    intros j. rewrite look_wake, Hcs. reflexivity.
  - injection H as <-. eexists. split; [apply RC.sn_r; eapply R.s_R6; eauto|]. fin.
Qed.

Lemma sim_c r s s' i : rel r s -> E.cstep true i s = Some s' ->
  exists r', RC.stepN (length (E.callers s)) r r' /\ rel r' s'.
Proof.
  intros [Hs Hm Ht Hc Hcs Hr] H. unfold E.cstep in H.
  destruct (nth_error (E.callers s) i) as [pc|] eqn:En; [|discriminate].
  assert (Hi : i < length (E.callers s)) by (apply nth_error_Some; congruence).
  assert (Hci : R.cs r i = cc pc) by (rewrite Hcs; unfold look; now rewrite En).
  assert (U : forall c j, R.updf (R.cs r) i (cc c) j = look (E.upd (E.callers s) i c) j).
  { intros c j. rewrite (look_upd _ _ _ _ _ En). unfold R.updf. destruct (Nat.eqb j i); auto. }
  assert (U' : forall c c', c' = cc c -> forall j, R.updf (R.cs r) i c' j = look (E.upd (E.callers s) i c) j)
    by (intros c c' ->; apply U).
  destruct pc; cbn [cc] in Hci.
  - injection H as <-. eexists. split; [apply (RC.sn_c _ i); auto; eapply R.s_C0; eauto|]. fin.
    apply U'. cbn. congruence.
  - injection H as <-. eexists. split; [apply (RC.sn_c _ i); auto; eapply R.s_C1; eauto|]. fin.
  - destruct (E.mtx s) eqn:Em; [discriminate|]. injection H as <-.
    eexists. split; [apply (RC.sn_c _ i); auto; eapply R.s_C2; eauto|]. fin.
  - destruct (E.opt_eqb (E.slot s) (Some t)) eqn:Eo; injection H as <-.
    + apply opt_eqb_spec in Eo. eexists. split; [apply (RC.sn_c _ i); auto; eapply R.s_C3y; eauto; congruence|]. fin.
    + assert (E.slot s <> Some t) by (intros X; apply opt_eqb_spec in X; congruence).
      eexists. split; [apply (RC.sn_c _ i); auto; eapply R.s_C3n; eauto; congruence|]. fin.
  - discriminate.
  - destruct (E.mtx s) eqn:Em; [discriminate|]. injection H as <-.
    eexists. split; [apply (RC.sn_c _ i); auto; eapply R.s_C2; eauto|]. fin.
  - injection H as <-. eexists. split; [apply (RC.sn_c _ i); auto; eapply R.s_C4; eauto|]. fin.
  - injection H as <-. eexists. split; [apply (RC.sn_c _ i); auto; eapply R.s_C4n; eauto|]. fin.
    + intros j. rewrite look_wake, <- U. reflexivity.
    + rewrite rc_wake. congruence.
  - injection H as <-. eexists. split; [apply (RC.sn_c _ i); auto; eapply R.s_C5; eauto|]. fin.
  - discriminate.
Qed.

Lemma step_len tid s s' : E.step true tid s = Some s' -> length (E.callers s') = length (E.callers s).
Proof.
  destruct tid as [|i]; cbn [E.step].
  - unfold E.rstep. destruct (E.rl s); try destruct (E.chan s); try destruct (E.mtx s); try destruct (E.slot s);
      intros H; try discriminate; injection H as <-; cbn; rewrite ?map_length; reflexivity.
  - unfold E.cstep. destruct (nth_error (E.callers s) i) as [pc|]; [|discriminate].
    destruct pc; try destruct (E.mtx s); try destruct (E.opt_eqb (E.slot s) (Some t));
      intros H; try discriminate; injection H as <-; cbn; rewrite ?map_length, ?length_upd; reflexivity.
Qed.

Lemma sim tid r s s' : rel r s -> E.step true tid s = Some s' ->
  exists r', RC.stepN (length (E.callers s)) r r' /\ rel r' s'.
Proof. destruct tid; cbn [E.step]; eauto using sim_r, sim_c. Qed.

(* ---- backward: a relational step of a related state is an enabled executable thread ---- *)
Lemma enabled_back r s r' : rel r s -> RC.stepN (length (E.callers s)) r r' ->
  exists tid, In tid (E.tids s) /\ E.enabled true s tid = true.
Proof.
  intros [Hs Hm Ht Hc Hcs Hr] H. unfold E.enabled, E.tids.
  destruct H as [i a b Hi H|a b H].
  - exists (S i). split; [apply in_seq; lia|]. cbn [E.step]. unfold E.cstep.
    assert (L : forall c, R.cs a i = cc c -> nth_error (E.callers s) i = Some c).
    { intros c Hc'. apply look_inv; auto. rewrite <- Hcs. exact Hc'. }
    destruct H as [s0 H0|s0 t H0|s0 t H0 M|s0 t H0 S0|s0 t H0 S0|s0 t H0|s0 t H0|s0 t H0].
    + rewrite (L E.C0 H0). reflexivity.
    + rewrite (L (E.C1 t) H0). reflexivity.
    + destruct H0 as [H0|H0]; [rewrite (L (E.C2 t) H0)|rewrite (L (E.Cwk t) H0)]; rewrite <- Hm, M; reflexivity.
    + rewrite (L (E.C3 t) H0). destruct (E.opt_eqb (E.slot s) (Some t)); reflexivity.
    + rewrite (L (E.C3 t) H0). destruct (E.opt_eqb (E.slot s) (Some t)); reflexivity.
    + rewrite (L (E.C4 t) H0). reflexivity.
    + rewrite (L (E.C4n t) H0). reflexivity.
    + rewrite (L (E.C5 t) H0). reflexivity.
  - exists 0. split; [apply in_seq; lia|]. cbn [E.step]. unfold E.rstep.
    assert (L : forall x, R.rl a = rc x -> E.rl s = x).
    { intros x Hx. rewrite Hr in Hx. destruct (E.rl s), x; cbn in Hx; congruence. }
    destruct H as [s0 t q H0 C|s0 t H0|s0 t H0 M|s0 t H0 S0|s0 t H0 S0|s0 t H0|s0 t H0|s0 t H0].
    + rewrite (L E.R0 H0), <- Hc, C. reflexivity.
    + rewrite (L (E.R1 t) H0). reflexivity.
    + destruct H0 as [H0|H0]; [rewrite (L (E.R2 t) H0)|rewrite (L (E.Rwk t) H0)]; rewrite <- Hm, M; reflexivity.
    + rewrite (L (E.R3 t) H0). destruct (E.slot s); reflexivity.
    + rewrite (L (E.R3 t) H0). destruct (E.slot s); reflexivity.
    + rewrite (L (E.R4 t) H0). reflexivity.
    + rewrite (L (E.R5 t) H0). reflexivity.
    + rewrite (L (E.R6 t) H0). reflexivity.
Qed.

(* ---- executions ---- *)
Lemma rel_init n : rel R.init (E.init n).
Proof.
  constructor; cbn; auto. intros j. unfold look.
  destruct (nth_error (repeat E.C0 n) j) as [c|] eqn:X; [|reflexivity].
  apply nth_error_In, repeat_spec in X. now subst.
Qed.

(* number of steps a schedule really takes (a thread that is not enabled is skipped) *)
Fixpoint taken (sched : list nat) (s : E.st) : nat :=
  match sched with
  | [] => 0
  | t :: q => match E.step true t s with Some s' => S (taken q s') | None => taken q s end
  end.

Lemma run_sim : forall sched r s, rel r s ->
  exists r', RW.runN (length (E.callers s)) (taken sched s) r r' /\ rel r' (E.run true sched s) /\
             length (E.callers (E.run true sched s)) = length (E.callers s).
Proof.
  induction sched as [|t q IH]; intros r s Hrel; cbn [taken E.run].
  - exists r. split; [constructor | split; [exact Hrel | reflexivity]].
  - destruct (E.step true t s) as [s1|] eqn:St; [|apply IH; exact Hrel].
    destruct (sim t r s s1 Hrel St) as (r1 & H1 & Hrel1). pose proof (step_len _ _ _ St) as L.
    destruct (IH r1 s1 Hrel1) as (r2 & H2 & Hrel2 & L2). rewrite L in *.
    exists r2. split; [econstructor; eauto | split; [exact Hrel2 | exact L2]].
Qed.

(* every schedule of n callers and the reloader takes at most work_bound n steps in the executable
   model, whatever the schedule does (no fairness assumption) *)
Theorem exec_bounded_work n sched : taken sched (E.init n) <= RW.work_bound n.
Proof.
  destruct (run_sim sched R.init (E.init n) (rel_init n)) as (r & H & _ & _).
  cbn [E.init E.callers] in H. rewrite repeat_length in H. exact (RW.bounded_work _ _ _ H).
Qed.

(* no state the executable model reaches is deadlocked: for every number of callers, every schedule *)
Theorem exec_no_deadlock n sched : E.deadlocked true (E.run true sched (E.init n)) = false.
Proof.
  destruct (run_sim sched R.init (E.init n) (rel_init n)) as (r & H & Hrel & L).
  cbn [E.init E.callers] in H, L. rewrite repeat_length in H, L.
  set (s := E.run true sched (E.init n)) in *.
  unfold E.deadlocked. destruct (E.all_done s) eqn:A; [reflexivity|]. cbn [negb andb].
  (* somebody is not done: the relational model can step, hence some thread is enabled *)
  unfold E.all_done in A.
  assert (X : exists c, In c (E.callers s) /\ E.c_done c = false).
  { clear -A. induction (E.callers s) as [|c l IH]; cbn in A; [discriminate|].
    destruct (E.c_done c) eqn:D; [destruct (IH A) as (c' & ? & ?); exists c'; cbn; auto | exists c; cbn; auto]. }
  destruct X as (c & Hin & Hc). apply In_nth_error in Hin. destruct Hin as [i Hi].
  assert (Hlt : i < n) by (rewrite <- L; apply nth_error_Some; congruence).
  assert (Hnd : R.cs r i <> R.CDone).
  { rewrite (e_cs _ _ Hrel). unfold look. rewrite Hi. destruct c; cbn in *; congruence. }
  destruct (RC.answers_no_deadlock n r (RW.runN_stepsN _ _ _ _ H)) as [r' Hstep]; [exists i; auto|].
  rewrite <- L in Hstep. destruct (enabled_back r s r' Hrel Hstep) as (tid & Hin & Hen).
  apply not_true_is_false. intros F. rewrite forallb_forall in F. specialize (F tid Hin).
  rewrite Hen in F. discriminate.
Qed.

(* ... and a schedule that has come to rest has returned every caller *)
Corollary exec_quiescent_means_all_returned n sched :
  let s := E.run true sched (E.init n) in
  (forall tid, In tid (E.tids s) -> E.enabled true s tid = false) -> E.all_done s = true.
Proof.
  intros s Q. pose proof (exec_no_deadlock n sched) as D. fold s in D. unfold E.deadlocked in D.
  destruct (E.all_done s); [reflexivity|]. exfalso.
  assert (F : forallb (fun t => negb (E.enabled true s t)) (E.tids s) = true).
  { apply forallb_forall. intros t Ht. now rewrite (Q t Ht). }
  cbn [negb andb] in D. rewrite F in D. discriminate.
Qed.
