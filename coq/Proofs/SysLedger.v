(* C13, the ledger: every value token the system hands out is accounted for at every moment -- it is
   held by exactly one cache entry, or in flight to the caller, or it has been dropped, once.  For
   every operation, every nesting of Compounds, every fault, error and panic (fuel induction), hence
   for every history: when the cache is cleared or gone every token made has been dropped exactly
   once, and none twice before. *)
From Coq Require Import List String NArith ZArith Bool Lia.
From AM Require Import Ref.Load Ref.Sys Proofs.SysStatic Proofs.SysGrows.
Import ListNotations.
Open Scope N_scope.

Definition toks (s : st) : list N := map (fun kv => en_tok (snd kv)) (cache s).
Definition drops (tr : list ev) : list N := flat_map (fun e => match e with EDrop k => [k] | _ => [] end) tr.
Definition cnt (t : N) (l : list N) : nat := count_occ N.eq_dec l t.
Definition ind (a b t : N) : nat := if (a <=? t) && (t <? b) then 1%nat else 0%nat.
Definition Uniq (s : st) : Prop := NoDup (map fst (cache s)).

Record Bal (s s' : st) (tin tout : list ev) (out : list N) : Prop := {
  b_mono : next_tok s <= next_tok s';
  b_uniq : Uniq s -> Uniq s';
  b_eq : Uniq s -> forall t, t <> 0 ->
    (ind (next_tok s) (next_tok s') t + cnt t (toks s) + cnt t (drops tin)
     = cnt t (drops tout) + cnt t (toks s') + cnt t out)%nat;
}.

Lemma cnt_app t a b : cnt t (a ++ b) = (cnt t a + cnt t b)%nat.
Proof. apply count_occ_app. Qed.
Lemma drops_app a b : drops (a ++ b) = drops a ++ drops b.
Proof. unfold drops. apply flat_map_app. Qed.
Lemma cnt_one t x : cnt t [x] = if N.eqb x t then 1%nat else 0%nat.
Proof. unfold cnt. cbn. destruct (N.eq_dec x t) as [->|H]; [now rewrite N.eqb_refl|]. apply N.eqb_neq in H. now rewrite H. Qed.
Lemma cnt_cons t x l : cnt t (x :: l) = (cnt t [x] + cnt t l)%nat.
Proof. change (x :: l) with ([x] ++ l). apply cnt_app. Qed.
Lemma ind_same a t : ind a a t = 0%nat.
Proof. unfold ind. destruct (a <=? t) eqn:A, (t <? a) eqn:B; try reflexivity. apply N.leb_le in A. apply N.ltb_lt in B. lia. Qed.
Lemma ind_split a b c t : a <= b -> b <= c -> ind a c t = (ind a b t + ind b c t)%nat.
Proof.
  intros H1 H2. unfold ind.
  destruct (a <=? t) eqn:A, (t <? c) eqn:C, (t <? b) eqn:B, (b <=? t) eqn:D; cbn; try reflexivity;
    repeat match goal with
           | H : (_ <=? _) = true |- _ => apply N.leb_le in H
           | H : (_ <=? _) = false |- _ => apply N.leb_gt in H
           | H : (_ <? _) = true |- _ => apply N.ltb_lt in H
           | H : (_ <? _) = false |- _ => apply N.ltb_ge in H
           end; lia.
Qed.
Lemma ind_succ a t : ind a (N.succ a) t = if N.eqb a t then 1%nat else 0%nat.
Proof.
  unfold ind. destruct (N.eqb a t) eqn:E.
  - apply N.eqb_eq in E. subst. rewrite N.leb_refl. cbn. destruct (t <? N.succ t) eqn:B; [reflexivity|]. apply N.ltb_ge in B. lia.
  - apply N.eqb_neq in E. destruct (a <=? t) eqn:A, (t <? N.succ a) eqn:B; try reflexivity.
    apply N.leb_le in A. apply N.ltb_lt in B. lia.
Qed.

Lemma bal_refl s tr : Bal s s tr tr [].
Proof. constructor; [lia|auto|]. intros _ t _. rewrite ind_same. cbn. lia. Qed.

Lemma bal_still s s' tr : cache s' = cache s -> next_tok s' = next_tok s -> Bal s s' tr tr [].
Proof.
  intros C T. constructor; [lia|unfold Uniq; now rewrite C|]. intros _ t _. unfold toks. rewrite C, T, ind_same. cbn. lia.
Qed.

Lemma bal_trans s s1 s2 t0 t1 t2 o1 o2 :
  Bal s s1 t0 t1 o1 -> Bal s1 s2 t1 t2 o2 -> Bal s s2 t0 t2 (o1 ++ o2).
Proof.
  intros [m1 u1 e1] [m2 u2 e2]. constructor; [lia|auto|]. intros U t Ht.
  rewrite (ind_split _ _ _ t m1 m2), cnt_app. specialize (e1 U t Ht). specialize (e2 (u1 U) t Ht). lia.
Qed.

Lemma bal_trans0 s s1 s2 t0 t1 t2 o :
  Bal s s1 t0 t1 [] -> Bal s1 s2 t1 t2 o -> Bal s s2 t0 t2 o.
Proof. intros A B. exact (bal_trans _ _ _ _ _ _ _ _ A B). Qed.

Lemma bal_out_r s s1 s2 t0 t1 t2 o :
  Bal s s1 t0 t1 o -> Bal s1 s2 t1 t2 [] -> Bal s s2 t0 t2 o.
Proof. intros A B. pose proof (bal_trans _ _ _ _ _ _ _ _ A B) as H. now rewrite app_nil_r in H. Qed.

(* events that are not drops *)
Lemma bal_quiet_ev s s' t0 t1 x o : drops x = [] -> Bal s s' t0 t1 o -> Bal s s' t0 (t1 ++ x) o.
Proof. intros D [m u e]. constructor; auto. intros U t Ht. rewrite drops_app, D, app_nil_r. auto. Qed.

(* both traces may be extended on the left by the same prefix *)
Lemma bal_prefix s s' p t1 o : Bal s s' [] t1 o -> Bal s s' p (p ++ t1) o.
Proof. intros [m u e]. constructor; auto. intros U t Ht. rewrite drops_app, cnt_app. specialize (e U t Ht). cbn in e. lia. Qed.

Lemma bal_bump s tr : Bal s (fst (bump_tok s)) tr tr [snd (bump_tok s)].
Proof.
  unfold bump_tok. constructor; cbn [fst snd next_tok]; [lia|auto|]. intros _ t _. unfold toks. cbn [cache].
  rewrite ind_succ, cnt_one. lia.
Qed.

(* a token in flight is dropped *)
Lemma bal_drop_out s s' t0 t1 tok o : Bal s s' t0 t1 (tok :: o) -> Bal s s' t0 (t1 ++ drop_of_tok tok) o.
Proof.
  intros [m u e]. constructor; auto. intros U t Ht. specialize (e U t Ht). rewrite cnt_cons in e.
  rewrite drops_app, cnt_app. unfold drop_of_tok. destruct (N.eqb tok 0) eqn:Z.
  - apply N.eqb_eq in Z. subst. rewrite cnt_one in e. assert (N.eqb 0 t = false) by (apply N.eqb_neq; lia).
    rewrite H in e. cbn. lia.
  - cbn [drops flat_map app]. lia.
Qed.

(* ... or stored *)
Lemma uniq_snoc (l : list (key * entry)) k e : NoDup (map fst l) -> assoc key_eqb k l = None -> NoDup (map fst (l ++ [(k, e)])).
Proof.
  intros N A. rewrite map_app. cbn. induction l as [|[k0 e0] r IH]; cbn in *; [constructor; [intros []|constructor]|].
  destruct (key_eqb k k0) eqn:E; [discriminate|]. inversion N as [|? ? Hn Nr]; subst. constructor.
  - rewrite in_app_iff. cbn. intros [H|[->|[]]]; [contradiction|now rewrite key_eqb_refl in E].
  - now apply IH.
Qed.

Lemma bal_insert s0 s t0 t1 k e o :
  Bal s0 s t0 t1 (en_tok e :: o) ->
  Bal s0 (fst (fst (cache_insert s k e))) t0 (t1 ++ snd (cache_insert s k e)) o.
Proof.
  intros B. unfold cache_insert. destruct (cache_get s k) as [old|] eqn:G; cbn [fst snd].
  - apply (bal_drop_out _ _ _ _ _ _ B).
  - rewrite app_nil_r. destruct B as [m u e0]. constructor; [exact m| |].
    + intros U. unfold Uniq. cbn [cache set_cache]. apply uniq_snoc; [now apply u|exact G].
    + intros U t Ht. specialize (e0 U t Ht). rewrite cnt_cons in e0. unfold toks in *. cbn [cache set_cache next_tok].
      rewrite map_app, cnt_app. cbn [map snd]. lia.
Qed.

(* ---- what neither makes nor drops nor stores ---- *)
Lemma nt_rec_add s d : next_tok (rec_add s d) = next_tok s.
Proof. unfold rec_add. destruct (has_reloader s); [|reflexivity]. destruct (recs s) as [|[l|] r]; reflexivity. Qed.
Lemma nt_rec_pop s : next_tok (fst (rec_pop s)) = next_tok s.
Proof. unfold rec_pop. destruct (recs s) as [|[l|] r]; reflexivity. Qed.

Lemma read_ev_quiet x id ext : drops [snd (src_read x id ext)] = [].
Proof.
  unfold src_read. destruct (src_tick x) as [x1 f]. cbn [snd].
  destruct f as [k|]; [reflexivity|]. destruct (assoc fkey_eqb (id, ext) (files x)) as [[c|k]|]; reflexivity.
Qed.
Lemma read_dir_ev_quiet x id : drops [snd (src_read_dir x id)] = [].
Proof.
  unfold src_read_dir. destruct (src_tick x) as [x1 f]. cbn [snd].
  destruct f as [k|]; [reflexivity|]. destruct (assoc String.eqb id (dirs x)) as [[k|]|]; reflexivity.
Qed.

Lemma cache_read_bal s id ext tr :
  Bal s (fst (fst (cache_read s id ext))) tr (tr ++ [snd (cache_read s id ext)]) [].
Proof.
  unfold cache_read. pose proof (read_ev_quiet (src (rec_add s (DepFile id ext))) id ext) as Q.
  destruct (src_read (src (rec_add s (DepFile id ext))) id ext) as [[sr rd] e]. cbn [fst snd] in *.
  apply bal_quiet_ev; [exact Q|]. apply bal_still; cbn [cache next_tok set_src]; [apply cache_rec_add|apply nt_rec_add].
Qed.
Lemma cache_read_dir_bal s id tr :
  Bal s (fst (fst (cache_read_dir s id))) tr (tr ++ [snd (cache_read_dir s id)]) [].
Proof.
  unfold cache_read_dir. pose proof (read_dir_ev_quiet (src (rec_add s (DepDir id))) id) as Q.
  destruct (src_read_dir (src (rec_add s (DepDir id))) id) as [[sr rd] e]. cbn [fst snd] in *.
  apply bal_quiet_ev; [exact Q|]. apply bal_still; cbn [cache next_tok set_src]; [apply cache_rec_add|apply nt_rec_add].
Qed.
Lemma get_cached_rec_bal s t id tr : Bal s (fst (get_cached_rec s t id)) tr tr [].
Proof.
  unfold get_cached_rec. cbn [fst]. apply bal_still; destruct (hot_reloaded t); try reflexivity; [apply cache_rec_add|apply nt_rec_add].
Qed.
Lemma rec_push_bal s o tr : Bal s (rec_push s o) tr tr []. Proof. now apply bal_still. Qed.
Lemma rec_pop_bal s tr : Bal s (fst (rec_pop s)) tr tr [].
Proof. apply bal_still; [apply cache_rec_pop|apply nt_rec_pop]. Qed.
Lemma set_cm_bal s m tr : Bal s (set_cm s m) tr tr []. Proof. now apply bal_still. Qed.

Definition outr {A} (r : res (A * N)) : list N := match r with ROk (_, tok) => [tok] | _ => [] end.

(* made value in flight *)
Lemma bal_made s tr x : drops x = [] -> Bal s (fst (bump_tok s)) tr (tr ++ x) [snd (bump_tok s)].
Proof. intros D. apply bal_quiet_ev; [exact D|apply bal_bump]. Qed.

Lemma int_attempts_bal : forall es s t id acc tr,
  let x := int_attempts s t id es acc tr in
  Bal s (fst (fst x)) tr (snd (fst x)) (match snd x with inr (_, tok) => [tok] | inl _ => [] end).
Proof.
  induction es as [|e r IH]; intros s t id acc tr; cbn [int_attempts]; [apply bal_refl|].
  pose proof (cache_read_bal s id e tr) as R. destruct (cache_read s id e) as [[s1 rd] evr]. cbn [fst snd] in R.
  assert (Conv : forall acc', let x := int_attempts s1 t id r acc' (tr ++ [evr; EFailed (tag t) e "conv"]) in
                 Bal s (fst (fst x)) tr (snd (fst x)) (match snd x with inr (_, tok) => [tok] | inl _ => [] end)).
  { intros acc'. eapply bal_trans0; [|apply IH].
    change (tr ++ [evr; EFailed (tag t) e "conv"]) with (tr ++ [evr] ++ [EFailed (tag t) e "conv"]).
    rewrite app_assoc. apply bal_quiet_ev; [reflexivity|exact R]. }
  assert (Made : forall v : unit, let '(s2, tok) := bump_tok s1 in
                 Bal s s2 tr (tr ++ [evr; EMade (tag t) e tok]) [tok]).
  { intros _. pose proof (bal_made s1 (tr ++ [evr]) [EMade (tag t) e (snd (bump_tok s1))] eq_refl) as M.
    destruct (bump_tok s1) as [s2 tok]. cbn [fst snd] in M. rewrite <- app_assoc in M. cbn [app] in M.
    eapply bal_trans0; [exact R|exact M]. }
  destruct rd as [k|c].
  - eapply bal_trans0; [exact R|apply IH].
  - destruct t, c as [b|n ls]; try (apply Conv);
      try (specialize (Made tt); destruct (bump_tok s1) as [s2 tok]; cbn [fst snd]; exact Made);
      try (destruct (parse_int b); [specialize (Made tt); destruct (bump_tok s1) as [s2 tok]; cbn [fst snd]; exact Made|apply Conv]).
Qed.

Lemma load_asset_value_bal s t id :
  let x := load_asset_value s t id in Bal s (fst (fst x)) [] (snd (fst x)) (outr (snd x)).
Proof.
  unfold load_asset_value. pose proof (int_attempts_bal (exts t) s t id ENoDefault []) as A.
  destruct (int_attempts s t id (exts t) ENoDefault []) as [[s1 tr] r]. cbn [fst snd] in A.
  destruct r as [e|[v tok]]; [|exact A].
  destruct t; try exact A.
  pose proof (bal_made s1 tr [EMade "D" ("default:" ++ class_leaf e)%string (snd (bump_tok s1))] eq_refl) as M.
  destruct (bump_tok s1) as [s2 tok]. cbn [fst snd outr] in *. eapply bal_trans0; [exact A|exact M].
Qed.

Lemma bal_drop_out' s s' t0 t1 tok o : Bal s s' t0 t1 (tok :: o) -> Bal s s' t0 (t1 ++ [EDrop tok]) o.
Proof.
  intros [m u e]. constructor; auto. intros U t Ht. specialize (e U t Ht). rewrite cnt_cons in e.
  rewrite drops_app, cnt_app. cbn [drops flat_map app]. lia.
Qed.
Lemma bal_out_zero s s' a b o : Bal s s' a b o -> Bal s s' a b (0 :: o).
Proof.
  intros [m u e]. constructor; auto. intros U t Ht. specialize (e U t Ht). rewrite cnt_cons, cnt_one.
  assert (N.eqb 0 t = false) as -> by (apply N.eqb_neq; lia). lia.
Qed.

Section Eval.
  Variable load_entry_rec : st -> ty -> string -> st * list ev * res entry.
  Variable load_owned_rec : st -> ty -> string -> st * list ev * res (value * N).
  Hypothesis Hent : forall s t id, let x := load_entry_rec s t id in Bal s (fst (fst x)) [] (snd (fst x)) [].
  Hypothesis Hown : forall s t id, let x := load_owned_rec s t id in Bal s (fst (fst x)) [] (snd (fst x)) (outr (snd x)).

  Lemma run_line_bal : forall l s,
    let x := run_line load_entry_rec load_owned_rec s l in Bal s (fst (fst x)) [] (snd (fst x)) [].
  Proof.
    induction l as [z|t id|t id|t id|l' IH|l' IH|id ext|id|id z|l' IH|l' IH| |]; intros s; cbn [run_line].
    - apply bal_refl.
    - destruct (negb (is_loadable t)); [apply bal_refl|].
      pose proof (Hent s t id) as H. destruct (load_entry_rec s t id) as [[s1 tr] r]. exact H.
    - pose proof (get_cached_rec_bal s t id []) as H. destruct (get_cached_rec s t id) as [s1 o]. exact H.
    - destruct (negb (is_loadable t)); [apply bal_refl|].
      pose proof (Hown s t id) as H. destruct (load_owned_rec s t id) as [[s1 tr] r]. cbn [fst snd] in H.
      destruct r as [[v tok]|e| |]; cbn [fst snd outr] in *; try exact H.
      exact (bal_drop_out _ _ _ _ _ _ H).
    - pose proof (IH (rec_push s None)) as H.
      destruct (run_line load_entry_rec load_owned_rec (rec_push s None) l') as [[s1 tr] r]. cbn [fst snd] in *.
      eapply bal_trans0; [apply rec_push_bal|]. eapply bal_out_r; [exact H|apply rec_pop_bal].
    - pose proof (IH s) as H. destruct (run_line load_entry_rec load_owned_rec s l') as [[s1 tr] r]. exact H.
    - pose proof (cache_read_bal s id ext []) as H. destruct (cache_read s id ext) as [[s1 rd] evr]. exact H.
    - pose proof (cache_read_dir_bal s id []) as H. destruct (cache_read_dir s id) as [[s1 rd] evr]. exact H.
    - pose proof (bal_bump s []) as B. destruct (bump_tok s) as [s1 tok]. cbn [fst snd] in B.
      destruct (cache_get s1 (TV, id)) as [e|]; cbn [fst snd].
      + exact (bal_drop_out' _ _ _ _ _ _ B).
      + pose proof (bal_insert s s1 [] [] (TV, id) (mark_goi (mk_entry s1 TV (VInt z "insert") tok)) [] B) as I.
        destruct (cache_insert s1 (TV, id) (mark_goi (mk_entry s1 TV (VInt z "insert") tok))) as [[s2 e'] d].
        exact I.
    - pose proof (IH (rec_push s None)) as H.
      destruct (run_line load_entry_rec load_owned_rec (rec_push s None) l') as [[s1 tr] r]. cbn [fst snd] in *.
      eapply bal_trans0; [apply rec_push_bal|]. eapply bal_out_r; [exact H|apply rec_pop_bal].
    - pose proof (IH s) as H. destruct (run_line load_entry_rec load_owned_rec s l') as [[s1 tr] r]. exact H.
    - apply bal_refl.
    - apply bal_refl.
  Qed.

  Lemma run_lines_bal : forall ls s sum tr,
    let x := run_lines load_entry_rec load_owned_rec s ls sum tr in Bal s (fst (fst x)) tr (snd (fst x)) [].
  Proof.
    induction ls as [|l r IH]; intros s sum tr; cbn [run_lines]; [apply bal_refl|].
    pose proof (run_line_bal l s) as H. destruct (run_line load_entry_rec load_owned_rec s l) as [[s1 tr1] x].
    cbn [fst snd] in H. apply (bal_prefix _ _ tr) in H.
    destruct x as [z|e| |]; cbn [fst snd]; try exact H. eapply bal_trans0; [exact H|apply IH].
  Qed.

  Lemma load_node_value_bal s t id :
    let x := load_node_value load_entry_rec load_owned_rec s t id in Bal s (fst (fst x)) [] (snd (fst x)) (outr (snd x)).
  Proof.
    unfold load_node_value. pose proof (cache_read_bal s id "n" []) as R.
    destruct (cache_read s id "n") as [[s1 rd] evr]. cbn [fst snd app] in R.
    destruct rd as [k|[b|n ls]]; cbn [fst snd outr]; [exact R| |].
    - change [evr; EFailed (tag t) id "script"] with ([evr] ++ [EFailed (tag t) id "script"]).
      apply bal_quiet_ev; [reflexivity|exact R].
    - pose proof (run_lines_bal ls s1 0%Z [evr]) as L.
      destruct (run_lines load_entry_rec load_owned_rec s1 ls 0%Z [evr]) as [[s2 tr] r]. cbn [fst snd] in L.
      pose proof (bal_trans0 _ _ _ _ _ _ _ R L) as B.
      destruct r as [z|e| |]; cbn [fst snd outr]; try exact B.
      + pose proof (bal_made s2 tr [EMade (tag t) id (snd (bump_tok s2))] eq_refl) as M.
        destruct (bump_tok s2) as [s3 tok]. cbn [fst snd outr] in *. eapply bal_trans0; [exact B|exact M].
      + apply bal_quiet_ev; [reflexivity|exact B].
  Qed.

  Lemma load_dir_value_bal s id :
    let x := load_dir_value s id in Bal s (fst (fst x)) [] (snd (fst x)) (outr (snd x)).
  Proof.
    unfold load_dir_value. pose proof (cache_read_dir_bal s id []) as R.
    destruct (cache_read_dir s id) as [[s1 rd] evr]. cbn [fst snd app] in R.
    destruct rd as [k|l]; cbn [fst snd outr]; [exact R|]. now apply bal_out_zero.
  Qed.

  Lemma rdir_go_bal : forall ds s ids tr,
    let x := rdir_go load_entry_rec s ds ids tr in Bal s (fst (fst x)) tr (snd (fst x)) [].
  Proof.
    induction ds as [|d r IH]; intros s ids tr; cbn [rdir_go]; [apply bal_refl|].
    pose proof (Hent s TRI d) as H. destruct (load_entry_rec s TRI d) as [[s' tr'] x]. cbn [fst snd] in H.
    apply (bal_prefix _ _ tr) in H.
    destruct x as [child|e| |]; cbn [fst snd]; try exact H; (eapply bal_trans0; [exact H|apply IH]).
  Qed.

  Lemma load_rec_dir_value_bal s id :
    let x := load_rec_dir_value load_entry_rec s id in Bal s (fst (fst x)) [] (snd (fst x)) (outr (snd x)).
  Proof.
    unfold load_rec_dir_value.
    pose proof (Hent s TDI id) as G1. destruct (load_entry_rec s TDI id) as [[s1 tr1] r1]. cbn [fst snd] in G1.
    destruct r1 as [this|e| |]; cbn [fst snd outr]; try exact G1.
    pose proof (cache_read_dir_bal s1 id tr1) as C. destruct (cache_read_dir s1 id) as [[s2 rd] e]. cbn [fst snd] in C.
    pose proof (bal_trans0 _ _ _ _ _ _ _ G1 C) as G2.
    destruct rd as [k|l]; cbn [fst snd outr]; [exact G2|].
    match goal with |- context [rdir_go load_entry_rec s2 ?ds ?ids ?tr] =>
      pose proof (rdir_go_bal ds s2 ids tr) as G3;
      destruct (rdir_go load_entry_rec s2 ds ids tr) as [[s3 tr3] x] end.
    cbn [fst snd] in *. pose proof (bal_trans0 _ _ _ _ _ _ _ G2 G3) as G4.
    destruct x as [ids|e0| |]; cbn [outr]; try exact G4. now apply bal_out_zero.
  Qed.

  Lemma load_value_bal s t id :
    let x := load_value load_entry_rec load_owned_rec s t id in Bal s (fst (fst x)) [] (snd (fst x)) (outr (snd x)).
  Proof.
    unfold load_value. destruct t; try apply load_asset_value_bal; try apply load_node_value_bal;
      try apply load_dir_value_bal; try apply load_rec_dir_value_bal. apply bal_refl.
  Qed.

  Lemma load_wrapped_bal s t id :
    let x := load_wrapped load_entry_rec load_owned_rec s t id in Bal s (fst (fst x)) [] (snd (fst x)) (outr (snd x)).
  Proof.
    unfold load_wrapped. pose proof (load_value_bal s t id) as G.
    destruct (load_value load_entry_rec load_owned_rec s t id) as [[s1 tr] r]. cbn [fst snd] in *.
    destruct r as [[v tok]|e| |]; exact G.
  Qed.

  Lemma load_and_record_bal s t id :
    let x := load_and_record load_entry_rec load_owned_rec s t id in Bal s (fst (fst x)) [] (snd (fst x)) (outr (snd x)).
  Proof.
    unfold load_and_record. destruct (hot_reloaded t && has_reloader s); [|apply load_wrapped_bal].
    pose proof (load_wrapped_bal (rec_push s (Some [])) t id) as G.
    destruct (load_wrapped load_entry_rec load_owned_rec (rec_push s (Some [])) t id) as [[s1 tr] r].
    cbn [fst snd] in G. pose proof (rec_pop_bal s1 tr) as P. destruct (rec_pop s1) as [s2 deps]. cbn [fst snd] in *.
    assert (B : Bal s s2 [] tr (outr r)).
    { eapply bal_trans0; [apply rec_push_bal|]. eapply bal_out_r; [exact G|exact P]. }
    destruct r as [[v tok]|e| |]; try exact B. eapply bal_out_r; [exact B|apply set_cm_bal].
  Qed.

  Lemma load_entry_bal s t id :
    let x := load_entry load_entry_rec load_owned_rec s t id in Bal s (fst (fst x)) [] (snd (fst x)) [].
  Proof.
    unfold load_entry. pose proof (get_cached_rec_bal s t id []) as C.
    destruct (get_cached_rec s t id) as [s0 o]. cbn [fst] in C.
    destruct o as [e|]; cbn [fst snd]; [exact C|].
    pose proof (load_and_record_bal s0 t id) as G.
    destruct (load_and_record load_entry_rec load_owned_rec s0 t id) as [[s1 tr] r]. cbn [fst snd] in G.
    pose proof (bal_trans0 _ _ _ _ _ _ _ C G) as G1.
    destruct r as [[v tok]|e| |]; cbn [fst snd outr] in *; try exact G1.
    pose proof (bal_insert s s1 [] tr (t, id) (mk_entry s1 t v tok) [] G1) as I.
    destruct (cache_insert s1 (t, id) (mk_entry s1 t v tok)) as [[s2 e'] d]. exact I.
  Qed.

  Lemma load_owned_bal s t id :
    let x := load_owned load_entry_rec load_owned_rec s t id in Bal s (fst (fst x)) [] (snd (fst x)) (outr (snd x)).
  Proof.
    unfold load_owned. eapply bal_trans0; [|apply load_and_record_bal].
    destruct (hot_reloaded t); [|apply bal_refl]. apply bal_still; [apply cache_rec_add|apply nt_rec_add].
  Qed.
End Eval.

Lemma load_f_bal : forall fuel,
  (forall s t id, let x := load_entry_f fuel s t id in Bal s (fst (fst x)) [] (snd (fst x)) []) /\
  (forall s t id, let x := load_owned_f fuel s t id in Bal s (fst (fst x)) [] (snd (fst x)) (outr (snd x))).
Proof.
  induction fuel as [|f [IHe IHo]]; split; intros s t id; cbn [load_entry_f load_owned_f];
    try apply bal_refl.
  - now apply load_entry_bal.
  - now apply load_owned_bal.
Qed.

(* ---- replacing, removing, clearing ---- *)
Definition tk (l : list (key * entry)) : list N := map (fun kv => en_tok (snd kv)) l.

Lemma assoc_set_present (l : list (key * entry)) k e old :
  assoc key_eqb k l = Some old ->
  map fst (assoc_set key_eqb k e l) = map fst l /\
  forall t, (cnt t (tk (assoc_set key_eqb k e l)) + cnt t [en_tok old] = cnt t (tk l) + cnt t [en_tok e])%nat.
Proof.
  induction l as [|[k0 e0] r IH]; cbn [assoc assoc_set]; [discriminate|].
  destruct (key_eqb k k0) eqn:E.
  - intros H. inversion H. subst. apply key_eqb_eq in E. subst. split; [reflexivity|].
    intros t. unfold tk. cbn [map snd fst]. rewrite !(cnt_cons t _ (map _ r)). lia.
  - intros H. destruct (IH H) as [A B]. split; [cbn [map fst]; now rewrite A|].
    intros t. unfold tk in *. cbn [map snd]. rewrite !(cnt_cons t _ (map _ _)). specialize (B t). lia.
Qed.

Lemma assoc_del_present (l : list (key * entry)) k old :
  NoDup (map fst l) -> assoc key_eqb k l = Some old ->
  NoDup (map fst (assoc_del key_eqb k l)) /\
  forall t, (cnt t (tk (assoc_del key_eqb k l)) + cnt t [en_tok old] = cnt t (tk l))%nat.
Proof.
  unfold assoc_del. induction l as [|[k0 e0] r IH]; cbn [assoc filter map fst]; [discriminate|].
  intros N. inversion N as [|? ? Hn Nr]; subst. destruct (key_eqb k k0) eqn:E; cbn [negb].
  - intros H. inversion H. subst. apply key_eqb_eq in E. subst k0.
    (* no other entry under k *)
    assert (F : filter (fun kv : key * entry => negb (key_eqb k (fst kv))) r = r).
    { clear -Hn. induction r as [|[k1 e1] r IH]; cbn; [reflexivity|].
      destruct (key_eqb k k1) eqn:E; cbn.
      - apply key_eqb_eq in E. subst. exfalso. apply Hn. now left.
      - f_equal. apply IH. intros H. apply Hn. now right. }
    rewrite F. split; [exact Nr|]. intros t. unfold tk. cbn [map snd]. rewrite (cnt_cons t _ (map _ r)). lia.
  - intros H. destruct (IH Nr H) as [A B]. split.
    + cbn [map fst]. constructor; [|exact A]. intros X. apply Hn.
      clear -X. induction r as [|[k1 e1] r IH]; cbn in *; [exact X|].
      destruct (negb (key_eqb k k1)); cbn in X; [destruct X as [X|X]; [now left|right; now apply IH]|right; now apply IH].
    + intros t. unfold tk in *. cbn [map snd]. rewrite !(cnt_cons t _ (map _ _)). specialize (B t). lia.
Qed.

Lemma cnt_drop_of_tok t tok : t <> 0 -> cnt t (drops (drop_of_tok tok)) = cnt t [tok].
Proof.
  intros Ht. unfold drop_of_tok. destruct (N.eqb tok 0) eqn:Z; [|reflexivity].
  apply N.eqb_eq in Z. subst. rewrite cnt_one. assert (N.eqb 0 t = false) as -> by (apply N.eqb_neq; lia). reflexivity.
Qed.

Lemma cnt_drops_all t (l : list (key * entry)) : t <> 0 ->
  cnt t (drops (flat_map (fun kv => drop_of (snd kv)) l)) = cnt t (tk l).
Proof.
  intros Ht. induction l as [|[k e] r IH]; [reflexivity|]. cbn [flat_map]. rewrite drops_app, cnt_app, IH.
  unfold tk. cbn [map snd]. rewrite (cnt_cons t _ (map _ r)). unfold drop_of. now rewrite cnt_drop_of_tok.
Qed.

(* ---- the reloader ---- *)
Lemma reload_one_bal fuel s k :
  let x := reload_one fuel s k in Bal s (fst x) [] (snd x) [].
Proof.
  unfold reload_one.
  destruct (g_get (graph s) (DepAsset k)) as [n|]; [|apply bal_refl].
  destruct (g_typ n) as [t|]; [|apply bal_refl].
  destruct (cache_get s k) as [old|] eqn:C; [|apply bal_refl].
  destruct (en_dyn old); cbn [negb]; [|apply bal_refl].
  pose proof (load_wrapped_bal _ _ (proj1 (load_f_bal fuel)) (proj2 (load_f_bal fuel)) (rec_push s (Some [])) t (snd k)) as G.
  pose proof (load_wrapped_grows _ _ (proj1 (load_f_grows fuel)) (proj2 (load_f_grows fuel)) (rec_push s (Some [])) t (snd k)) as Gr.
  destruct (load_wrapped (load_entry_f fuel) (load_owned_f fuel) (rec_push s (Some [])) t (snd k)) as [[s1 tr] r].
  cbn [fst snd] in G, Gr. pose proof (rec_pop_bal s1 tr) as P. pose proof (cache_rec_pop s1) as Cp.
  destruct (rec_pop s1) as [s2 deps]. cbn [fst snd] in *.
  assert (B : Bal s s2 [] tr (outr r)).
  { eapply bal_trans0; [apply rec_push_bal|]. eapply bal_out_r; [exact G|exact P]. }
  assert (C2 : cache_get s2 k = Some old).
  { unfold cache_get. rewrite Cp. apply (grows_get _ _ _ _ Gr). exact C. }
  destruct r as [[v tok]|e| |]; cbn [fst snd outr] in *; try exact B.
  destruct B as [m u e]. unfold cache_get in C2.
  match goal with |- context [cache_set s2 k ?E] => destruct (assoc_set_present (cache s2) k E old C2) as [A1 A2] end.
  constructor; cbn [next_tok set_graph cache_set set_cache]; [exact m| |].
  - intros U. unfold Uniq. cbn [cache set_graph cache_set set_cache]. rewrite A1. now apply u.
  - intros U x Hx. specialize (e U x Hx). rewrite cnt_cons in e.
    rewrite drops_app, cnt_app, (cnt_drop_of_tok x _ Hx). unfold toks in *. cbn [cache set_graph cache_set set_cache].
    specialize (A2 x). unfold tk in A2. cbn [en_tok] in A2. cbn [app] in e. change (cnt x (drops [])) with 0%nat in *. change (cnt x []) with 0%nat in *. lia.
Qed.

Lemma reload_all_bal fuel : forall order s tr,
  let x := reload_all fuel s order tr in Bal s (fst x) tr (snd x) [].
Proof.
  induction order as [|k r IH]; intros s tr; cbn [reload_all]; [apply bal_refl|].
  pose proof (reload_one_bal fuel s k) as H. destruct (reload_one fuel s k) as [s1 tr1]. cbn [fst snd] in H.
  apply (bal_prefix _ _ tr) in H. eapply bal_trans0; [exact H|apply IH].
Qed.

Lemma run_pass_bal fuel s order :
  let x := run_pass fuel s order in Bal s (fst (fst x)) [] (snd x) [].
Proof.
  unfold run_pass. pose proof (reload_all_bal fuel order (set_to_reload s []) []) as R.
  destruct (reload_all fuel (set_to_reload s []) order []) as [s1 tr]. cbn [fst snd] in *.
  eapply bal_trans0; [|exact R]. now apply bal_still.
Qed.

Lemma drain_still s : cache (drain s) = cache s /\ next_tok (drain s) = next_tok s.
Proof.
  unfold drain. cbn [cache next_tok set_cm]. generalize (cm s). intros l. revert s.
  induction l as [|m r IH]; intros s; cbn [fold_left]; [split; reflexivity|].
  destruct (IH (process_msg s m)) as [A B]. rewrite A, B. destruct m; split; reflexivity.
Qed.
Lemma take_events_still es : forall s, cache (take_events s es) = cache s /\ next_tok (take_events s es) = next_tok s.
Proof.
  unfold take_events. induction es as [|d r IH]; intros s; cbn [fold_left]; [split; reflexivity|].
  destruct (IH (match g_get (graph s) (dep_of_dentry d) with Some _ => set_to_reload s (dep_add (dep_of_dentry d) (to_reload s)) | None => s end)) as [A B].
  rewrite A, B. destruct (g_get (graph s) (dep_of_dentry d)); split; reflexivity.
Qed.

(* ---- one operation ---- *)
Lemma forget_watchers_still s p : cache (forget_watchers s p) = cache s /\ next_tok (forget_watchers s p) = next_tok s.
Proof. split; reflexivity. Qed.

Theorem step_bal fuel s o : let x := step fuel s o in Bal s (fst (fst x)) [] (snd x) [].
Proof.
  destruct o; cbn [step].
  - pose proof (proj1 (load_f_bal fuel) s t id) as H. destruct (load_entry_f fuel s t id) as [[s1 tr] r]. exact H.
  - pose proof (proj2 (load_f_bal fuel) s t id) as H. destruct (load_owned_f fuel s t id) as [[s1 tr] r].
    cbn [fst snd] in *. destruct r as [[v tok]|e| |]; cbn [outr] in H; try (rewrite app_nil_r; exact H).
    exact (bal_drop_out _ _ _ _ _ _ H).
  - pose proof (get_cached_rec_bal s t id []) as H. destruct (get_cached_rec s t id) as [s1 o]. exact H.
  - pose proof (bal_bump s []) as B. destruct (bump_tok s) as [s1 tok]. cbn [fst snd] in B.
    pose proof (get_cached_rec_bal s1 t id []) as H. destruct (get_cached_rec s1 t id) as [s2 o]. cbn [fst] in H.
    pose proof (bal_out_r _ _ _ _ _ _ _ B H) as B2.
    destruct o as [e|]; cbn [fst snd].
    + exact (bal_drop_out' _ _ _ _ _ _ B2).
    + pose proof (bal_insert s s2 [] [] (t, id) (mark_goi (mk_entry s2 t (VInt z "insert") tok)) [] B2) as I.
      destruct (cache_insert s2 (t, id) (mark_goi (mk_entry s2 t (VInt z "insert") tok))) as [[s3 e'] d]. exact I.
  - apply bal_refl.
  - (* remove *)
    destruct (cache_get s (t, id)) as [e|] eqn:C; cbn [fst snd]; [|apply bal_refl].
    constructor; cbn [next_tok forget_watchers set_watchers set_cache]; [lia| |].
    + intros U. unfold Uniq in *. cbn [cache forget_watchers set_watchers set_cache].
      exact (proj1 (assoc_del_present (cache s) (t, id) e U C)).
    + intros U x Hx. rewrite ind_same. unfold drop_of. rewrite (cnt_drop_of_tok x _ Hx).
      unfold toks. cbn [cache forget_watchers set_watchers set_cache].
      pose proof (proj2 (assoc_del_present (cache s) (t, id) e U C) x) as D. unfold tk in D.
      change (cnt x (drops [])) with 0%nat. change (cnt x []) with 0%nat. lia.
  - (* take *)
    destruct (cache_get s (t, id)) as [e|] eqn:C; cbn [fst snd]; [|apply bal_refl].
    constructor; cbn [next_tok forget_watchers set_watchers set_cache]; [lia| |].
    + intros U. unfold Uniq in *. cbn [cache forget_watchers set_watchers set_cache].
      exact (proj1 (assoc_del_present (cache s) (t, id) e U C)).
    + intros U x Hx. rewrite ind_same. unfold drop_of. rewrite (cnt_drop_of_tok x _ Hx).
      unfold toks. cbn [cache forget_watchers set_watchers set_cache].
      pose proof (proj2 (assoc_del_present (cache s) (t, id) e U C) x) as D. unfold tk in D.
      change (cnt x (drops [])) with 0%nat. change (cnt x []) with 0%nat. lia.
  - (* clear *)
    cbn [fst snd]. constructor.
    + destruct (has_reloader s); cbn; lia.
    + intros _. unfold Uniq. destruct (has_reloader s); cbn; constructor.
    + intros U x Hx. rewrite (cnt_drops_all x _ Hx). unfold toks, tk.
      assert (E : next_tok (if has_reloader s
                            then set_cm (forget_watchers (set_cache s []) (fun _ => true))
                                   (cm (forget_watchers (set_cache s []) (fun _ => true)) ++ [MClear])
                            else forget_watchers (set_cache s []) (fun _ => true)) = next_tok s)
        by (destruct (has_reloader s); reflexivity).
      assert (F : cache (if has_reloader s
                         then set_cm (forget_watchers (set_cache s []) (fun _ => true))
                                (cm (forget_watchers (set_cache s []) (fun _ => true)) ++ [MClear])
                         else forget_watchers (set_cache s []) (fun _ => true)) = [])
        by (destruct (has_reloader s); reflexivity).
      rewrite E, F, ind_same. cbn [map]. change (cnt x (drops [])) with 0%nat. change (cnt x []) with 0%nat. lia.
  - now apply bal_still. - now apply bal_still. - now apply bal_still. - now apply bal_still.
  - now apply bal_still. - now apply bal_still. - now apply bal_still.
  - (* notify *)
    destruct (has_reloader s); [|apply bal_refl].
    assert (S1 : Bal s (take_events (drain s) es) [] [] []).
    { destruct (take_events_still es (drain s)) as [A B]. destruct (drain_still s) as [C D].
      apply bal_still; congruence. }
    destruct (static_mode (take_events (drain s) es)); [|exact S1].
    pose proof (run_pass_bal fuel (take_events (drain s) es) order) as R.
    destruct (run_pass fuel (take_events (drain s) es) order) as [[s2 ok] tr]. cbn [fst snd] in *.
    eapply bal_trans0; [exact S1|exact R].
  - destruct (has_reloader s); [|apply bal_refl].
    assert (S1 : Bal s (drain s) [] [] []) by (destruct (drain_still s); now apply bal_still).
    destruct (static_mode s); [exact S1|].
    pose proof (run_pass_bal fuel (drain s) order) as R.
    destruct (run_pass fuel (drain s) order) as [[s2 ok] tr]. cbn [fst snd] in *.
    eapply bal_trans0; [exact S1|exact R].
  - destruct (has_reloader s && negb (static_mode s)); [|apply bal_refl].
    assert (S1 : Bal s (set_static (drain s) true) [] [] []).
    { destruct (drain_still s). apply bal_still; cbn [cache next_tok set_static]; assumption. }
    pose proof (run_pass_bal fuel (set_static (drain s) true) order) as R.
    destruct (run_pass fuel (set_static (drain s) true) order) as [[s2 ok] tr]. cbn [fst snd] in *.
    eapply bal_trans0; [exact S1|exact R].
  - apply bal_refl.
  - (* poll_global: the entry is rewritten with the same token *)
    destruct (cache_get s (t, id)) as [e|] eqn:C; [|apply bal_refl]. destruct (en_dyn e); [|apply bal_refl].
    cbn [fst snd]. unfold cache_get in C.
    match goal with |- context [cache_set s (t, id) ?E] => destruct (assoc_set_present (cache s) (t, id) E e C) as [A1 A2] end.
    constructor; cbn [next_tok cache_set set_cache]; [lia| |].
    + intros U. unfold Uniq. cbn [cache cache_set set_cache]. now rewrite A1.
    + intros U x Hx. rewrite ind_same. unfold toks. cbn [cache cache_set set_cache].
      specialize (A2 x). unfold tk in A2. cbn [en_tok] in A2.
      change (cnt x (drops [])) with 0%nat. change (cnt x []) with 0%nat. lia.
  - destruct (cache_get s (t, id)); [now apply bal_still|apply bal_refl].
  - destruct (assoc N.eqb w (watchers s)) as [[k last]|]; [|apply bal_refl].
    destruct (cache_get s k); [now apply bal_still|apply bal_refl].
Qed.

(* ---- every history ---- *)
Definition trace_of (res : list (out * list ev)) : list ev := flat_map snd res.

Theorem run_bal : forall ops s, let x := run s ops in Bal s (fst x) [] (trace_of (snd x)) [].
Proof.
  induction ops as [|o r IH]; intros s; cbn [run]; [apply bal_refl|].
  pose proof (step_bal default_fuel s o) as H. destruct (step default_fuel s o) as [[s1 x] tr]. cbn [fst snd] in H.
  specialize (IH s1). destruct (run s1 r) as [s2 rest]. cbn [fst snd trace_of flat_map] in *.
  apply (bal_prefix _ _ tr) in IH. eapply bal_trans0; [exact H|]. exact IH.
Qed.

(* the ledger of a whole history from the empty cache: a token has been handed out (it is below the
   counter) exactly when it is either held by one cache entry or has been dropped, once *)
Theorem ledger_of_every_history reloader ops t : t <> 0 ->
  let x := run (init_st reloader) ops in
  ind 1 (next_tok (fst x)) t = (cnt t (drops (trace_of (snd x))) + cnt t (toks (fst x)))%nat.
Proof.
  intros Ht x. destruct (run_bal ops (init_st reloader)) as [m u e].
  assert (U : Uniq (init_st reloader)) by constructor.
  specialize (e U t Ht). fold x in e.
  change (next_tok (init_st reloader)) with 1 in e. change (cnt t (toks (init_st reloader))) with 0%nat in e.
  change (cnt t (drops [])) with 0%nat in e. change (cnt t []) with 0%nat in e. lia.
Qed.

Lemma ind_le1 a b t : (ind a b t <= 1)%nat. Proof. unfold ind. destruct ((a <=? t) && (t <? b)); lia. Qed.

(* nothing is dropped twice, and nothing that is still cached has been dropped *)
Corollary no_double_drop reloader ops t : t <> 0 ->
  let x := run (init_st reloader) ops in
  (cnt t (drops (trace_of (snd x))) + cnt t (toks (fst x)) <= 1)%nat.
Proof. intros Ht x. unfold x. rewrite <- (ledger_of_every_history reloader ops t Ht). apply ind_le1. Qed.

(* once the cache is empty (cleared, or everything removed): every token ever handed out has been
   dropped exactly once *)
Corollary everything_dropped_once_when_empty reloader ops t :
  let x := run (init_st reloader) ops in
  cache (fst x) = [] -> 1 <= t -> t < next_tok (fst x) -> cnt t (drops (trace_of (snd x))) = 1%nat.
Proof.
  intros x C H1 H2. assert (Ht : t <> 0) by lia.
  pose proof (ledger_of_every_history reloader ops t Ht) as L. fold x in L. unfold toks in L. rewrite C in L.
  cbn in L. unfold ind in L. assert ((1 <=? t) && (t <? next_tok (fst x)) = true) as E.
  { apply andb_true_iff. split; [now apply N.leb_le|now apply N.ltb_lt]. }
  rewrite E in L. change (cnt t []) with 0%nat in L. lia.
Qed.
