(* Reload ids: they move only in a reload pass, by exactly one per successful rewrite; watchers. *)
From Coq Require Import List String NArith ZArith Bool Lia.
From AM Require Import Ref.Load Ref.Sys Proofs.SysGrows Proofs.SysStatic Proofs.SysMap.
Import ListNotations.

Definition is_pass_op (o : op) : bool :=
  match o with ONotify _ _ | OHotReload _ | OEnhance _ => true | _ => false end.

Lemma assoc_set_same (l : list (key * entry)) k v :
  assoc key_eqb k (assoc_set key_eqb k v l) = Some v.
Proof.
  induction l as [|[a b] r IH]; cbn; [now rewrite key_eqb_refl|].
  destruct (key_eqb k a) eqn:E; cbn; [now rewrite key_eqb_refl|]. now rewrite E.
Qed.

(* outside a pass, an entry that is still there afterwards has the same value, token and id *)
Theorem rid_moves_only_in_pass fuel s o k e e' :
  is_pass_op o = false -> cache_get s k = Some e ->
  cache_get (fst (fst (step fuel s o))) k = Some e' -> en_tok e' = en_tok e -> en_rid e' = en_rid e.
Proof.
  intros P H H' _. destruct o; cbn [is_pass_op] in P; try discriminate; cbn [step] in H'.
  - pose proof (proj1 (load_f_grows fuel) s t id) as G.
    destruct (load_entry_f fuel s t id) as [[s1 tr] r]. cbn [fst] in *.
    rewrite (grows_get _ _ _ _ G H) in H'. now inversion H'.
  - pose proof (proj2 (load_f_grows fuel) s t id) as G.
    destruct (load_owned_f fuel s t id) as [[s1 tr] r]. cbn [fst] in *.
    rewrite (grows_get _ _ _ _ G H) in H'. now inversion H'.
  - pose proof (cache_get_cached_rec s t id) as C. destruct (get_cached_rec s t id) as [s1 o].
    cbn [fst] in *. unfold cache_get in *. rewrite C, H in H'. now inversion H'.
  - pose proof (static_never_written fuel s (OGetOrInsert t id z)) as _.
    destruct (bump_tok s) as [s1 tok] eqn:Eb.
    assert (C1 : cache s1 = cache s) by (unfold bump_tok in Eb; inversion Eb; reflexivity).
    pose proof (cache_get_cached_rec s1 t id) as C2. destruct (get_cached_rec s1 t id) as [s2 o].
    cbn [fst] in C2. destruct o as [e0|]; cbn [fst] in H'.
    + unfold cache_get in *. rewrite C2, C1, H in H'. now inversion H'.
    + pose proof (cache_insert_grows s2 (t, id) (mark_goi (mk_entry s2 t (VInt z "insert") tok))) as G.
      destruct (cache_insert s2 (t, id) (mark_goi (mk_entry s2 t (VInt z "insert") tok))) as [[s3 e''] d].
      cbn [fst] in *. assert (H2 : cache_get s2 k = Some e) by (unfold cache_get in *; now rewrite C2, C1).
      rewrite (grows_get _ _ _ _ G H2) in H'. now inversion H'.
  - cbn [fst] in H'. rewrite H in H'. now inversion H'.
  - destruct (cache_get s (t, id)) as [e0|]; cbn [fst] in H'; [|rewrite H in H'; now inversion H'].
    unfold forget_watchers, set_watchers, set_cache, cache_get in *; cbn [cache] in H'.
    destruct (key_eqb k (t, id)) eqn:E.
    + apply key_eqb_eq in E; subst k. now rewrite assoc_del_same in H'.
    + rewrite assoc_del_other in H'; [rewrite H in H'; now inversion H'|].
      intros ->. now rewrite key_eqb_refl in E.
  - destruct (cache_get s (t, id)) as [e0|]; cbn [fst] in H'; [|rewrite H in H'; now inversion H'].
    unfold forget_watchers, set_watchers, set_cache, cache_get in *; cbn [cache] in H'.
    destruct (key_eqb k (t, id)) eqn:E.
    + apply key_eqb_eq in E; subst k. now rewrite assoc_del_same in H'.
    + rewrite assoc_del_other in H'; [rewrite H in H'; now inversion H'|].
      intros ->. now rewrite key_eqb_refl in E.
  - destruct (has_reloader s); cbn in H'; discriminate.
  - unfold cache_get in *; cbn [fst set_src cache] in H'; rewrite H in H'; now inversion H'.
  - unfold cache_get in *; cbn [fst set_src cache] in H'; rewrite H in H'; now inversion H'.
  - unfold cache_get in *; cbn [fst set_src cache] in H'; rewrite H in H'; now inversion H'.
  - unfold cache_get in *; cbn [fst set_src cache] in H'; rewrite H in H'; now inversion H'.
  - unfold cache_get in *; cbn [fst set_src cache] in H'; rewrite H in H'; now inversion H'.
  - unfold cache_get in *; cbn [fst set_src cache] in H'; rewrite H in H'; now inversion H'.
  - unfold cache_get in *; cbn [fst set_src cache] in H'; rewrite H in H'; now inversion H'.
  - unfold cache_get in *; cbn [fst set_src cache] in H'; rewrite H in H'; now inversion H'.
  - (* poll_global *)
    destruct (cache_get s (t, id)) as [e0|] eqn:E0; cbn [fst] in H'; [|rewrite H in H'; now inversion H'].
    destruct (en_dyn e0); cbn [fst] in H'; [|rewrite H in H'; now inversion H'].
    unfold cache_set, set_cache, cache_get in *; cbn [cache] in H'.
    destruct (key_eqb k (t, id)) eqn:E.
    + apply key_eqb_eq in E; subst k. rewrite assoc_set_same in H'. rewrite E0 in H.
      inversion H; inversion H'; subst. reflexivity.
    + rewrite assoc_set_other in H'; [rewrite H in H'; now inversion H'|].
      intros ->. now rewrite key_eqb_refl in E.
  - destruct (cache_get s (t, id)); unfold cache_get in *; cbn [fst set_watchers cache] in H';
      rewrite H in H'; now inversion H'.
  - destruct (assoc N.eqb w (watchers s)) as [[k0 last]|]; cbn [fst] in H'; [|rewrite H in H'; now inversion H'].
    destruct (cache_get s k0); unfold cache_get in *; cbn [fst set_watchers cache] in H';
      rewrite H in H'; now inversion H'.
Qed.

(* one reload of one asset *)
Theorem reload_one_rid fuel s k e :
  cache_get s k = Some e ->
  let s' := fst (reload_one fuel s k) in
  cache_get s' k = Some e \/
  exists e', cache_get s' k = Some e' /\ en_rid e' = N.succ (en_rid e) /\ en_flag e' = true /\
             en_dyn e = true.
Proof.
  intros H. unfold reload_one.
  destruct (g_get (graph s) (DepAsset k)) as [n|]; [|now left].
  destruct (g_typ n) as [t|]; [|now left]. rewrite H.
  destruct (en_dyn e) eqn:D; cbn [negb]; [|now left].
  pose proof (load_wrapped_grows _ _ (proj1 (load_f_grows fuel)) (proj2 (load_f_grows fuel))
                (rec_push s (Some [])) t (snd k)) as G.
  destruct (load_wrapped (load_entry_f fuel) (load_owned_f fuel) (rec_push s (Some [])) t (snd k))
    as [[s1 tr] r]. cbn [fst] in G.
  pose proof (cache_rec_pop s1) as C. destruct (rec_pop s1) as [s2 deps]. cbn [fst] in C.
  assert (G2 : grows s s2) by (eapply grows_trans; [exact G|apply grows_same; exact C]).
  destruct r as [[v tok]|e0| |]; cbn [fst]; cbv zeta; try (left; eapply grows_get; eauto; fail).
  right. eexists. split.
  { unfold cache_get, cache_set, set_graph, set_cache; cbn [cache]. apply assoc_set_same. }
  repeat split; reflexivity.
Qed.

Theorem watcher_poll_spec fuel s w k last e :
  assoc N.eqb w (watchers s) = Some (k, last) -> cache_get s k = Some e ->
  let cur := if en_dyn e then en_rid e else 0%N in
  let r := step fuel s (OPollWatcher w) in
  snd (fst r) = OutBool (N.ltb last cur) /\
  assoc N.eqb w (watchers (fst (fst r))) = Some (k, N.max last cur).
Proof.
  intros W H. cbn [step]. rewrite W, H. cbn [fst snd]. split; [reflexivity|].
  unfold set_watchers; cbn [watchers].
  generalize (watchers s) W. intros l. induction l as [|[a b] r IH]; cbn; [discriminate|].
  destruct (N.eqb w a) eqn:E; cbn; [now rewrite N.eqb_refl|]. rewrite E. exact IH.
Qed.
