(* Facts about the tree specification: listings list exactly the direct children, every listed
   entry is readable / exists under the id it was listed with, directory assets list exactly the
   matching files. *)
From Coq Require Import List String NArith Bool Arith.
From AM Require Import Ref.Tree.
Import ListNotations.

Lemma id_eqb_eq a b : id_eqb a b = true <-> a = b.
Proof.
  revert b; induction a as [|x r IH]; intros [|y s]; cbn; split; intros H; try reflexivity; try discriminate.
  - apply andb_true_iff in H as [H1 H2]. apply String.eqb_eq in H1. apply IH in H2. now subst.
  - inversion H; subst. rewrite String.eqb_refl. now apply IH.
Qed.

Lemma id_eqb_refl a : id_eqb a a = true. Proof. now apply id_eqb_eq. Qed.

Lemma opt_id_eqb_eq o b : opt_id_eqb o b = true <-> o = Some b.
Proof.
  destruct o as [a|]; cbn; [|split; discriminate]. rewrite id_eqb_eq. split; [now intros ->|now inversion 1].
Qed.

(* what read_dir lists: exactly the files and directories whose parent is the directory *)
Theorem listing_is_exactly_the_children t d l :
  spec_read_dir t d = Some l ->
  (forall i x, In (DFile i x) l <-> (exists b, In (i, x, b) (tfiles t)) /\ parent i = Some d) /\
  (forall i, In (DDir i) l <-> In i (tdirs t) /\ parent i = Some d).
Proof.
  unfold spec_read_dir. destruct (is_dir t d); [|discriminate]. intros H. inversion H; subst l. clear H.
  split.
  - intros i x. rewrite in_app_iff. split.
    + intros [H|H].
      * apply in_flat_map in H as ([[j y] b] & Hin & Hj). cbn in Hj.
        destruct (opt_id_eqb (parent j) d) eqn:E; [|contradiction].
        destruct Hj as [Hj|[]]. inversion Hj; subst. split; [eauto|now apply opt_id_eqb_eq].
      * apply in_flat_map in H as (j & _ & Hj). destruct (opt_id_eqb (parent j) d); [|contradiction].
        destruct Hj as [Hj|[]]; discriminate.
    + intros [[b Hb] Hp]. left. apply in_flat_map. exists (i, x, b). split; [exact Hb|]. cbn.
      rewrite (proj2 (opt_id_eqb_eq _ _) Hp). now left.
  - intros i. rewrite in_app_iff. split.
    + intros [H|H].
      * apply in_flat_map in H as ([[j y] b] & _ & Hj). cbn in Hj.
        destruct (opt_id_eqb (parent j) d); [|contradiction]. destruct Hj as [Hj|[]]; discriminate.
      * apply in_flat_map in H as (j & Hin & Hj). destruct (opt_id_eqb (parent j) d) eqn:E; [|contradiction].
        destruct Hj as [Hj|[]]. inversion Hj; subst. split; [exact Hin|now apply opt_id_eqb_eq].
    + intros [Hin Hp]. right. apply in_flat_map. exists i. split; [exact Hin|].
      rewrite (proj2 (opt_id_eqb_eq _ _) Hp). now left.
Qed.

(* every listed entry is readable / exists under the id and extension it was listed with *)
Theorem listed_entries_are_there t d l e :
  spec_read_dir t d = Some l -> In e l -> spec_exists t e = true.
Proof.
  intros H He. destruct (listing_is_exactly_the_children t d l H) as [F D]. destruct e as [i x|i]; cbn.
  - apply F in He as [[b Hb] _]. unfold spec_read.
    destruct (find (fun f => id_eqb (fst (fst f)) i && String.eqb (snd (fst f)) x) (tfiles t)) eqn:E; [reflexivity|].
    exfalso. apply (find_none _ _ E) in Hb. cbn in Hb. now rewrite id_eqb_refl, String.eqb_refl in Hb.
  - apply D in He as [Hin _]. unfold is_dir. apply existsb_exists. exists i. split; [exact Hin|apply id_eqb_refl].
Qed.

(* a directory that exists can be listed (the root included), one that does not cannot *)
Theorem read_dir_iff_directory t d : (exists l, spec_read_dir t d = Some l) <-> is_dir t d = true.
Proof. unfold spec_read_dir. destruct (is_dir t d); split; intros H; eauto; try discriminate. now destruct H. Qed.

(* C11: the ids a directory asset of extension list [exts] holds for [d] *)
Theorem dir_ids_exact t exts d l :
  dir_ids t exts d = Some l ->
  forall i, In i l <-> exists x b, In (i, x, b) (tfiles t) /\ parent i = Some d /\ In x exts.
Proof.
  unfold dir_ids. destruct (spec_read_dir t d) as [w|] eqn:E; [|discriminate].
  intros H. inversion H; subst l. clear H. destruct (listing_is_exactly_the_children t d w E) as [F _].
  intros i. rewrite in_flat_map. split.
  - intros ([j x|j] & Hin & Hi); [|contradiction].
    destruct (existsb (String.eqb x) exts) eqn:Ex; [|contradiction]. destruct Hi as [<-|[]].
    apply F in Hin as [[b Hb] Hp]. apply existsb_exists in Ex as (y & Hy & Exy). apply String.eqb_eq in Exy.
    subst y. eauto 6.
  - intros (x & b & Hb & Hp & Hx). exists (DFile i x). split.
    + apply F. eauto.
    + assert (Ex : existsb (String.eqb x) exts = true) by (apply existsb_exists; exists x; split; [exact Hx|apply String.eqb_refl]).
      rewrite Ex. now left.
Qed.

Theorem missing_directory_is_an_error t exts d : is_dir t d = false -> dir_ids t exts d = None /\ rec_dir_ids t exts d = None.
Proof. intros H. unfold dir_ids, rec_dir_ids, spec_read_dir. now rewrite H. Qed.

From Coq Require Import Lia.

(* ---- the recursive directory asset is the union of the directory assets below it ---- *)
Definition wf_tree (t : tree) : Prop :=
  forall i x b, In (i, x, b) (tfiles t) -> exists p, parent i = Some p /\ is_dir t p = true.

Lemma is_prefix_refl a : is_prefix a a = true.
Proof. induction a as [|x r IH]; cbn; [reflexivity|]. now rewrite String.eqb_refl. Qed.

Lemma is_prefix_app a b : is_prefix a (a ++ b) = true.
Proof. induction a as [|x r IH]; cbn; [reflexivity|]. now rewrite String.eqb_refl. Qed.

Lemma is_prefix_inv a b : is_prefix a b = true -> exists c, b = a ++ c.
Proof.
  revert b. induction a as [|x r IH]; intros b H; [now exists b|].
  destruct b as [|y s]; [discriminate|]. cbn in H. apply andb_true_iff in H as [E H].
  apply String.eqb_eq in E. subst y. destruct (IH s H) as [c ->]. now exists c.
Qed.

Lemma is_prefix_trans a b c : is_prefix a b = true -> is_prefix b c = true -> is_prefix a c = true.
Proof.
  intros H1 H2. apply is_prefix_inv in H1 as [u ->]. apply is_prefix_inv in H2 as [v ->].
  rewrite <- app_assoc. apply is_prefix_app.
Qed.

Lemma removelast_prefix (i : id) : is_prefix (removelast i) i = true.
Proof.
  destruct i as [|x r]; [reflexivity|].
  rewrite (app_removelast_last x (l := x :: r)) at 2 by discriminate. apply is_prefix_app.
Qed.

Lemma prefix_of_removelast (d i : id) :
  is_prefix d i = true -> d <> i -> is_prefix d (removelast i) = true.
Proof.
  intros H N. apply is_prefix_inv in H as [c ->].
  destruct c as [|y s] using rev_ind; [rewrite app_nil_r in N; contradiction|].
  rewrite app_assoc, removelast_last. apply is_prefix_app.
Qed.

Theorem rec_dir_ids_is_the_union t exts d l :
  wf_tree t -> rec_dir_ids t exts d = Some l ->
  forall i, In i l <-> exists d' l', is_prefix d d' = true /\ dir_ids t exts d' = Some l' /\ In i l'.
Proof.
  intros W. unfold rec_dir_ids. destruct (is_dir t d) eqn:Dd; [|discriminate].
  intros H; inversion H; subst l; clear H. intros i. rewrite in_flat_map. split.
  - intros ([[j x] b] & Hin & Hi). cbn [fst snd] in Hi.
    destruct (is_prefix d j) eqn:P; [|contradiction]. destruct (id_eqb d j) eqn:E; [contradiction|].
    cbn [negb andb] in Hi. destruct (existsb (String.eqb x) exts) eqn:Ex; [|contradiction].
    destruct Hi as [<-|[]]. destruct (W _ _ _ Hin) as (p & Hp & Dp).
    assert (Nd : d <> j) by (intros ->; now rewrite id_eqb_refl in E).
    assert (Pp : p = removelast j) by (destruct j; [discriminate|now inversion Hp]).
    apply read_dir_iff_directory in Dp as [w Hw].
    exists p. unfold dir_ids at 1. rewrite Hw. eexists. split; [subst p; now apply prefix_of_removelast|].
    split; [reflexivity|].
    apply (dir_ids_exact t exts p); [unfold dir_ids; now rewrite Hw|].
    apply existsb_exists in Ex as (y & Hy & Exy). apply String.eqb_eq in Exy. subst y. eauto 6.
  - intros (d' & l' & P & Hd & Hin). apply (dir_ids_exact t exts d' l' Hd) in Hin as (x & b & Hf & Hp & Hx).
    exists (i, x, b). split; [exact Hf|]. cbn [fst snd].
    assert (Pi : d' = removelast i /\ i <> []) by (destruct i; [discriminate|split; [now inversion Hp|discriminate]]).
    destruct Pi as [-> Ni].
    assert (P2 : is_prefix d i = true) by (eapply is_prefix_trans; [exact P|apply removelast_prefix]).
    rewrite P2.
    assert (E : id_eqb d i = false).
    { destruct (id_eqb d i) eqn:E; [|reflexivity]. apply id_eqb_eq in E. subst d.
      apply is_prefix_inv in P as [c Hc]. apply (f_equal (@List.length _)) in Hc. rewrite app_length in Hc.
      pose proof (app_removelast_last EmptyString Ni) as Hl. apply (f_equal (@List.length _)) in Hl.
      rewrite app_length in Hl. cbn in Hl. lia. }
    rewrite E. cbn [negb andb].
    assert (Ex : existsb (String.eqb x) exts = true) by (apply existsb_exists; exists x; split; [exact Hx|apply String.eqb_refl]).
    rewrite Ex. now left.
Qed.
