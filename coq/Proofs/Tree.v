(* Facts about the tree specification: listings list exactly the direct children, every listed
   entry is readable / exists under the id it was listed with, directory assets list exactly the
   matching files. *)
From Coq Require Import List String NArith Bool Arith.
From AM Require Import Ref.Tree.
Import ListNotations.

Lemma id_eqb_eq a b : id_eqb a b = true <-> a = b.
Proof.
  revert b; induction a as [|x r IH]; intros [|y s]; cbn; split; intros H; try reflexivity; try discriminate.
  - apply andb_true_iff in H as [H1 H2]. apply String.eqb_eq in H1. apply IH in H2. now subst.
  - inversion H; subst. rewrite String.eqb_refl. now apply IH.
Qed.

Lemma id_eqb_refl a : id_eqb a a = true. Proof. now apply id_eqb_eq. Qed.

Lemma opt_id_eqb_eq o b : opt_id_eqb o b = true <-> o = Some b.
Proof.
  destruct o as [a|]; cbn; [|split; discriminate]. rewrite id_eqb_eq. split; [now intros ->|now inversion 1].
Qed.

(* what read_dir lists: exactly the files and directories whose parent is the directory *)
Theorem listing_is_exactly_the_children t d l :
  spec_read_dir t d = Some l ->
  (forall i x, In (DFile i x) l <-> (exists b, In (i, x, b) (tfiles t)) /\ parent i = Some d) /\
  (forall i, In (DDir i) l <-> In i (tdirs t) /\ parent i = Some d).
Proof.
  unfold spec_read_dir. destruct (is_dir t d); [|discriminate]. intros H. inversion H; subst l. clear H.
  split.
  - intros i x. rewrite in_app_iff. split.
    + intros [H|H].
      * apply in_flat_map in H as ([[j y] b] & Hin & Hj). cbn in Hj.
        destruct (opt_id_eqb (parent j) d) eqn:E; [|contradiction].
        destruct Hj as [Hj|[]]. inversion Hj; subst. split; [eauto|now apply opt_id_eqb_eq].
      * apply in_flat_map in H as (j & _ & Hj). destruct (opt_id_eqb (parent j) d); [|contradiction].
        destruct Hj as [Hj|[]]; discriminate.
    + intros [[b Hb] Hp]. left. apply in_flat_map. exists (i, x, b). split; [exact Hb|]. cbn.
      rewrite (proj2 (opt_id_eqb_eq _ _) Hp). now left.
  - intros i. rewrite in_app_iff. split.
    + intros [H|H].
      * apply in_flat_map in H as ([[j y] b] & _ & Hj). cbn in Hj.
        destruct (opt_id_eqb (parent j) d); [|contradiction]. destruct Hj as [Hj|[]]; discriminate.
      * apply in_flat_map in H as (j & Hin & Hj). destruct (opt_id_eqb (parent j) d) eqn:E; [|contradiction].
        destruct Hj as [Hj|[]]. inversion Hj; subst. split; [exact Hin|now apply opt_id_eqb_eq].
    + intros [Hin Hp]. right. apply in_flat_map. exists i. split; [exact Hin|].
      rewrite (proj2 (opt_id_eqb_eq _ _) Hp). now left.
Qed.

(* every listed entry is readable / exists under the id and extension it was listed with *)
Theorem listed_entries_are_there t d l e :
  spec_read_dir t d = Some l -> In e l -> spec_exists t e = true.
Proof.
  intros H He. destruct (listing_is_exactly_the_children t d l H) as [F D]. destruct e as [i x|i]; cbn.
  - apply F in He as [[b Hb] _]. unfold spec_read.
    destruct (find (fun f => id_eqb (fst (fst f)) i && String.eqb (snd (fst f)) x) (tfiles t)) eqn:E; [reflexivity|].
    exfalso. apply (find_none _ _ E) in Hb. cbn in Hb. now rewrite id_eqb_refl, String.eqb_refl in Hb.
  - apply D in He as [Hin _]. unfold is_dir. apply existsb_exists. exists i. split; [exact Hin|apply id_eqb_refl].
Qed.

(* a directory that exists can be listed (the root included), one that does not cannot *)
Theorem read_dir_iff_directory t d : (exists l, spec_read_dir t d = Some l) <-> is_dir t d = true.
Proof. unfold spec_read_dir. destruct (is_dir t d); split; intros H; eauto; try discriminate. now destruct H. Qed.

(* C11: the ids a directory asset of extension list [exts] holds for [d] *)
Theorem dir_ids_exact t exts d l :
  dir_ids t exts d = Some l ->
  forall i, In i l <-> exists x b, In (i, x, b) (tfiles t) /\ parent i = Some d /\ In x exts.
Proof.
  unfold dir_ids. destruct (spec_read_dir t d) as [w|] eqn:E; [|discriminate].
  intros H. inversion H; subst l. clear H. destruct (listing_is_exactly_the_children t d w E) as [F _].
  intros i. rewrite in_flat_map. split.
  - intros ([j x|j] & Hin & Hi); [|contradiction].
    destruct (existsb (String.eqb x) exts) eqn:Ex; [|contradiction]. destruct Hi as [<-|[]].
    apply F in Hin as [[b Hb] Hp]. apply existsb_exists in Ex as (y & Hy & Exy). apply String.eqb_eq in Exy.
    subst y. eauto 6.
  - intros (x & b & Hb & Hp & Hx). exists (DFile i x). split.
    + apply F. eauto.
    + assert (Ex : existsb (String.eqb x) exts = true) by (apply existsb_exists; exists x; split; [exact Hx|apply String.eqb_refl]).
      rewrite Ex. now left.
Qed.

Theorem missing_directory_is_an_error t exts d : is_dir t d = false -> dir_ids t exts d = None /\ rec_dir_ids t exts d = None.
Proof. intros H. unfold dir_ids, rec_dir_ids, spec_read_dir. now rewrite H. Qed.
