(* The recording cell below its top: nothing that happens during a load touches the records
   underneath the current one, and a None on top (no_record, helper thread) stays None.  Hence a
   push ... pop pair gives back EXACTLY the stack it started from. *)
From Coq Require Import List String NArith ZArith Bool Lia.
From AM Require Import Ref.Load Ref.Sys.
Import ListNotations.

Definition is_some {A} (o : option A) : bool := match o with Some _ => true | None => false end.

Definition under (s s' : st) : Prop :=
  has_reloader s' = has_reloader s /\
  match recs s, recs s' with
  | [], [] => True
  | h :: t, h' :: t' => t' = t /\ is_some h' = is_some h /\ (h = None -> h' = None)
  | _, _ => False
  end.

Lemma quiet_refl s : under s s.
Proof. split; [reflexivity|]. destruct (recs s); auto. Qed.

Lemma quiet_trans a b c : under a b -> under b c -> under a c.
Proof.
  intros [r1 H1] [r2 H2]. split; [congruence|].
  destruct (recs a) as [|ha ta], (recs b) as [|hb tb], (recs c) as [|hc tc]; try tauto.
  destruct H1 as (T1 & S1 & N1), H2 as (T2 & S2 & N2). repeat split; try congruence. auto.
Qed.

Lemma under_same s s' : recs s' = recs s -> has_reloader s' = has_reloader s -> under s s'.
Proof. intros E R. split; [exact R|]. rewrite E. destruct (recs s); auto. Qed.

Lemma quiet_set_src s x : under s (set_src s x). Proof. now apply under_same. Qed.
Lemma quiet_set_cache s x : under s (set_cache s x). Proof. now apply under_same. Qed.
Lemma quiet_bump s : under s (fst (bump_tok s)). Proof. now apply under_same. Qed.
Lemma quiet_rec_add s d : under s (rec_add s d).
Proof.
  unfold rec_add. destruct (has_reloader s) eqn:R; [|apply quiet_refl].
  destruct (recs s) as [|[l|] r] eqn:E; try apply quiet_refl.
  split; [reflexivity|]. cbn. rewrite E. repeat split. discriminate.
Qed.

Lemma quiet_cache_read s id ext : under s (fst (fst (cache_read s id ext))).
Proof.
  unfold cache_read. destruct (src_read (src (rec_add s (DepFile id ext))) id ext) as [[sr rd] e].
  cbn [fst]. eapply quiet_trans; [apply quiet_rec_add|apply quiet_set_src].
Qed.

Lemma quiet_cache_read_dir s id : under s (fst (fst (cache_read_dir s id))).
Proof.
  unfold cache_read_dir. destruct (src_read_dir (src (rec_add s (DepDir id))) id) as [[sr rd] e].
  cbn [fst]. eapply quiet_trans; [apply quiet_rec_add|apply quiet_set_src].
Qed.

Lemma quiet_get_cached_rec s t id : under s (fst (get_cached_rec s t id)).
Proof. unfold get_cached_rec. destruct (hot_reloaded t); cbn [fst]; [apply quiet_rec_add|apply quiet_refl]. Qed.

Lemma quiet_cache_insert s k e : under s (fst (fst (cache_insert s k e))).
Proof. unfold cache_insert. destruct (cache_get s k); cbn [fst]; [apply quiet_refl|apply quiet_set_cache]. Qed.

(* push ... pop gives the stack back, exactly *)
Lemma push_pop_exact s o s1 :
  under (rec_push s o) s1 -> recs (fst (rec_pop s1)) = recs s /\ has_reloader (fst (rec_pop s1)) = has_reloader s.
Proof.
  intros [R H]. cbn in H, R. unfold rec_pop. destruct (recs s1) as [|x rest]; [contradiction|].
  destruct H as (T & _ & _). destruct x; cbn; auto.
Qed.

Lemma quiet_push_pop s o s1 : under (rec_push s o) s1 -> under s (fst (rec_pop s1)).
Proof.
  intros H. destruct (push_pop_exact s o s1 H) as [E R]. split; [exact R|]. rewrite E.
  destruct (recs s); auto.
Qed.

Lemma int_attempts_quiet : forall es s t id acc tr, under s (fst (fst (int_attempts s t id es acc tr))).
Proof.
  induction es as [|e r IH]; intros s t id acc tr; cbn [int_attempts]; [apply quiet_refl|].
  pose proof (quiet_cache_read s id e) as Q.
  destruct (cache_read s id e) as [[s1 rd] evr]. cbn [fst] in Q.
  destruct rd as [k|c].
  - apply (quiet_trans _ _ _ Q). apply IH.
  - apply (quiet_trans _ _ _ Q).
    destruct t, c; try apply IH; try (destruct (parse_int b); [cbn [fst]; apply quiet_bump|apply IH]);
      cbn [fst]; apply quiet_bump.
Qed.

Lemma load_asset_value_quiet s t id : under s (fst (fst (load_asset_value s t id))).
Proof.
  unfold load_asset_value.
  pose proof (int_attempts_quiet (exts t) s t id ENoDefault []) as Q.
  destruct (int_attempts s t id (exts t) ENoDefault []) as [[s1 tr] r]. cbn [fst] in Q.
  destruct r as [e|vt]; [|exact Q].
  destruct t; cbn [fst]; first [exact Q | eapply quiet_trans; [exact Q|apply quiet_bump]].
Qed.

Section Eval.
  Variable load_entry_rec : st -> ty -> string -> st * list ev * res entry.
  Variable load_owned_rec : st -> ty -> string -> st * list ev * res (value * N).
  Hypothesis Hent : forall s t id, under s (fst (fst (load_entry_rec s t id))).
  Hypothesis Hown : forall s t id, under s (fst (fst (load_owned_rec s t id))).

  Notation run_line := (run_line load_entry_rec load_owned_rec).
  Notation run_lines := (run_lines load_entry_rec load_owned_rec).

  Lemma run_line_quiet : forall l s, under s (fst (fst (run_line s l))).
  Proof.
    induction l as [z|t id|t id|t id|l IH|l IH|id ext|id|id z|l IH|l IH| |]; intros s; cbn [Sys.run_line].
    - apply quiet_refl.
    - destruct (is_loadable t); cbn [negb fst]; [|apply quiet_refl].
      pose proof (Hent s t id) as G. destruct (load_entry_rec s t id) as [[s1 tr] r]. exact G.
    - pose proof (quiet_get_cached_rec s t id) as C. destruct (get_cached_rec s t id) as [s1 o]. exact C.
    - destruct (is_loadable t); cbn [negb fst]; [|apply quiet_refl].
      pose proof (Hown s t id) as G. destruct (load_owned_rec s t id) as [[s1 tr] r].
      destruct r as [[v tok]|e| |]; exact G.
    - specialize (IH (rec_push s None)). destruct (run_line (rec_push s None) l) as [[s1 tr] r].
      cbn [fst] in *. eapply quiet_push_pop; exact IH.
    - specialize (IH s). destruct (run_line s l) as [[s1 tr] r]. exact IH.
    - pose proof (quiet_cache_read s id ext) as C. destruct (cache_read s id ext) as [[s1 rd] e]. exact C.
    - pose proof (quiet_cache_read_dir s id) as C. destruct (cache_read_dir s id) as [[s1 rd] e]. exact C.
    - destruct (bump_tok s) as [s1 tok] eqn:Eb.
      assert (C : under s s1) by (replace s1 with (fst (bump_tok s)) by (now rewrite Eb); apply quiet_bump).
      destruct (cache_get s1 (TV, id)) eqn:E; cbn [fst]; [exact C|].
      pose proof (quiet_cache_insert s1 (TV, id) (mark_goi (mk_entry s1 TV (VInt z "insert") tok))) as G.
      destruct (cache_insert s1 (TV, id) (mark_goi (mk_entry s1 TV (VInt z "insert") tok))) as [[s2 e'] d].
      cbn [fst] in *. eapply quiet_trans; eauto.
    - specialize (IH (rec_push s None)). destruct (run_line (rec_push s None) l) as [[s1 tr] r].
      cbn [fst] in *. eapply quiet_push_pop; exact IH.
    - specialize (IH s). destruct (run_line s l) as [[s1 tr] r]. exact IH.
    - apply quiet_refl.
    - apply quiet_refl.
  Qed.

  Lemma run_lines_quiet : forall ls s sum tr, under s (fst (fst (run_lines s ls sum tr))).
  Proof.
    induction ls as [|l r IH]; intros s sum tr; cbn [Sys.run_lines]; [apply quiet_refl|].
    pose proof (run_line_quiet l s) as G. destruct (run_line s l) as [[s1 tr1] x].
    destruct x; cbn [fst] in *; try exact G. eapply quiet_trans; [exact G|apply IH].
  Qed.

  Lemma load_node_value_quiet s t id :
    under s (fst (fst (load_node_value load_entry_rec load_owned_rec s t id))).
  Proof.
    unfold load_node_value.
    pose proof (quiet_cache_read s id "n") as C. destruct (cache_read s id "n") as [[s1 rd] e].
    cbn [fst] in C. destruct rd as [k|[b|n ls]]; cbn [fst]; try exact C.
    pose proof (run_lines_quiet ls s1 0%Z [e]) as G.
    destruct (run_lines s1 ls 0%Z [e]) as [[s2 tr] r]. cbn [fst] in G.
    assert (G' : under s s2) by (eapply quiet_trans; eauto).
    destruct r; cbn [fst]; first [exact G' | eapply quiet_trans; [exact G'|apply quiet_bump]].
  Qed.

  Lemma load_dir_value_quiet s id : under s (fst (fst (load_dir_value s id))).
  Proof.
    unfold load_dir_value.
    pose proof (quiet_cache_read_dir s id) as C. destruct (cache_read_dir s id) as [[s1 rd] e].
    cbn [fst] in C. destruct rd; cbn [fst]; exact C.
  Qed.

  Lemma rdir_go_quiet : forall ds s ids tr, under s (fst (fst (rdir_go load_entry_rec s ds ids tr))).
  Proof.
    induction ds as [|d r IH]; intros s ids tr; cbn [rdir_go]; [apply quiet_refl|].
    pose proof (Hent s TRI d) as G. destruct (load_entry_rec s TRI d) as [[s' tr'] x].
    cbn [fst] in G. destruct x as [child|e| |]; cbn [fst]; try exact G.
    - eapply quiet_trans; [exact G|apply IH].
    - eapply quiet_trans; [exact G|apply IH].
  Qed.

  Lemma load_rec_dir_value_quiet s id :
    under s (fst (fst (load_rec_dir_value load_entry_rec s id))).
  Proof.
    unfold load_rec_dir_value.
    pose proof (Hent s TDI id) as G1. destruct (load_entry_rec s TDI id) as [[s1 tr1] r1].
    cbn [fst] in G1. destruct r1 as [this|e| |]; cbn [fst]; try exact G1.
    pose proof (quiet_cache_read_dir s1 id) as C. destruct (cache_read_dir s1 id) as [[s2 rd] e].
    cbn [fst] in C. destruct rd as [k|l]; cbn [fst]; [eapply quiet_trans; eauto|].
    assert (G2 : under s s2) by (eapply quiet_trans; eauto).
    match goal with |- context [rdir_go load_entry_rec s2 ?ds ?ids ?tr] =>
      pose proof (rdir_go_quiet ds s2 ids tr) as G3;
      destruct (rdir_go load_entry_rec s2 ds ids tr) as [[s3 tr3] x] end.
    cbn [fst] in *. eapply quiet_trans; eauto.
  Qed.

  Lemma load_value_quiet s t id :
    under s (fst (fst (load_value load_entry_rec load_owned_rec s t id))).
  Proof.
    unfold load_value. destruct t; try apply load_asset_value_quiet;
      try apply load_node_value_quiet; try apply load_dir_value_quiet;
      try apply load_rec_dir_value_quiet; apply quiet_refl.
  Qed.

  Lemma load_wrapped_quiet s t id :
    under s (fst (fst (load_wrapped load_entry_rec load_owned_rec s t id))).
  Proof.
    unfold load_wrapped. pose proof (load_value_quiet s t id) as G.
    destruct (load_value load_entry_rec load_owned_rec s t id) as [[s1 tr] r]. exact G.
  Qed.

  Lemma load_and_record_quiet s t id :
    under s (fst (fst (load_and_record load_entry_rec load_owned_rec s t id))).
  Proof.
    unfold load_and_record. destruct (hot_reloaded t && has_reloader s); [|apply load_wrapped_quiet].
    pose proof (load_wrapped_quiet (rec_push s (Some [])) t id) as G.
    destruct (load_wrapped load_entry_rec load_owned_rec (rec_push s (Some [])) t id) as [[s1 tr] r].
    cbn [fst] in G. pose proof (quiet_push_pop s (Some []) s1 G) as P.
    destruct (rec_pop s1) as [s2 deps]. cbn [fst] in *.
    destruct r; exact P.
  Qed.

  Lemma load_entry_quiet s t id :
    under s (fst (fst (load_entry load_entry_rec load_owned_rec s t id))).
  Proof.
    unfold load_entry. pose proof (quiet_get_cached_rec s t id) as C.
    destruct (get_cached_rec s t id) as [s0 o]. cbn [fst] in C.
    destruct o as [e|]; cbn [fst]; [exact C|].
    pose proof (load_and_record_quiet s0 t id) as G.
    destruct (load_and_record load_entry_rec load_owned_rec s0 t id) as [[s1 tr] r]. cbn [fst] in G.
    assert (G1 : under s s1) by (eapply quiet_trans; eauto).
    destruct r as [[v tok]|e| |]; cbn [fst]; try exact G1.
    pose proof (quiet_cache_insert s1 (t, id) (mk_entry s1 t v tok)) as G2.
    destruct (cache_insert s1 (t, id) (mk_entry s1 t v tok)) as [[s2 e'] d]. cbn [fst] in *.
    eapply quiet_trans; eauto.
  Qed.

  Lemma load_owned_quiet s t id :
    under s (fst (fst (load_owned load_entry_rec load_owned_rec s t id))).
  Proof.
    unfold load_owned. eapply quiet_trans; [|apply load_and_record_quiet].
    destruct (hot_reloaded t); [apply quiet_rec_add|apply quiet_refl].
  Qed.
End Eval.

Lemma load_f_under : forall fuel,
  (forall s t id, under s (fst (fst (load_entry_f fuel s t id)))) /\
  (forall s t id, under s (fst (fst (load_owned_f fuel s t id)))).
Proof.
  induction fuel as [|f [IHe IHo]]; split; intros s t id; cbn [load_entry_f load_owned_f];
    try apply quiet_refl.
  - now apply load_entry_quiet.
  - now apply load_owned_quiet.
Qed.

(* C14: at top level (no record active) a load leaves the cell empty *)
Theorem load_at_top_level_leaves_no_record fuel s t id :
  recs s = [] -> recs (fst (fst (load_entry_f fuel s t id))) = [].
Proof.
  intros H. destruct (proj1 (load_f_under fuel) s t id) as [_ U]. rewrite H in U.
  destruct (recs (fst (fst (load_entry_f fuel s t id)))); [reflexivity|contradiction].
Qed.

(* C14: whatever runs under no_record (or on a helper thread) leaves the enclosing records exactly
   as they were: nothing is attributed to the asset being loaded *)
Theorem no_record_records_nothing fuel s l :
  let r := run_line (load_entry_f fuel) (load_owned_f fuel) s (LNoRec l) in
  recs (fst (fst r)) = recs s.
Proof.
  cbn [run_line].
  pose proof (run_line_quiet _ _ (proj1 (load_f_under fuel)) (proj2 (load_f_under fuel)) l (rec_push s None)) as U.
  destruct (run_line (load_entry_f fuel) (load_owned_f fuel) (rec_push s None) l) as [[s1 tr] r].
  cbn [fst] in *. now destruct (push_pop_exact s None s1 U).
Qed.

Theorem helper_thread_records_nothing fuel s l :
  let r := run_line (load_entry_f fuel) (load_owned_f fuel) s (LThread l) in
  recs (fst (fst r)) = recs s.
Proof.
  cbn [run_line].
  pose proof (run_line_quiet _ _ (proj1 (load_f_under fuel)) (proj2 (load_f_under fuel)) l (rec_push s None)) as U.
  destruct (run_line (load_entry_f fuel) (load_owned_f fuel) (rec_push s None) l) as [[s1 tr] r].
  cbn [fst] in *. now destruct (push_pop_exact s None s1 U).
Qed.

(* C14: the nested load of a reloadable asset (cache with a reloader) leaves in the enclosing
   record ONLY the asset itself: what it reads goes to its own record *)
Theorem nested_reloadable_load_records_only_the_asset fuel s t id :
  hot_reloaded t = true -> has_reloader s = true ->
  recs (fst (fst (load_entry_f (S fuel) s t id))) = recs (rec_add s (DepAsset (t, id))).
Proof.
  intros Hh Hr. cbn [load_entry_f]. unfold load_entry, get_cached_rec. rewrite Hh.
  set (s0 := rec_add s (DepAsset (t, id))).
  assert (R0 : has_reloader s0 = true).
  { unfold s0, rec_add. rewrite Hr. destruct (recs s) as [|[?|] ?]; exact Hr. }
  destruct (cache_get s0 (t, id)); cbn [fst]; [reflexivity|].
  unfold load_and_record. rewrite Hh, R0. cbn [andb].
  pose proof (load_wrapped_quiet _ _ (proj1 (load_f_under fuel)) (proj2 (load_f_under fuel))
                (rec_push s0 (Some [])) t id) as U.
  destruct (load_wrapped (load_entry_f fuel) (load_owned_f fuel) (rec_push s0 (Some [])) t id) as [[s1 tr] r].
  cbn [fst] in U. destruct (push_pop_exact s0 (Some []) s1 U) as [E _].
  destruct (rec_pop s1) as [s2 deps]. cbn [fst] in E.
  destruct r as [[v tok]|e| |]; cbn [fst]; try exact E.
  unfold cache_insert. destruct (cache_get _ _); cbn; exact E.
Qed.
