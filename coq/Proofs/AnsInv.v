From Coq Require Import List Bool Arith Lia.
Import ListNotations.

Inductive cpc := C0 | C1 (t:nat) | C2 (t:nat) | C3 (t:nat) | Cw (t:nat) | Cwk (t:nat)
               | C4 (t:nat) | C4n (t:nat) | C5 (t:nat) | CDone.
Inductive rpc := R0 | R1 (t:nat) | R2 (t:nat) | R3 (t:nat) | Rw (t:nat) | Rwk (t:nat)
               | R4 (t:nat) | R5 (t:nat) | R6 (t:nat).
Record st := { slot : option nat; mtx : bool; next_tok : nat; chan : list nat;
               cs : nat -> cpc; rl : rpc }.

Definition wake_c (c : cpc) := match c with Cw t => Cwk t | c => c end.
Definition wake_r (r : rpc) := match r with Rw t => Rwk t | r => r end.
Definition updf (f : nat -> cpc) i c := fun j => if Nat.eqb j i then c else f j.

(* fixed protocol: the consumer notifies (pc C4n) *)
Inductive cstep (i : nat) : st -> st -> Prop :=
| s_C0 s : cs s i = C0 ->
    cstep i s {| slot := slot s; mtx := mtx s; next_tok := S (next_tok s); chan := chan s;
                 cs := updf (cs s) i (C1 (next_tok s)); rl := rl s |}
| s_C1 s t : cs s i = C1 t ->
    cstep i s {| slot := slot s; mtx := mtx s; next_tok := next_tok s; chan := chan s ++ [t];
                 cs := updf (cs s) i (C2 t); rl := rl s |}
| s_C2 s t : (cs s i = C2 t \/ cs s i = Cwk t) -> mtx s = false ->
    cstep i s {| slot := slot s; mtx := true; next_tok := next_tok s; chan := chan s;
                 cs := updf (cs s) i (C3 t); rl := rl s |}
| s_C3y s t : cs s i = C3 t -> slot s = Some t ->
    cstep i s {| slot := slot s; mtx := mtx s; next_tok := next_tok s; chan := chan s;
                 cs := updf (cs s) i (C4 t); rl := rl s |}
| s_C3n s t : cs s i = C3 t -> slot s <> Some t ->
    cstep i s {| slot := slot s; mtx := false; next_tok := next_tok s; chan := chan s;
                 cs := updf (cs s) i (Cw t); rl := rl s |}
| s_C4 s t : cs s i = C4 t ->
    cstep i s {| slot := None; mtx := mtx s; next_tok := next_tok s; chan := chan s;
                 cs := updf (cs s) i (C4n t); rl := rl s |}
| s_C4n s t : cs s i = C4n t ->
    cstep i s {| slot := slot s; mtx := mtx s; next_tok := next_tok s; chan := chan s;
                 cs := fun j => wake_c (updf (cs s) i (C5 t) j); rl := wake_r (rl s) |}
| s_C5 s t : cs s i = C5 t ->
    cstep i s {| slot := slot s; mtx := false; next_tok := next_tok s; chan := chan s;
                 cs := updf (cs s) i CDone; rl := rl s |}.

Inductive rstep : st -> st -> Prop :=
| s_R0 s t r : rl s = R0 -> chan s = t :: r ->
    rstep s {| slot := slot s; mtx := mtx s; next_tok := next_tok s; chan := r; cs := cs s; rl := R1 t |}
| s_R1 s t : rl s = R1 t ->
    rstep s {| slot := slot s; mtx := mtx s; next_tok := next_tok s; chan := chan s; cs := cs s; rl := R2 t |}
| s_R2 s t : (rl s = R2 t \/ rl s = Rwk t) -> mtx s = false ->
    rstep s {| slot := slot s; mtx := true; next_tok := next_tok s; chan := chan s; cs := cs s; rl := R3 t |}
| s_R3y s t : rl s = R3 t -> slot s = None ->
    rstep s {| slot := slot s; mtx := mtx s; next_tok := next_tok s; chan := chan s; cs := cs s; rl := R4 t |}
| s_R3n s t : rl s = R3 t -> slot s <> None ->
    rstep s {| slot := slot s; mtx := false; next_tok := next_tok s; chan := chan s; cs := cs s; rl := Rw t |}
| s_R4 s t : rl s = R4 t ->
    rstep s {| slot := Some t; mtx := mtx s; next_tok := next_tok s; chan := chan s; cs := cs s; rl := R5 t |}
| s_R5 s t : rl s = R5 t ->
    rstep s {| slot := slot s; mtx := mtx s; next_tok := next_tok s; chan := chan s;
               cs := fun j => wake_c (cs s j); rl := R6 t |}
| s_R6 s t : rl s = R6 t ->
    rstep s {| slot := slot s; mtx := false; next_tok := next_tok s; chan := chan s; cs := cs s; rl := R0 |}.

Inductive step : st -> st -> Prop :=
| st_c i s s' : cstep i s s' -> step s s'
| st_r s s' : rstep s s' -> step s s'.

(* ---------- invariant ---------- *)
Definition tok (c : cpc) : option nat := match c with
  | C0 | CDone => None | C1 t | C2 t | C3 t | Cw t | Cwk t | C4 t | C4n t | C5 t => Some t end.
Definition holds_c (c : cpc) := match c with C3 _ | C4 _ | C4n _ | C5 _ => True | _ => False end.
Definition holds_r (r : rpc) := match r with R3 _ | R4 _ | R5 _ | R6 _ => True | _ => False end.
(* caller has sent its token and not yet consumed the answer *)
Definition pend_c (c : cpc) (t : nat) := c = C2 t \/ c = C3 t \/ c = Cw t \/ c = Cwk t \/ c = C4 t.
(* before the test succeeded *)
Definition wait_c (c : cpc) (t : nat) := c = C2 t \/ c = C3 t \/ c = Cw t \/ c = Cwk t.
Definition rpend (r : rpc) : list nat := match r with
  | R1 t | R2 t | R3 t | Rw t | Rwk t | R4 t => [t] | _ => [] end.
Definition slot_l (o : option nat) : list nat := match o with Some t => [t] | None => [] end.

Record Inv (s : st) : Prop := {
  i_mtx_t : mtx s = true -> (exists i, holds_c (cs s i)) \/ holds_r (rl s);
  i_mtx_f : mtx s = false -> (forall i, ~ holds_c (cs s i)) /\ ~ holds_r (rl s);
  i_one_c : forall i j, holds_c (cs s i) -> holds_c (cs s j) -> i = j;
  i_one_r : holds_r (rl s) -> forall i, ~ holds_c (cs s i);
  i_c4    : forall i t, cs s i = C4 t -> slot s = Some t;
  i_cw    : forall i t, cs s i = Cw t -> slot s <> Some t \/ rl s = R5 t;
  i_rw    : forall t, rl s = Rw t -> slot s <> None \/ exists i t', cs s i = C4n t';
  i_slot  : forall t, slot s = Some t -> exists i, pend_c (cs s i) t;
  i_where : forall i t, wait_c (cs s i) t -> In t (chan s) \/ In t (rpend (rl s)) \/ slot s = Some t;
  i_r4    : forall t, rl s = R4 t -> slot s = None;
  i_r56   : forall t, (rl s = R5 t \/ rl s = R6 t) -> slot s = Some t;
  i_pipe  : forall t, In t (chan s ++ rpend (rl s)) -> exists i, wait_c (cs s i) t;
  i_nodup : NoDup (chan s ++ rpend (rl s) ++ slot_l (slot s));
  i_uniq  : forall i j t, tok (cs s i) = Some t -> tok (cs s j) = Some t -> i = j;
  i_lt    : forall i t, tok (cs s i) = Some t -> t < next_tok s;
  i_c1    : forall i t, cs s i = C1 t -> ~ In t (chan s ++ rpend (rl s) ++ slot_l (slot s));
}.

Definition init : st := {| slot := None; mtx := false; next_tok := 0; chan := []; cs := fun _ => C0; rl := R0 |}.

Lemma inv_init : Inv init.
Proof. constructor; cbn; try (intros; discriminate); try (intros; contradiction); try tauto; try constructor.
  all: try (intros; destruct H as [|[|[|]]]; discriminate).
  all: try (intros ? [|]; discriminate). Qed.
