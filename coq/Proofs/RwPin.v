(* The reload id next to the value: [IncReload] bumps a counter.  While any thread holds the read
   lock (an AssetReadGuard is alive) neither the value nor the reload id moves, whatever the other
   threads do -- for every set of scripts accepted by the discipline checker [wf]. *)
From AM Require Import Ref.RwCell Proofs.RwProof Proofs.RwStep.
From Coq Require Import List Bool Arith Lia.
Import ListNotations.

Definition next_is_inc (c : config) (t : nat) : bool :=
  match wprog (th c t), rprog (th c t), todo (th c t) with
  | None, None, IncReload :: _ => true
  | _, _, _ => false
  end.

(* configuration + reload id *)
Definition step2 (t : nat) (cr : config * nat) : option (config * nat) :=
  match step t (fst cr) with
  | Some c' => Some (c', if next_is_inc (fst cr) t then S (snd cr) else snd cr)
  | None => None
  end.

Fixpoint run2 (sched : list nat) (cr : config * nat) : config * nat :=
  match sched with
  | [] => cr
  | t :: r => match step2 t cr with Some cr' => run2 r cr' | None => run2 r cr end
  end.

Lemma run2_fst sched : forall cr, fst (run2 sched cr) = run sched (fst cr).
Proof.
  induction sched as [|t r IH]; intros [c n]; cbn; [reflexivity|].
  unfold step2; cbn. destruct (step t c); cbn; apply IH.
Qed.

(* memory only moves in a word-transfer step of a thread that is writing *)
Lemma mem_change_needs_wprog t c c' :
  step t c = Some c' -> mem c' <> mem c -> exists i v, wprog (th c t) = Some (i, v).
Proof.
  unfold step. intros S Hne.
  destruct (wprog (th c t)) as [[i v]|]; [eauto|]. exfalso.
  destruct (rprog (th c t)) as [[i a]|].
  { destruct (Nat.ltb i (K c)); inversion S; subst; now apply Hne. }
  destruct (todo (th c t)) as [|a k]; [discriminate|].
  destruct a; try (inversion S; subst; now apply Hne).
  - destruct (wr c); [discriminate|]. inversion S; subst; now apply Hne.
  - destruct (wr c); [discriminate|]. destruct (rset c); [|discriminate]. inversion S; subst; now apply Hne.
Qed.

(* value and reload id change only by a thread inside a write critical section *)
Theorem change_needs_write_lock c n u c' n' :
  Inv c -> step2 u (c, n) = Some (c', n') -> (mem c' <> mem c \/ n' <> n) -> hw (th c u) = true.
Proof.
  intros I S Hch. unfold step2 in S; cbn in S.
  destruct (step u c) as [c1|] eqn:E; [|discriminate]. inversion S; subst c1 n'; clear S.
  destruct Hch as [Hm|Hn].
  - destruct (mem_change_needs_wprog _ _ _ E Hm) as (i & v & Hw). eapply wprog_needs_hw; eauto.
  - unfold next_is_inc in Hn.
    destruct (wprog (th c u)); [congruence|]. destruct (rprog (th c u)); [congruence|].
    destruct (todo (th c u)) as [|a k] eqn:Ht; [congruence|]. destruct a; try congruence.
    pose proof (v_wf c I u) as W. rewrite Ht in W. cbn in W. now apply andb_true_iff in W.
Qed.

Theorem pinned_step c n t u c' n' :
  Inv c -> hr (th c t) = true -> step2 u (c, n) = Some (c', n') -> mem c' = mem c /\ n' = n.
Proof.
  intros I Hr S.
  assert (D : {mem c' = mem c} + {mem c' <> mem c}) by (apply list_eq_dec, Nat.eq_dec).
  destruct D as [Em|Nm]; [|exfalso].
  - destruct (Nat.eq_dec n' n) as [En|Nn]; [auto|exfalso].
    eapply no_writer_while_reading; eauto. eapply change_needs_write_lock; eauto.
  - eapply no_writer_while_reading; eauto. eapply change_needs_write_lock; eauto.
Qed.

(* [t] keeps its read lock along the whole schedule *)
Fixpoint holds_read_along (t : nat) (sched : list nat) (cr : config * nat) : Prop :=
  hr (th (fst cr) t) = true /\
  match sched with
  | [] => True
  | u :: r => match step2 u cr with
              | Some cr' => holds_read_along t r cr'
              | None => holds_read_along t r cr
              end
  end.

Theorem guard_pins_value_and_id t sched : forall c n,
  Inv c -> holds_read_along t sched (c, n) ->
  mem (fst (run2 sched (c, n))) = mem c /\ snd (run2 sched (c, n)) = n.
Proof.
  induction sched as [|u r IH]; intros c n I H; cbn; [auto|].
  destruct H as [Hr H]. cbn in H.
  destruct (step2 u (c, n)) as [[c1 n1]|] eqn:E.
  - destruct (pinned_step c n t u c1 n1 I Hr E) as [Em En].
    assert (I1 : Inv c1).
    { unfold step2 in E; cbn in E. destruct (step u c) eqn:E2; [|discriminate].
      inversion E; subst. eapply inv_step; eauto. }
    destruct (IH c1 n1 I1 H) as [A B]. split; congruence.
  - now apply IH.
Qed.

(* Instantiated on initial configurations: any scripts accepted by [wf], any number of threads,
   any schedule prefix [pre] followed by a segment [seg] during which [t] holds its guard. *)
Theorem guard_pins m scripts pre seg t n0 :
  uniform m -> (forall u, wf false false (scripts u) = true) ->
  let cr := run2 pre (init m scripts, n0) in
  holds_read_along t seg cr ->
  mem (fst (run2 seg cr)) = mem (fst cr) /\ snd (run2 seg cr) = snd cr.
Proof.
  intros Hm Hwf cr H.
  assert (I : Inv (fst cr)).
  { unfold cr. rewrite run2_fst. apply inv_all_schedules. now apply inv_init. }
  destruct cr as [c n]. now apply (guard_pins_value_and_id t).
Qed.

(* non-vacuity: a reader holding its guard across a concurrent (blocked) writer *)
Definition demo_scripts (t : nat) : script :=
  match t with
  | 0 => [AcqW; SwapWords 7; IncReload; Other; RelW]
  | 1 => [AcqR; ReadWords; ReadWords; RelR]
  | _ => []
  end.

Definition demo_seg : list nat := [0; 0; 1; 1; 1; 1; 0; 1; 1; 1; 1].
Definition demo_rest : list nat := [1; 0; 0; 0; 0; 0; 0; 0; 0].

Example guard_pins_nonvacuous :
  let cr := run2 [1] (init [0; 0] demo_scripts, 0) in
  holds_read_along 1 demo_seg cr /\
  results (th (fst (run2 ([1] ++ demo_seg ++ demo_rest) (init [0; 0] demo_scripts, 0))) 1)
    = [[0; 0]; [0; 0]] /\
  mem (fst (run2 ([1] ++ demo_seg ++ demo_rest) (init [0; 0] demo_scripts, 0))) = [7; 7] /\
  snd (run2 ([1] ++ demo_seg ++ demo_rest) (init [0; 0] demo_scripts, 0)) = 1.
Proof. vm_compute. repeat split. Qed.
