From AM Require Import Proofs.AnsInv Proofs.AnsR.
From Coq Require Import List Bool Arith Lia Permutation.
Import ListNotations.

Ltac split_eqb := repeat match goal with
  | |- context[Nat.eqb ?a ?b] => destruct (Nat.eqb_spec a b); subst
  | H : context[Nat.eqb ?a ?b] |- _ => destruct (Nat.eqb_spec a b); subst end.
Ltac gen := solve [ intros; unfold updf in *; split_eqb; cbn in *;
                    first [discriminate | congruence | tauto | eauto 4] ].
Ltac startc := constructor; cbn [slot mtx next_tok chan cs rl]; auto; try easy_goal; try gen.

Lemma updf_same f i c : updf f i c i = c. Proof. unfold updf. now rewrite Nat.eqb_refl. Qed.
Lemma updf_other f i c j : j <> i -> updf f i c j = f j.
Proof. unfold updf. intros H. apply Nat.eqb_neq in H. now rewrite H. Qed.

(* an existential witness survives the update if the updated thread still qualifies *)
Lemma ex_updf (P : cpc -> Prop) f i c' : (exists j, P (f j)) -> (P (f i) -> P c') -> exists j, P (updf f i c' j).
Proof. intros [j Hj] H. destruct (Nat.eq_dec j i) as [->|Hne].
  - exists i. rewrite updf_same. auto.
  - exists j. now rewrite updf_other. Qed.
(* a universal fact survives if the new pc satisfies it *)
Lemma all_updf (P : nat -> cpc -> Prop) f i c' : (forall j, P j (f j)) -> P i c' -> forall j, P j (updf f i c' j).
Proof. intros H Hi j. destruct (Nat.eq_dec j i) as [->|Hne]; [now rewrite updf_same | rewrite updf_other; auto]. Qed.

Lemma tok_updf f i c' : tok c' = tok (f i) -> forall j, tok (updf f i c' j) = tok (f j).
Proof. intros H j. destruct (Nat.eq_dec j i) as [->|Hne]; [now rewrite updf_same | now rewrite updf_other]. Qed.
Lemma holds_updf_false f i c' : ~ holds_c c' -> forall j, holds_c (updf f i c' j) -> holds_c (f j) /\ j <> i.
Proof. intros H j Hj. destruct (Nat.eq_dec j i) as [->|Hne]; [rewrite updf_same in Hj; contradiction | rewrite updf_other in Hj by assumption; auto]. Qed.

Lemma holds_updf_iff f i c' : (holds_c c' <-> holds_c (f i)) -> forall j, holds_c (updf f i c' j) <-> holds_c (f j).
Proof. intros H j. destruct (Nat.eq_dec j i) as [->|Hne]; [now rewrite updf_same | now rewrite updf_other]. Qed.
Lemma nodup_tail_in (a : list nat) t : NoDup (a ++ [t]) -> ~ In t a.
Proof. intros H Hin. apply NoDup_remove_2 in H. apply H. rewrite app_nil_r. exact Hin. Qed.
Lemma nodup_drop_tail (a : list nat) t : NoDup (a ++ [t]) -> NoDup (a ++ []).
Proof. intros H. apply NoDup_remove_1 in H. exact H. Qed.
Lemma nodup_snoc_front (a b : list nat) t : NoDup (a ++ b) -> ~ In t (a ++ b) -> NoDup ((a ++ [t]) ++ b).
Proof. intros H Hn. rewrite <- app_assoc. cbn. eapply Permutation_NoDup; [apply Permutation_middle|]. now constructor. Qed.
Lemma wake_r_holds r : holds_r (wake_r r) <-> holds_r r. Proof. destruct r; cbn; tauto. Qed.
Lemma wake_r_rpend r : rpend (wake_r r) = rpend r. Proof. destruct r; reflexivity. Qed.
Lemma wake_r_ne_Rw r t : wake_r r <> Rw t. Proof. destruct r; cbn; congruence. Qed.
Lemma wake_r_eq_R4 r t : wake_r r = R4 t -> r = R4 t. Proof. destruct r; cbn; congruence. Qed.
Lemma wake_r_eq_R5 r t : wake_r r = R5 t -> r = R5 t. Proof. destruct r; cbn; congruence. Qed.
Lemma wake_r_eq_R6 r t : wake_r r = R6 t -> r = R6 t. Proof. destruct r; cbn; congruence. Qed.

Ltac case_j j i := destruct (Nat.eq_dec j i) as [->|?]; [rewrite ?updf_same in * | rewrite ?updf_other in * by assumption].

Lemma inv_C0 s i : Inv s -> cs s i = C0 ->
  Inv {| slot := slot s; mtx := mtx s; next_tok := S (next_tok s); chan := chan s;
         cs := updf (cs s) i (C1 (next_tok s)); rl := rl s |}.
Proof.
  intros I E. dI I.
  assert (Hnh : ~ holds_c (cs s i)) by (rewrite E; exact (fun x => x)).
  assert (Hpipe_lt : forall t, In t (chan s ++ rpend (rl s) ++ slot_l (slot s)) -> t < next_tok s).
  { intros t Hin. rewrite app_assoc in Hin. apply in_app_or in Hin. destruct Hin as [Hin|Hin].
    - destruct (Ipipe t Hin) as [w Hw]. apply (Ilt w). now apply wait_tok.
    - destruct (slot s) as [t'|] eqn:Es; cbn in Hin; [|contradiction]. destruct Hin as [<-|[]].
      destruct (Islot t' eq_refl) as [w Hw]. apply (Ilt w). now apply pend_tok. }
  startc.
  all: try solve [ intros Hm; destruct (Imt Hm) as [Hex|]; [left | now right]; apply (ex_updf holds_c); auto; intros Hc; contradiction ].
  all: try solve [ intros Hm; destruct (Imf Hm) as [Hnc Hnr]; split; [|assumption]; intros j Hj; apply (holds_updf_false (cs s) i (C1 (next_tok s)) (fun x : holds_c (C1 (next_tok s)) => x)) in Hj; destruct Hj as [Hj _]; exact (Hnc j Hj) ].
  all: try solve [ intros t0 Hr; destruct (Irw t0 Hr) as [|(w & t' & Hw)]; [now left | right]; exists w, t'; case_j w i; [congruence | assumption] ].
  all: try solve [ intros t0 Ht; destruct (Islot t0 Ht) as [w Hw]; exists w; case_j w i; [|assumption]; rewrite E in Hw; destruct Hw as [H|[H|[H|[H|H]]]]; discriminate ].
  all: try solve [ intros j t0 Hj; case_j j i; [destruct Hj as [H|[H|[H|H]]]; discriminate | eauto] ].
  all: try solve [ intros t0 Hin; destruct (Ipipe t0 Hin) as [w Hw]; exists w; case_j w i; [|assumption]; rewrite E in Hw; destruct Hw as [H|[H|[H|H]]]; discriminate ].
  all: try solve [ intros a b t0 Ha Hb; case_j a i; case_j b i; auto;
                   [ cbn in Ha; inversion Ha; subst; apply Ilt in Hb; lia
                   | cbn in Hb; inversion Hb; subst; apply Ilt in Ha; lia
                   | eapply Iuniq; eauto ] ].
  all: try solve [ intros j t0 Hj; case_j j i; [cbn in Hj; inversion Hj; lia | apply Ilt in Hj; lia] ].
  all: try solve [ intros j t0 Hj; case_j j i; [inversion Hj; subst; intros Hin; apply Hpipe_lt in Hin; lia | exact (Ic1 j t0 Hj)] ].
  Qed.

Lemma inv_C1 s i t : Inv s -> cs s i = C1 t ->
  Inv {| slot := slot s; mtx := mtx s; next_tok := next_tok s; chan := chan s ++ [t];
         cs := updf (cs s) i (C2 t); rl := rl s |}.
Proof.
  intros I E. dI I.
  assert (Hnh : ~ holds_c (cs s i)) by (rewrite E; exact (fun x => x)).
  assert (Htok : tok (C2 t) = tok (cs s i)) by (now rewrite E).
  pose proof (Ic1 i t E) as Hfresh.
  startc.
  all: try solve [ intros Hm; destruct (Imt Hm) as [Hex|]; [left | now right]; apply (ex_updf holds_c); auto; intros Hc; contradiction ].
  all: try solve [ intros Hm; destruct (Imf Hm) as [Hnc Hnr]; split; [|assumption]; intros j Hj; apply (holds_updf_false (cs s) i (C2 t) (fun x : holds_c (C2 t) => x)) in Hj; destruct Hj as [Hj _]; exact (Hnc j Hj) ].
  all: try solve [ intros t0 Hr; destruct (Irw t0 Hr) as [|(w & t' & Hw)]; [now left | right]; exists w, t'; case_j w i; [congruence | assumption] ].
  all: try solve [ intros t0 Ht; destruct (Islot t0 Ht) as [w Hw]; exists w; case_j w i; [|assumption]; rewrite E in Hw; destruct Hw as [H|[H|[H|[H|H]]]]; discriminate ].
  all: try solve [ intros j t0 Hj; case_j j i; [ apply wait_tok in Hj; cbn in Hj; inversion Hj; subst; left; apply in_or_app; right; now left | destruct (Iwhere j t0 Hj) as [|[|]]; auto; left; apply in_or_app; now left ] ].
  all: try solve [ intros t0 Hin; rewrite <- app_assoc in Hin; apply in_app_or in Hin; destruct Hin as [Hin|[<-|Hin]];
                   [ destruct (Ipipe t0 (in_or_app _ _ _ (or_introl Hin))) as [w Hw]; exists w; case_j w i; [rewrite E in Hw; destruct Hw as [H|[H|[H|H]]]; discriminate | assumption]
                   | exists i; rewrite updf_same; unfold wait_c; tauto
                   | destruct (Ipipe t0 (in_or_app _ _ _ (or_intror Hin))) as [w Hw]; exists w; case_j w i; [rewrite E in Hw; destruct Hw as [H|[H|[H|H]]]; discriminate | assumption] ] ].
  all: try solve [ apply nodup_snoc_front; assumption ].
  all: try solve [ intros a b t0; rewrite !(tok_updf _ _ _ Htok); apply Iuniq ].
  all: try solve [ intros j t0; rewrite (tok_updf _ _ _ Htok); apply Ilt ].
  all: try solve [ intros j t0 Hj; case_j j i; [discriminate|]; intros Hin; rewrite <- app_assoc in Hin; apply in_app_or in Hin;
                   destruct Hin as [Hin|[<-|Hin]];
                   [ apply (Ic1 j t0 Hj); apply in_or_app; now left
                   | match goal with Hne : _ <> _ |- _ => apply Hne end; apply (Iuniq j i t); [now rewrite Hj | now rewrite E]
                   | apply (Ic1 j t0 Hj); apply in_or_app; now right ] ].
Qed.

Lemma inv_C2 s i t : Inv s -> (cs s i = C2 t \/ cs s i = Cwk t) -> mtx s = false ->
  Inv {| slot := slot s; mtx := true; next_tok := next_tok s; chan := chan s;
         cs := updf (cs s) i (C3 t); rl := rl s |}.
Proof.
  intros I E Hm. dI I. destruct (Imf Hm) as [Hnc Hnr].
  assert (Hw : wait_c (cs s i) t) by (unfold wait_c; tauto).
  startc.
  - intros _. left. exists i. rewrite updf_same. exact I.
  - intros a b Ha Hb. case_j a i; case_j b i; auto; exfalso; eapply Hnc; eauto.
  - intros t0 Hr. destruct (Irw t0 Hr) as [|(j & t' & Hj)]; [now left | right].
    exists j, t'. case_j j i; [destruct E; congruence | assumption].
  - intros t0 Hs. apply (ex_updf (fun c => pend_c c t0)); [auto|].
    intros Hp. apply pend_tok in Hp. rewrite (wait_tok _ _ Hw) in Hp. inversion Hp; subst. unfold pend_c; tauto.
  - intros j t0 Hj. case_j j i; [|eauto]. apply Iwhere with (i := i).
    apply wait_tok in Hj. cbn in Hj. inversion Hj; subst. exact Hw.
  - intros t0 Hin. apply (ex_updf (fun c => wait_c c t0)); [auto|].
    intros Hp. apply wait_tok in Hp. rewrite (wait_tok _ _ Hw) in Hp. inversion Hp; subst. unfold wait_c; tauto.
  - intros a b t0. rewrite !(tok_updf (cs s) i (C3 t)) by (now rewrite (wait_tok _ _ Hw)). apply Iuniq.
  - intros j t0. rewrite (tok_updf (cs s) i (C3 t)) by (now rewrite (wait_tok _ _ Hw)). apply Ilt.
Qed.

Lemma inv_C3y s i t : Inv s -> cs s i = C3 t -> slot s = Some t ->
  Inv {| slot := slot s; mtx := mtx s; next_tok := next_tok s; chan := chan s;
         cs := updf (cs s) i (C4 t); rl := rl s |}.
Proof.
  intros I E Hs. dI I.
  assert (Hiff : holds_c (C4 t) <-> holds_c (cs s i)) by (rewrite E; cbn; tauto).
  assert (Htok : tok (C4 t) = tok (cs s i)) by (now rewrite E).
  startc.
  - intros Hm. destruct (Imt Hm) as [Hex|]; [left | now right].
    apply (ex_updf holds_c); auto. intros _. exact I.
  - intros Hm. destruct (Imf Hm) as [Hnc _]. exfalso. apply (Hnc i). rewrite E. exact I.
  - intros a b. rewrite !(holds_updf_iff _ _ _ Hiff). apply Ioc.
  - intros Hr j. rewrite (holds_updf_iff _ _ _ Hiff). now apply Ior.
  - intros t0 _. left. congruence.
  - intros t0 Ht. apply (ex_updf (fun c => pend_c c t0)); auto. rewrite E.
    intros Hp. apply pend_tok in Hp. cbn in Hp. inversion Hp; subst. unfold pend_c; tauto.
  - intros j t0 Hj. case_j j i; [|eauto]. apply wait_tok in Hj as Hj'. destruct Hj as [H|[H|[H|H]]]; discriminate.
  - intros t0 Hin. destruct (Ipipe t0 Hin) as [w Hw]. exists w. case_j w i; [|assumption].
    exfalso. rewrite E in Hw. apply wait_tok in Hw. cbn in Hw. inversion Hw; subst.
    rewrite Hs in Ind. cbn in Ind. rewrite app_assoc in Ind. exact (nodup_tail_in _ _ Ind Hin).
  - intros a b t0. rewrite !(tok_updf _ _ _ Htok). apply Iuniq.
  - intros j t0. rewrite (tok_updf _ _ _ Htok). apply Ilt.
Qed.

Lemma inv_C3n s i t : Inv s -> cs s i = C3 t -> slot s <> Some t ->
  Inv {| slot := slot s; mtx := false; next_tok := next_tok s; chan := chan s;
         cs := updf (cs s) i (Cw t); rl := rl s |}.
Proof.
  intros I E Hs. dI I.
  assert (Hh : holds_c (cs s i)) by (rewrite E; exact I).
  assert (Htok : tok (Cw t) = tok (cs s i)) by (now rewrite E).
  startc.
  - intros _. split.
    + intros j Hj. apply (holds_updf_false (cs s) i (Cw t) (fun x : holds_c (Cw t) => x)) in Hj. destruct Hj as [Hj Hne]. apply Hne. now apply Ioc.
    + intros Hr. exact (Ior Hr i Hh).
  - intros j t0 Hj. case_j j i; [|eauto]. inversion Hj; subst. now left.
  - intros t0 Hr. destruct (Irw t0 Hr) as [|(w & t' & Hw)]; [now left | right].
    exists w, t'. case_j w i; [congruence | assumption].
  - intros t0 Ht. apply (ex_updf (fun c => pend_c c t0)); auto. rewrite E.
    intros Hp. apply pend_tok in Hp. cbn in Hp. inversion Hp; subst. unfold pend_c; tauto.
  - intros j t0 Hj. case_j j i; [|eauto]. apply wait_tok in Hj. cbn in Hj. inversion Hj; subst.
    apply (Iwhere i). rewrite E. unfold wait_c; tauto.
  - intros t0 Hin. apply (ex_updf (fun c => wait_c c t0)); auto. rewrite E.
    intros Hp. apply wait_tok in Hp. cbn in Hp. inversion Hp; subst. unfold wait_c; tauto.
  - intros a b t0. rewrite !(tok_updf _ _ _ Htok). apply Iuniq.
  - intros j t0. rewrite (tok_updf _ _ _ Htok). apply Ilt.
Qed.

Lemma inv_C4 s i t : Inv s -> cs s i = C4 t ->
  Inv {| slot := None; mtx := mtx s; next_tok := next_tok s; chan := chan s;
         cs := updf (cs s) i (C4n t); rl := rl s |}.
Proof.
  intros I E. dI I.
  assert (Hh : holds_c (cs s i)) by (rewrite E; exact I).
  assert (Hiff : holds_c (C4n t) <-> holds_c (cs s i)) by (rewrite E; cbn; tauto).
  assert (Htok : tok (C4n t) = tok (cs s i)) by (now rewrite E).
  pose proof (Ic4 i t E) as Hs.
  startc.
  all: try solve [ intros Hm; left; exists i; rewrite updf_same; exact I ].
  all: try solve [ intros Hm; destruct (Imf Hm) as [Hnc _]; exfalso; exact (Hnc i Hh) ].
  all: try solve [ intros a b; rewrite !(holds_updf_iff _ _ _ Hiff); apply Ioc ].
  all: try solve [ intros Hr j; rewrite (holds_updf_iff _ _ _ Hiff); now apply Ior ].
  all: try solve [ intros j t0 Hj; case_j j i; [discriminate|]; exfalso; apply n; apply Ioc; [rewrite Hj; exact I | exact Hh] ].
  all: try solve [ intros j t0 _; left; discriminate ].
  all: try solve [ intros t0 _; right; exists i, t; now rewrite updf_same ].
  all: try solve [ intros j t0 Hj; case_j j i; [destruct Hj as [H|[H|[H|H]]]; discriminate|]; destruct (Iwhere j t0 Hj) as [|[|Hs']]; auto; exfalso; apply n; rewrite Hs in Hs'; inversion Hs'; subst; apply (Iuniq j i t0); [now apply wait_tok | now rewrite E] ].
  all: try solve [ intros t0 Hr; exfalso; refine (Ior _ i Hh); destruct Hr as [->| ->]; exact I ].
  all: try solve [ intros t0 Hin; destruct (Ipipe t0 Hin) as [w Hw]; exists w; case_j w i; [|assumption]; rewrite E in Hw; destruct Hw as [H|[H|[H|H]]]; discriminate ].
  all: try solve [ rewrite Hs in Ind; cbn in *; rewrite app_assoc in Ind; apply nodup_drop_tail in Ind; now rewrite <- app_assoc in Ind ].
  all: try solve [ intros a b t0; rewrite !(tok_updf _ _ _ Htok); apply Iuniq ].
  all: try solve [ intros j t0; rewrite (tok_updf _ _ _ Htok); apply Ilt ].
  all: try solve [ intros j t0 Hj; case_j j i; [discriminate|]; intros Hin; apply (Ic1 j t0 Hj); rewrite Hs; cbn in *; rewrite app_nil_r in Hin; rewrite app_assoc; apply in_or_app; now left ].
Qed.

Lemma inv_C4n s i t : Inv s -> cs s i = C4n t ->
  Inv {| slot := slot s; mtx := mtx s; next_tok := next_tok s; chan := chan s;
         cs := fun j => wake_c (updf (cs s) i (C5 t) j); rl := wake_r (rl s) |}.
Proof.
  intros I E. dI I.
  assert (Hh : holds_c (cs s i)) by (rewrite E; exact I).
  assert (Hiff : holds_c (C5 t) <-> holds_c (cs s i)) by (rewrite E; cbn; tauto).
  assert (Htok : tok (C5 t) = tok (cs s i)) by (now rewrite E).
  startc; rewrite ?wake_r_rpend.
  all: try solve [ intros Hm; left; exists i; rewrite updf_same; exact I ].
  all: try solve [ intros Hm; destruct (Imf Hm) as [Hnc _]; exfalso; exact (Hnc i Hh) ].
  all: try solve [ intros a b Ha Hb; apply (proj1 (wake_c_holds _)) in Ha; apply (proj1 (wake_c_holds _)) in Hb;
                   rewrite (holds_updf_iff _ _ _ Hiff) in Ha; rewrite (holds_updf_iff _ _ _ Hiff) in Hb; now apply Ioc ].
  all: try solve [ intros Hr j Hj; apply (proj1 (wake_r_holds _)) in Hr; apply (proj1 (wake_c_holds _)) in Hj;
                   rewrite (holds_updf_iff _ _ _ Hiff) in Hj; exact (Ior Hr j Hj) ].
  all: try solve [ intros j t0 Hj; apply (proj1 (wake_c_eq_C4 _ _)) in Hj; case_j j i; [discriminate | exact (Ic4 j t0 Hj)] ].
  all: try solve [ intros j t0 Hj; exfalso; eapply wake_c_ne_Cw; eauto ].
  all: try solve [ intros t0 Hr; exfalso; eapply wake_r_ne_Rw; eauto ].
  all: try solve [ intros t0 Ht; destruct (Islot t0 Ht) as [w Hw]; exists w; apply (proj2 (wake_c_pend _ _));
                   case_j w i; [rewrite E in Hw; destruct Hw as [H|[H|[H|[H|H]]]]; discriminate | assumption] ].
  all: try solve [ intros j t0 Hj; apply (proj1 (wake_c_wait _ _)) in Hj;
                   case_j j i; [destruct Hj as [H|[H|[H|H]]]; discriminate | exact (Iwhere j t0 Hj)] ].
  all: try solve [ intros t0 Hr; apply wake_r_eq_R4 in Hr; eauto ].
  all: try solve [ intros t0 [Hr|Hr]; [apply wake_r_eq_R5 in Hr | apply wake_r_eq_R6 in Hr]; eauto ].
  all: try solve [ intros t0 Hin; destruct (Ipipe t0 Hin) as [w Hw]; exists w; apply (proj2 (wake_c_wait _ _));
                   case_j w i; [rewrite E in Hw; destruct Hw as [H|[H|[H|H]]]; discriminate | assumption] ].
  all: try solve [ intros a b t0; rewrite !wake_c_tok; rewrite !(tok_updf _ _ _ Htok); apply Iuniq ].
  all: try solve [ intros j t0; rewrite wake_c_tok; rewrite (tok_updf _ _ _ Htok); apply Ilt ].
  all: try solve [ intros j t0 Hj; apply (proj1 (wake_c_eq_C1 _ _)) in Hj; case_j j i; [discriminate | exact (Ic1 j t0 Hj)] ].
  all: try solve [ exact Ind ].
Qed.

Lemma inv_C5 s i t : Inv s -> cs s i = C5 t ->
  Inv {| slot := slot s; mtx := false; next_tok := next_tok s; chan := chan s;
         cs := updf (cs s) i CDone; rl := rl s |}.
Proof.
  intros I E. dI I.
  assert (Hh : holds_c (cs s i)) by (rewrite E; exact I).
  startc.
  all: try solve [ intros _; split; [ intros j Hj; apply (holds_updf_false (cs s) i CDone (fun x : holds_c CDone => x)) in Hj; destruct Hj as [Hj Hne]; apply Hne; now apply Ioc | intros Hr; exact (Ior Hr i Hh) ] ].
  all: try solve [ intros t0 Hr; destruct (Irw t0 Hr) as [|(w & t' & Hw)]; [now left | right]; exists w, t'; case_j w i; [congruence | assumption] ].
  all: try solve [ intros t0 Ht; destruct (Islot t0 Ht) as [w Hw]; exists w; case_j w i; [|assumption]; rewrite E in Hw; destruct Hw as [H|[H|[H|[H|H]]]]; discriminate ].
  all: try solve [ intros j t0 Hj; case_j j i; [destruct Hj as [H|[H|[H|H]]]; discriminate | eauto] ].
  all: try solve [ intros t0 Hin; destruct (Ipipe t0 Hin) as [w Hw]; exists w; case_j w i; [|assumption]; rewrite E in Hw; destruct Hw as [H|[H|[H|H]]]; discriminate ].
Qed.

Lemma option_nat_eq_dec (a b : option nat) : {a = b} + {a <> b}.
Proof. decide equality. apply Nat.eq_dec. Qed.

Lemma inv_cstep i s s' : Inv s -> cstep i s s' -> Inv s'.
Proof. intros I H. destruct H; eauto using inv_C0, inv_C1, inv_C2, inv_C3y, inv_C3n, inv_C4, inv_C4n, inv_C5. Qed.

Theorem inv_step s s' : Inv s -> step s s' -> Inv s'.
Proof. intros I H. destruct H as [i s0 s1 H|s0 s1 H]; [exact (inv_cstep i _ _ I H) | exact (inv_rstep _ _ I H)]. Qed.

Inductive steps : st -> st -> Prop :=
| steps_refl s : steps s s
| steps_cons s s' s'' : step s s' -> steps s' s'' -> steps s s''.
Theorem inv_reachable s : steps init s -> Inv s.
Proof. intros H. assert (Inv init) by apply inv_init. induction H; eauto using inv_step. Qed.

(* ---------- no reachable state is deadlocked, for any number N of callers ---------- *)
Inductive stepN (N : nat) : st -> st -> Prop :=
| sn_c i s s' : i < N -> cstep i s s' -> stepN N s s'
| sn_r s s' : rstep s s' -> stepN N s s'.
Inductive stepsN (N : nat) : st -> st -> Prop :=
| sN_refl s : stepsN N s s
| sN_cons s s' s'' : stepN N s s' -> stepsN N s' s'' -> stepsN N s s''.

Lemma stepN_step N s s' : stepN N s s' -> step s s'.
Proof. intros [i a b _ H|a b H]; [eapply st_c | eapply st_r]; eauto. Qed.

Lemma idle_callers_stay N s s' : stepN N s s' -> (forall j, N <= j -> cs s j = C0) -> forall j, N <= j -> cs s' j = C0.
Proof.
  intros H Hidle j Hj. destruct H as [i a b Hi H|a b H].
  - assert (j <> i) by lia. destruct H; cbn; rewrite ?updf_other by assumption; auto.
    rewrite (Hidle j Hj). reflexivity.
  - destruct H; cbn; auto. rewrite (Hidle j Hj). reflexivity.
Qed.

Lemma reachN N s : stepsN N init s -> Inv s /\ forall j, N <= j -> cs s j = C0.
Proof.
  intros H. assert (Inv init /\ forall j, N <= j -> cs init j = C0) as H0 by (split; [apply inv_init | reflexivity]).
  induction H as [|a b c Hs _ IH]; [exact H0|]. apply IH. destruct H0 as [I Hidle]. split.
  - eapply inv_step; eauto using stepN_step.
  - eapply idle_callers_stay; eauto.
Qed.

Definition can_stepN N (s : st) := exists s', stepN N s s'.

Theorem answers_no_deadlock N s : stepsN N init s -> (exists i, i < N /\ cs s i <> CDone) -> can_stepN N s.
Proof.
  intros Hr (i & Hi & Hnd). destruct (reachN N s Hr) as [I Hidle]. dI I. unfold can_stepN.
  assert (HltN : forall j, cs s j <> C0 -> j < N).
  { intros j Hj. destruct (Nat.lt_ge_cases j N); auto. exfalso. now apply Hj, Hidle. }
  (* 1. somebody holds the mutex: the holder can always move *)
  destruct (mtx s) eqn:Hm.
  { destruct (Imt eq_refl) as [[j Hj]|Hj].
    - assert (j < N) by (apply HltN; intros Ej; rewrite Ej in Hj; exact Hj).
      destruct (cs s j) eqn:Ej; try contradiction.
      + destruct (option_nat_eq_dec (slot s) (Some t)) as [Hs|Hs].
        * eexists. apply (sn_c N j); auto. eapply s_C3y; eauto.
        * eexists. apply (sn_c N j); auto. eapply s_C3n; eauto.
      + eexists. apply (sn_c N j); auto. eapply s_C4; eauto.
      + eexists. apply (sn_c N j); auto. eapply s_C4n; eauto.
      + eexists. apply (sn_c N j); auto. eapply s_C5; eauto.
    - destruct (rl s) eqn:Er; try contradiction.
      + destruct (slot s) eqn:Es.
        * eexists. apply sn_r. eapply s_R3n; eauto. congruence.
        * eexists. apply sn_r. eapply s_R3y; eauto.
      + eexists. apply sn_r. eapply s_R4; eauto.
      + eexists. apply sn_r. eapply s_R5; eauto.
      + eexists. apply sn_r. eapply s_R6; eauto. }
  (* 2. the mutex is free: nobody is inside a critical section *)
  destruct (Imf eq_refl) as [Hnc Hnr].
  (* a caller that is asleep on its own token while the reloader cannot wake it: impossible *)
  assert (Hsleep : forall j t, cs s j = Cw t -> slot s = Some t -> rl s <> R5 t -> False).
  { intros j t Hj Hs Hr5. destruct (Icw j t Hj); auto. }
  (* every enabled caller pc *)
  assert (Hgo : forall j, j < N -> (cs s j = C0 \/ (exists t, cs s j = C1 t) \/ (exists t, cs s j = C2 t) \/ (exists t, cs s j = Cwk t)) ->
                exists s', stepN N s s').
  { intros j Hj [E|[[t E]|[[t E]|[t E]]]].
    - eexists. apply (sn_c N j); auto. eapply s_C0; eauto.
    - eexists. apply (sn_c N j); auto. eapply s_C1; eauto.
    - eexists. apply (sn_c N j); auto. eapply s_C2; eauto.
    - eexists. apply (sn_c N j); auto. eapply s_C2; eauto. }
  destruct (cs s i) eqn:Ei; try (exfalso; apply (Hnc i); rewrite Ei; exact I); try congruence;
    try (apply (Hgo i Hi); rewrite Ei; eauto 6; fail).
  (* caller i sleeps on token t *)
  destruct (rl s) eqn:Er; try (exfalso; apply Hnr; exact I).
  - (* R0 *) destruct (chan s) as [|t0 r] eqn:Ec.
    + exfalso. destruct (Iwhere i t) as [Hin|[Hin|Hs]]; [rewrite ?Ei; unfold wait_c; tauto | rewrite ?Ec in Hin; destruct Hin | rewrite ?Er in Hin; destruct Hin |].
      eapply Hsleep; eauto. congruence.
    + eexists. apply sn_r. eapply s_R0; eauto.
  - eexists. apply sn_r. eapply s_R1; eauto.
  - eexists. apply sn_r. eapply s_R2; eauto.
  - (* reloader asleep in notify *)
    destruct (Irw t0 eq_refl) as [Hs|(j & t' & Hj)]; [|exfalso; apply (Hnc j); rewrite Hj; exact I].
    destruct (slot s) as [t1|] eqn:Es; [|congruence].
    destruct (Islot t1 eq_refl) as [j Hj].
    destruct Hj as [Hj|[Hj|[Hj|[Hj|Hj]]]].
    + apply (Hgo j); [apply HltN; congruence | eauto 6].
    + exfalso. apply (Hnc j). rewrite Hj. exact I.
    + exfalso. eapply Hsleep; eauto. congruence.
    + apply (Hgo j); [apply HltN; congruence | eauto 6].
    + exfalso. apply (Hnc j). rewrite Hj. exact I.
  - eexists. apply sn_r. eapply s_R2; eauto.
Qed.
