(* SharedBytes (src/utils/bytes.rs) as a machine over an allocator ledger.
   A block is (id, layout); layouts are (size, align) as handed to alloc / dealloc.  An object is
   the heap header `Inner {count, ptr, len, capacity}` plus, when capacity <> 0, the leaked Vec
   buffer.  Steps are the atomic actions of the code: the two constructors, clone (one fetch_add),
   drop (fetch_sub, and -- only for the thread that saw 1 -- drop_slow as a separate later step),
   and deref.  `owners` is ghost state: how many SharedBytes values of the object exist; a schedule
   can only clone / drop / read through a value that exists. *)
From Coq Require Import List NArith Bool.
Import ListNotations.
Open Scope N_scope.

Definition layout := (N * N)%type.
Definition header_size : N := 32.           (* size_of::<Inner>() on a 64-bit target: 4 words *)
Definition layout_header : layout := (header_size, 8).
(* Layout::new::<Inner>().extend(Layout::from_size_align(len, 1)): no padding in between (align 1),
   no trailing padding (extend does not pad) *)
Definition layout_inline (len : N) : layout := (header_size + len, 8).
Definition layout_vec (cap : N) : layout := (cap, 1).

Definition layout_eqb (a b : layout) : bool := (fst a =? fst b) && (snd a =? snd b).

Record obj := {
  o_hdr : N;               (* block id of the header *)
  o_buf : option N;        (* block id of the Vec buffer *)
  o_count : N;             (* Inner.count *)
  o_bytes : list N;        (* what ptr[..len] holds *)
  o_cap : N;               (* Inner.capacity *)
  o_owners : N;            (* ghost: live SharedBytes values *)
  o_pending : bool;        (* ghost: the last decrement happened, drop_slow has not run yet *)
}.

Inductive err := DoubleFree (id : N) | WrongLayout (id : N) (given : layout) | UseAfterFree (id : N).

Record st := {
  live : list (N * layout);     (* allocator ledger *)
  next : N;
  objs : list obj;
  errs : list err;
  freed : list (N * layout);    (* every dealloc, in order *)
}.

Definition init : st := {| live := []; next := 0; objs := []; errs := []; freed := [] |}.

Definition alloc (s : st) (l : layout) : st * N :=
  ({| live := (next s, l) :: live s; next := N.succ (next s); objs := objs s; errs := errs s; freed := freed s |}, next s).

Fixpoint remove_block (id : N) (l : list (N * layout)) : list (N * layout) :=
  match l with
  | [] => []
  | (i, y) :: r => if i =? id then r else (i, y) :: remove_block id r
  end.

Fixpoint find_block (id : N) (l : list (N * layout)) : option layout :=
  match l with
  | [] => None
  | (i, y) :: r => if i =? id then Some y else find_block id r
  end.

Definition dealloc (s : st) (id : N) (l : layout) : st :=
  match find_block id (live s) with
  | None => {| live := live s; next := next s; objs := objs s; errs := DoubleFree id :: errs s; freed := freed s |}
  | Some y =>
    {| live := remove_block id (live s); next := next s; objs := objs s;
       errs := if layout_eqb y l then errs s else WrongLayout id l :: errs s;
       freed := (id, l) :: freed s |}
  end.

Definition set_objs (s : st) (os : list obj) : st :=
  {| live := live s; next := next s; objs := os; errs := errs s; freed := freed s |}.
Definition add_err (s : st) (e : err) : st :=
  {| live := live s; next := next s; objs := objs s; errs := e :: errs s; freed := freed s |}.

Fixpoint get_obj (h : N) (os : list obj) : option obj :=
  match os with
  | [] => None
  | o :: r => if o_hdr o =? h then Some o else get_obj h r
  end.
Fixpoint put_obj (o : obj) (os : list obj) : list obj :=
  match os with
  | [] => []
  | x :: r => if o_hdr x =? o_hdr o then o :: r else x :: put_obj o r
  end.

Inductive step_t :=
| SFromSlice (bytes : list N)                 (* from_slice, From<&[u8]>, Cow::Borrowed *)
| SFromVec (bytes : list N) (cap : N)         (* from_vec, From<Vec>, Box, Cow::Owned, FromIterator *)
| SClone (h : N)
| SDrop (h : N)                               (* the fetch_sub of Drop::drop *)
| SDropSlow (h : N)                           (* drop_slow, by the thread that saw 1 *)
| SRead (h : N).

Inductive out_t := ONew (h : N) | OBytes (bs : list N) | ONone | ORejected.

Definition len (bs : list N) : N := N.of_nat (List.length bs).

(* is the step one a program can take? (ghost guard; rejected steps leave the state alone) *)
Definition enabled (s : st) (x : step_t) : bool :=
  match x with
  | SFromSlice _ => true
  | SFromVec bs cap => (len bs <=? cap) 
  | SClone h | SDrop h | SRead h => match get_obj h (objs s) with Some o => 0 <? o_owners o | None => false end
  | SDropSlow h => match get_obj h (objs s) with Some o => o_pending o | None => false end
  end.

Definition step (s : st) (x : step_t) : st * out_t :=
  if negb (enabled s x) then (s, ORejected) else
  match x with
  | SFromSlice bs =>
    let '(s1, h) := alloc s (layout_inline (len bs)) in
    (set_objs s1 ({| o_hdr := h; o_buf := None; o_count := 1; o_bytes := bs; o_cap := 0;
                     o_owners := 1; o_pending := false |} :: objs s1), ONew h)
  | SFromVec bs cap =>
    (* the Vec's buffer was allocated by the caller (no allocation when capacity is 0) *)
    let '(s0, buf) := if cap =? 0 then (s, None) else let '(s', b) := alloc s (layout_vec cap) in (s', Some b) in
    let '(s1, h) := alloc s0 layout_header in
    (set_objs s1 ({| o_hdr := h; o_buf := buf; o_count := 1; o_bytes := bs; o_cap := cap;
                     o_owners := 1; o_pending := false |} :: objs s1), ONew h)
  | SClone h =>
    match get_obj h (objs s) with
    | None => (s, ORejected)
    | Some o =>
      let s := if find_block h (live s) then s else add_err s (UseAfterFree h) in
      (set_objs s (put_obj {| o_hdr := o_hdr o; o_buf := o_buf o; o_count := o_count o + 1; o_bytes := o_bytes o;
                              o_cap := o_cap o; o_owners := o_owners o + 1; o_pending := o_pending o |} (objs s)), ONone)
    end
  | SDrop h =>
    match get_obj h (objs s) with
    | None => (s, ORejected)
    | Some o =>
      let s := if find_block h (live s) then s else add_err s (UseAfterFree h) in
      (set_objs s (put_obj {| o_hdr := o_hdr o; o_buf := o_buf o; o_count := o_count o - 1; o_bytes := o_bytes o;
                              o_cap := o_cap o; o_owners := o_owners o - 1;
                              o_pending := o_pending o || (o_count o =? 1) |} (objs s)), ONone)
    end
  | SDropSlow h =>
    match get_obj h (objs s) with
    | None => (s, ORejected)
    | Some o =>
      (* if inner.capacity != 0 { drop(Vec::from_raw_parts(ptr, len, capacity)); Layout::new::<Inner>() }
         else { get_inner_layout(inner.len) };  dealloc(self.ptr, layout) *)
      let s1 := if o_cap o =? 0 then s
                else match o_buf o with Some b => dealloc s b (layout_vec (o_cap o)) | None => add_err s (UseAfterFree h) end in
      let l := if o_cap o =? 0 then layout_inline (len (o_bytes o)) else layout_header in
      let s2 := dealloc s1 h l in
      (set_objs s2 (put_obj {| o_hdr := o_hdr o; o_buf := o_buf o; o_count := o_count o; o_bytes := o_bytes o;
                               o_cap := o_cap o; o_owners := o_owners o; o_pending := false |} (objs s2)), ONone)
    end
  | SRead h =>
    match get_obj h (objs s) with
    | None => (s, ORejected)
    | Some o =>
      if find_block h (live s) then (s, OBytes (o_bytes o)) else (add_err s (UseAfterFree h), OBytes (o_bytes o))
    end
  end.

Fixpoint run (s : st) (xs : list step_t) : st * list out_t :=
  match xs with
  | [] => (s, [])
  | x :: r => let '(s1, o) := step s x in let '(s2, os) := run s1 r in (s2, o :: os)
  end.

(* everything that was created has been let go of, and every pending drop_slow has run *)
Definition all_released (s : st) : bool :=
  forallb (fun o => (o_owners o =? 0) && negb (o_pending o)) (objs s).
