(* UTF-8 as Unicode defines it (The Unicode Standard, table 3-7, = RFC 3629): what "valid UTF-8"
   means in property C16.  `encode` is the definition; `decode` / `valid` / `valid_up_to` are the
   executable recognisers the correspondence check runs against std::str::from_utf8 and
   SharedString::from_utf8.  Bytes and code points are N. *)
From Coq Require Import List NArith Bool.
Import ListNotations.
Open Scope N_scope.

Definition scalar (c : N) : bool := (c <? 55296) || ((57344 <=? c) && (c <? 1114112)).

Definition encode1 (c : N) : list N :=
  if c <? 128 then [c]
  else if c <? 2048 then [192 + c / 64; 128 + c mod 64]
  else if c <? 65536 then [224 + c / 64 / 64; 128 + (c / 64) mod 64; 128 + c mod 64]
  else [240 + c / 64 / 64 / 64; 128 + (c / 64 / 64) mod 64; 128 + (c / 64) mod 64; 128 + c mod 64].

Definition encode (cs : list N) : list N := flat_map encode1 cs.

Definition between (lo hi b : N) : bool := (lo <=? b) && (b <=? hi).
Definition cont (b : N) : bool := between 128 191 b.
Definition lo3 (b0 : N) : N := if b0 =? 224 then 160 else 128.
Definition hi3 (b0 : N) : N := if b0 =? 237 then 159 else 191.
Definition lo4 (b0 : N) : N := if b0 =? 240 then 144 else 128.
Definition hi4 (b0 : N) : N := if b0 =? 244 then 143 else 191.

(* one well-formed sequence from the front: (code point, rest) *)
Definition step (bs : list N) : option (N * list N) :=
  match bs with
  | [] => None
  | b0 :: r0 =>
    if b0 <? 128 then Some (b0, r0)
    else if b0 <? 194 then None
    else if b0 <? 224 then
      match r0 with
      | b1 :: r1 => if cont b1 then Some ((b0 - 192) * 64 + (b1 - 128), r1) else None
      | _ => None
      end
    else if b0 <? 240 then
      match r0 with
      | b1 :: b2 :: r2 =>
        if between (lo3 b0) (hi3 b0) b1 && cont b2
        then Some ((b0 - 224) * 4096 + (b1 - 128) * 64 + (b2 - 128), r2) else None
      | _ => None
      end
    else if b0 <? 245 then
      match r0 with
      | b1 :: b2 :: b3 :: r3 =>
        if between (lo4 b0) (hi4 b0) b1 && cont b2 && cont b3
        then Some ((b0 - 240) * 262144 + (b1 - 128) * 4096 + (b2 - 128) * 64 + (b3 - 128), r3) else None
      | _ => None
      end
    else None
  end.

Fixpoint decode_f (fuel : nat) (bs : list N) : option (list N) :=
  match bs with
  | [] => Some []
  | _ =>
    match fuel with
    | O => None
    | S n =>
      match step bs with
      | None => None
      | Some (c, r) => match decode_f n r with Some cs => Some (c :: cs) | None => None end
      end
    end
  end.

Definition decode (bs : list N) : option (list N) := decode_f (List.length bs) bs.
Definition valid (bs : list N) : bool := match decode bs with Some _ => true | None => false end.

(* length of the longest prefix made of whole well-formed sequences (Utf8Error::valid_up_to) *)
Fixpoint valid_up_to_f (fuel : nat) (bs : list N) (acc : N) : N :=
  match fuel with
  | O => acc
  | S n =>
    match step bs with
    | None => acc
    | Some (_, r) => valid_up_to_f n r (acc + (N.of_nat (List.length bs) - N.of_nat (List.length r)))
    end
  end.
Definition valid_up_to (bs : list N) : N := valid_up_to_f (List.length bs) bs 0.

Definition is_byte (b : N) : bool := b <? 256.
