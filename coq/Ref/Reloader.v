(* The reloader thread's loop (src/hot_reloading/mod.rs, hot_reloading_thread) over two channels
   with crossbeam semantics: a channel is "ready" when it holds a message or is disconnected;
   Select::ready blocks until some channel is ready and returns the index of one that is.

   [exit_on_cm_disconnect] = does the inner drain loop leave the thread when the cache-message
   channel is disconnected (true for the current code; false is the code before the repair of D4,
   where `Err(_) => break` only left the inner loop). *)
From Coq Require Import List Bool Arith.
Import ListNotations.

Record chan := { qlen : nat; connected : bool }.
Definition ready (c : chan) : bool := negb (Nat.eqb (qlen c) 0) || negb (connected c).

Inductive status := Blocked | Running | Exited.

Record rl := { cmq : chan; evq : chan; st : status; consumed : nat }.

(* one iteration of the outer loop; [pick_events] = the index Select::ready returns when both are
   ready (it may return either) *)
Definition iter (exit_on_cm_disconnect pick_events : bool) (s : rl) : rl :=
  match st s with
  | Exited => s
  | _ =>
      if negb (ready (cmq s)) && negb (ready (evq s)) then
        {| cmq := cmq s; evq := evq s; st := Blocked; consumed := consumed s |}
      else
        let idx1 := ready (evq s) && (pick_events || negb (ready (cmq s))) in
        (* drain ALL cache messages *)
        let drained := qlen (cmq s) in
        let cm' := {| qlen := 0; connected := connected (cmq s) |} in
        if exit_on_cm_disconnect && negb (connected (cmq s)) then
          {| cmq := cm'; evq := evq s; st := Exited; consumed := consumed s + drained |}
        else if idx1 then
          match qlen (evq s) with
          | S n => {| cmq := cm'; evq := {| qlen := n; connected := connected (evq s) |}; st := Running;
                      consumed := consumed s + drained + 1 |}
          | O => if connected (evq s)
                 then {| cmq := cm'; evq := evq s; st := Running; consumed := consumed s + drained |}
                 else {| cmq := cm'; evq := evq s; st := Exited; consumed := consumed s + drained |}
          end
        else {| cmq := cm'; evq := evq s; st := Running; consumed := consumed s + drained |}
  end.

Fixpoint iters (x : bool) (picks : list bool) (s : rl) : rl :=
  match picks with
  | [] => s
  | p :: r => iters x r (iter x p s)
  end.

Definition mk (cm_q : nat) (cm_conn : bool) (ev_q : nat) (ev_conn : bool) : rl :=
  {| cmq := {| qlen := cm_q; connected := cm_conn |}; evq := {| qlen := ev_q; connected := ev_conn |};
     st := Running; consumed := 0 |}.
