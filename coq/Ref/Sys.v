(* The whole sequential system: source + cache + loaders (+ the hot-reloading bookkeeping), as one
   executable state machine [step : st -> op -> st * out].  It mirrors, operation by operation, what
   the real crate does when driven by the harness universe (harness/src/world.rs):

     - the in-memory source `Mem` (association lists in insertion order, a per-read fault plan),
     - the asset types of the universe (extension lists, loaders, default values, HOT_RELOADED),
     - the Compound script language of TNode/TNodeS,
     - the cache as a map (type, id) -> entry, first insertion wins,
     - tokens: every loader-made value gets a fresh number; every step reports the tokens dropped.

   Recursion through nested loads runs on explicit fuel; running out of fuel is the distinguished
   result [RFuel], which theorems exclude by hypothesis and the correspondence checker reports. *)
From Coq Require Import List String NArith ZArith Bool Ascii.
From AM Require Import Ref.Load.
Import ListNotations.
Open Scope string_scope.
Open Scope list_scope.

(* ------------------------------------------------------------------------------ universe *)

Inductive ty := TI | TS | TM | TX | TE | TD | TB | TN | TNS | TA | TAS | TDI | TRI | TV | TW.

Definition ty_eqb (a b : ty) : bool :=
  match a, b with
  | TI, TI | TS, TS | TM, TM | TX, TX | TE, TE | TD, TD | TB, TB | TN, TN | TNS, TNS | TA, TA | TAS, TAS
  | TDI, TDI | TRI, TRI | TV, TV | TW, TW => true
  | _, _ => false
  end.

(* Storable::HOT_RELOADED of the type *)
Definition hot_reloaded (t : ty) : bool :=
  match t with
  | TS | TNS | TV | TAS => false
  | _ => true
  end.

(* tag used by the loaders in the trace *)
Definition tag (t : ty) : string :=
  match t with
  | TI | TA => "I" | TS | TAS => "S" | TM => "M" | TX => "X" | TE => "E" | TD => "D" | TB => "B"
  | TN => "N" | TNS => "NS" | TDI => "DI" | TRI => "RI" | TV => "V" | TW => "W"
  end.

Definition exts (t : ty) : list string :=
  match t with
  | TI | TS | TA | TAS => ["x"]
  | TM => ["p"; "q"; "r"]
  | TX => []
  | TE => [""]
  | TD => ["d"; "e"]
  | TB => ["b"]
  | TW => ["w"]
  | _ => []
  end.

Definition key := (ty * string)%type.
Definition key_eqb (a b : key) : bool := ty_eqb (fst a) (fst b) && String.eqb (snd a) (snd b).

(* ------------------------------------------------------------------------------ scripts *)

Inductive line :=
| LVal (z : Z)
| LLoad (t : ty) (id : string)
| LCached (t : ty) (id : string)
| LOwned (t : ty) (id : string)
| LNoRec (l : line)
| LTry (l : line)
| LReadFile (id ext : string)
| LReadDir (id : string)
| LInsert (id : string) (z : Z)
| LThread (l : line)
| LCatch (l : line)
| LFail
| LPanic.

(* ------------------------------------------------------------------------------ source *)

Inductive content := CBytes (b : list N) | CScript (len : N) (ls : list line).

Definition content_len (c : content) : N :=
  match c with CBytes b => N.of_nat (List.length b) | CScript n _ => n end.

Inductive fstate := FPresent (c : content) | FUnreadable (k : iokind).

Record source := {
  files : list ((string * string) * fstate);
  dirs : list (string * option iokind);
  faults : list (N * iokind);
  reads : N;
}.

Definition fkey_eqb (a b : string * string) : bool :=
  String.eqb (fst a) (fst b) && String.eqb (snd a) (snd b).

Fixpoint assoc {K V} (eqb : K -> K -> bool) (k : K) (l : list (K * V)) : option V :=
  match l with
  | [] => None
  | (k', v) :: r => if eqb k k' then Some v else assoc eqb k r
  end.

(* replace in place, or append *)
Fixpoint assoc_set {K V} (eqb : K -> K -> bool) (k : K) (v : V) (l : list (K * V)) : list (K * V) :=
  match l with
  | [] => [(k, v)]
  | (k', v') :: r => if eqb k k' then (k, v) :: r else (k', v') :: assoc_set eqb k v r
  end.

Definition assoc_del {K V} (eqb : K -> K -> bool) (k : K) (l : list (K * V)) : list (K * V) :=
  filter (fun kv => negb (eqb k (fst kv))) l.

(* DirEntry::parent_id *)
Fixpoint rfind_dot (s : string) (i : nat) (acc : option nat) : option nat :=
  match s with
  | EmptyString => acc
  | String c r => rfind_dot r (S i) (if Ascii.eqb c "."%char then Some i else acc)
  end.

Fixpoint take (n : nat) (s : string) : string :=
  match n, s with
  | O, _ => ""
  | S k, String c r => String c (take k r)
  | S _, EmptyString => ""
  end.

Definition parent_id (id : string) : option string :=
  if String.eqb id "" then None
  else match rfind_dot id 0 None with
       | Some n => Some (take n id)
       | None => Some ""
       end.

Definition opt_str_eqb (a : option string) (b : string) : bool :=
  match a with Some x => String.eqb x b | None => false end.

(* ------------------------------------------------------------------------------ trace *)

Inductive ev :=
| ERead (id ext : string) (res : string)      (* "ok:<len>" is written as ok + length *)
| EReadOk (id ext : string) (len : N)
| EReadDir (id : string) (res : string)
| EReadDirOk (id : string) (n : N)
| EMade (tag what : string) (tok : N)
| EFailed (tag what cls : string)
| EDrop (tok : N).

Definition kind_name (k : iokind) : string :=
  match k with
  | KNotFound => "NotFound" | KPermissionDenied => "PermissionDenied" | KInvalidData => "InvalidData"
  | KInterrupted => "Interrupted" | KUnexpectedEof => "UnexpectedEof" | KTimedOut => "TimedOut"
  | KOther => "Other"
  end.

(* one source access: consumes a read index; a planned fault wins over the stored state *)
Definition src_tick (s : source) : source * option iokind :=
  let idx := reads s in
  ({| files := files s; dirs := dirs s; faults := faults s; reads := N.succ idx |},
   assoc N.eqb idx (faults s)).

Definition src_read (s : source) (id ext : string) : source * sum iokind content * ev :=
  let '(s1, fault) := src_tick s in
  let r : sum iokind content :=
    match fault with
    | Some k => inl k
    | None =>
        match assoc fkey_eqb (id, ext) (files s) with
        | Some (FPresent c) => inr c
        | Some (FUnreadable k) => inl k
        | None => inl KNotFound
        end
    end in
  (s1, r, match r with
          | inl k => ERead id ext (kind_name k)
          | inr c => EReadOk id ext (content_len c)
          end).

Inductive dentry := DFile (id ext : string) | DDir (id : string).

Definition listing (s : source) (id : string) : list dentry :=
  flat_map (fun f => if opt_str_eqb (parent_id (fst (fst f))) id
                     then [DFile (fst (fst f)) (snd (fst f))] else []) (files s)
  ++ flat_map (fun d => if opt_str_eqb (parent_id (fst d)) id then [DDir (fst d)] else []) (dirs s).

Definition src_read_dir (s : source) (id : string) : source * sum iokind (list dentry) * ev :=
  let '(s1, fault) := src_tick s in
  let r : sum iokind (list dentry) :=
    match fault with
    | Some k => inl k
    | None =>
        match assoc String.eqb id (dirs s) with
        | None => inl KNotFound
        | Some (Some k) => inl k
        | Some None => inr (listing s id)
        end
    end in
  (s1, r, match r with
          | inl k => EReadDir id (kind_name k)
          | inr l => EReadDirOk id (N.of_nat (List.length l))
          end).

(* ------------------------------------------------------------------------------ values *)

Inductive value :=
| VInt (n : Z) (note : string)
| VBytes (b : list N)
| VIds (ids : list string).

(* an error: chain of asset ids wrapping a leaf class *)
Record err := { e_chain : list string; e_leaf : string }.

Inductive res (A : Type) := ROk (a : A) | RErr (e : err) | RPanic | RFuel.
Arguments ROk {A}. Arguments RErr {A}. Arguments RPanic {A}. Arguments RFuel {A}.

Record entry := {
  en_val : value;
  en_tok : N;              (* 0 = the value carries no token (directories) *)
  en_dyn : bool;           (* has a lock / can be rewritten by hot-reloading *)
  en_rid : N;              (* reload id *)
  en_flag : bool;          (* reload_global *)
  en_goi : bool;           (* ghost: the entry was stored by get_or_insert *)
}.

(* ------------------------------------------------------------------------------ parse_int *)

Definition is_ws (c : N) : bool :=
  N.eqb c 32 || N.eqb c 9 || N.eqb c 10 || N.eqb c 13 || N.eqb c 11 || N.eqb c 12.

Fixpoint drop_ws (b : list N) : list N :=
  match b with
  | c :: r => if is_ws c then drop_ws r else b
  | [] => []
  end.

Definition trim (b : list N) : list N := rev (drop_ws (rev (drop_ws b))).

Fixpoint digits (b : list N) (acc : Z) : option Z :=
  match b with
  | [] => Some acc
  | c :: r => if N.leb 48 c && N.leb c 57 then digits r (acc * 10 + Z.of_N (c - 48)) else None
  end.

(* str::trim + parse::<i64> on ASCII input (the generators avoid Unicode whitespace and values
   outside i64) *)
Definition parse_int (b : list N) : option Z :=
  match trim b with
  | [] => None
  | c :: r =>
      if N.eqb c 45 then match r with [] => None | _ => option_map Z.opp (digits r 0) end
      else if N.eqb c 43 then match r with [] => None | _ => digits r 0 end
      else digits (c :: r) 0
  end.

Definition str_weight (s : string) : Z :=
  Z.of_N (fold_left (fun a c => a + N_of_ascii c)%N (list_ascii_of_string s) 0%N) + 1.

(* ------------------------------------------------------------------------------ state *)

(* dependencies as recorded / stored in the graph *)
Inductive dep := DepFile (id ext : string) | DepDir (id : string) | DepAsset (k : key).

Definition dep_eqb (a b : dep) : bool :=
  match a, b with
  | DepFile i e, DepFile j f => String.eqb i j && String.eqb e f
  | DepDir i, DepDir j => String.eqb i j
  | DepAsset k, DepAsset l => key_eqb k l
  | _, _ => false
  end.

Definition dep_mem (d : dep) (l : list dep) : bool := existsb (dep_eqb d) l.
Definition dep_add (d : dep) (l : list dep) : list dep := if dep_mem d l then l else l ++ [d].
Definition dep_del (d : dep) (l : list dep) : list dep := filter (fun x => negb (dep_eqb d x)) l.

Record gnode := { g_typ : option ty; g_rdeps : list dep; g_deps : list dep }.

(* messages from the cache to its reloader (the Ptr / Static requests are modelled by the
   operations OHotReload / OEnhance themselves) *)
Inductive cmsg := MAddAsset (k : key) (deps : list dep) | MClear.

Record st := {
  src : source;
  cache : list (key * entry);
  next_tok : N;
  has_reloader : bool;     (* the cache was built with a reloader (AssetCache::with_source on a hot source) *)
  recs : list (option (list dep));   (* the thread-local RECORDING cell, as a stack (head = current) *)
  cm : list cmsg;                    (* cache messages not yet processed by the reloader, FIFO *)
  graph : list (dep * gnode);
  to_reload : list dep;              (* changed entries (DepFile / DepDir) kept for the next pass *)
  static_mode : bool;                (* enhance_hot_reloading was called *)
  watchers : list (N * (key * N));   (* live ReloadWatchers: number -> (key, last seen reload id) *)
}.

Definition set_src (s : st) (x : source) : st :=
  {| src := x; cache := cache s; next_tok := next_tok s; has_reloader := has_reloader s;
     recs := recs s; cm := cm s; graph := graph s; to_reload := to_reload s; static_mode := static_mode s; watchers := watchers s |}.
Definition set_cache (s : st) (c : list (key * entry)) : st :=
  {| src := src s; cache := c; next_tok := next_tok s; has_reloader := has_reloader s;
     recs := recs s; cm := cm s; graph := graph s; to_reload := to_reload s; static_mode := static_mode s; watchers := watchers s |}.
Definition bump_tok (s : st) : st * N :=
  ({| src := src s; cache := cache s; next_tok := N.succ (next_tok s); has_reloader := has_reloader s;
      recs := recs s; cm := cm s; graph := graph s; to_reload := to_reload s; static_mode := static_mode s; watchers := watchers s |},
   next_tok s).
Definition set_recs (s : st) (r : list (option (list dep))) : st :=
  {| src := src s; cache := cache s; next_tok := next_tok s; has_reloader := has_reloader s;
     recs := r; cm := cm s; graph := graph s; to_reload := to_reload s; static_mode := static_mode s; watchers := watchers s |}.
Definition set_cm (s : st) (m : list cmsg) : st :=
  {| src := src s; cache := cache s; next_tok := next_tok s; has_reloader := has_reloader s;
     recs := recs s; cm := m; graph := graph s; to_reload := to_reload s; static_mode := static_mode s; watchers := watchers s |}.
Definition set_graph (s : st) (g : list (dep * gnode)) : st :=
  {| src := src s; cache := cache s; next_tok := next_tok s; has_reloader := has_reloader s;
     recs := recs s; cm := cm s; graph := g; to_reload := to_reload s; static_mode := static_mode s; watchers := watchers s |}.
Definition set_to_reload (s : st) (l : list dep) : st :=
  {| src := src s; cache := cache s; next_tok := next_tok s; has_reloader := has_reloader s;
     recs := recs s; cm := cm s; graph := graph s; to_reload := l; static_mode := static_mode s; watchers := watchers s |}.
Definition set_watchers (s : st) (w : list (N * (key * N))) : st :=
  {| src := src s; cache := cache s; next_tok := next_tok s; has_reloader := has_reloader s;
     recs := recs s; cm := cm s; graph := graph s; to_reload := to_reload s; static_mode := static_mode s;
     watchers := w |}.
Definition set_static (s : st) (b : bool) : st :=
  {| src := src s; cache := cache s; next_tok := next_tok s; has_reloader := has_reloader s;
     recs := recs s; cm := cm s; graph := graph s; to_reload := to_reload s; static_mode := b; watchers := watchers s |}.

(* records::add_*_record: only when the cache has a reloader, into the current record if any *)
Definition rec_add (s : st) (d : dep) : st :=
  if has_reloader s then
    match recs s with
    | Some l :: r => set_recs s (Some (dep_add d l) :: r)
    | _ => s
    end
  else s.

Definition rec_push (s : st) (r : option (list dep)) : st := set_recs s (r :: recs s).
Definition rec_pop (s : st) : st * list dep :=
  match recs s with
  | Some l :: r => (set_recs s r, l)
  | None :: r => (set_recs s r, [])
  | [] => (s, [])
  end.

(* Cache::read / read_dir: record, then ask the source *)
Definition cache_read (s : st) (id ext : string) : st * sum iokind content * ev :=
  let s0 := rec_add s (DepFile id ext) in
  let '(sr, rd, e) := src_read (src s0) id ext in (set_src s0 sr, rd, e).

Definition cache_read_dir (s : st) (id : string) : st * sum iokind (list dentry) * ev :=
  let s0 := rec_add s (DepDir id) in
  let '(sr, rd, e) := src_read_dir (src s0) id in (set_src s0 sr, rd, e).

Definition cache_get (s : st) (k : key) : option entry := assoc key_eqb k (cache s).

(* CacheEntry::new: dynamic iff the TYPE is hot-reloaded and the cache has a reloader *)
(* CacheExt::add_any: what get_or_insert stores is never reloadable *)
Definition mark_goi (e : entry) : entry :=
  {| en_val := en_val e; en_tok := en_tok e; en_dyn := false; en_rid := en_rid e; en_flag := en_flag e;
     en_goi := true |}.

Definition mk_entry (s : st) (t : ty) (v : value) (tok : N) : entry :=
  {| en_val := v; en_tok := tok; en_dyn := hot_reloaded t && has_reloader s; en_rid := 0; en_flag := false;
     en_goi := false |}.

(* AssetMap::insert = entry(key).or_insert(entry): the first insertion wins; the loser's value is
   dropped.  Returns the entry now stored and the dropped tokens. *)
Definition cache_insert (s : st) (k : key) (e : entry) : st * entry * list ev :=
  match cache_get s k with
  | Some old => (s, old, if N.eqb (en_tok e) 0 then [] else [EDrop (en_tok e)])
  | None => (set_cache s (cache s ++ [(k, e)]), e, [])
  end.

Definition drop_of_tok (t : N) : list ev := if N.eqb t 0 then [] else [EDrop t].

Definition class_leaf (e : ekind) : string :=
  match e with
  | ENoDefault => "nodefault"
  | EIo k _ => ("io:" ++ kind_name k)%string
  | EConv _ => "conv"
  end.

Definition io_err (id : string) (k : iokind) : err := {| e_chain := []; e_leaf := ("io:" ++ kind_name k)%string |}.

Definition wrap (id : string) (e : err) : err := {| e_chain := id :: e_chain e; e_leaf := e_leaf e |}.

(* the value digest a script line adds for a loaded asset *)
Definition contribution (v : value) : Z :=
  match v with
  | VInt n _ => n
  | VBytes b => Z.of_nat (List.length b)
  | VIds ids => fold_left (fun a i => a + str_weight i)%Z ids 0%Z
  end.

(* ------------------------------------------------------------------------------ asset loads *)

(* load_from_source for an int-like asset type: the attempts in extension order, with the trace.
   Returns the state, the trace (oldest first) and either the made value + token or the folded error. *)
Fixpoint int_attempts (s : st) (t : ty) (id : string) (es : list string) (acc : ekind) (tr : list ev)
  : st * list ev * sum ekind (value * N) :=
  match es with
  | [] => (s, tr, inl acc)
  | e :: r =>
      let '(s1, rd, evr) := cache_read s id e in
      match rd with
      | inl k => int_attempts s1 t id r (Load.or (EIo k 0) acc) (tr ++ [evr])
      | inr c =>
          match t, c with
          | TB, CBytes b =>
              let '(s2, tok) := bump_tok s1 in
              (s2, tr ++ [evr; EMade (tag t) e tok], inr (VBytes b, tok))
          | TB, CScript n _ =>
              let '(s2, tok) := bump_tok s1 in
              (s2, tr ++ [evr; EMade (tag t) e tok], inr (VBytes [], tok))
          | _, CBytes b =>
              match parse_int b with
              | Some n =>
                  let '(s2, tok) := bump_tok s1 in
                  (s2, tr ++ [evr; EMade (tag t) e tok], inr (VInt n e, tok))
              | None =>
                  int_attempts s1 t id r (Load.or (EConv 0) acc) (tr ++ [evr; EFailed (tag t) e "conv"])
              end
          | _, CScript _ _ =>
              (* a script file read as an int asset: not an int *)
              int_attempts s1 t id r (Load.or (EConv 0) acc) (tr ++ [evr; EFailed (tag t) e "conv"])
          end
      end
  end.

Definition default_code (e : ekind) : Z :=
  match e with
  | EConv _ => -1
  | EIo KNotFound _ => -2
  | ENoDefault => -4
  | EIo _ _ => -3
  end.

(* T::load for the Asset types (TI TS TM TX TE TD TB TA TW) *)
Definition load_asset_value (s : st) (t : ty) (id : string) : st * list ev * res (value * N) :=
  let '(s1, tr, r) := int_attempts s t id (exts t) ENoDefault [] in
  match r with
  | inr vt => (s1, tr, ROk vt)
  | inl e =>
      match t with
      | TD =>
          let '(s2, tok) := bump_tok s1 in
          let what := ("default:" ++ class_leaf e)%string in
          (s2, tr ++ [EMade "D" what tok], ROk (VInt (default_code e) what, tok))
      | _ => (s1, tr, RErr {| e_chain := []; e_leaf := class_leaf e |})
      end
  end.

(* sort + dedup of ids (Directory::load).  Insertion sort on strings by byte order. *)
Fixpoint str_leb (a b : string) : bool :=
  match a, b with
  | EmptyString, _ => true
  | String _ _, EmptyString => false
  | String x r, String y q =>
      let nx := nat_of_ascii x in let ny := nat_of_ascii y in
      if Nat.ltb nx ny then true else if Nat.ltb ny nx then false else str_leb r q
  end.

Fixpoint insert_sorted (x : string) (l : list string) : list string :=
  match l with
  | [] => [x]
  | y :: r => if String.eqb x y then l else if str_leb x y then x :: l else y :: insert_sorted x r
  end.

Definition sort_dedup (l : list string) : list string := fold_right insert_sorted [] l.

(* ------------------------------------------------------------------------------ the evaluator *)

(* Cache::get_cached_entry_inner: the look-up is recorded as an asset dependency (for hot-reloaded
   types, when the cache has a reloader), whether or not the entry is there *)
Definition get_cached_rec (s : st) (t : ty) (id : string) : st * option entry :=
  let s0 := if hot_reloaded t then rec_add s (DepAsset (t, id)) else s in
  (s0, cache_get s0 (t, id)).

Section Eval.
  (* the evaluator at smaller fuel: load (t, id) through the cache (load_entry) *)
  Variable load_entry_rec : st -> ty -> string -> st * list ev * res entry.
  (* ... and without the cache (load_owned_entry): value + token *)
  Variable load_owned_rec : st -> ty -> string -> st * list ev * res (value * N).

  Definition is_loadable (t : ty) : bool := match t with TV => false | _ => true end.

  (* one script line: state, trace, contribution *)
  Fixpoint run_line (s : st) (l : line) : st * list ev * res Z :=
    match l with
    | LVal z => (s, [], ROk z)
    | LLoad t id =>
        if negb (is_loadable t) then (s, [], RErr {| e_chain := []; e_leaf := "other" |}) else
        let '(s1, tr, r) := load_entry_rec s t id in
        (s1, tr, match r with
                 | ROk e => ROk (contribution (en_val e))
                 | RErr e => RErr e | RPanic => RPanic | RFuel => RFuel
                 end)
    | LCached t id =>
        let '(s1, o) := get_cached_rec s t id in
        (s1, [], ROk (match o with
                      | Some e => contribution (en_val e) + 1
                      | None => 0
                      end)%Z)
    | LOwned t id =>
        if negb (is_loadable t) then (s, [], RErr {| e_chain := []; e_leaf := "other" |}) else
        let '(s1, tr, r) := load_owned_rec s t id in
        match r with
        | ROk (v, tok) => (s1, tr ++ (if N.eqb tok 0 then [] else [EDrop tok]), ROk (contribution v))
        | RErr e => (s1, tr, RErr e)
        | RPanic => (s1, tr, RPanic)
        | RFuel => (s1, tr, RFuel)
        end
    | LNoRec l' =>
        (* records::no_record: the cell holds None for the duration, restored on every exit *)
        let '(s1, tr, r) := run_line (rec_push s None) l' in
        (fst (rec_pop s1), tr, r)
    | LTry l' =>
        let '(s1, tr, r) := run_line s l' in
        (s1, tr, match r with RErr _ => ROk (-7)%Z | x => x end)
    | LReadFile id ext =>
        let '(s1, rd, evr) := cache_read s id ext in
        (s1, [evr],
         match rd with
         | inl k => RErr (io_err id k)
         | inr c => ROk (Z.of_N (content_len c))
         end)
    | LReadDir id =>
        let '(s1, rd, evr) := cache_read_dir s id in
        (s1, [evr],
         match rd with
         | inl k => RErr (io_err id k)
         | inr l => ROk (Z.of_nat (List.length l))
         end)
    | LInsert id z =>
        (* get_or_insert::<SVal>(id, SVal(V::new(z))): the argument is built first *)
        let '(s1, tok) := bump_tok s in
        match cache_get s1 (TV, id) with
        | Some e => (s1, [EDrop tok], ROk (contribution (en_val e)))
        | None =>
            let e := mark_goi (mk_entry s1 TV (VInt z "insert") tok) in
            let '(s2, e', drops) := cache_insert s1 (TV, id) e in
            (s2, drops, ROk (contribution (en_val e')))
        end
    | LThread l' =>
        (* a helper thread has its own, empty, recording cell *)
        let '(s1, tr, r) := run_line (rec_push s None) l' in
        (fst (rec_pop s1), tr, match r with
                                | RErr _ => RErr {| e_chain := []; e_leaf := "fail" |}
                                | x => x
                                end)
    | LCatch l' =>
        (* catch_unwind around a line, inside the load *)
        let '(s1, tr, r) := run_line s l' in
        (s1, tr, match r with RPanic => ROk (-9)%Z | x => x end)
    | LFail => (s, [], RErr {| e_chain := []; e_leaf := "fail" |})
    | LPanic => (s, [], RPanic)
    end.

  Fixpoint run_lines (s : st) (ls : list line) (sum : Z) (tr : list ev) : st * list ev * res Z :=
    match ls with
    | [] => (s, tr, ROk sum)
    | l :: r =>
        let '(s1, tr1, x) := run_line s l in
        match x with
        | ROk z => run_lines s1 r (sum + z)%Z (tr ++ tr1)
        | RErr e => (s1, tr ++ tr1, RErr e)
        | RPanic => (s1, tr ++ tr1, RPanic)
        | RFuel => (s1, tr ++ tr1, RFuel)
        end
    end.

  (* Compound::load of TNode / TNodeS *)
  Definition load_node_value (s : st) (t : ty) (id : string) : st * list ev * res (value * N) :=
    let '(s1, rd, evr) := cache_read s id "n" in
    match rd with
    | inl k => (s1, [evr], RErr (io_err id k))
    | inr (CBytes _) => (s1, [evr; EFailed (tag t) id "script"], RErr {| e_chain := []; e_leaf := "other" |})
    | inr (CScript _ ls) =>
        let '(s2, tr, r) := run_lines s1 ls 0%Z [evr] in
        match r with
        | ROk z =>
            let '(s3, tok) := bump_tok s2 in
            (s3, tr ++ [EMade (tag t) id tok], ROk (VInt z "node", tok))
        | RErr e => (s2, tr ++ [EFailed (tag t) id "script"], RErr e)
        | RPanic => (s2, tr, RPanic)
        | RFuel => (s2, tr, RFuel)
        end
    end.

  (* Directory<TInt>::load: the ids of the files of [id] with extension "x", sorted, no duplicates *)
  Definition load_dir_value (s : st) (id : string) : st * list ev * res (value * N) :=
    let '(s1, rd, evr) := cache_read_dir s id in
    match rd with
    | inl k => (s1, [evr], RErr (io_err id k))
    | inr l =>
        let ids := flat_map (fun d => match d with
                                      | DFile i e => if existsb (String.eqb e) (exts TI) then [i] else []
                                      | DDir _ => []
                                      end) l in
        (s1, [evr], ROk (VIds (sort_dedup ids), 0%N))
    end.

  (* RecursiveDirectory<TInt>::load: the sub-directories, in listing order; unreadable ones are skipped *)
  Fixpoint rdir_go (s : st) (ds : list string) (ids : list string) (tr : list ev)
    : st * list ev * res (list string) :=
    match ds with
    | [] => (s, tr, ROk ids)
    | d :: r =>
        let '(s', tr', x) := load_entry_rec s TRI d in
        match x with
        | ROk child =>
            rdir_go s' r (ids ++ match en_val child with VIds i => i | _ => [] end) (tr ++ tr')
        | RErr _ => rdir_go s' r ids (tr ++ tr')
        | RPanic => (s', tr ++ tr', RPanic)
        | RFuel => (s', tr ++ tr', RFuel)
        end
    end.

  Definition load_rec_dir_value (s : st) (id : string) : st * list ev * res (value * N) :=
    let '(s1, tr1, r1) := load_entry_rec s TDI id in
    match r1 with
    | RErr e => (s1, tr1, RErr e)
    | RPanic => (s1, tr1, RPanic)
    | RFuel => (s1, tr1, RFuel)
    | ROk this =>
        let ids0 := match en_val this with VIds i => i | _ => [] end in
        let '(s2, rd, evr) := cache_read_dir s1 id in
        match rd with
        | inl k => (s2, tr1 ++ [evr], RErr (io_err id k))
        | inr l =>
            let subdirs := flat_map (fun d => match d with DDir i => [i] | _ => [] end) l in
            let '(s3, tr3, x) := rdir_go s2 subdirs ids0 (tr1 ++ [evr]) in
            (s3, tr3, match x with
                      | ROk ids => ROk (VIds ids, 0%N)
                      | RErr e => RErr e | RPanic => RPanic | RFuel => RFuel
                      end)
        end
    end.

  (* T::load *)
  Definition load_value (s : st) (t : ty) (id : string) : st * list ev * res (value * N) :=
    match t with
    | TN | TNS => load_node_value s t id
    | TDI => load_dir_value s id
    | TRI => load_rec_dir_value s id
    | TV => (s, [], RErr {| e_chain := []; e_leaf := "other" |})
    | _ => load_asset_value s t id
    end.

  (* Inner::of_asset::load_entry: errors are wrapped with the id being loaded *)
  Definition load_wrapped (s : st) (t : ty) (id : string) : st * list ev * res (value * N) :=
    let '(s1, tr, r) := load_value s t id in
    (s1, tr, match r with RErr e => RErr (wrap id e) | x => x end).

  (* asset::load_and_record: a hot-reloaded type loaded through a cache with a reloader records its
     own dependencies in a fresh record (restored on every exit) and, on success, registers them;
     any other load runs under the record that is current, if any *)
  Definition load_and_record (s : st) (t : ty) (id : string) : st * list ev * res (value * N) :=
    if hot_reloaded t && has_reloader s then
      let '(s1, tr, r) := load_wrapped (rec_push s (Some [])) t id in
      let '(s2, deps) := rec_pop s1 in
      (match r with
       | ROk _ => set_cm s2 (cm s2 ++ [MAddAsset (t, id) deps])
       | _ => s2
       end, tr, r)
    else load_wrapped s t id.

  (* Cache::load_entry = get_cached_entry_inner, else add_asset (load_and_record, then insert) *)
  Definition load_entry (s : st) (t : ty) (id : string) : st * list ev * res entry :=
    let '(s0, o) := get_cached_rec s t id in
    match o with
    | Some e => (s0, [], ROk e)
    | None =>
        let '(s1, tr, r) := load_and_record s0 t id in
        match r with
        | ROk (v, tok) =>
            let e := mk_entry s1 t v tok in
            let '(s2, e', drops) := cache_insert s1 (t, id) e in
            (s2, tr ++ drops, ROk e')
        | RErr e => (s1, tr, RErr e)
        | RPanic => (s1, tr, RPanic)
        | RFuel => (s1, tr, RFuel)
        end
    end.

  (* Cache::load_owned_entry: recorded as a dependency, never looks at the map *)
  Definition load_owned (s : st) (t : ty) (id : string) : st * list ev * res (value * N) :=
    let s0 := if hot_reloaded t then rec_add s (DepAsset (t, id)) else s in
    load_and_record s0 t id.
End Eval.

Fixpoint load_entry_f (fuel : nat) (s : st) (t : ty) (id : string) : st * list ev * res entry :=
  match fuel with
  | O => (s, [], RFuel)
  | S f => load_entry (load_entry_f f) (load_owned_f f) s t id
  end
with load_owned_f (fuel : nat) (s : st) (t : ty) (id : string) : st * list ev * res (value * N) :=
  match fuel with
  | O => (s, [], RFuel)
  | S f => load_owned (load_entry_f f) (load_owned_f f) s t id
  end.

(* ------------------------------------------------------------------------------ the reloader *)

Definition gnode_default : gnode := {| g_typ := None; g_rdeps := []; g_deps := [] |}.

Definition g_get (g : list (dep * gnode)) (d : dep) : option gnode := assoc dep_eqb d g.

Definition g_upd (g : list (dep * gnode)) (d : dep) (f : gnode -> gnode) : list (dep * gnode) :=
  match g_get g d with
  | Some n => assoc_set dep_eqb d (f n) g
  | None => g
  end.

(* DepsGraph::insert *)
Definition graph_insert (g : list (dep * gnode)) (a : dep) (deps : list dep) (t : ty) : list (dep * gnode) :=
  let g1 := fold_left (fun g d =>
                         let n := match g_get g d with Some n => n | None => gnode_default end in
                         assoc_set dep_eqb d {| g_typ := g_typ n; g_rdeps := dep_add a (g_rdeps n);
                                               g_deps := g_deps n |} g) deps g in
  match g_get g1 a with
  | None => g1 ++ [(a, {| g_typ := Some t; g_rdeps := []; g_deps := deps |})]
  | Some n =>
      let removed := filter (fun d => negb (dep_mem d deps)) (g_deps n) in
      let g2 := assoc_set dep_eqb a {| g_typ := Some t; g_rdeps := g_rdeps n; g_deps := deps |} g1 in
      fold_left (fun g d => g_upd g d (fun m => {| g_typ := g_typ m; g_rdeps := dep_del a (g_rdeps m);
                                                    g_deps := g_deps m |})) removed g2
  end.

(* the reloader drains its cache messages, in order *)
Definition process_msg (s : st) (m : cmsg) : st :=
  match m with
  | MAddAsset k deps => set_graph s (graph_insert (graph s) (DepAsset k) deps (fst k))
  | MClear => set_to_reload s []
  end.

Definition drain (s : st) : st := set_cm (fold_left process_msg (cm s) s) [].

(* HotReloadingData::handle_events (without the pass): keep the entries the graph knows *)
Definition dep_of_dentry (d : dentry) : dep :=
  match d with DFile i e => DepFile i e | DDir i => DepDir i end.

Definition take_events (s : st) (es : list dentry) : st :=
  fold_left (fun s d =>
               let x := dep_of_dentry d in
               match g_get (graph s) x with
               | Some _ => set_to_reload s (dep_add x (to_reload s))
               | None => s
               end) es s.

(* the assets a pass must visit: everything reachable from the changed entries through reverse
   dependencies (fuel-bounded closure) *)
Fixpoint reach_from (fuel : nat) (g : list (dep * gnode)) (front : list dep) (seen : list dep) : list dep :=
  match fuel with
  | O => seen
  | S f =>
      let new := fold_left (fun acc d => if dep_mem d acc then acc else acc ++ [d]) front seen in
      let next := flat_map (fun d => match g_get g d with
                                     | Some n => filter (fun x => negb (dep_mem x new)) (g_rdeps n)
                                     | None => []
                                     end) front in
      match next with
      | [] => new
      | _ => reach_from f g next new
      end
  end.

Definition pass_set (s : st) : list key :=
  let roots := filter (fun d => match g_get (graph s) d with Some _ => true | None => false end) (to_reload s) in
  flat_map (fun d => match d with DepAsset k => [k] | _ => [] end)
    (reach_from (S (List.length (graph s))) (graph s) roots []).

Definition key_mem (k : key) (l : list key) : bool := existsb (key_eqb k) l.

Fixpoint nodup_keys (l : list key) : bool :=
  match l with [] => true | k :: r => negb (key_mem k r) && nodup_keys r end.

Definition same_keys (a b : list key) : bool :=
  forallb (fun k => key_mem k b) a && forallb (fun k => key_mem k a) b.

(* dependencies first: every asset an asset of the pass depends on, if it is in the pass too,
   comes earlier *)
Fixpoint deps_first (g : list (dep * gnode)) (order : list key) (earlier : list key) : bool :=
  match order with
  | [] => true
  | k :: r =>
      let ok := match g_get g (DepAsset k) with
                | Some n => forallb (fun d => match d with
                                              | DepAsset k' => negb (key_mem k' r) || key_eqb k k'
                                              | _ => true
                                              end) (g_deps n)
                | None => true
                end in
      ok && deps_first g r (earlier ++ [k])
  end.

(* does the part of the graph visited by the pass contain a cycle (assets looking each other up)? *)
Definition has_cycle (g : list (dep * gnode)) (ks : list key) : bool :=
  existsb (fun k =>
             match g_get g (DepAsset k) with
             | Some n =>
                 dep_mem (DepAsset k)
                   (reach_from (S (List.length g)) g (g_rdeps n) [])
             | None => false
             end) ks.

Definition legal_order (s : st) (order : list key) : bool :=
  nodup_keys order && same_keys order (pass_set s)
  && (deps_first (graph s) order [] || has_cycle (graph s) order).

Definition cache_set (s : st) (k : key) (e : entry) : st := set_cache s (assoc_set key_eqb k e (cache s)).

(* AnyCache::reload_untyped + DepsGraph::reload, for one asset of the pass *)
Definition reload_one (fuel : nat) (s : st) (k : key) : st * list ev :=
  match g_get (graph s) (DepAsset k) with
  | None => (s, [])
  | Some n =>
      match g_typ n with
      | None => (s, [])
      | Some t =>
          match cache_get s k with
          | None => (s, [])
          | Some old =>
              (* entries that are not reloadable (get_or_insert, non hot-reloaded types) are skipped
                 before anything is read *)
              if negb (en_dyn old) then (s, []) else
              let '(s1, tr, r) := load_wrapped (load_entry_f fuel) (load_owned_f fuel) (rec_push s (Some [])) t (snd k) in
              let '(s2, deps) := rec_pop s1 in
              match r with
              | ROk (v, tok) =>
                  let e := {| en_val := v; en_tok := tok; en_dyn := true;
                              en_rid := N.succ (en_rid old); en_flag := true; en_goi := en_goi old |} in
                  (set_graph (cache_set s2 k e) (graph_insert (graph s2) (DepAsset k) deps t),
                   tr ++ drop_of_tok (en_tok old))
              | _ => (s2, tr)
              end
          end
      end
  end.

Fixpoint reload_all (fuel : nat) (s : st) (order : list key) (tr : list ev) : st * list ev :=
  match order with
  | [] => (s, tr)
  | k :: r => let '(s1, tr1) := reload_one fuel s k in reload_all fuel s1 r (tr ++ tr1)
  end.

(* run_update under the order the implementation used *)
Definition run_pass (fuel : nat) (s : st) (order : list key) : st * bool * list ev :=
  let ok := legal_order s order in
  let '(s1, tr) := reload_all fuel (set_to_reload s []) order [] in
  (s1, ok, tr).

(* ------------------------------------------------------------------------------ operations *)

Inductive op :=
| OLoad (t : ty) (id : string)
| OLoadOwned (t : ty) (id : string)
| OGetCached (t : ty) (id : string)
| OGetOrInsert (t : ty) (id : string) (z : Z)   (* get_or_insert::<T>(id, value z) for T in TV TI TS *)
| OContains (t : ty) (id : string)
| ORemove (t : ty) (id : string)
| OTake (t : ty) (id : string)
| OClear
| OWrite (id ext : string) (c : content)
| ODelete (id ext : string)
| OUnreadable (id ext : string) (k : iokind)
| OMkdir (id : string)
| ORmdir (id : string)
| ODirUnreadable (id : string) (k : iokind)
| OSetFaults (l : list (N * iokind))
(* hot-reloading; [order] is the order in which the implementation's pass visited the assets *)
| ONotify (es : list dentry) (order : list key)
| OHotReload (order : list key)
| OEnhance (order : list key)
| OReloadId (t : ty) (id : string)
| OPollGlobal (t : ty) (id : string)
| OWatch (w : N) (t : ty) (id : string)
| OPollWatcher (w : N).

Inductive out :=
| OutVal (v : value) (tok : N)
| OutErr (e : err)
| OutPanic
| OutNone
| OutBool (b : bool)
| OutUnit
| OutRid (n : N)
| OutFuel.

Definition out_of_res (r : res (value * N)) : out :=
  match r with
  | ROk (v, tok) => OutVal v tok
  | RErr e => OutErr e
  | RPanic => OutPanic
  | RFuel => OutFuel
  end.

Definition set_files (x : source) f : source :=
  {| files := f; dirs := dirs x; faults := faults x; reads := reads x |}.
Definition set_dirs (x : source) d : source :=
  {| files := files x; dirs := d; faults := faults x; reads := reads x |}.

Definition drop_of (e : entry) : list ev := drop_of_tok (en_tok e).

Definition forget_watchers (s : st) (p : key -> bool) : st :=
  set_watchers s (filter (fun w => negb (p (fst (snd w)))) (watchers s)).

Definition step (fuel : nat) (s : st) (o : op) : st * out * list ev :=
  match o with
  | OLoad t id =>
      let '(s1, tr, r) := load_entry_f fuel s t id in
      (s1, match r with
           | ROk e => OutVal (en_val e) (en_tok e)
           | RErr e => OutErr e | RPanic => OutPanic | RFuel => OutFuel
           end, tr)
  | OLoadOwned t id =>
      let '(s1, tr, r) := load_owned_f fuel s t id in
      (* the caller owns the value and drops it after looking at it *)
      (s1, out_of_res r, tr ++ match r with ROk (_, tok) => drop_of_tok tok | _ => [] end)
  | OGetCached t id =>
      let '(s1, o) := get_cached_rec s t id in
      (s1, match o with Some e => OutVal (en_val e) (en_tok e) | None => OutNone end, [])
  | OGetOrInsert t id z =>
      let '(s1, tok) := bump_tok s in
      let '(s2, o) := get_cached_rec s1 t id in
      match o with
      | Some e => (s2, OutVal (en_val e) (en_tok e), [EDrop tok])
      | None =>
          let e := mark_goi (mk_entry s2 t (VInt z "insert") tok) in
          let '(s3, e', drops) := cache_insert s2 (t, id) e in
          (s3, OutVal (en_val e') (en_tok e'), drops)
      end
  | OContains t id => (s, OutBool (match cache_get s (t, id) with Some _ => true | None => false end), [])
  | ORemove t id =>
      match cache_get s (t, id) with
      | Some e => (forget_watchers (set_cache s (assoc_del key_eqb (t, id) (cache s))) (key_eqb (t, id)),
                   OutBool true, drop_of e)
      | None => (s, OutBool false, [])
      end
  | OTake t id =>
      match cache_get s (t, id) with
      | Some e => (forget_watchers (set_cache s (assoc_del key_eqb (t, id) (cache s))) (key_eqb (t, id)),
                   OutVal (en_val e) (en_tok e), drop_of e)
      | None => (s, OutNone, [])
      end
  | OClear =>
      let s1 := forget_watchers (set_cache s []) (fun _ => true) in
      (if has_reloader s then set_cm s1 (cm s1 ++ [MClear]) else s1, OutUnit,
       flat_map (fun kv => drop_of (snd kv)) (cache s))
  | OWrite id ext c =>
      (set_src s (set_files (src s) (assoc_set fkey_eqb (id, ext) (FPresent c) (files (src s)))), OutUnit, [])
  | ODelete id ext =>
      (set_src s (set_files (src s) (assoc_del fkey_eqb (id, ext) (files (src s)))), OutUnit, [])
  | OUnreadable id ext k =>
      (set_src s (set_files (src s) (assoc_set fkey_eqb (id, ext) (FUnreadable k) (files (src s)))), OutUnit, [])
  | OMkdir id =>
      (set_src s (set_dirs (src s) (assoc_set String.eqb id None (dirs (src s)))), OutUnit, [])
  | ORmdir id =>
      (set_src s (set_dirs (src s) (assoc_del String.eqb id (dirs (src s)))), OutUnit, [])
  | ODirUnreadable id k =>
      (set_src s (set_dirs (src s) (assoc_set String.eqb id (Some k) (dirs (src s)))), OutUnit, [])
  | OSetFaults l =>
      (set_src s {| files := files (src s); dirs := dirs (src s); faults := l; reads := 0 |}, OutUnit, [])
  | ONotify es order =>
      if has_reloader s then
        let s1 := take_events (drain s) es in
        if static_mode s1 then
          let '(s2, ok, tr) := run_pass fuel s1 order in (s2, OutBool ok, tr)
        else (s1, OutBool (match order with [] => true | _ => false end), [])
      else (s, OutBool true, [])
  | OHotReload order =>
      if has_reloader s then
        if static_mode s then
          (* update_if_local does nothing once the reloader holds the 'static reference *)
          (drain s, OutBool (match order with [] => true | _ => false end), [])
        else
          let '(s1, ok, tr) := run_pass fuel (drain s) order in (s1, OutBool ok, tr)
      else (s, OutBool (match order with [] => true | _ => false end), [])
  | OEnhance order =>
      if has_reloader s && negb (static_mode s) then
        let '(s1, ok, tr) := run_pass fuel (set_static (drain s) true) order in (s1, OutBool ok, tr)
      else (s, OutBool (match order with [] => true | _ => false end), [])
  | OReloadId t id =>
      (s, match cache_get s (t, id) with
          | Some e => OutRid (if en_dyn e then en_rid e else 0%N)
          | None => OutNone
          end, [])
  | OPollGlobal t id =>
      match cache_get s (t, id) with
      | Some e =>
          if en_dyn e then
            (cache_set s (t, id) {| en_val := en_val e; en_tok := en_tok e; en_dyn := true;
                                    en_rid := en_rid e; en_flag := false; en_goi := en_goi e |}, OutBool (en_flag e), [])
          else (s, OutBool false, [])
      | None => (s, OutNone, [])
      end
  | OWatch w t id =>
      match cache_get s (t, id) with
      | Some e => (set_watchers s (assoc_set N.eqb w ((t, id), if en_dyn e then en_rid e else 0%N) (watchers s)),
                   OutBool true, [])
      | None => (s, OutNone, [])
      end
  | OPollWatcher w =>
      match assoc N.eqb w (watchers s) with
      | Some (k, last) =>
          match cache_get s k with
          | Some e =>
              let cur := if en_dyn e then en_rid e else 0%N in
              (set_watchers s (assoc_set N.eqb w (k, N.max last cur) (watchers s)), OutBool (N.ltb last cur), [])
          | None => (s, OutNone, [])
          end
      | None => (s, OutNone, [])
      end
  end.

Definition init_st (reloader : bool) : st :=
  {| src := {| files := []; dirs := [("", None)]; faults := []; reads := 0 |};
     cache := []; next_tok := 1; has_reloader := reloader;
     recs := []; cm := []; graph := []; to_reload := []; static_mode := false; watchers := [] |}.

Definition default_fuel := 40%nat.

(* run a whole history; outputs and traces per operation *)
Fixpoint run (s : st) (ops : list op) : st * list (out * list ev) :=
  match ops with
  | [] => (s, [])
  | o :: r =>
      let '(s1, x, tr) := step default_fuel s o in
      let '(s2, rest) := run s1 r in
      (s2, (x, tr) :: rest)
  end.
