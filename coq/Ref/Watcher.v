(* Filesystem notifications -> source entries (src/hot_reloading/watcher.rs) and the inverse
   direction path_of (src/utils/private.rs path_of_entry), over paths given as component lists.

   Ids are lists of dot-free, non-empty segments (joined with '.' in the crate); a file name is
   `stem` or `stem.ext`.  What std::path does is modelled by [split_name] (file_stem / extension:
   split at the LAST dot, a leading dot belongs to the stem) and by component lists. *)
From Coq Require Import List String Ascii Bool Arith.
Import ListNotations.
Open Scope string_scope.
Open Scope list_scope.

Inductive comp := CNormal (s : string) | CParent | CCur.
Definition path := list comp.

Fixpoint has_dot (s : string) : bool :=
  match s with EmptyString => false | String c r => Ascii.eqb c "."%char || has_dot r end.

(* index-free split at the last dot: (stem, Some ext) / (name, None) *)
Fixpoint split_last_dot (s : string) : option (string * string) :=
  match s with
  | EmptyString => None
  | String c r =>
      match split_last_dot r with
      | Some (a, b) => Some (String c a, b)
      | None => if Ascii.eqb c "."%char then Some ("", r) else None
      end
  end.

(* Path::file_stem / Path::extension of a file name (not "..") *)
Definition split_name (name : string) : string * option string :=
  match split_last_dot name with
  | Some ("", _) => (name, None)          (* ".hidden": no extension *)
  | Some (stem, ext) => (stem, Some ext)
  | None => (name, None)
  end.

Inductive entry := EFile (id : list string) (ext : string) | EDir (id : list string).

(* IdBuilder at segment level: push rejects dotted segments *)
Definition id_push (b : list string) (s : string) : option (list string) :=
  if has_dot s then None else Some (b ++ [s]).
Definition id_pop (b : list string) : option (list string) :=
  match b with [] => None | _ => Some (removelast b) end.

Fixpoint strip_prefix (root p : path) : option path :=
  match root, p with
  | [], r => Some r
  | CNormal a :: ro, CNormal b :: r => if String.eqb a b then strip_prefix ro r else None
  | _, _ => None
  end.

Fixpoint walk (b : list string) (cs : path) : option (list string) :=
  match cs with
  | [] => Some b
  | CNormal s :: r => match id_push b s with Some b' => walk b' r | None => None end
  | CParent :: r => match id_pop b with Some b' => walk b' r | None => None end
  | CCur :: r => walk b r
  end.

Fixpoint path_eqb (a b : path) : bool :=
  match a, b with
  | [], [] => true
  | CNormal x :: r, CNormal y :: s => String.eqb x y && path_eqb r s
  | CParent :: r, CParent :: s | CCur :: r, CCur :: s => path_eqb r s
  | _, _ => false
  end.

(* id_of_path; [root_is_entry] = the repaired behaviour "the root itself is Directory \"\"" *)
Definition id_of_path (root_is_entry : bool) (root p : path) (is_dir : bool) : option entry :=
  if root_is_entry && path_eqb p root then Some (EDir []) else
  match rev p with
  | [] => None
  | last :: rparent =>
      match strip_prefix root (rev rparent) with
      | None => None
      | Some rest =>
          match walk [] rest, last with
          | Some b, CNormal name =>
              let '(stem, ext) := split_name name in
              match id_push b stem with
              | None => None
              | Some id =>
                  if is_dir then Some (EDir id)
                  else Some (EFile id (match ext with Some e => e | None => "" end))
              end
          | _, _ => None
          end
      end
  end.

(* notification kinds as far as the handler distinguishes them *)
Inductive kind := KAny | KModifyData | KModifyName | KCreate | KRemove | KAccess | KOther.

Definition parent_of (p : path) : option path :=
  match rev p with [] => None | _ :: r => Some (rev r) end.

(* which paths of an event are looked up; [full] = repaired table (rename and remove name the
   entry AND its parent) *)
Definition event_paths (full : bool) (k : kind) (p : path) : list path :=
  let both := match parent_of p with Some q => [p; q] | None => [p] end in
  match k with
  | KAny | KModifyData => [p]
  | KModifyName => if full then both else [p]
  | KCreate => both
  | KRemove => if full then both else match parent_of p with Some q => [q] | None => [] end
  | KAccess | KOther => []
  end.

(* the handler: every looked-up path against every root *)
Definition handle (fixed : bool) (roots : list path) (is_dir : path -> bool) (k : kind) (p : path)
  : list entry :=
  flat_map (fun q => flat_map (fun r => match id_of_path fixed r q (is_dir q) with
                                        | Some e => [e]
                                        | None => []
                                        end) roots)
    (event_paths fixed k p).

(* the other direction: FileSystem::path_of *)
Definition file_name (stem ext : string) : string :=
  if String.eqb ext "" then stem else (stem ++ "." ++ ext)%string.

Definition path_of (root : path) (e : entry) : path :=
  match e with
  | EDir id => root ++ map CNormal id
  | EFile id ext =>
      match rev id with
      | [] => root                                        (* not a valid file entry *)
      | stem :: rinit => root ++ map CNormal (rev rinit) ++ [CNormal (file_name stem ext)]
      end
  end.

(* valid names: non-empty, dot-free segments; dot-free extension *)
Definition seg_ok (s : string) : bool := negb (String.eqb s "") && negb (has_dot s).
Definition entry_ok (e : entry) : bool :=
  match e with
  | EDir id => forallb seg_ok id
  | EFile id ext => forallb seg_ok id && negb (has_dot ext) && match id with [] => false | _ => true end
  end.
Definition root_ok (r : path) : bool :=
  forallb (fun c => match c with CNormal _ => true | _ => false end) r.
Definition is_dir_entry (e : entry) : bool := match e with EDir _ => true | EFile _ _ => false end.
