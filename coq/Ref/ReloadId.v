(* Reference model of ReloadId / AtomicReloadId (src/entry.rs:700-800).
   Ids are unbounded [N]: wrap-around of usize after 2^64 reloads is outside property C18. *)
From Coq Require Import List NArith Bool.
Import ListNotations.
Open Scope N_scope.

Definition rid := N.
Definition NEVER : rid := 0.

(* ReloadId::update: new stored id, answer *)
Definition update (cur new : rid) : rid * bool := (N.max cur new, N.ltb cur new).

(* Operations on one AtomicReloadId; each is ONE atomic read-modify-write of the cell (that
   AtomicUsize::{fetch_max,swap,...} are atomic is part of the trusted base), followed by purely
   thread-local computation. *)
Inductive aop :=
| AUpdate (n : rid)      (* AtomicReloadId::update    *)
| AFetchMax (n : rid)    (* AtomicReloadId::fetch_max *)
| ASwap (n : rid)        (* AtomicReloadId::swap      *)
| AStore (n : rid)
| ALoad
| AIncrement.

Inductive aout := OBool (b : bool) | OId (n : rid) | ONone.

Definition astep (c : rid) (o : aop) : rid * aout :=
  match o with
  | AUpdate n => (N.max c n, OBool (N.ltb c n))
  | AFetchMax n => (N.max c n, OId c)
  | ASwap n => (n, OId c)
  | AStore n => (n, ONone)
  | ALoad => (c, OId c)
  | AIncrement => (c + 1, ONone)
  end.

(* ---- threads offering ids concurrently ---- *)

Record event := { ev_tid : nat; ev_op : aop; ev_before : rid; ev_after : rid; ev_out : aout }.

Record cfg := { cell : rid; todo : list (list aop); log : list event (* newest first *) }.

Fixpoint pop_nth (t : nat) (l : list (list aop)) : option (aop * list (list aop)) :=
  match t, l with
  | O, (o :: r) :: rest => Some (o, r :: rest)
  | O, _ => None
  | S k, x :: rest =>
      match pop_nth k rest with
      | Some (o, rest') => Some (o, x :: rest')
      | None => None
      end
  | S _, [] => None
  end.

(* picking a thread that has nothing left to do is a stutter *)
Definition step (c : cfg) (t : nat) : cfg :=
  match pop_nth t (todo c) with
  | None => c
  | Some (o, todo') =>
      let '(c', out) := astep (cell c) o in
      {| cell := c'; todo := todo';
         log := {| ev_tid := t; ev_op := o; ev_before := cell c; ev_after := c'; ev_out := out |}
                :: log c |}
  end.

Definition run (sched : list nat) (c : cfg) : cfg := fold_left step sched c.

Definition init_cfg (c0 : rid) (threads : list (list aop)) : cfg :=
  {| cell := c0; todo := threads; log := [] |}.

Definition all_done (c : cfg) : bool := forallb (fun l => match l with [] => true | _ => false end) (todo c).

Definition offered (o : aop) : option rid :=
  match o with AUpdate n | AFetchMax n => Some n | _ => None end.

Definition is_max_op (o : aop) : bool :=
  match o with AUpdate _ | AFetchMax _ | ALoad => true | _ => false end.

Fixpoint maxl (c : rid) (l : list rid) : rid :=
  match l with [] => c | x :: r => maxl (N.max c x) r end.

(* ---- acceptance predicate for logs observed on the implementation (ridiff, concurrent part):
   per-thread lists of (offered id, answer of update), initial and final value ---- *)

Definition trues (l : list (rid * bool)) : list rid :=
  map fst (filter snd l).

Fixpoint strictly_increasing (l : list rid) : bool :=
  match l with
  | x :: ((y :: _) as r) => N.ltb x y && strictly_increasing r
  | _ => true
  end.

Fixpoint nodupb (l : list rid) : bool :=
  match l with
  | [] => true
  | x :: r => negb (existsb (N.eqb x) r) && nodupb r
  end.

Definition accept_updates (c0 : rid) (threads : list (list (rid * bool))) (final : rid) : bool :=
  let all := concat threads in
  let offers := map fst all in
  let ts := trues all in
  N.eqb final (maxl c0 offers)                                    (* final = max offered   *)
  && forallb (fun l => strictly_increasing (trues l)) threads     (* per caller: growths   *)
  && nodupb ts                                                    (* one true per growth   *)
  && forallb (fun n => N.ltb c0 n) ts                             (* a true really grew    *)
  && (if N.ltb c0 final then existsb (N.eqb final) ts else match ts with [] => true | _ => false end).
                                                                  (* the max is reported   *)
