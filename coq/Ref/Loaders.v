(* The built-in loaders of src/loader/mod.rs as functions on byte strings.
   BytesLoader hands the bytes on; StringLoader accepts exactly the well-formed UTF-8 strings and
   keeps their bytes; ParseLoader decodes, removes leading and trailing Unicode White_Space (what
   str::trim removes) and parses what is left -- here as i64 (`[+-]?[0-9]+` within range, what
   i64::from_str accepts). *)
From Coq Require Import List NArith ZArith Bool.
From AM Require Import Ref.Utf8.
Import ListNotations.
Open Scope N_scope.

(* Unicode White_Space = char::is_whitespace *)
Definition white_space (c : N) : bool :=
  between 9 13 c || (c =? 32) || (c =? 133) || (c =? 160) || (c =? 5760) || between 8192 8202 c
  || (c =? 8232) || (c =? 8233) || (c =? 8239) || (c =? 8287) || (c =? 12288).

Fixpoint drop_ws (cs : list N) : list N :=
  match cs with
  | c :: r => if white_space c then drop_ws r else cs
  | [] => []
  end.
Definition trim (cs : list N) : list N := rev (drop_ws (rev (drop_ws cs))).

Fixpoint digits (cs : list N) (acc : Z) : option Z :=
  match cs with
  | [] => Some acc
  | c :: r => if (48 <=? c) && (c <=? 57) then digits r (acc * 10 + Z.of_N (c - 48))%Z else None
  end.

Definition i64_min : Z := (- 2 ^ 63)%Z.
Definition i64_max : Z := (2 ^ 63 - 1)%Z.
Definition in_i64 (z : Z) : bool := (i64_min <=? z)%Z && (z <=? i64_max)%Z.

Definition parse_i64 (cs : list N) : option Z :=
  match cs with
  | [] => None
  | c :: r =>
      let neg := c =? 45 in
      let ds := if (c =? 45) || (c =? 43) then r else cs in
      match ds with
      | [] => None
      | _ => match digits ds 0 with
             | None => None
             | Some v => let z := if neg then (- v)%Z else v in if in_i64 z then Some z else None
             end
      end
  end.

Definition parse_loader (bytes : list N) : option Z :=
  match decode bytes with None => None | Some cs => parse_i64 (trim cs) end.

Definition string_loader (bytes : list N) : option (list N) :=
  if valid bytes then Some bytes else None.

Definition bytes_loader (bytes : list N) : list N := bytes.
