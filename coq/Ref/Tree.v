(* The abstract directory tree and what a Source must answer for it (the specification side of
   C04 / C11).  Ids are lists of segments; a file is (id, ext, bytes); directories are listed
   explicitly and always contain the root [] and every ancestor of every file and directory. *)
From Coq Require Import List String NArith Bool Arith.
Import ListNotations.
Open Scope string_scope.
Open Scope list_scope.

Definition id := list string.

Record tree := { tfiles : list (id * string * list N); tdirs : list id }.

Fixpoint id_eqb (a b : id) : bool :=
  match a, b with
  | [], [] => true
  | x :: r, y :: s => String.eqb x y && id_eqb r s
  | _, _ => false
  end.

Definition parent (i : id) : option id := match i with [] => None | _ => Some (removelast i) end.

Definition opt_id_eqb (o : option id) (b : id) : bool := match o with Some a => id_eqb a b | None => false end.

Inductive dentry := DFile (i : id) (ext : string) | DDir (i : id).

Definition spec_read (t : tree) (i : id) (ext : string) : option (list N) :=
  match find (fun f => id_eqb (fst (fst f)) i && String.eqb (snd (fst f)) ext) (tfiles t) with
  | Some f => Some (snd f)
  | None => None
  end.

Definition is_dir (t : tree) (i : id) : bool := existsb (id_eqb i) (tdirs t).

Definition spec_read_dir (t : tree) (i : id) : option (list dentry) :=
  if is_dir t i then
    Some (flat_map (fun f => if opt_id_eqb (parent (fst (fst f))) i then [DFile (fst (fst f)) (snd (fst f))] else [])
            (tfiles t)
          ++ flat_map (fun d => if opt_id_eqb (parent d) i then [DDir d] else []) (tdirs t))
  else None.

Definition spec_exists (t : tree) (e : dentry) : bool :=
  match e with
  | DFile i ext => match spec_read t i ext with Some _ => true | None => false end
  | DDir i => is_dir t i
  end.

(* directory assets (C11): ids of the files directly in [d] carrying one of [exts] *)
Definition dir_ids (t : tree) (exts : list string) (d : id) : option (list id) :=
  match spec_read_dir t d with
  | None => None
  | Some l => Some (flat_map (fun e => match e with
                                       | DFile i x => if existsb (String.eqb x) exts then [i] else []
                                       | DDir _ => []
                                       end) l)
  end.

(* ... and over d and all directories below it (any order) *)
Fixpoint is_prefix (a b : id) : bool :=
  match a, b with
  | [], _ => true
  | x :: r, y :: s => String.eqb x y && is_prefix r s
  | _ :: _, [] => false
  end.

Definition rec_dir_ids (t : tree) (exts : list string) (d : id) : option (list id) :=
  if is_dir t d then
    Some (flat_map (fun f => if is_prefix d (fst (fst f)) && negb (id_eqb d (fst (fst f)))
                                && existsb (String.eqb (snd (fst f))) exts
                             then [fst (fst f)] else []) (tfiles t))
  else None.
