(* The cache's map (src/cache.rs AssetMap): an array of shards, each a map key -> entry address,
   the shard of a key chosen by an arbitrary hash function; and the flat map it implements.
   Keys and addresses are numbers; [h] is ANY function (every hash seed, ahash or SipHash) and the
   shard count ANY positive number (power of two or not: only `index < n` is used).

   The concurrent part: threads running `load_entry` = look the key up (atomic, under the shard's
   read lock); on a miss run the loader (thread-local) and then `entry(key).or_insert(value)`
   (atomic, under the shard's write lock). *)
From Coq Require Import List NArith Bool Arith.
Import ListNotations.

Definition key := N.
Definition addr := N.
Definition amap := list (key * addr).

Fixpoint aget (k : key) (m : amap) : option addr :=
  match m with [] => None | (k', v) :: r => if N.eqb k k' then Some v else aget k r end.

(* entry(k).or_insert(v): keeps the first value *)
Definition aor_insert (k : key) (v : addr) (m : amap) : amap * addr :=
  match aget k m with Some w => (m, w) | None => (m ++ [(k, v)], v) end.

Definition aremove (k : key) (m : amap) : amap := filter (fun kv => negb (N.eqb k (fst kv))) m.

(* ---- sharded ---- *)
Definition shards := list amap.

Definition shard_of (h : key -> N) (n : nat) (k : key) : nat := N.to_nat (N.modulo (h k) (N.of_nat n)).

Fixpoint upd_nth {A} (i : nat) (f : A -> A) (l : list A) : list A :=
  match i, l with
  | O, x :: r => f x :: r
  | S j, x :: r => x :: upd_nth j f r
  | _, [] => []
  end.

Definition sget (h : key -> N) (s : shards) (k : key) : option addr :=
  aget k (nth (shard_of h (length s) k) s []).

Definition sor_insert (h : key -> N) (s : shards) (k : key) (v : addr) : shards * addr :=
  let i := shard_of h (length s) k in
  let '(m, w) := aor_insert k v (nth i s []) in
  (upd_nth i (fun _ => m) s, w).

Definition stake (h : key -> N) (s : shards) (k : key) : shards * option addr :=
  let i := shard_of h (length s) k in
  (upd_nth i (aremove k) s, aget k (nth i s [])).

Definition sclear (s : shards) : shards := map (fun _ => []) s.

Definition empty_shards (n : nat) : shards := repeat [] n.

(* ---- operations and the two machines ---- *)
Inductive mop := MGet (k : key) | MOrInsert (k : key) (v : addr) | MContains (k : key)
               | MTake (k : key) | MClear.
Inductive mout := RAddr (o : option addr) | RBool (b : bool) | RUnit.

Definition flat_step (m : amap) (o : mop) : amap * mout :=
  match o with
  | MGet k => (m, RAddr (aget k m))
  | MOrInsert k v => let '(m', w) := aor_insert k v m in (m', RAddr (Some w))
  | MContains k => (m, RBool (match aget k m with Some _ => true | None => false end))
  | MTake k => (aremove k m, RAddr (aget k m))
  | MClear => ([], RUnit)
  end.

Definition shard_step (h : key -> N) (s : shards) (o : mop) : shards * mout :=
  match o with
  | MGet k => (s, RAddr (sget h s k))
  | MOrInsert k v => let '(s', w) := sor_insert h s k v in (s', RAddr (Some w))
  | MContains k => (s, RBool (match sget h s k with Some _ => true | None => false end))
  | MTake k => let '(s', o) := stake h s k in (s', RAddr o)
  | MClear => (sclear s, RUnit)
  end.

(* ---- racing loaders ---- *)
Inductive pc := PStart (k : key) (v : addr)       (* will look k up; v = the value its loader makes *)
              | PLoaded (k : key) (v : addr)      (* missed; loader done; about to or_insert      *)
              | PDone (k : key) (got : addr) (dropped : option addr).

Record rcfg := { rmap : amap; rthreads : list pc }.

Definition rstep (c : rcfg) (t : nat) : rcfg :=
  match nth_error (rthreads c) t with
  | Some (PStart k v) =>
      match aget k (rmap c) with
      | Some w => {| rmap := rmap c; rthreads := upd_nth t (fun _ => PDone k w None) (rthreads c) |}
      | None => {| rmap := rmap c; rthreads := upd_nth t (fun _ => PLoaded k v) (rthreads c) |}
      end
  | Some (PLoaded k v) =>
      let '(m, w) := aor_insert k v (rmap c) in
      {| rmap := m;
         rthreads := upd_nth t (fun _ => PDone k w (if N.eqb w v then None else Some v)) (rthreads c) |}
  | _ => c
  end.

Definition rrun (sched : list nat) (c : rcfg) : rcfg := fold_left rstep sched c.
