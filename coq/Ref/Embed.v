(* What the `embed!` macro (macros/src/embedded.rs) builds from a directory of the build machine, and
   what the Embedded source answers from it.  The directory is a finite tree; the macro walks it
   depth first (`read_dir`: a directory is entered in its parent's listing and given an empty listing
   of its own before its content is visited; a file is entered in its directory's listing and in the
   file table).  Ids are segment lists (the macro joins the stems with dots: Id::push, tied in
   Tie/Embed.v).  Tables as in Ref/Archive.v: the directory map is an association list (a later
   entry under the same key shadows an earlier one, as BTreeMap::insert / HashMap collect replace),
   the file table is a map with `last insertion wins` (the Vec is collected into a HashMap by
   Embedded::from; the sort in between permutes distinct keys only). *)
From Coq Require Import List String NArith Bool Arith.
From AM Require Import Ref.Tree Ref.Archive.
Import ListNotations.
Open Scope list_scope.

Inductive fsnode :=
| FFile (stem ext : string)
| FDir (stem : string) (children : list fsnode).

(* Content::push_dir *)
Definition push_dir (m : dmap) (parent : option id) (i : id) : dmap :=
  (i, []) :: match parent with Some p => push m p (DDir i) | None => m end.

(* Content::push_file; [n] stands for the bytes included for that file *)
Definition push_file (ix : index) (i : id) (x : string) (dir : id) (n : N) : index :=
  {| ifiles := insert_file (ifiles ix) i x n; idirs := push (idirs ix) dir (DFile i x) |}.

(* fn read_dir, one element of the directory [dir]; the counter numbers the elements visited *)
Fixpoint walk (n : fsnode) (dir : id) (st : index * N) : index * N :=
  match n with
  | FFile stem x => (push_file (fst st) (dir ++ [stem]) x dir (snd st), N.succ (snd st))
  | FDir stem cs =>
      let this := dir ++ [stem] in
      let st1 := ({| ifiles := ifiles (fst st); idirs := push_dir (idirs (fst st)) (Some dir) this |}, N.succ (snd st)) in
      (fix go (l : list fsnode) (st : index * N) : index * N :=
         match l with [] => st | c :: r => go r (walk c this st) end) cs st1
  end.
Fixpoint walk_list (l : list fsnode) (dir : id) (st : index * N) : index * N :=
  match l with [] => st | c :: r => walk_list r dir (walk c dir st) end.

(* Input::expand_dir: the root first, then its elements *)
Definition embed_build (root : list fsnode) : index :=
  fst (walk_list root [] ({| ifiles := []; idirs := push_dir [] None [] |}, 0%N)).

(* the same directory as a sequence of archive members, depth first *)
Fixpoint members_of (n : fsnode) (dir : id) : list member :=
  match n with
  | FFile stem x => [MFile (dir ++ [stem]) x]
  | FDir stem cs =>
      MDir (dir ++ [stem]) ::
      (fix go (l : list fsnode) : list member :=
         match l with [] => [] | c :: r => members_of c (dir ++ [stem]) ++ go r end) cs
  end.
Fixpoint members_of_list (l : list fsnode) (dir : id) : list member :=
  match l with [] => [] | c :: r => members_of c dir ++ members_of_list r dir end.
