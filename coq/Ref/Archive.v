(* The index an archive source (src/source/zip.rs, tar.rs) builds at open time: `register_dir`
   (a directory and all its ancestors exactly once, each pushed into its parent's listing) and
   `register_file` folded over the members in archive order.  Ids are segment lists (Ref/Tree.v);
   a member is what the path parsing of register_file yields.  HashMap = association list with
   unique keys; Vec = list in push order, so listings have the implementation's order. *)
From Coq Require Import List String NArith Bool Arith.
From AM Require Import Ref.Tree.
Import ListNotations.
Open Scope list_scope.

Inductive member :=
| MFile (i : id) (ext : string)      (* a regular file: id = directory segments ++ [stem] *)
| MDir (i : id).                     (* an explicit directory member *)

Definition dmap := list (id * list dentry).

Definition has (m : dmap) (d : id) : bool := existsb (fun kv => id_eqb (fst kv) d) m.

Fixpoint lookup (m : dmap) (d : id) : option (list dentry) :=
  match m with
  | [] => None
  | (k, l) :: r => if id_eqb k d then Some l else lookup r d
  end.

(* entries.push(e) on the listing of d, if d is there *)
Fixpoint push (m : dmap) (d : id) (e : dentry) : dmap :=
  match m with
  | [] => []
  | (k, l) :: r => if id_eqb k d then (k, l ++ [e]) :: r else (k, l) :: push r d e
  end.

(* fn register_dir: nothing if present; else insert an empty listing, register the parent, push
   Dir(id) into the parent's listing.  Fuel: the recursion is on the parent chain. *)
Fixpoint register_dir (fuel : nat) (m : dmap) (d : id) : dmap :=
  if has m d then m
  else
    let m1 := (d, []) :: m in
    match parent d with
    | None => m1
    | Some p =>
      match fuel with
      | O => m1
      | S f => push (register_dir f m1 p) p (DDir d)
      end
    end.

Definition reg_dir (m : dmap) (d : id) : dmap := register_dir (List.length d) m d.

Record index := { ifiles : list (id * string * N); idirs : dmap }.

(* HashMap::insert on the file table: the last member of a given (id, ext) wins *)
Definition file_key_eqb (a : id * string * N) (i : id) (x : string) : bool :=
  id_eqb (fst (fst a)) i && String.eqb (snd (fst a)) x.
Definition insert_file (fs : list (id * string * N)) (i : id) (x : string) (n : N) :=
  (i, x, n) :: filter (fun a => negb (file_key_eqb a i x)) fs.

Definition register (ix : index) (nm : N * member) : index :=
  match snd nm with
  | MFile i x =>
    let p := removelast i in
    {| ifiles := insert_file (ifiles ix) i x (fst nm);
       idirs := push (reg_dir (idirs ix) p) p (DFile i x) |}
  | MDir i => {| ifiles := ifiles ix; idirs := reg_dir (idirs ix) i |}
  end.

Fixpoint enumerate {A} (n : N) (l : list A) : list (N * A) :=
  match l with [] => [] | x :: r => (n, x) :: enumerate (N.succ n) r end.

(* Zip::create / Tar::create: the root first, then every member in archive order *)
Definition build (ms : list member) : index :=
  fold_left register (enumerate 0%N ms) {| ifiles := []; idirs := reg_dir [] [] |}.

(* Source::read_dir / exists / (the table look-up of) read on the index *)
Definition idx_read_dir (ix : index) (d : id) : option (list dentry) := lookup (idirs ix) d.
Definition idx_exists (ix : index) (e : dentry) : bool :=
  match e with
  | DFile i x => existsb (fun a => file_key_eqb a i x) (ifiles ix)
  | DDir d => has (idirs ix) d
  end.
Definition idx_file (ix : index) (i : id) (x : string) : option N :=
  match find (fun a => file_key_eqb a i x) (ifiles ix) with Some a => Some (snd a) | None => None end.

(* the directory a member sits in / is *)
Definition dir_part (m : member) : id := match m with MFile i _ => removelast i | MDir i => i end.
