From Coq Require Import List Bool Arith Lia.
Import ListNotations.

(* Executable model of the `Answers` token mailbox (src/hot_reloading/mod.rs): a Mutex<Option<token>>
   and a Condvar with an explicit wait set, N callers of `HotReloader::reload` and the reloader thread.
   [fixed] = does the consumer (`wait_for_answer`) call notify_all after emptying the slot?  It is
   read off the generated script: fixed = true iff mailbox_acts Gen.wait_for_answer = consumer_shape. *)
Inductive cpc := C0 | C1 (t:nat) | C2 (t:nat) | C3 (t:nat) | Cw (t:nat) | Cwk (t:nat)
               | C4 (t:nat) | C4n (t:nat) | C5 (t:nat) | CDone.
Inductive rpc := R0 | R1 (t:nat) | R2 (t:nat) | R3 (t:nat) | Rw (t:nat) | Rwk (t:nat)
               | R4 (t:nat) | R5 (t:nat) | R6 (t:nat).
Record st := { slot : option nat; mtx : bool; next_tok : nat; chan : list nat;
               callers : list cpc; rl : rpc }.

Definition opt_eqb (a b : option nat) := match a, b with
  | None, None => true | Some x, Some y => Nat.eqb x y | _, _ => false end.

Definition wake_c (c : cpc) := match c with Cw t => Cwk t | c => c end.
Definition wake_r (r : rpc) := match r with Rw t => Rwk t | r => r end.
Definition notify_all (s : st) : st :=
  {| slot := slot s; mtx := mtx s; next_tok := next_tok s; chan := chan s;
     callers := map wake_c (callers s); rl := wake_r (rl s) |}.

Fixpoint upd {A} (l : list A) (i : nat) (x : A) : list A :=
  match l, i with [] , _ => [] | _ :: r, 0 => x :: r | y :: r, S i => y :: upd r i x end.

Definition set_c (s : st) i c := {| slot := slot s; mtx := mtx s; next_tok := next_tok s; chan := chan s;
                                    callers := upd (callers s) i c; rl := rl s |}.
Definition set_r (s : st) r := {| slot := slot s; mtx := mtx s; next_tok := next_tok s; chan := chan s;
                                  callers := callers s; rl := r |}.
Definition set_mtx (s : st) b := {| slot := slot s; mtx := b; next_tok := next_tok s; chan := chan s;
                                    callers := callers s; rl := rl s |}.
Definition set_slot (s : st) v := {| slot := v; mtx := mtx s; next_tok := next_tok s; chan := chan s;
                                     callers := callers s; rl := rl s |}.
Definition set_chan (s : st) c := {| slot := slot s; mtx := mtx s; next_tok := next_tok s; chan := c;
                                     callers := callers s; rl := rl s |}.
Definition bump_tok (s : st) := {| slot := slot s; mtx := mtx s; next_tok := S (next_tok s); chan := chan s;
                                   callers := callers s; rl := rl s |}.

(* [fixed] = does wait_for_answer notify after emptying the slot? *)
Definition cstep (fixed : bool) (i : nat) (s : st) : option st :=
  match nth_error (callers s) i with
  | None => None
  | Some pc => match pc with
    | C0 => Some (bump_tok (set_c s i (C1 (next_tok s))))
    | C1 t => Some (set_chan (set_c s i (C2 t)) (chan s ++ [t]))
    | C2 t | Cwk t => if mtx s then None else Some (set_mtx (set_c s i (C3 t)) true)
    | C3 t => if opt_eqb (slot s) (Some t) then Some (set_c s i (C4 t))
              else Some (set_mtx (set_c s i (Cw t)) false)
    | Cw _ => None
    | C4 t => Some (set_slot (set_c s i (if fixed then C4n t else C5 t)) None)
    | C4n t => Some (notify_all (set_c s i (C5 t)))
    | C5 t => Some (set_mtx (set_c s i CDone) false)
    | CDone => None
    end end.

Definition rstep (s : st) : option st :=
  match rl s with
  | R0 => match chan s with [] => None | t :: r => Some (set_chan (set_r s (R1 t)) r) end
  | R1 t => Some (set_r s (R2 t))
  | R2 t | Rwk t => if mtx s then None else Some (set_mtx (set_r s (R3 t)) true)
  | R3 t => match slot s with None => Some (set_r s (R4 t))
                            | Some _ => Some (set_mtx (set_r s (Rw t)) false) end
  | Rw _ => None
  | R4 t => Some (set_slot (set_r s (R5 t)) (Some t))
  | R5 t => Some (notify_all (set_r s (R6 t)))
  | R6 t => Some (set_mtx (set_r s R0) false)
  end.

(* thread 0 = reloader, S i = caller i *)
Definition step (fixed : bool) (tid : nat) (s : st) : option st :=
  match tid with 0 => rstep s | S i => cstep fixed i s end.

Fixpoint run (fixed : bool) (sched : list nat) (s : st) : st :=
  match sched with [] => s
  | t :: r => match step fixed t s with Some s' => run fixed r s' | None => run fixed r s end end.

Definition init (n : nat) : st :=
  {| slot := None; mtx := false; next_tok := 0; chan := []; callers := repeat C0 n; rl := R0 |}.

Definition c_done (c : cpc) := match c with CDone => true | _ => false end.
Definition all_done (s : st) := forallb c_done (callers s).
Definition tids (s : st) := seq 0 (S (length (callers s))).
Definition enabled fixed s t := match step fixed t s with Some _ => true | None => false end.
Definition deadlocked fixed (s : st) : bool :=
  negb (all_done s) && forallb (fun t => negb (enabled fixed s t)) (tids s).

