(* OnceInitCell<U, T> (src/utils/cell.rs): a OnceCell<()> guarding a union { seed : U | value : T }.
   once_cell::sync::OnceCell::get_or_try_init semantics (trusted): at most one initialiser runs at
   a time, the others wait; an initialiser that fails or panics leaves the cell empty (a waiter may
   then run its own); one that succeeds sets it for good.

   Threads call get_or_try_init with a scripted outcome for their initialiser.  [with_drop] is
   needs_drop::<U>() (the two code paths). *)
From Coq Require Import List Bool Arith.
Import ListNotations.

Inductive outcome := Ok | Fail | Panic.

Inductive tpc :=
| TStart (o : outcome)            (* about to call get_or_try_init; o = what its closure will do *)
| TWaiting (o : outcome)          (* another initialiser is running *)
| TRunning (o : outcome)          (* inside the OnceCell closure *)
| TDropSeed                       (* closure returned Ok; the seed it took out is dropped now *)
| TGotValue                       (* returned Ok(&value) *)
| TGotErr                         (* returned Err *)
| TPanicked.                      (* unwound *)

Record cell := {
  inited : bool;                  (* the OnceCell is set: the union holds the value *)
  running : bool;                 (* an initialiser holds the OnceCell's lock *)
  seed_drops : nat;               (* how many times the seed was dropped *)
  value_drops : nat;
  successes : nat;                (* initialisers that ran to success *)
  seed_in_cell : bool;            (* ghost: the union currently holds the seed *)
  threads : list tpc;
}.

Fixpoint upd (l : list tpc) (i : nat) (x : tpc) : list tpc :=
  match l, i with
  | [], _ => []
  | _ :: r, O => x :: r
  | y :: r, S j => y :: upd r j x
  end.

Definition set_threads (c : cell) (l : list tpc) : cell :=
  {| inited := inited c; running := running c; seed_drops := seed_drops c; value_drops := value_drops c;
     successes := successes c; seed_in_cell := seed_in_cell c; threads := l |}.

(* one step of thread t; a thread that cannot move (waiting while someone runs, finished) stutters *)
Definition step (with_drop : bool) (c : cell) (t : nat) : cell :=
  match nth_error (threads c) t with
  | Some (TStart o) | Some (TWaiting o) =>
      if inited c then set_threads c (upd (threads c) t TGotValue)
      else if running c then set_threads c (upd (threads c) t (TWaiting o))
      else {| inited := false; running := true; seed_drops := seed_drops c; value_drops := value_drops c;
              successes := successes c; seed_in_cell := seed_in_cell c;
              threads := upd (threads c) t (TRunning o) |}
  | Some (TRunning Ok) =>
      (* value written in place of the seed; the seed escapes the closure (or is forgotten when
         U needs no drop) *)
      {| inited := true; running := false; seed_drops := seed_drops c; value_drops := value_drops c;
         successes := S (successes c); seed_in_cell := false;
         threads := upd (threads c) t (if with_drop then TDropSeed else TGotValue) |}
  | Some (TRunning Fail) =>
      {| inited := false; running := false; seed_drops := seed_drops c; value_drops := value_drops c;
         successes := successes c; seed_in_cell := seed_in_cell c; threads := upd (threads c) t TGotErr |}
  | Some (TRunning Panic) =>
      {| inited := false; running := false; seed_drops := seed_drops c; value_drops := value_drops c;
         successes := successes c; seed_in_cell := seed_in_cell c; threads := upd (threads c) t TPanicked |}
  | Some TDropSeed =>
      {| inited := inited c; running := running c; seed_drops := S (seed_drops c); value_drops := value_drops c;
         successes := successes c; seed_in_cell := seed_in_cell c; threads := upd (threads c) t TGotValue |}
  | _ => c
  end.

Definition run (with_drop : bool) (sched : list nat) (c : cell) : cell := fold_left (step with_drop) sched c.

Definition init (outs : list outcome) : cell :=
  {| inited := false; running := false; seed_drops := 0; value_drops := 0; successes := 0;
     seed_in_cell := true; threads := map TStart outs |}.

(* impl Drop for OnceInitCell: drops the value if the cell is set, the seed otherwise *)
Definition drop_cell (c : cell) : cell :=
  if inited c then
    {| inited := inited c; running := running c; seed_drops := seed_drops c; value_drops := S (value_drops c);
       successes := successes c; seed_in_cell := seed_in_cell c; threads := threads c |}
  else
    {| inited := inited c; running := running c; seed_drops := S (seed_drops c); value_drops := value_drops c;
       successes := successes c; seed_in_cell := false; threads := threads c |}.

Definition quiescent (c : cell) : bool :=
  forallb (fun p => match p with TGotValue | TGotErr | TPanicked => true | _ => false end) (threads c).
