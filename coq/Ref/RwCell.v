(* Lock-granularity machine for one cache entry (src/entry.rs): a multi-word value, its RwLock and
   threads running first-order scripts.  The machine does NOT enforce the lock discipline: a
   SwapWords outside AcqW..RelW is executable (that is what a broken `write` does).  The reload id
   lives in Proofs/RwPin.v ([IncReload] is a no-op on this part of the state).
   "no torn read" for EVERY pair of scripts accepted by a decidable lock-discipline checker,
   under ALL schedules.  The machine itself does not enforce the discipline. *)
From Coq Require Import List Bool Arith Lia.
Import ListNotations.

Inductive action := AcqR | RelR | AcqW | RelW | SwapWords (v : nat) | ReadWords | IncReload | Other.
Definition script := list action.

Record local := { todo : script; hr : bool; hw : bool;
                  wprog : option (nat * nat);          (* next index, value being written *)
                  rprog : option (nat * list nat);     (* next index, words read so far *)
                  results : list (list nat) }.
Record config := { mem : list nat; rset : list nat; wr : option nat; th : nat -> local }.

Definition K (c : config) := length (mem c).
Fixpoint set_nth (l : list nat) (i v : nat) : list nat :=
  match l, i with [] , _ => [] | _ :: r, 0 => v :: r | x :: r, S i => x :: set_nth r i v end.
Definition updt (f : nat -> local) t l := fun j => if Nat.eqb j t then l else f j.
Definition mk (l : local) todo' hr' hw' wp rp res :=
  {| todo := todo'; hr := hr'; hw := hw'; wprog := wp; rprog := rp; results := res |}.

Definition step (t : nat) (c : config) : option config :=
  let l := th c t in
  match wprog l with
  | Some (i, v) =>
      if Nat.ltb i (K c)
      then Some {| mem := set_nth (mem c) i v; rset := rset c; wr := wr c;
                   th := updt (th c) t (mk l (todo l) (hr l) (hw l) (Some (S i, v)) (rprog l) (results l)) |}
      else Some {| mem := mem c; rset := rset c; wr := wr c;
                   th := updt (th c) t (mk l (todo l) (hr l) (hw l) None (rprog l) (results l)) |}
  | None =>
  match rprog l with
  | Some (i, acc) =>
      if Nat.ltb i (K c)
      then Some {| mem := mem c; rset := rset c; wr := wr c;
                   th := updt (th c) t (mk l (todo l) (hr l) (hw l) None (Some (S i, acc ++ [nth i (mem c) 0])) (results l)) |}
      else Some {| mem := mem c; rset := rset c; wr := wr c;
                   th := updt (th c) t (mk l (todo l) (hr l) (hw l) None None (acc :: results l)) |}
  | None =>
  match todo l with
  | [] => None
  | a :: r =>
    match a with
    | AcqR => match wr c with Some _ => None | None =>
                Some {| mem := mem c; rset := t :: rset c; wr := wr c;
                        th := updt (th c) t (mk l r true (hw l) None None (results l)) |} end
    | RelR => Some {| mem := mem c; rset := remove Nat.eq_dec t (rset c); wr := wr c;
                      th := updt (th c) t (mk l r false (hw l) None None (results l)) |}
    | AcqW => match wr c, rset c with
              | None, [] => Some {| mem := mem c; rset := rset c; wr := Some t;
                                    th := updt (th c) t (mk l r (hr l) true None None (results l)) |}
              | _, _ => None end
    | RelW => Some {| mem := mem c; rset := rset c; wr := None;
                      th := updt (th c) t (mk l r (hr l) false None None (results l)) |}
    | SwapWords v => Some {| mem := mem c; rset := rset c; wr := wr c;
                             th := updt (th c) t (mk l r (hr l) (hw l) (Some (0, v)) None (results l)) |}
    | ReadWords => Some {| mem := mem c; rset := rset c; wr := wr c;
                           th := updt (th c) t (mk l r (hr l) (hw l) None (Some (0, [])) (results l)) |}
    | IncReload => Some {| mem := mem c; rset := rset c; wr := wr c;
                           th := updt (th c) t (mk l r (hr l) (hw l) None None (results l)) |}
    | Other => Some {| mem := mem c; rset := rset c; wr := wr c;
                       th := updt (th c) t (mk l r (hr l) (hw l) None None (results l)) |}
    end
  end end end.

Fixpoint run (sched : list nat) (c : config) : config :=
  match sched with [] => c
  | t :: r => match step t c with Some c' => run r c' | None => run r c end end.

(* ---------- the decidable discipline ---------- *)
Fixpoint wf (r w : bool) (s : script) : bool :=
  match s with
  | [] => true
  | AcqR :: k => negb r && negb w && wf true w k
  | RelR :: k => r && wf false w k
  | AcqW :: k => negb r && negb w && wf r true k
  | RelW :: k => w && wf r false k
  | SwapWords _ :: k => w && wf r w k
  | ReadWords :: k => (r || w) && wf r w k
  | IncReload :: k => w && wf r w k
  | Other :: k => wf r w k
  end.

Definition uniform (l : list nat) := exists v, l = repeat v (length l).

(* ---------- invariant ---------- *)
Record Inv (c : config) : Prop := {
  v_wf   : forall t, wf (hr (th c t)) (hw (th c t)) (todo (th c t)) = true;
  v_excl : forall t, hr (th c t) = true -> hw (th c t) = true -> False;
  v_hr   : forall t, hr (th c t) = true <-> In t (rset c);
  v_hw   : forall t, hw (th c t) = true <-> wr c = Some t;
  v_lock : forall t, wr c = Some t -> rset c = [];
  v_wp   : forall t i v, wprog (th c t) = Some (i, v) -> hw (th c t) = true /\ rprog (th c t) = None
                          /\ firstn i (mem c) = repeat v (Nat.min i (K c)) /\ uniform (skipn i (mem c));
  v_mem  : (forall t, wprog (th c t) = None) -> uniform (mem c);
  v_rp   : forall t i acc, rprog (th c t) = Some (i, acc) ->
             (hr (th c t) = true \/ hw (th c t) = true) /\ uniform (mem c) /\ acc = firstn i (mem c);
  v_res  : forall t r, In r (results (th c t)) -> uniform r /\ length r = K c;
}.

Definition init (m : list nat) (scripts : nat -> script) : config :=
  {| mem := m; rset := []; wr := None;
     th := fun t => {| todo := scripts t; hr := false; hw := false; wprog := None; rprog := None; results := [] |} |}.

Lemma inv_init m scripts : uniform m -> (forall t, wf false false (scripts t) = true) -> Inv (init m scripts).
Proof.
  intros Hm Hwf. constructor; cbn.
  - exact Hwf.
  - intros; discriminate.
  - intros t; split; [discriminate | tauto].
  - intros t; split; discriminate.
  - intros; discriminate.
  - intros; discriminate.
  - intros _; exact Hm.
  - intros; discriminate.
  - tauto.
Qed.
