(* Reference model of error merging (src/error.rs ErrorKind::or) and of load_from_source
   (src/asset.rs): iterate the declared extensions, first success wins, errors are folded by [or],
   the type's default_value decides in the end. *)
From Coq Require Import List String NArith Bool.
Import ListNotations.

Inductive iokind := KNotFound | KPermissionDenied | KInvalidData | KInterrupted | KUnexpectedEof
                  | KTimedOut | KOther.

(* [tag] identifies WHICH error object it is (so "the first / the last of its class" is visible) *)
Inductive ekind := ENoDefault | EIo (k : iokind) (tag : N) | EConv (tag : N).

Definition or (this other : ekind) : ekind :=
  match this, other with
  | ENoDefault, o => o
  | EIo _ _, (EConv _ as o) => o
  | EIo KNotFound _, (EIo _ _ as o) => o
  | t, _ => t
  end.

(* precedence classes: decoding error > other I/O error > not found > no default value *)
Definition class (e : ekind) : N :=
  match e with
  | ENoDefault => 0
  | EIo KNotFound _ => 1
  | EIo _ _ => 2
  | EConv _ => 3
  end%N.

Section Load.
  Context {V : Type}.
  (* what the source answers for (id, ext), what the loader makes of the bytes *)
  Variable read : string -> sum (iokind * N) (list N).
  Variable decode : list N -> string -> sum N V.
  Variable default : ekind -> sum ekind V.

  Fixpoint attempts (exts : list string) (err : ekind) : sum ekind V :=
    match exts with
    | [] => default err
    | e :: r =>
        match read e with
        | inl (k, tag) => attempts r (or (EIo k tag) err)
        | inr bytes =>
            match decode bytes e with
            | inl tag => attempts r (or (EConv tag) err)
            | inr v => inr v
            end
        end
    end.

  Definition load_from_source (exts : list string) : sum ekind V := attempts exts ENoDefault.

  (* the error an extension produces, if it fails *)
  Definition attempt_error (e : string) : option ekind :=
    match read e with
    | inl (k, tag) => Some (EIo k tag)
    | inr bytes => match decode bytes e with inl tag => Some (EConv tag) | inr _ => None end
    end.

  Definition attempt_value (e : string) : option V :=
    match read e with
    | inl _ => None
    | inr bytes => match decode bytes e with inl _ => None | inr v => Some v end
    end.
End Load.
