(* Effect scripts read off the printed Rust AST.

   [mailbox_acts] turns the body of a function working on the `Answers` mailbox (a Mutex<Option<token>>
   plus a Condvar) into the sequence of mailbox actions it performs.  The lock guard is released
   when the function returns (RAII), so everything listed happens inside the critical section. *)
From AM Require Import Rust.Ast Rust.Syntax.
Open Scope string_scope.

Inductive mcond := WhileSome | WhileNotMine | WhileOther.
Inductive mval := SetMine | SetNone | SetOther.
Inductive mact := MLock | MWait (c : mcond) | MSet (v : mval) | MNotify | MOther (what : string).

Definition classify_cond (e : expr) : mcond :=
  match e with
  | EClosure [PIdent t None] (EMethod (EPath [t']) "is_some" []) =>
      if String.eqb t t' then WhileSome else WhileOther
  | EClosure [PIdent t None]
      (EBinary "!=" (EUnary "*" (EPath [t'])) (ECall (EPath ["Some"]) [EPath ["token"]])) =>
      if String.eqb t t' then WhileNotMine else WhileOther
  | _ => WhileOther
  end.

Definition classify_val (e : expr) : mval :=
  match e with
  | ECall (EPath ["Some"]) [EPath ["token"]] => SetMine
  | EPath ["None"] => SetNone
  | _ => SetOther
  end.

Definition mailbox_act (e : expr) : list mact :=
  match e with
  | ELetS _ (Some (EMethod (EField (EPath ["self"]) "current_token") "lock" [])) None => [MLock]
  | ELetS _ (Some (EMethod (EField (EPath ["self"]) "condvar") "wait_while" [EPath [_]; c])) None =>
      [MWait (classify_cond c)]
  | ESemi (EAssign (EUnary "*" (EPath [_])) v) => [MSet (classify_val v)]
  | ESemi (EMethod (EField (EPath ["self"]) "condvar") "notify_all" []) => [MNotify]
  | ESemi (EMacro m _) => if existsb (String.eqb m) ["trace"; "debug"; "info"; "warn"; "error"] then [] else [MOther m]
  | _ => [MOther "statement"]
  end.

Definition mailbox_acts (f : fn_def) : list mact := flat_map mailbox_act (fn_body f).

Definition mact_eqb (a b : mact) : bool :=
  match a, b with
  | MLock, MLock | MNotify, MNotify => true
  | MWait WhileSome, MWait WhileSome | MWait WhileNotMine, MWait WhileNotMine => true
  | MSet SetMine, MSet SetMine | MSet SetNone, MSet SetNone => true
  | _, _ => false
  end.

(* The two protocol roles the deadlock-freedom theorem is about. *)
Definition producer_shape : list mact := [MLock; MWait WhileSome; MSet SetMine; MNotify].
Definition consumer_shape : list mact := [MLock; MWait WhileNotMine; MSet SetNone; MNotify].
(* the consumer as it was before the repair of D1 (no notification after emptying the slot) *)
Definition consumer_shape_silent : list mact := [MLock; MWait WhileNotMine; MSet SetNone].
