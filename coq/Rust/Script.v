(* Effect scripts read off the printed Rust AST.

   [mailbox_acts] turns the body of a function working on the `Answers` mailbox (a Mutex<Option<token>>
   plus a Condvar) into the sequence of mailbox actions it performs.  The lock guard is released
   when the function returns (RAII), so everything listed happens inside the critical section. *)
From AM Require Import Rust.Ast Rust.Syntax.
Open Scope string_scope.

Inductive mcond := WhileSome | WhileNotMine | WhileOther.
Inductive mval := SetMine | SetNone | SetOther.
Inductive mact := MLock | MWait (c : mcond) | MSet (v : mval) | MNotify | MOther (what : string).

Definition classify_cond (e : expr) : mcond :=
  match e with
  | EClosure [PIdent t None] (EMethod (EPath [t']) "is_some" []) =>
      if String.eqb t t' then WhileSome else WhileOther
  | EClosure [PIdent t None]
      (EBinary "!=" (EUnary "*" (EPath [t'])) (ECall (EPath ["Some"]) [EPath ["token"]])) =>
      if String.eqb t t' then WhileNotMine else WhileOther
  | _ => WhileOther
  end.

Definition classify_val (e : expr) : mval :=
  match e with
  | ECall (EPath ["Some"]) [EPath ["token"]] => SetMine
  | EPath ["None"] => SetNone
  | _ => SetOther
  end.

Definition mailbox_act (e : expr) : list mact :=
  match e with
  | ELetS _ (Some (EMethod (EField (EPath ["self"]) "current_token") "lock" [])) None => [MLock]
  | ELetS _ (Some (EMethod (EField (EPath ["self"]) "condvar") "wait_while" [EPath [_]; c])) None =>
      [MWait (classify_cond c)]
  | ESemi (EAssign (EUnary "*" (EPath [_])) v) => [MSet (classify_val v)]
  | ESemi (EMethod (EField (EPath ["self"]) "condvar") "notify_all" []) => [MNotify]
  | ESemi (EMacro m _) => if existsb (String.eqb m) ["trace"; "debug"; "info"; "warn"; "error"] then [] else [MOther m]
  | _ => [MOther "statement"]
  end.

Definition mailbox_acts (f : fn_def) : list mact := flat_map mailbox_act (fn_body f).

Definition mact_eqb (a b : mact) : bool :=
  match a, b with
  | MLock, MLock | MNotify, MNotify => true
  | MWait WhileSome, MWait WhileSome | MWait WhileNotMine, MWait WhileNotMine => true
  | MSet SetMine, MSet SetMine | MSet SetNone, MSet SetNone => true
  | _, _ => false
  end.

(* The two protocol roles the deadlock-freedom theorem is about. *)
Definition producer_shape : list mact := [MLock; MWait WhileSome; MSet SetMine; MNotify].
Definition consumer_shape : list mact := [MLock; MWait WhileNotMine; MSet SetNone; MNotify].
(* the consumer as it was before the repair of D1 (no notification after emptying the slot) *)
Definition consumer_shape_silent : list mact := [MLock; MWait WhileNotMine; MSet SetNone].

(* ------------------------------------------------------------------------------------------
   Entry scripts (src/entry.rs): the body of `UntypedEntry::write` on its dynamic path, as actions
   of the machine Ref/RwCell.v.  A lock guard bound by `let` is released at the end of the
   enclosing block (RAII).  An unrecognised statement makes the extraction fail ([None]), so a tie
   lemma never silently ignores new code inside the critical section. *)
From AM Require Import Ref.RwCell.

Fixpoint rw_block (fuel : nat) (b : list expr) : option script :=
  match fuel with
  | O => None
  | S f =>
      match b with
      | [] => Some []
      | ELetS _ (Some (EMethod (EField _ "lock") "write" [])) None :: r =>
          option_map (fun k => AcqW :: app k [RelW]) (rw_block f r)
      | ELetS _ (Some (EMethod (EField _ "lock") "read" [])) None :: r =>
          option_map (fun k => AcqR :: app k [RelR]) (rw_block f r)
      | ESemi (ECall (EPath ["swap_any"]) _) :: r =>
          option_map (fun k => SwapWords 0 :: k) (rw_block f r)
      | ESemi (EMethod (EField _ "reload") "increment" []) :: r =>
          option_map (fun k => IncReload :: k) (rw_block f r)
      | ESemi (EMethod (EField _ "reload_global") "store" _) :: r =>
          option_map (fun k => Other :: k) (rw_block f r)
      | ESemi (EMacro "assert" _) :: r => rw_block f r
      | ESemi (EMacro "debug_assert" _) :: r => rw_block f r
      | EBlock inner :: r =>
          match rw_block f inner, rw_block f r with
          | Some a, Some k => Some (app a k)
          | _, _ => None
          end
      | ESemi (EReturn None) :: _ => Some []
      | EIf (ELet (PTupleStruct ["Some"] [PIdent _ None]) (ERef (EField (EPath ["self"]) "dynamic"))) t None :: _ =>
          (* the dynamic path; it must end by returning *)
          match rev t with
          | ESemi (EReturn None) :: _ => rw_block f t
          | _ => None
          end
      | _ => None
      end
  end.

Definition write_script (f : fn_def) : option script := rw_block 32 (fn_body f).

(* `read` takes the read lock (when the entry is dynamic) before building the guard, and the guard
   it returns owns that lock *)
Definition read_wf (f : fn_def) : bool :=
  match fn_body f with
  | [ELetS (PIdent g None)
       (Some (EMethod (EMethod (EField (EPath ["self"]) "dynamic") "as_ref" []) "map"
                [EClosure [PIdent d None] (EMethod (EField (EPath [d']) "lock") "read" [])])) None;
     EStruct ["AssetReadGuard"] fields] =>
      String.eqb d d' &&
      match fields with
      | [("value", _); ("guard", EPath [g'])] => String.eqb g g'
      | _ => false
      end
  | _ => false
  end.

(* `map` / `try_map` hand the lock guard over to the guard they return *)
Definition keeps_guard (e : expr) : bool :=
  match e with
  | EStruct ["AssetReadGuard"] [("value", _); ("guard", EField (EPath ["this"]) "guard")] => true
  | _ => false
  end.

Definition map_wf (f : fn_def) : bool :=
  match fn_body f with
  | [e] => keeps_guard e
  | _ => false
  end.

Definition try_map_wf (f : fn_def) : bool :=
  match fn_body f with
  | [EMatch _ [(PTupleStruct ["Some"] [_], None, ECall (EPath ["Ok"]) [e]);
               (_, None, ECall (EPath ["Err"]) [EPath ["this"]])]] => keeps_guard e
  | _ => false
  end.
