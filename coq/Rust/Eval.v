(* A small, total (fuel-bounded) interpreter for the pure / sequential fragments that rs2v prints.

   It gives meaning to the Rust subset actually used by the anchored functions.  Anything it does
   not know (an unknown method, an unsupported expression form) evaluates to [OErr], so a tie lemma
   about a fragment that started to use something new fails instead of silently guessing. *)
From AM Require Import Rust.Ast.
From Coq Require Import Ascii.
Open Scope string_scope.

(* Arithmetic on *program values* goes through these names, so that symbolic execution in tie
   lemmas can keep it folded ([lazy -[n_ltb ...]]) while the interpreter's own bookkeeping
   (character codes, indices) still computes. *)
Definition n_ltb := N.ltb.
Definition n_eqb := N.eqb.
Definition n_max := N.max.
Definition n_add := N.add.
Definition n_sub := N.sub.

Inductive val :=
| VUnit
| VBool (b : bool)
| VN (n : N)
| VStr (s : string)
| VCtor (name : string) (args : list val)
| VRec (name : string) (fields : list (string * val))
| VTuple (vs : list val)
| VList (vs : list val)
| VClos (params : list pat) (body : expr).

Inductive outcome :=
| ONorm (v : val)
| ORet (v : val)
| OBreak
| OCont
| OErr (msg : string).

Definition env := list (string * val).

Fixpoint lookup {A} (x : string) (l : list (string * A)) : option A :=
  match l with
  | [] => None
  | (y, v) :: r => if String.eqb x y then Some v else lookup x r
  end.

Fixpoint update {A} (x : string) (v : A) (l : list (string * A)) : list (string * A) :=
  match l with
  | [] => [(x, v)]
  | (y, w) :: r => if String.eqb x y then (x, v) :: r else (y, w) :: update x v r
  end.

Definition last_seg (p : list string) : string := last p "".

Definition is_upper_initial (s : string) : bool :=
  match s with
  | String c _ => let n := nat_of_ascii c in Nat.leb 65 n && Nat.leb n 90
  | EmptyString => false
  end.

(* ---- structural equality / ordering of values (derived PartialEq / PartialOrd) ---- *)

Fixpoint val_eqb (a b : val) {struct a} : bool :=
  let fix eqs (l1 l2 : list val) {struct l1} : bool :=
    match l1, l2 with
    | [], [] => true
    | x :: r1, y :: r2 => val_eqb x y && eqs r1 r2
    | _, _ => false
    end in
  let fix eqf (l1 l2 : list (string * val)) {struct l1} : bool :=
    match l1, l2 with
    | [], [] => true
    | (f, x) :: r1, (g, y) :: r2 => String.eqb f g && val_eqb x y && eqf r1 r2
    | _, _ => false
    end in
  match a, b with
  | VUnit, VUnit => true
  | VBool x, VBool y => Bool.eqb x y
  | VN x, VN y => n_eqb x y
  | VStr x, VStr y => String.eqb x y
  | VCtor n1 a1, VCtor n2 a2 => String.eqb n1 n2 && eqs a1 a2
  | VRec n1 f1, VRec n2 f2 => String.eqb n1 n2 && eqf f1 f2
  | VTuple a1, VTuple a2 => eqs a1 a2
  | VList a1, VList a2 => eqs a1 a2
  | _, _ => false
  end.

(* strict "less than"; only what derived orderings on newtypes over integers need *)
Fixpoint val_ltb (a b : val) {struct a} : option bool :=
  match a, b with
  | VN x, VN y => Some (n_ltb x y)
  | VCtor n1 [x], VCtor n2 [y] => if String.eqb n1 n2 then val_ltb x y else None
  | _, _ => None
  end.

(* ---- places ---- *)

Definition field_get (v : val) (f : string) : option val :=
  match v with
  | VRec _ fs => lookup f fs
  | VCtor _ args | VTuple args =>
      if String.eqb f "0" then nth_error args 0
      else if String.eqb f "1" then nth_error args 1
      else if String.eqb f "2" then nth_error args 2
      else None
  | _ => None
  end.

Fixpoint set_nth {A} (n : nat) (x : A) (l : list A) : option (list A) :=
  match n, l with
  | O, _ :: r => Some (x :: r)
  | S k, y :: r => match set_nth k x r with Some r' => Some (y :: r') | None => None end
  | _, [] => None
  end.

Definition idx_of (f : string) : option nat :=
  if String.eqb f "0" then Some 0%nat
  else if String.eqb f "1" then Some 1%nat
  else if String.eqb f "2" then Some 2%nat
  else None.

Definition field_set (v : val) (f : string) (x : val) : option val :=
  match v with
  | VRec n fs => match lookup f fs with Some _ => Some (VRec n (update f x fs)) | None => None end
  | VCtor n args =>
      match idx_of f with
      | Some i => match set_nth i x args with Some a => Some (VCtor n a) | None => None end
      | None => None
      end
  | VTuple args =>
      match idx_of f with
      | Some i => match set_nth i x args with Some a => Some (VTuple a) | None => None end
      | None => None
      end
  | _ => None
  end.

Fixpoint place_get (en : env) (e : expr) : option val :=
  match e with
  | EPath [x] => lookup x en
  | EUnary "*" e' => place_get en e'
  | ERef e' => place_get en e'
  | EField e' f => match place_get en e' with Some v => field_get v f | None => None end
  | _ => None
  end.

Fixpoint place_set (en : env) (e : expr) (x : val) : option env :=
  match e with
  | EPath [y] => match lookup y en with Some _ => Some (update y x en) | None => None end
  | EUnary "*" e' => place_set en e' x
  | ERef e' => place_set en e' x
  | EField e' f =>
      match place_get en e' with
      | Some old => match field_set old f x with
                    | Some new => place_set en e' new
                    | None => None
                    end
      | None => None
      end
  | _ => None
  end.

Definition is_place (en : env) (e : expr) : bool :=
  match place_get en e with Some _ => true | None => false end.

(* ---- patterns ---- *)

Definition lit_val (l : lit) : val :=
  match l with
  | LInt n => VN n
  | LBool b => VBool b
  | LStr s => VStr s
  | LChar s => VStr s
  | LOther s => VStr s
  end.

Fixpoint pmatch (p : pat) (v : val) {struct p} : option env :=
  let fix pmatches (ps : list pat) (vs : list val) {struct ps} : option env :=
    match ps, vs with
    | [], [] => Some []
    | q :: qs, w :: ws =>
        match pmatch q w with
        | Some b1 => match pmatches qs ws with Some b2 => Some (app b1 b2) | None => None end
        | None => None
        end
    | _, _ => None
    end in
  let fix por (ps : list pat) {struct ps} : option env :=
    match ps with
    | [] => None
    | q :: qs => match pmatch q v with Some b => Some b | None => por qs end
    end in
  match p with
  | PWild => Some []
  | PRest => Some []
  | PIdent x None =>
      if is_upper_initial x
      then match v with
           | VCtor n [] => if String.eqb n x then Some [] else None
           | _ => None
           end
      else Some [(x, v)]
  | PIdent x (Some q) =>
      match pmatch q v with Some b => Some ((x, v) :: b) | None => None end
  | PPath segs =>
      match v with
      | VCtor n [] => if String.eqb n (last_seg segs) then Some [] else None
      | _ => None
      end
  | PTupleStruct segs args =>
      match v with
      | VCtor n vs => if String.eqb n (last_seg segs) then pmatches args vs else None
      | _ => None
      end
  | PTuple args =>
      match v with
      | VTuple vs => pmatches args vs
      | _ => None
      end
  | PLit l => if val_eqb (lit_val l) v then Some [] else None
  | PRef q => pmatch q v
  | POr alts => por alts
  | PStruct _ _ => None
  | POther _ => None
  end.

Fixpoint bind_all (b : env) (en : env) : env :=
  match b with
  | [] => en
  | (x, v) :: r => bind_all r ((x, v) :: en)   (* shadowing: newest first *)
  end.

(* The environment is a stack: bindings are pushed at the front, inner scopes pop what they
   pushed and assignments update in place, so leaving a scope drops its [n] newest entries. *)
Definition unbind (n : nat) (en : env) : env := skipn n en.

(* ---- strings ---- *)

Fixpoint str_contains_char (c : ascii) (s : string) : bool :=
  match s with
  | EmptyString => false
  | String d r => Ascii.eqb c d || str_contains_char c r
  end.

Definition first_char (s : string) : ascii :=
  match s with String c _ => c | EmptyString => zero end.

(* index of the last occurrence of [c] *)
Fixpoint str_rfind_from (c : ascii) (s : string) (i : N) (acc : option N) : option N :=
  match s with
  | EmptyString => acc
  | String d r => str_rfind_from c r (N.succ i) (if Ascii.eqb c d then Some i else acc)
  end.
Definition str_rfind (c : ascii) (s : string) : option N := str_rfind_from c s 0%N None.

Fixpoint str_take (n : nat) (s : string) : string :=
  match n, s with
  | O, _ => EmptyString
  | S k, String c r => String c (str_take k r)
  | S _, EmptyString => EmptyString
  end.

Definition str_len (s : string) : N := N.of_nat (String.length s).

Definition opt_val (o : option val) : val :=
  match o with Some v => VCtor "Some" [v] | None => VCtor "None" [] end.

(* ---- built-in methods: receiver value, arguments -> (new receiver value, result) ---- *)

Definition builtin_method (m : string) (r : val) (args : list val) : option (val * val) :=
  match r, args with
  (* atomics (Ordering argument ignored: memory orderings are not modelled) *)
  | VN c, [VN a; _] =>
      if String.eqb m "fetch_max" then Some (VN (n_max c a), VN c)
      else if String.eqb m "fetch_add" then Some (VN (n_add c a), VN c)
      else if String.eqb m "swap" then Some (VN a, VN c)
      else if String.eqb m "store" then Some (VN a, VUnit)
      else None
  | VN c, [_] =>
      if String.eqb m "load" then Some (VN c, VN c) else None
  (* strings *)
  | VStr s, [] =>
      if String.eqb m "is_empty" then Some (r, VBool (String.eqb s ""))
      else if String.eqb m "len" then Some (r, VN (str_len s))
      else if String.eqb m "clear" then Some (VStr "", VUnit)
      else if String.eqb m "as_str" then Some (r, r)
      else if String.eqb m "into" then Some (r, r)
      else if String.eqb m "clone" then Some (r, r)
      else if String.eqb m "to_str" then Some (r, opt_val (Some r))
      else None
  | VStr s, [VStr a] =>
      if String.eqb m "contains" then Some (r, VBool (str_contains_char (first_char a) s))
      else if String.eqb m "push" then Some (VStr (s ++ a), VUnit)
      else if String.eqb m "push_str" then Some (VStr (s ++ a), VUnit)
      else if String.eqb m "rfind" then
        Some (r, opt_val (option_map VN (str_rfind (first_char a) s)))
      else None
  | VStr s, [VN n] =>
      if String.eqb m "truncate" then Some (VStr (str_take (N.to_nat n) s), VUnit)
      else None
  (* io::Error *)
  | VCtor "IoError" (k :: _), [] =>
      if String.eqb m "kind" then Some (r, k) else None
  (* Result::ok *)
  | VCtor "Ok" [v], [] => if String.eqb m "ok" then Some (r, VCtor "Some" [v]) else None
  | VCtor "Err" _, [] => if String.eqb m "ok" then Some (r, VCtor "None" []) else None
  (* Option *)
  | VCtor "Some" [v], [d] =>
      if String.eqb m "unwrap_or" then Some (r, v) else None
  | VCtor "None" [], [d] =>
      if String.eqb m "unwrap_or" then Some (r, d) else None
  | _, _ => None
  end.

Definition type_name (v : val) : option string :=
  match v with
  | VCtor n _ => Some n
  | VRec n _ => Some n
  | _ => None
  end.

Definition truthy (v : val) : option bool :=
  match v with VBool b => Some b | _ => None end.

Definition binop (op : string) (a b : val) : option val :=
  if String.eqb op ">" then option_map VBool (val_ltb b a)
  else if String.eqb op "<" then option_map VBool (val_ltb a b)
  else if String.eqb op ">=" then option_map (fun x => VBool (negb x)) (val_ltb a b)
  else if String.eqb op "<=" then option_map (fun x => VBool (negb x)) (val_ltb b a)
  else if String.eqb op "==" then Some (VBool (val_eqb a b))
  else if String.eqb op "!=" then Some (VBool (negb (val_eqb a b)))
  else match a, b with
       | VN x, VN y =>
           if String.eqb op "+" then Some (VN (n_add x y))
           else if String.eqb op "-" then Some (VN (n_sub x y))
           else None
       | _, _ => None
       end.

Definition quiet_macro (m : string) : bool :=
  existsb (String.eqb m)
    ["trace"; "debug"; "info"; "warn"; "error"; "debug_assert"; "debug_assert_eq";
     "debug_assert_ne"].

Section Eval.
  (* user functions, keyed "Type::method" or "function" *)
  Variable fns : list (string * fn_def).
  (* functions the fragment calls but does not define (trait items of a generic parameter, the
     source, ...): name -> arguments -> result.  Methods are looked up as ".name" with the receiver
     as first argument, constants with no argument. *)
  Variable ext : string -> list val -> option val.
  (* the evaluator at smaller fuel *)
  Variable ev : env -> expr -> env * outcome.

  (* closures are called in the environment of the call site (sufficient for closures that are
     called where they are defined, the only use in the fragments) *)
  Definition call_closure (en : env) (ps : list pat) (body : expr) (args : list val) : env * outcome :=
    let fix bindp (ps : list pat) (vs : list val) : option env :=
      match ps, vs with
      | [], [] => Some []
      | p :: ps', v :: vs' =>
          match pmatch p v, bindp ps' vs' with
          | Some b1, Some b2 => Some (app b1 b2)
          | _, _ => None
          end
      | _, _ => None
      end in
    match bindp ps args with
    | None => (en, OErr "closure arity")
    | Some bs =>
        let '(en1, o) := ev (bind_all bs en) body in
        (unbind (List.length bs) en1, match o with ORet v => ONorm v | x => x end)
    end.

  (* evaluate a list of expressions left to right to values *)
  Fixpoint eval_args (en : env) (es : list expr) : env * (list val + outcome) :=
    match es with
    | [] => (en, inl [])
    | e :: r =>
        match ev en e with
        | (en1, ONorm v) =>
            match eval_args en1 r with
            | (en2, inl vs) => (en2, inl (v :: vs))
            | other => other
            end
        | (en1, o) => (en1, inr o)
        end
    end.

  (* a block: statements in order; value of the trailing expression, else unit.
     Bindings introduced by [ELetS] are local to the block. *)
  Fixpoint eval_stmts (en : env) (b : list expr) (bound : nat)
    : env * outcome * nat :=
    match b with
    | [] => (en, ONorm VUnit, bound)
    | ELetS p (Some e) None :: r =>
        match ev en e with
        | (en1, ONorm v) =>
            match pmatch p v with
            | Some bs => eval_stmts (bind_all bs en1) r (List.length bs + bound)%nat
            | None => (en1, OErr "refutable let", bound)
            end
        | (en1, o) => (en1, o, bound)
        end
    | ELetS p (Some e) (Some els) :: r =>
        match ev en e with
        | (en1, ONorm v) =>
            match pmatch p v with
            | Some bs => eval_stmts (bind_all bs en1) r (List.length bs + bound)%nat
            | None =>
                match ev en1 (EBlock els) with
                | (en2, ONorm _) => (en2, OErr "let-else falls through", bound)
                | (en2, o) => (en2, o, bound)
                end
            end
        | (en1, o) => (en1, o, bound)
        end
    | ELetS _ None _ :: r => (en, OErr "uninitialised let", bound)
    | [e] =>
        match e with
        | ESemi e' =>
            match ev en e' with
            | (en1, ONorm _) => (en1, ONorm VUnit, bound)
            | (en1, o) => (en1, o, bound)
            end
        | _ => let '(en1, o) := ev en e in (en1, o, bound)
        end
    | e :: r =>
        let e' := match e with ESemi x => x | x => x end in
        match ev en e' with
        | (en1, ONorm _) => eval_stmts en1 r bound
        | (en1, o) => (en1, o, bound)
        end
    end.

  Definition eval_block (en : env) (b : list expr) : env * outcome :=
    let '(en1, o, bound) := eval_stmts en b 0%nat in (unbind bound en1, o).

  Fixpoint eval_arms (en : env) (v : val) (arms : list (pat * option expr * expr))
    : env * outcome :=
    match arms with
    | [] => (en, OErr "no match arm")
    | (p, g, body) :: r =>
        match pmatch p v with
        | None => eval_arms en v r
        | Some bs =>
            let en1 := bind_all bs en in
            match g with
            | None => let '(en2, o) := ev en1 body in (unbind (List.length bs) en2, o)
            | Some ge =>
                match ev en1 ge with
                | (en2, ONorm (VBool true)) =>
                    let '(en3, o) := ev en2 body in (unbind (List.length bs) en3, o)
                | (en2, ONorm (VBool false)) => eval_arms (unbind (List.length bs) en2) v r
                | (en2, ONorm _) => (en2, OErr "guard not bool")
                | (en2, o) => (en2, o)
                end
            end
        end
    end.

  (* for loops over a list value *)
  Fixpoint eval_for (en : env) (p : pat) (items : list val) (body : list expr) : env * outcome :=
    match items with
    | [] => (en, ONorm VUnit)
    | v :: r =>
        match pmatch p v with
        | None => (en, OErr "for pattern")
        | Some bs =>
            match ev (bind_all bs en) (EBlock body) with
            | (en1, ONorm _) | (en1, OCont) => eval_for (unbind (List.length bs) en1) p r body
            | (en1, OBreak) => (unbind (List.length bs) en1, ONorm VUnit)
            | (en1, o) => (unbind (List.length bs) en1, o)
            end
        end
    end.

  Definition call_fn (en : env) (f : fn_def) (self_place : option expr) (args : list val)
    : env * outcome :=
    (* bind parameters in a fresh environment *)
    let fix bindp (ps : list pat) (vs : list val) : option env :=
      match ps, vs with
      | [], [] => Some []
      | p :: ps', v :: vs' =>
          match pmatch p v, bindp ps' vs' with
          | Some b1, Some b2 => Some (app b1 b2)
          | _, _ => None
          end
      | _, _ => None
      end in
    match bindp (fn_params f) args with
    | None => (en, OErr ("arity: " ++ fn_name f))
    | Some benv =>
        let '(cenv, o) := ev (bind_all benv []) (EBlock (fn_body f)) in
        let res := match o with ORet v => ONorm v | OBreak | OCont => OErr "stray break" | x => x end in
        match self_place with
        | Some pl =>
            match lookup "self" cenv with
            | Some s' => match place_set en pl s' with
                         | Some en' => (en', res)
                         | None => (en, res)
                         end
            | None => (en, res)
            end
        | None => (en, res)
        end
    end.

  Definition eval1 (en : env) (e : expr) : env * outcome :=
    match e with
    | ELit l => (en, ONorm (lit_val l))
    | EPath [x] =>
        match lookup x en with
        | Some v => (en, ONorm v)
        | None => if is_upper_initial x then (en, ONorm (VCtor x [])) else (en, OErr ("unbound " ++ x))
        end
    | EPath segs =>
        match ext (String.concat "::" segs) [] with
        | Some v => (en, ONorm v)
        | None =>
            (* an associated constant printed by rs2v (a parameterless function of that name among
               the known functions) evaluates to its value; any other path is a unit-like variant *)
            match lookup (String.concat "::" segs) fns with
            | Some f =>
                match fn_params f with
                | [] => call_fn en f None []
                | _ => (en, ONorm (VCtor (last_seg segs) []))
                end
            | None => (en, ONorm (VCtor (last_seg segs) []))
            end
        end
    | ERef e' => ev en e'
    | EUnary "*" e' => ev en e'
    | EUnary "!" e' =>
        match ev en e' with
        | (en1, ONorm (VBool b)) => (en1, ONorm (VBool (negb b)))
        | (en1, ONorm _) => (en1, OErr "! on non-bool")
        | r => r
        end
    | EUnary _ _ => (en, OErr "unary")
    | EBinary "&&" a b =>
        match ev en a with
        | (en1, ONorm (VBool false)) => (en1, ONorm (VBool false))
        | (en1, ONorm (VBool true)) => ev en1 b
        | (en1, ONorm _) => (en1, OErr "&& on non-bool")
        | r => r
        end
    | EBinary "||" a b =>
        match ev en a with
        | (en1, ONorm (VBool true)) => (en1, ONorm (VBool true))
        | (en1, ONorm (VBool false)) => ev en1 b
        | (en1, ONorm _) => (en1, OErr "|| on non-bool")
        | r => r
        end
    | EBinary op a b =>
        match ev en a with
        | (en1, ONorm va) =>
            match ev en1 b with
            | (en2, ONorm vb) =>
                match binop op va vb with
                | Some v => (en2, ONorm v)
                | None => (en2, OErr ("binop " ++ op))
                end
            | r => r
            end
        | r => r
        end
    | EAssign l r =>
        match ev en r with
        | (en1, ONorm v) =>
            match place_set en1 l v with
            | Some en2 => (en2, ONorm VUnit)
            | None => (en1, OErr "assignment to non-place")
            end
        | x => x
        end
    | EField e' f =>
        match ev en e' with
        | (en1, ONorm v) =>
            match field_get v f with
            | Some x => (en1, ONorm x)
            | None => (en1, OErr ("field " ++ f))
            end
        | r => r
        end
    | ETuple es =>
        match eval_args en es with
        | (en1, inl vs) => (en1, ONorm (VTuple vs))
        | (en1, inr o) => (en1, o)
        end
    | EArray es =>
        match eval_args en es with
        | (en1, inl vs) => (en1, ONorm (VList vs))
        | (en1, inr o) => (en1, o)
        end
    | EMacro m es =>
        if quiet_macro m then (en, ONorm VUnit)
        else if String.eqb m "vec" then
          match eval_args en es with
          | (en1, inl vs) => (en1, ONorm (VList vs))
          | (en1, inr o) => (en1, o)
          end
        else if String.eqb m "assert" then
          match es with
          | c :: _ =>
              match ev en c with
              | (en1, ONorm (VBool true)) => (en1, ONorm VUnit)
              | (en1, ONorm _) => (en1, OErr "panic: assertion failed")
              | r => r
              end
          | [] => (en, OErr "assert")
          end
        else if String.eqb m "panic" then (en, OErr "panic")
        else (en, OErr ("macro " ++ m))
    | ECall (EPath segs) es =>
        let name := last_seg segs in
        match eval_args en es with
        | (en1, inl vs) =>
            match segs, lookup name en1 with
            | [_], Some (VClos ps body) => call_closure en1 ps body vs
            | _, _ =>
                match lookup name fns with
                | Some f => call_fn en1 f None vs
                | None =>
                    match ext (String.concat "::" segs) vs with
                    | Some v => (en1, ONorm v)
                    | None =>
                        if is_upper_initial name then (en1, ONorm (VCtor name vs))
                        else (en1, OErr ("unknown function " ++ name))
                    end
                end
            end
        | (en1, inr o) => (en1, o)
        end
    | ECall _ _ => (en, OErr "indirect call")
    | EMethod recv m es =>
        match ev en recv with
        | (en1, ONorm rv) =>
            match eval_args en1 es with
            | (en2, inl vs) =>
                let user :=
                  match type_name rv with
                  | Some t =>
                      match lookup (t ++ "::" ++ m) fns with
                      | Some f => Some f
                      | None => lookup ("*::" ++ m) fns   (* enums: any variant of the type *)
                      end
                  | None => None
                  end in
                match user with
                | Some f =>
                    call_fn en2 f (if is_place en2 recv then Some recv else None) (rv :: vs)
                | None =>
                    match vs with
                    | [VClos ps body] =>
                        (* `x.with_cow(|c| ...)`-style adaptors: apply the closure to the receiver *)
                        if String.eqb m "with_cow" then call_closure en2 ps body [rv]
                        else (en2, OErr ("unknown adaptor " ++ m))
                    | _ =>
                    match builtin_method m rv vs with
                    | Some (rv', res) =>
                        if is_place en2 recv then
                          match place_set en2 recv rv' with
                          | Some en3 => (en3, ONorm res)
                          | None => (en2, OErr "method write-back")
                          end
                        else (en2, ONorm res)
                    | None =>
                        match ext ("." ++ m) (rv :: vs) with
                        | Some v => (en2, ONorm v)
                        | None =>
                            if String.eqb m "into" || String.eqb m "clone" then (en2, ONorm rv)
                            else (en2, OErr ("unknown method " ++ m))
                        end
                    end
                    end
                end
            | (en2, inr o) => (en2, o)
            end
        | r => r
        end
    | EIf (ELet p e') t els =>
        match ev en e' with
        | (en1, ONorm v) =>
            match pmatch p v with
            | Some bs =>
                let '(en2, o) := ev (bind_all bs en1) (EBlock t) in (unbind (List.length bs) en2, o)
            | None =>
                match els with
                | Some e2 => ev en1 e2
                | None => (en1, ONorm VUnit)
                end
            end
        | r => r
        end
    | EIf c t els =>
        match ev en c with
        | (en1, ONorm (VBool true)) => ev en1 (EBlock t)
        | (en1, ONorm (VBool false)) =>
            match els with
            | Some e2 => ev en1 e2
            | None => (en1, ONorm VUnit)
            end
        | (en1, ONorm _) => (en1, OErr "if on non-bool")
        | r => r
        end
    | EMatch s arms =>
        match ev en s with
        | (en1, ONorm v) => eval_arms en1 v arms
        | r => r
        end
    | EBlock b => eval_block en b
    | EReturn None => (en, ORet VUnit)
    | EReturn (Some e') =>
        match ev en e' with
        | (en1, ONorm v) => (en1, ORet v)
        | r => r
        end
    | EBreak => (en, OBreak)
    | EContinue => (en, OCont)
    | ETry e' =>
        match ev en e' with
        | (en1, ONorm (VCtor "Some" [v])) => (en1, ONorm v)
        | (en1, ONorm (VCtor "None" [])) => (en1, ORet (VCtor "None" []))
        | (en1, ONorm (VCtor "Ok" [v])) => (en1, ONorm v)
        | (en1, ONorm (VCtor "Err" [x])) => (en1, ORet (VCtor "Err" [x]))
        | (en1, ONorm _) => (en1, OErr "? on non-option")
        | r => r
        end
    | EFor p e' body =>
        match ev en e' with
        | (en1, ONorm (VList items)) => eval_for en1 p items body
        | (en1, ONorm _) => (en1, OErr "for over non-list")
        | r => r
        end
    | EWhile c body =>
        match ev en c with
        | (en1, ONorm (VBool true)) =>
            match ev en1 (EBlock body) with
            | (en2, ONorm _) | (en2, OCont) => ev en2 (EWhile c body)
            | (en2, OBreak) => (en2, ONorm VUnit)
            | r => r
            end
        | (en1, ONorm (VBool false)) => (en1, ONorm VUnit)
        | (en1, ONorm _) => (en1, OErr "while on non-bool")
        | r => r
        end
    | ELoop body =>
        match ev en (EBlock body) with
        | (en1, ONorm _) | (en1, OCont) => ev en1 (ELoop body)
        | (en1, OBreak) => (en1, ONorm VUnit)
        | r => r
        end
    | ESemi e' =>
        match ev en e' with
        | (en1, ONorm _) => (en1, ONorm VUnit)
        | r => r
        end
    | ELetS _ _ _ => eval_block en [e]
    | ECast e' _ => ev en e'
    | EStruct segs fields =>
        let fix go (en0 : env) (fs : list (string * expr)) : env * (list (string * val) + outcome) :=
          match fs with
          | [] => (en0, inl [])
          | (f, fe) :: r =>
              match ev en0 fe with
              | (en1, ONorm v) =>
                  match go en1 r with
                  | (en2, inl l) => (en2, inl ((f, v) :: l))
                  | other => other
                  end
              | (en1, o) => (en1, inr o)
              end
          end in
        match go en fields with
        | (en1, inl l) => (en1, ONorm (VRec (last_seg segs) l))
        | (en1, inr o) => (en1, o)
        end
    | ELet _ _ => (en, OErr "let outside if")
    | EClosure ps body => (en, ONorm (VClos ps body))
    | EIndex _ _ => (en, OErr "index")
    | ERange _ _ => (en, OErr "range")
    | EOther s => (en, OErr ("unsupported: " ++ s))
    end.
End Eval.

Fixpoint eval_x (fns : list (string * fn_def)) (ext : string -> list val -> option val)
  (fuel : nat) (en : env) (e : expr) : env * outcome :=
  match fuel with
  | O => (en, OErr "out of fuel")
  | S f => eval1 fns ext (eval_x fns ext f) en e
  end.

Definition no_ext (_ : string) (_ : list val) : option val := None.
Definition eval (fns : list (string * fn_def)) := eval_x fns no_ext.

(* Run a function on argument values; returns the final value of every parameter passed by
   reference (the whole callee environment) and the result. *)
Definition run_fn_x (fns : list (string * fn_def)) (ext : string -> list val -> option val)
  (fuel : nat) (f : fn_def) (args : list val) : env * outcome :=
  let fix names (ps : list pat) : list string :=
    match ps with
    | PIdent x _ :: r => x :: names r
    | _ :: r => "_" :: names r
    | [] => []
    end in
  let en := combine (names (fn_params f)) args in
  let '(en', o) := eval_x fns ext fuel en (EBlock (fn_body f)) in
  (en', match o with ORet v => ONorm v | x => x end).

Definition run_fn (fns : list (string * fn_def)) := run_fn_x fns no_ext.
