(* Syntactic queries on the printed Rust AST (no evaluation): sub-expressions in source order,
   "does this statement call method m", statement positions.  Used by the discipline checkers. *)
From AM Require Import Rust.Ast.
Open Scope string_scope.

Definition opt_list {A} (o : option A) : list A := match o with Some x => [x] | None => [] end.

Definition children (e : expr) : list expr :=
  match e with
  | ECall f args => f :: args
  | EMethod r _ args => r :: args
  | EField e' _ | EUnary _ e' | ERef e' | ETry e' | ECast e' _ | ESemi e' | ELet _ e' => [e']
  | EBinary _ a b | EAssign a b | EIndex a b => [a; b]
  | ETuple es | EArray es | EBlock es | ELoop es | EMacro _ es => es
  | EStruct _ fs => map snd fs
  | EIf c t o => c :: app t (opt_list o)
  | EMatch s arms => s :: flat_map (fun a : pat * option expr * expr => app (opt_list (snd (fst a))) [snd a]) arms
  | EReturn o => opt_list o
  | EWhile c b => c :: b
  | EFor _ e' b => e' :: b
  | EClosure _ b => [b]
  | ERange a b => app (opt_list a) (opt_list b)
  | ELetS _ i els => app (opt_list i) (match els with Some l => l | None => [] end)
  | _ => []
  end.

(* all sub-expressions, pre-order, source order; the fuel bounds the depth *)
Fixpoint subexprs (fuel : nat) (e : expr) : list expr :=
  match fuel with
  | O => [e]
  | S f => e :: flat_map (subexprs f) (children e)
  end.

Definition depth_fuel := 64%nat.

Definition method_calls (e : expr) : list (expr * string * list expr) :=
  flat_map (fun x => match x with EMethod r m a => [(r, m, a)] | _ => [] end) (subexprs depth_fuel e).

Definition calls_method (m : string) (e : expr) : bool :=
  existsb (fun '(_, n, _) => String.eqb n m) (method_calls e).

(* receiver is `<anything>.<field>` *)
Definition recv_field (r : expr) : string :=
  match r with
  | EField _ f => f
  | EPath [x] => x
  | _ => ""
  end.

Definition calls_method_on (field m : string) (e : expr) : bool :=
  existsb (fun '(r, n, _) => String.eqb n m && String.eqb (recv_field r) field) (method_calls e).

(* position of the first statement satisfying p *)
Fixpoint find_index {A} (p : A -> bool) (l : list A) : option nat :=
  match l with
  | [] => None
  | x :: r => if p x then Some 0%nat else option_map S (find_index p r)
  end.

Definition macro_free_of_panics (e : expr) : bool :=
  negb (existsb (fun x => match x with EMacro "panic" _ | EMacro "unreachable" _ | EMacro "todo" _ => true | _ => false end)
          (subexprs depth_fuel e)).
