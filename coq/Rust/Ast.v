(* Deep embedding of the Rust surface syntax that rs2v prints.

   rs2v is a dumb printer: syn AST -> terms of this type.  Every bit of *meaning* (what a method
   call does, which calls are lock acquisitions, how a guarded match falls through) lives on the Coq
   side, in Rust/Eval.v (pure fragments) and Rust/Script.v (effect scripts), where it can be read
   and where theorems can quantify over it. *)
From Coq Require Export List String NArith Bool.
Export ListNotations.
Open Scope string_scope.

Inductive lit :=
| LInt (n : N)
| LBool (b : bool)
| LStr (s : string)
| LChar (s : string)
| LOther (s : string).

Inductive pat :=
| PWild
| PIdent (name : string) (sub : option pat)
| PPath (p : list string)
| PTupleStruct (p : list string) (args : list pat)
| PTuple (args : list pat)
| PLit (l : lit)
| PRef (p : pat)
| POr (alts : list pat)
| PStruct (p : list string) (fields : list (string * pat))
| PRest
| POther (s : string).

(* Statements are expressions too: [ELetS] is `let p = e;` ([None] = no initialiser, the third
   component is the `else` block of a let-else), [ESemi e] is `e;`, a trailing expression of a
   block is the expression itself. *)
Inductive expr :=
| EPath (p : list string)
| ELit (l : lit)
| ECall (f : expr) (args : list expr)
| EMethod (recv : expr) (name : string) (args : list expr)
| EField (e : expr) (name : string)
| EUnary (op : string) (e : expr)
| EBinary (op : string) (a b : expr)
| EAssign (l r : expr)
| ERef (e : expr)
| ETuple (es : list expr)
| EArray (es : list expr)
| EStruct (p : list string) (fields : list (string * expr))
| EIf (c : expr) (t : list expr) (e : option expr)
| ELet (p : pat) (e : expr)
| EMatch (scrut : expr) (arms : list (pat * option expr * expr))
| EBlock (b : list expr)
| EReturn (e : option expr)
| EBreak
| EContinue
| ELoop (b : list expr)
| EWhile (c : expr) (b : list expr)
| EFor (p : pat) (e : expr) (b : list expr)
| EClosure (params : list pat) (body : expr)
| ETry (e : expr)
| ECast (e : expr) (ty : string)
| EIndex (e i : expr)
| ERange (a b : option expr)
| EMacro (name : string) (args : list expr)
| ELetS (p : pat) (init : option expr) (els : option (list expr))
| ESemi (e : expr)
| EOther (s : string).

Record fn_def := { fn_name : string; fn_params : list pat; fn_body : list expr }.

(* Strings that are not printable ASCII are printed by the harnesses as [bs [..byte codes..]]. *)
Definition bs (l : list N) : string :=
  string_of_list_ascii (map Ascii.ascii_of_N l).

Definition str_bytes (s : string) : list N :=
  map Ascii.N_of_ascii (list_ascii_of_string s).
