(* Helpers shared by the case files the harness writes. *)
From Coq Require Export List String NArith Bool.
From AM Require Export Rust.Ast.
Export ListNotations.

(* indices of the cases on which the check fails *)
Definition failing {A} (f : A -> bool) (l : list A) : list N :=
  let fix go (i : N) (l : list A) : list N :=
    match l with
    | [] => []
    | x :: r => if f x then go (N.succ i) r else i :: go (N.succ i) r
    end in
  go 0%N l.

Fixpoint list_eqb {A} (eqb : A -> A -> bool) (a b : list A) : bool :=
  match a, b with
  | [], [] => true
  | x :: r, y :: s => eqb x y && list_eqb eqb r s
  | _, _ => false
  end.

(* classification: 0 = fine; other codes name a failure class (see the engine's summary) *)
Definition coded {A} (f : A -> N) (l : list A) : list (N * N) :=
  let fix go (i : N) (l : list A) : list (N * N) :=
    match l with
    | [] => []
    | x :: r => let c := f x in if N.eqb c 0 then go (N.succ i) r else (i, c) :: go (N.succ i) r
    end in
  go 0%N l.
