(* Checker for the `sysdiff` correspondence engine: the implementation's per-operation outputs and
   I/O traces against Ref.Sys.run on the same operation sequence. *)
From AM Require Import Corr.Common Ref.Load Ref.Sys.
From Coq Require Import ZArith.
Open Scope string_scope.
Open Scope list_scope.

Definition iokind_eqb (a b : iokind) : bool := String.eqb (kind_name a) (kind_name b).

Definition value_eqb (a b : value) : bool :=
  match a, b with
  | VInt x n, VInt y m => Z.eqb x y && String.eqb n m
  | VBytes x, VBytes y => list_eqb N.eqb x y
  | VIds x, VIds y => list_eqb String.eqb x y
  | _, _ => false
  end.

Definition err_eqb (a b : err) : bool :=
  list_eqb String.eqb (e_chain a) (e_chain b) && String.eqb (e_leaf a) (e_leaf b).

Definition out_eqb (a b : out) : bool :=
  match a, b with
  | OutVal v t, OutVal w u => value_eqb v w && N.eqb t u
  | OutErr e, OutErr f => err_eqb e f
  | OutPanic, OutPanic | OutNone, OutNone | OutUnit, OutUnit => true
  | OutBool x, OutBool y => Bool.eqb x y
  | OutRid x, OutRid y => N.eqb x y
  | _, _ => false
  end.

Definition ev_eqb (a b : ev) : bool :=
  match a, b with
  | ERead i e r, ERead j f s => String.eqb i j && String.eqb e f && String.eqb r s
  | EReadOk i e n, EReadOk j f m => String.eqb i j && String.eqb e f && N.eqb n m
  | EReadDir i r, EReadDir j s => String.eqb i j && String.eqb r s
  | EReadDirOk i n, EReadDirOk j m => String.eqb i j && N.eqb n m
  | EMade t w k, EMade u x l => String.eqb t u && String.eqb w x && N.eqb k l
  | EFailed t w c, EFailed u x d => String.eqb t u && String.eqb w x && String.eqb c d
  | EDrop k, EDrop l => N.eqb k l
  | _, _ => false
  end.

Definition is_drop (e : ev) : bool := match e with EDrop _ => true | _ => false end.

Fixpoint insert_n (x : N) (l : list N) : list N :=
  match l with [] => [x] | y :: r => if N.leb x y then x :: l else y :: insert_n x r end.
Definition sort_n (l : list N) : list N := fold_right insert_n [] l.

Definition drops (tr : list ev) : list N :=
  sort_n (flat_map (fun e => match e with EDrop k => [k] | _ => [] end) tr).

(* order of I/O and loader events must agree; the tokens dropped during the operation as a set *)
Definition trace_eqb (a b : list ev) : bool :=
  list_eqb ev_eqb (filter (fun e => negb (is_drop e)) a) (filter (fun e => negb (is_drop e)) b)
  && list_eqb N.eqb (drops a) (drops b).

Fixpoint steps_agree (l m : list (out * list ev)) : bool :=
  match l, m with
  | [], [] => true
  | (o, t) :: r, (p, u) :: q => out_eqb o p && trace_eqb t u && steps_agree r q
  | _, _ => false
  end.

(* (cache has a reloader, operations, observed per-operation outputs) *)
Definition sys_check (c : bool * list op * list (out * list ev)) : bool :=
  let '(rel, ops, obs) := c in
  steps_agree (snd (run (init_st rel) ops)) obs.

(* index of the first operation on which model and implementation differ, with the model's answer *)
Fixpoint first_diff (i : N) (l m : list (out * list ev)) : option (N * option (out * list ev)) :=
  match l, m with
  | [], [] => None
  | (o, t) :: r, (p, u) :: q =>
      if out_eqb o p && trace_eqb t u then first_diff (N.succ i) r q else Some (i, Some (o, t))
  | x :: _, [] => Some (i, Some x)
  | [], _ :: _ => Some (i, None)
  end.

Definition sys_explain (c : bool * list op * list (out * list ev)) :=
  let '(rel, ops, obs) := c in first_diff 0 (snd (run (init_st rel) ops)) obs.
