(* Checker for the `sysdiff` correspondence engine: the implementation's per-operation outputs and
   I/O traces against Ref.Sys.run on the same operation sequence. *)
From AM Require Import Corr.Common Ref.Load Ref.Sys.
From Coq Require Import ZArith.
Open Scope string_scope.
Open Scope list_scope.

Definition iokind_eqb (a b : iokind) : bool := String.eqb (kind_name a) (kind_name b).

Definition value_eqb (a b : value) : bool :=
  match a, b with
  | VInt x n, VInt y m => Z.eqb x y && String.eqb n m
  | VBytes x, VBytes y => list_eqb N.eqb x y
  | VIds x, VIds y => list_eqb String.eqb x y
  | _, _ => false
  end.

Definition err_eqb (a b : err) : bool :=
  list_eqb String.eqb (e_chain a) (e_chain b) && String.eqb (e_leaf a) (e_leaf b).

Definition out_eqb (a b : out) : bool :=
  match a, b with
  | OutVal v t, OutVal w u => value_eqb v w && N.eqb t u
  | OutErr e, OutErr f => err_eqb e f
  | OutPanic, OutPanic | OutNone, OutNone | OutUnit, OutUnit => true
  | OutBool x, OutBool y => Bool.eqb x y
  | OutRid x, OutRid y => N.eqb x y
  | _, _ => false
  end.

Definition ev_eqb (a b : ev) : bool :=
  match a, b with
  | ERead i e r, ERead j f s => String.eqb i j && String.eqb e f && String.eqb r s
  | EReadOk i e n, EReadOk j f m => String.eqb i j && String.eqb e f && N.eqb n m
  | EReadDir i r, EReadDir j s => String.eqb i j && String.eqb r s
  | EReadDirOk i n, EReadDirOk j m => String.eqb i j && N.eqb n m
  | EMade t w k, EMade u x l => String.eqb t u && String.eqb w x && N.eqb k l
  | EFailed t w c, EFailed u x d => String.eqb t u && String.eqb w x && String.eqb c d
  | EDrop k, EDrop l => N.eqb k l
  | _, _ => false
  end.

Definition is_drop (e : ev) : bool := match e with EDrop _ => true | _ => false end.

Fixpoint insert_n (x : N) (l : list N) : list N :=
  match l with [] => [x] | y :: r => if N.leb x y then x :: l else y :: insert_n x r end.
Definition sort_n (l : list N) : list N := fold_right insert_n [] l.

Definition drops (tr : list ev) : list N :=
  sort_n (flat_map (fun e => match e with EDrop k => [k] | _ => [] end) tr).

(* order of I/O and loader events must agree; the tokens dropped during the operation as a set *)
Definition trace_eqb (a b : list ev) : bool :=
  list_eqb ev_eqb (filter (fun e => negb (is_drop e)) a) (filter (fun e => negb (is_drop e)) b)
  && list_eqb N.eqb (drops a) (drops b).

Fixpoint steps_agree (l m : list (out * list ev)) : bool :=
  match l, m with
  | [], [] => true
  | (o, t) :: r, (p, u) :: q => out_eqb o p && trace_eqb t u && steps_agree r q
  | _, _ => false
  end.

(* (cache has a reloader, operations, observed per-operation outputs) *)
Definition sys_check (c : bool * list op * list (out * list ev)) : bool :=
  let '(rel, ops, obs) := c in
  steps_agree (snd (run (init_st rel) ops)) obs.

(* index of the first operation on which model and implementation differ, with the model's answer *)
Fixpoint first_diff (i : N) (l m : list (out * list ev)) : option (N * option (out * list ev)) :=
  match l, m with
  | [], [] => None
  | (o, t) :: r, (p, u) :: q =>
      if out_eqb o p && trace_eqb t u then first_diff (N.succ i) r q else Some (i, Some (o, t))
  | x :: _, [] => Some (i, Some x)
  | [], _ :: _ => Some (i, None)
  end.

Definition sys_explain (c : bool * list op * list (out * list ev)) :=
  let '(rel, ops, obs) := c in first_diff 0 (snd (run (init_st rel) ops)) obs.

(* ------------------------------------------------------------------------------------------
   Property monitors evaluated on the model run (which the correspondence shows to be the
   implementation's run).  Each is the executable form of a theorem statement. *)

(* C10: what is declared non-reloadable is never rewritten *)
Definition protected (s : st) (k : key) (e : entry) : bool :=
  negb (hot_reloaded (fst k)) || negb (has_reloader s) || en_goi e.

Definition removes (o : op) (k : key) : bool :=
  match o with
  | ORemove t id | OTake t id => key_eqb (t, id) k
  | OClear => true
  | _ => false
  end.

Definition entry_same (a b : entry) : bool :=
  value_eqb (en_val a) (en_val b) && N.eqb (en_tok a) (en_tok b) && N.eqb (en_rid a) (en_rid b)
  && N.eqb (en_rid b) 0.

Definition c10_step_ok (s : st) (o : op) (s' : st) : bool :=
  forallb (fun ke : key * entry =>
             if protected s (fst ke) (snd ke) && negb (removes o (fst ke)) then
               match cache_get s' (fst ke) with
               | Some e' => entry_same (snd ke) e'
               | None => false
               end
             else true) (cache s).

Fixpoint c10_run (s : st) (ops : list op) : bool :=
  match ops with
  | [] => true
  | o :: r => let '(s1, _, _) := step default_fuel s o in c10_step_ok s o s1 && c10_run s1 r
  end.

(* C05: after a pass, every plain asset the pass visited holds what a fresh load gives *)
Fixpoint plain_line (l : line) : bool :=
  match l with
  | LVal _ | LLoad _ _ | LOwned _ _ | LReadFile _ _ | LReadDir _ | LFail | LPanic => true
  | LTry l' | LCatch l' => plain_line l'
  | LCached _ _ | LNoRec _ | LThread _ | LInsert _ _ => false
  end.

Definition plain_key (s : st) (k : key) : bool :=
  match fst k with
  | TN =>
      match assoc fkey_eqb (snd k, "n") (files (src s)) with
      | Some (FPresent (CScript _ ls)) => forallb plain_line ls
      | _ => true
      end
  | TRI => false   (* concatenation order follows the listing; sub-directories are their own assets *)
  | _ => true
  end.

(* a fresh load "from the current source and current cache", on a scratch copy of the state *)
Definition fresh_value (s : st) (k : key) : option value :=
  let scratch := set_recs {| src := {| files := files (src s); dirs := dirs (src s); faults := []; reads := 0 |};
                             cache := cache s; next_tok := next_tok s; has_reloader := false;
                             recs := []; cm := []; graph := []; to_reload := []; static_mode := false;
                             watchers := [] |} [] in
  match load_wrapped (load_entry_f default_fuel) (load_owned_f default_fuel) scratch (fst k) (snd k) with
  | (_, _, ROk (v, _)) => Some v
  | _ => None
  end.

Definition asset_deps (s : st) (k : key) : list dep :=
  match g_get (graph s) (DepAsset k) with Some n => g_deps n | None => [] end.

Fixpoint late_bound (s s' : st) (order : list key) : bool :=
  match order with
  | [] => false
  | k :: r =>
      existsb (fun d => match d with
                        | DepAsset k' => key_mem k' r && negb (dep_mem d (asset_deps s k))
                        | _ => false
                        end) (asset_deps s' k)
      || late_bound s s' r
  end.

Definition no_faults (s : st) : bool := match faults (src s) with [] => true | _ => false end.

(* 0 fine, 1 stale without excuse, 2 stale after a late-bound / cyclic pass (known finding D8) *)
Definition c05_pass_code (s : st) (order : list key) (s' : st) : N :=
  if negb (no_faults s) then 0%N else
  let stale := existsb (fun k =>
                          match cache_get s' k with
                          | Some e =>
                              en_dyn e && plain_key s' k &&
                              match fresh_value s' k with
                              | Some v => negb (value_eqb v (en_val e))
                              | None => false
                              end
                          | None => false
                          end) order in
  if stale then (if late_bound s s' order || has_cycle (graph s) order then 2%N else 1%N) else 0%N.

Definition op_order (s : st) (o : op) : option (list key) :=
  match o with
  | OHotReload order => if static_mode s then None else Some order
  | ONotify _ order => if static_mode s then Some order else None
  | OEnhance order => Some order
  | _ => None
  end.

Fixpoint c05_run (s : st) (ops : list op) (acc : N) : N :=
  match ops with
  | [] => acc
  | o :: r =>
      let '(s1, _, _) := step default_fuel s o in
      let s0 := match o with ONotify es _ => take_events (drain s) es | OEnhance _ => set_static (drain s) true | _ => drain s end in
      let c := match op_order s o with
               | Some order => if has_reloader s then c05_pass_code s0 order s1 else 0%N
               | None => 0%N
               end in
      c05_run s1 r (if N.eqb acc 1 then 1%N else if N.eqb c 0 then acc else c)
  end.

(* the codes reported for a case: correspondence first, then the monitors *)
Definition sys_code (c : bool * list op * list (out * list ev)) : N :=
  let '(rel, ops, obs) := c in
  if negb (steps_agree (snd (run (init_st rel) ops)) obs) then 1%N
  else if negb (c10_run (init_st rel) ops) then 3%N
  else match c05_run (init_st rel) ops 0%N with
       | 1%N => 4%N
       | 2%N => 2%N
       | _ => 0%N
       end.
