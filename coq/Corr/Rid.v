(* Checkers for the `ridiff` correspondence engine (C18): implementation observations vs
   Ref.ReloadId. *)
From AM Require Import Corr.Common Ref.ReloadId.
Open Scope N_scope.

(* (start, offers, observed final, observed answers) of a ReloadId::update sequence *)
Definition seq_check (c : N * list N * N * list bool) : bool :=
  let '(start, offers, fin, answers) := c in
  let fix go (cur : rid) (l : list N) : rid * list bool :=
    match l with
    | [] => (cur, [])
    | n :: r => let '(c', b) := update cur n in let '(f, bs) := go c' r in (f, b :: bs)
    end in
  let '(f, bs) := go start offers in
  N.eqb f fin && list_eqb Bool.eqb bs answers.

Definition aout_eqb (a b : aout) : bool :=
  match a, b with
  | OBool x, OBool y => Bool.eqb x y
  | OId x, OId y => N.eqb x y
  | ONone, ONone => true
  | _, _ => false
  end.

Definition at_check (c : N * list aop * list aout * N) : bool :=
  let '(start, ops, outs, fin) := c in
  let fix go (cur : rid) (l : list aop) : rid * list aout :=
    match l with
    | [] => (cur, [])
    | o :: r => let '(c', out) := astep cur o in let '(f, os) := go c' r in (f, out :: os)
    end in
  let '(f, os) := go start ops in
  N.eqb f fin && list_eqb aout_eqb os outs.

Definition conc_check (c : N * list (list (N * bool)) * N) : bool :=
  let '(start, logs, fin) := c in accept_updates start logs fin.
