(* Checker for the `srcdiff` engine (C04, C11): what a real source (filesystem, zip, tar, embedded)
   and the directory assets loaded from it answered, against the tree specification Ref.Tree. *)
From AM Require Import Corr.Common Ref.Tree.
Open Scope string_scope.
Open Scope list_scope.

Inductive query :=
| QRead (i : id) (ext : string)
| QReadDir (i : id)
| QExists (e : dentry)
| QLoadDir (exts : list string) (i : id)       (* load_dir::<T>(i).ids()      *)
| QLoadRecDir (exts : list string) (i : id).   (* load_rec_dir::<T>(i).ids()  *)

Inductive answer :=
| ABytes (b : list N)
| AListing (l : list dentry)
| ABool (b : bool)
| AIds (l : list id)
| ANotFound
| AErr (kind : string).

Definition dentry_eqb (a b : dentry) : bool :=
  match a, b with
  | DFile i x, DFile j y => id_eqb i j && String.eqb x y
  | DDir i, DDir j => id_eqb i j
  | _, _ => false
  end.

(* multiset equality: same length and every element has the same number of occurrences *)
Definition count {A} (eqb : A -> A -> bool) (x : A) (l : list A) : nat := List.length (filter (eqb x) l).
Definition multiset_eqb {A} (eqb : A -> A -> bool) (a b : list A) : bool :=
  Nat.eqb (List.length a) (List.length b) && forallb (fun x => Nat.eqb (count eqb x a) (count eqb x b)) a.

Fixpoint str_leb (a b : string) : bool :=
  match a, b with
  | EmptyString, _ => true
  | String _ _, EmptyString => false
  | String x r, String y q =>
      let nx := Ascii.nat_of_ascii x in let ny := Ascii.nat_of_ascii y in
      if Nat.ltb nx ny then true else if Nat.ltb ny nx then false else str_leb r q
  end.

Definition join (i : id) : string := String.concat "." i.

Fixpoint sorted_nodup (l : list string) : bool :=
  match l with
  | x :: ((y :: _) as r) => str_leb x y && negb (String.eqb x y) && sorted_nodup r
  | _ => true
  end.

Definition nodup_ids (l : list id) : list id :=
  fold_right (fun x acc => if existsb (id_eqb x) acc then acc else x :: acc) [] l.

(* how an absent entry may be reported: not found, or the OS's "a path component is not a
   directory" / "is a directory" *)
Definition absent_answer (a : answer) : bool :=
  match a with
  | ANotFound => true
  | AErr k => String.eqb k "NotADirectory" || String.eqb k "IsADirectory"
  | _ => false
  end.

Definition answer_ok (t : tree) (q : query) (a : answer) : bool :=
  match q, a with
  | QRead i ext, ABytes b => match spec_read t i ext with Some c => list_eqb N.eqb b c | None => false end
  | QRead i ext, (ANotFound | AErr _) => absent_answer a && match spec_read t i ext with Some _ => false | None => true end
  | QReadDir i, AListing l =>
      match spec_read_dir t i with Some w => multiset_eqb dentry_eqb l w | None => false end
  | QReadDir i, (ANotFound | AErr _) => absent_answer a && match spec_read_dir t i with Some _ => false | None => true end
  | QExists e, ABool b => Bool.eqb b (spec_exists t e)
  (* Directory<T>: sorted by the joined id, no duplicates, exactly the matching files *)
  | QLoadDir exts i, AIds l =>
      match dir_ids t exts i with
      | Some w => sorted_nodup (map join l) && multiset_eqb id_eqb l (nodup_ids w)
      | None => false
      end
  | QLoadDir exts i, (ANotFound | AErr _) => absent_answer a && match dir_ids t exts i with Some _ => false | None => true end
  (* RecursiveDirectory<T>: the union over the subtree, in any order *)
  | QLoadRecDir exts i, AIds l =>
      match rec_dir_ids t exts i with
      | Some w => multiset_eqb id_eqb l (nodup_ids w)
      | None => false
      end
  | QLoadRecDir exts i, (ANotFound | AErr _) => absent_answer a && match rec_dir_ids t exts i with Some _ => false | None => true end
  | _, _ => false
  end.

(* (tree, queries with the source's answers) *)
Definition src_check (c : tree * list (query * answer)) : bool :=
  let '(t, qa) := c in forallb (fun x => answer_ok t (fst x) (snd x)) qa.

Definition src_explain (c : tree * list (query * answer)) : list (query * answer) :=
  let '(t, qa) := c in filter (fun x => negb (answer_ok t (fst x) (snd x))) qa.


(* ---- archives against the index model Ref/Archive.v: members in archive order, listings in the
   order the source reported them ---- *)
From AM Require Import Ref.Archive.

Definition arch_answer_ok (ix : index) (q : query) (a : answer) : bool :=
  match q, a with
  | QReadDir d, AListing l =>
    match idx_read_dir ix d with Some l' => list_eqb dentry_eqb l l' | None => false end
  | QReadDir d, ANotFound => match idx_read_dir ix d with None => true | Some _ => false end
  | QReadDir _, _ => false
  | QExists e, ABool b => Bool.eqb (idx_exists ix e) b
  | QRead i x, ABytes _ => idx_exists ix (DFile i x)
  | QRead i x, ANotFound => negb (idx_exists ix (DFile i x))
  | _, _ => true
  end.

(* a member arrives as the components std::path reports for its name (`..` and `.` included) and
   whether it is a directory; what register_file makes of it is Ref.Watcher.walk over the parent's
   components, then the stem pushed (tied to the printed closures by Tie/ArchivePath.v); a path the
   parsing rejects registers nothing *)
From AM Require Ref.Watcher.
Definition raw_member : Type := (list Ref.Watcher.comp * bool)%type.
Definition PN := Ref.Watcher.CNormal.
Definition PP := Ref.Watcher.CParent.
Definition PC := Ref.Watcher.CCur.

Definition member_of_path (m : raw_member) : option member :=
  let '(p, is_dir) := m in
  match rev p with
  | Ref.Watcher.CNormal name :: rparent =>
      match Ref.Watcher.walk [] (rev rparent) with
      | Some b =>
          let '(stem, ext) := Ref.Watcher.split_name name in
          match Ref.Watcher.id_push b stem with
          | Some i => Some (if is_dir then MDir i else MFile i (match ext with Some e => e | None => "" end))
          | None => None
          end
      | None => None
      end
  | _ => None
  end.

Definition members_of_paths (l : list raw_member) : list member :=
  flat_map (fun m => match member_of_path m with Some x => [x] | None => [] end) l.

Definition arch_check (c : list raw_member * list (query * answer)) : bool :=
  let ix := build (members_of_paths (fst c)) in forallb (fun x => arch_answer_ok ix (fst x) (snd x)) (snd c).

Definition arch_explain (c : list raw_member * list (query * answer)) :=
  let ix := build (members_of_paths (fst c)) in
  (idirs ix, filter (fun x => negb (arch_answer_ok ix (fst x) (snd x))) (snd c)).
