(* Checker for the `bytesdiff` engine (C16): what the real SharedBytes / SharedString did, against
   the machine Ref.Bytes (contents, allocator ledger) and the recogniser Ref.Utf8. *)
From AM Require Import Corr.Common Ref.Bytes Ref.Utf8.
Open Scope N_scope.
Open Scope list_scope.

(* what the harness saw for one step: bytes read, and the net change of the allocator ledger
   (layouts of blocks that appeared / disappeared), sorted by (size, align) *)
Record obs := { ob_read : option (list N); ob_new : list layout; ob_gone : list layout }.

Definition layout_leb (a b : layout) : bool :=
  (fst a <? fst b) || ((fst a =? fst b) && (snd a <=? snd b)).
Fixpoint insert_l (x : layout) (l : list layout) : list layout :=
  match l with
  | [] => [x]
  | y :: r => if layout_leb x y then x :: l else y :: insert_l x r
  end.
Definition sort_l (l : list layout) : list layout := fold_right insert_l [] l.

Definition ids_of (l : list (N * layout)) : list N := map fst l.
Definition minus (a b : list (N * layout)) : list layout :=
  map snd (filter (fun x => negb (existsb (N.eqb (fst x)) (ids_of b))) a).

(* a real drop is the decrement and, for the last owner, drop_slow right after it *)
Definition model_steps (s : st) (x : step_t) : st * out_t :=
  match x with
  | SDrop h =>
    let '(s1, o) := Bytes.step s x in
    match get_obj h (objs s1) with
    | Some ob => if o_pending ob then (fst (Bytes.step s1 (SDropSlow h)), o) else (s1, o)
    | None => (s1, o)
    end
  | _ => Bytes.step s x
  end.

(* 0 fine; 1 contents differ; 2 allocations differ; 3 releases differ; 4 the model reports a memory
   error; 5 blocks left after everything was dropped; 6 a step the model rejects *)
Fixpoint check_go (s : st) (l : list (step_t * obs)) : N :=
  match l with
  | [] => if all_released s then (if live s then 0 else 5) else 0
  | (x, ob) :: r =>
    let '(s1, out) := model_steps s x in
    match out with
    | ORejected => 6
    | _ =>
      let read_ok := match out, ob_read ob with
                     | OBytes b, Some b' => list_eqb N.eqb b b'
                     | OBytes _, None => false
                     | _, _ => true
                     end in
      if negb read_ok then 1
      else if negb (list_eqb layout_eqb (sort_l (minus (live s1) (live s))) (sort_l (ob_new ob))) then 2
      else if negb (list_eqb layout_eqb (sort_l (minus (live s) (live s1))) (sort_l (ob_gone ob))) then 3
      else if match errs s1 with [] => false | _ => true end then 4
      else check_go s1 r
    end
  end.
Definition bytes_check_code (c : list (step_t * obs)) : N := check_go init c.

(* UTF-8: (bytes, std::str::from_utf8 accepted, its valid_up_to, SharedString::from_utf8 accepted,
   the accepted string derefs to the same bytes) *)
Definition utf8_check_code (c : list N * bool * N * bool * bool) : N :=
  let '(bs, std_ok, upto, ours_ok, same) := c in
  if negb (Bool.eqb (valid bs) std_ok) then 1
  else if negb (valid_up_to bs =? upto) then 2
  else if negb (Bool.eqb (valid bs) ours_ok) then 3
  else if ours_ok && negb same then 4
  else 0.

(* deserialization from raw bytes: (bytes, SharedString via visit_bytes, via visit_byte_buf, SharedBytes);
   codes: 0 = refused, 1 = accepted and holds exactly these bytes, 2 = accepted with other bytes *)
Definition de_check_code (c : list N * N * N * N) : N :=
  let '(bs, sb, so, bb) := c in
  let want := if valid bs then 1 else 0 in
  if negb (sb =? want) then 1 else if negb (so =? want) then 2 else if negb (bb =? 1) then 3 else 0.
Definition de_explain (c : list N * N * N * N) := let '(bs, _, _, _) := c in (decode bs, valid_up_to bs).

Definition bytes_explain (c : list (step_t * obs)) := fst (fold_left (fun a x => let '(s, o) := model_steps (fst a) (fst x) in (s, snd a ++ [o])) c (init, [])).
Definition utf8_explain (c : list N * bool * N * bool * bool) := let '(bs, _, _, _, _) := c in (decode bs, valid_up_to bs).
