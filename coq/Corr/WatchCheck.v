(* Checker for the `watchdiff` engine (C12): the entries the real NotifyEventHandler sent for one
   notification against Ref.Watcher.handle (repaired table, root is an entry), as sets. *)
From AM Require Import Corr.Common Ref.Watcher.
Open Scope string_scope.
Open Scope list_scope.

Definition entry_eqb (a b : entry) : bool :=
  match a, b with
  | EFile i x, EFile j y => list_eqb String.eqb i j && String.eqb x y
  | EDir i, EDir j => list_eqb String.eqb i j
  | _, _ => false
  end.

Definition subset (a b : list entry) : bool := forallb (fun x => existsb (entry_eqb x) b) a.

Definition kind_of_N (n : N) : kind :=
  match n with
  | 0 => KAny | 1 => KModifyData | 2 => KModifyName | 3 => KCreate | 4 => KRemove | 5 => KAccess | _ => KOther
  end%N.

(* (roots, path, is_dir of the paths looked up, kind code, observed entries) *)
Definition watch_check (c : list path * path * list (path * bool) * N * list entry) : bool :=
  let '(roots, p, dirs, k, obs) := c in
  let is_dir q := match find (fun x => path_eqb (fst x) q) dirs with Some (_, b) => b | None => false end in
  let want := handle true roots is_dir (kind_of_N k) p in
  subset want obs && subset obs want.

(* (root, entry, observed FileSystem::path_of) *)
Definition pathof_check (c : path * entry * path) : bool :=
  let '(root, e, obs) := c in path_eqb (path_of root e) obs.
