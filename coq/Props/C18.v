(* Property C18 -- ReloadId bookkeeping is a monotone maximum, atomically.
   Only statements here; every proof is `exact <lemma>`.  [gen_update] / [gen_astep] are the
   functions rs2v printed from /repo/src/entry.rs on THIS run, executed by Rust/Eval.v. *)
From Coq Require Import List NArith Bool.
From AM Require Import Rust.Ast Rust.Eval Gen.Entry Ref.ReloadId Proofs.ReloadId Proofs.ReloadIdAccept
  Tie.ReloadId.
Import ListNotations.
Open Scope N_scope.

(* 1. The code of ReloadId::update, for every pair of ids: stores the larger one, answers true
      exactly when the stored id grew; NEVER is the least id. *)
Theorem C18_update_code_is_max : forall cur new,
  gen_update cur new = Some (N.max cur new, N.ltb cur new).
Proof. exact ReloadId_update_tie. Qed.

(* 1b. ... where `>` on ids is the derived comparison of the wrapped numbers *)
Theorem C18_code_ids_compare_as_numbers :
  forallb (derives ReloadId_derives) ["PartialEq"; "Eq"; "PartialOrd"; "Ord"]%string = true.
Proof. exact reload_ids_compare_as_numbers. Qed.

Theorem C18_code_update_is_total : plain_update_wf ReloadId_update = true.
Proof. exact update_is_total. Qed.

Theorem C18_code_ids_are_whole_words :
  fn_body ReloadId_fields = [EPath ["usize"%string]] /\ fn_body AtomicReloadId_fields = [EPath ["AtomicUsize"%string]].
Proof. exact reload_ids_are_whole_words. Qed.

Theorem C18_update_true_iff_grew : forall cur new,
  snd (update cur new) = true <-> cur < fst (update cur new).
Proof. exact update_true_iff_grew. Qed.

Theorem C18_never_is_least : forall n, NEVER <= n.
Proof. exact never_least. Qed.

(* 2. The code of every AtomicReloadId method is one step of the atomic-cell model, and touches
      the shared word by exactly one atomic operation. *)
Theorem C18_atomic_code_is_model : forall c o, gen_astep c o = Some (astep c o).
Proof. exact AtomicReloadId_tie. Qed.

Theorem C18_one_atomic_access_per_method :
  map (fun '(_, g) => atomic_calls_of g) (tl (tl fns))
  = [["fetch_max"]; ["fetch_max"]; ["fetch_add"]; ["load"]; ["store"]; ["swap"]]%string.
Proof. exact one_atomic_access_each. Qed.

(* 3. Any number of threads, any programs of update / fetch_max / load, EVERY schedule: when all
      are done the cell holds the maximum offered; it never decreases on the way. *)
Theorem C18_final_is_max : forall c0 threads sched,
  max_only_prog threads ->
  let c := run sched (init_cfg c0 threads) in
  all_done c = true -> cell c = maxl c0 (program_offers threads).
Proof. exact final_is_max_all_schedules. Qed.

Theorem C18_cell_monotone : forall c0 threads sched,
  max_only_prog threads ->
  let c := run sched (init_cfg c0 threads) in
  c0 <= cell c /\ forall e, In e (log c) -> ev_before e <= ev_after e <= cell c.
Proof. exact monotone_all_schedules. Qed.

(* 4. ... and for update callers each distinct growth is reported to exactly one caller and none
      is lost. *)
Theorem C18_one_true_per_growth : forall c0 threads sched,
  update_only_prog threads ->
  let c := run sched (init_cfg c0 threads) in
  NoDup (true_offers (log c)) /\
  (forall n, In n (true_offers (log c)) -> c0 < n <= cell c) /\
  (c0 < cell c -> In (cell c) (true_offers (log c))) /\
  (cell c = c0 -> true_offers (log c) = []).
Proof. exact one_true_per_growth_all_schedules. Qed.

Theorem C18_update_answer_is_growth_of_that_step : forall c0 L c,
  hist c0 L c -> forall e n, In e L -> ev_op e = AUpdate n ->
  ev_out e = OBool (N.ltb (ev_before e) (ev_after e)) /\ (ev_before e < ev_after e -> ev_after e = n).
Proof. exact update_answer_iff_growth. Qed.

(* 5. The oracle of the concurrent correspondence runs accepts every behaviour of the model. *)
Theorem C18_accept_complete : forall c0 threads sched,
  update_only_prog threads ->
  let c := run sched (init_cfg c0 threads) in
  all_done c = true ->
  accept_updates c0 (all_obs (List.length threads) (log c)) (cell c) = true.
Proof. exact accept_updates_complete. Qed.

(* non-vacuity: a concrete 3-thread program and schedule meeting the hypotheses *)
Example C18_nonvacuous :
  let threads := [[AUpdate 3; AUpdate 1]; [AUpdate 5]; [AUpdate 5; AUpdate 2]] in
  let c := run [0;1;2;2;0;1]%nat (init_cfg 1 threads) in
  all_done c = true /\ cell c = 5 /\ true_offers (log c) = [5; 3] /\
  accept_updates 1 (all_obs 3 (log c)) (cell c) = true.
Proof. vm_compute. repeat split. Qed.
