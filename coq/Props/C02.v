(* Property C02 -- the cache is a faithful map keyed by (id, type) for every front-end.
   Statements only, about the system model Ref.Sys; AssetCache, LocalAssetCache and AnyCache views
   are one model (they differ only in [has_reloader]) and the correspondence engine runs the same
   histories through all of them. *)
From Coq Require Import List String NArith ZArith Bool.
From AM Require Import Rust.Ast Gen.Private Ref.Load Ref.Sys Proofs.SysGrows Proofs.SysStatic Proofs.SysMap Tie.Graph Tie.Maps Gen.Anycache Tie.Records Gen.Dirs Tie.Dirs.
Import ListNotations.

(* loads (however Compounds nest, whether they succeed, fail or panic) only ever ADD entries *)
Theorem C02_load_only_adds : forall fuel s t id k e,
  cache_get s k = Some e -> cache_get (fst (fst (step fuel s (OLoad t id)))) k = Some e.
Proof. exact load_frame. Qed.

Theorem C02_load_owned_adds_nothing_of_its_own : forall fuel s t id k e,
  cache_get s k = Some e -> cache_get (fst (fst (step fuel s (OLoadOwned t id)))) k = Some e.
Proof. exact load_owned_only_nested. Qed.

Theorem C02_get_cached_and_contains_add_nothing : forall fuel s t id,
  cache (fst (fst (step fuel s (OGetCached t id)))) = cache s /\
  cache (fst (fst (step fuel s (OContains t id)))) = cache s.
Proof. exact get_cached_adds_nothing. Qed.

Theorem C02_load_of_a_present_key_returns_it : forall fuel s t id e,
  cache_get s (t, id) = Some e ->
  let r := step (S fuel) s (OLoad t id) in
  cache (fst (fst r)) = cache s /\ snd (fst r) = OutVal (en_val e) (en_tok e) /\ snd r = [].
Proof. exact load_hit. Qed.

Theorem C02_successful_load_is_cached : forall fuel s t id v tok,
  snd (fst (step (S fuel) s (OLoad t id))) = OutVal v tok ->
  exists e, cache_get (fst (fst (step (S fuel) s (OLoad t id)))) (t, id) = Some e /\ en_val e = v /\ en_tok e = tok.
Proof. exact load_success_caches. Qed.

Theorem C02_get_or_insert_never_overwrites : forall fuel s t id z e,
  cache_get s (t, id) = Some e ->
  let r := step fuel s (OGetOrInsert t id z) in
  cache (fst (fst r)) = cache s /\ snd (fst r) = OutVal (en_val e) (en_tok e) /\ snd r = [EDrop (next_tok s)].
Proof. exact goi_never_overwrites. Qed.

Theorem C02_get_or_insert_inserts_when_absent : forall fuel s t id z,
  cache_get s (t, id) = None ->
  let r := step fuel s (OGetOrInsert t id z) in
  exists e, cache_get (fst (fst r)) (t, id) = Some e /\ en_val e = VInt z "insert" /\
            en_dyn e = false /\ snd (fst r) = OutVal (en_val e) (en_tok e) /\ snd r = [].
Proof. exact goi_inserts_when_absent. Qed.

Theorem C02_remove_deletes_exactly_its_key : forall fuel s t id,
  let s' := fst (fst (step fuel s (ORemove t id))) in
  cache_get s' (t, id) = None /\ forall k, k <> (t, id) -> cache_get s' k = cache_get s k.
Proof. exact remove_exact. Qed.

Theorem C02_take_deletes_exactly_its_key_and_returns_it : forall fuel s t id,
  let r := step fuel s (OTake t id) in
  cache_get (fst (fst r)) (t, id) = None /\
  (forall k, k <> (t, id) -> cache_get (fst (fst r)) k = cache_get s k) /\
  snd (fst r) = match cache_get s (t, id) with Some e => OutVal (en_val e) (en_tok e) | None => OutNone end.
Proof. exact take_exact. Qed.

Theorem C02_clear_empties : forall fuel s, cache (fst (fst (step fuel s OClear))) = [].
Proof. exact clear_empties. Qed.

(* the code's keys: equality compares type AND id of both sides; hashing feeds type id then id *)
Theorem C02_code_keys_compare_type_and_id : key_eq_wf dynKey_eq = true /\ key_hash_wf dynKey_hash = true.
Proof. exact cache_keys_compare_type_and_id. Qed.

(* every operation of both map implementations addresses the key it was given: the sharded map picks
   the shard from the whole key (same computation for & and &mut access), take removes under that
   key, remove is take *)
Theorem C02_code_maps_address_the_given_key :
  keyed_lookup Gen.CacheMap.AssetMap_get "read" "get" = true /\
  keyed_lookup Gen.CacheMap.AssetMap_contains_key "read" "contains_key" = true /\
  or_insert_wf Gen.CacheMap.AssetMap_insert "write" = true /\
  take_wf Gen.CacheMap.AssetMap_take = true /\
  shard_index_wf Gen.CacheMap.AssetMap_get_shard = true /\
  shard_index_wf Gen.CacheMap.AssetMap_get_shard_mut = true /\
  take_uses_shard_of_key Gen.CacheMap.AssetMap_take = true /\
  remove_is_take Gen.CacheMap.AssetMap_remove = true /\
  keyed_lookup Gen.LocalMap.AssetMap_get "borrow" "get" = true /\
  keyed_lookup Gen.LocalMap.AssetMap_contains_key "borrow" "contains_key" = true /\
  or_insert_wf Gen.LocalMap.AssetMap_insert "borrow_mut" = true /\
  take_wf Gen.LocalMap.AssetMap_take = true.
Proof. exact maps_as_modelled. Qed.

(* clear empties every shard of the sharded map / the one table of the local map *)
Theorem C02_code_clear_empties_the_whole_map :
  clears_every_shard Gen.CacheMap.AssetMap_clear = true /\
  clears_its_table Gen.LocalMap.AssetMap_clear = true /\
  cache_clear_wf Gen.CacheMap.AssetCache_clear = true /\
  cache_clear_wf Gen.LocalMap.LocalAssetCache_clear = true.
Proof. exact clear_empties_the_whole_map. Qed.

Theorem C02_code_keys_carry_the_id_as_given :
  key_ctor_wf Gen.Private.BorrowedKey_new_with false = true /\ key_ctor_wf Gen.Private.BorrowedKey_new true = true /\
  key_ctor_wf Gen.Private.OwnedKey_new_with false = true /\ key_ctor_wf Gen.Private.OwnedKey_new true = true /\
  key_borrow_wf Gen.Private.OwnedKey_borrow = true /\ key_to_owned_wf Gen.Private.BorrowedKey_to_owned = true.
Proof. exact keys_carry_the_id_as_given. Qed.

(* two types under one id are two keys *)
Example C02_types_are_separate_keys :
  let s := fst (run (init_st false)
                  [OWrite "a" "x" (CBytes [52%N; 50%N]); OLoad TI "a"; OLoad TS "a"; ORemove TI "a"]) in
  cache_get s (TI, "a") = None /\ exists e, cache_get s (TS, "a") = Some e /\ en_val e = VInt 42 "x".
Proof. vm_compute. split; [reflexivity|eexists; split; reflexivity]. Qed.

(* every typed load goes through the cached look-up first and builds a value only on a miss; the
   look-up consults the map whatever the type's reload flag and whether or not a reloader exists *)
Theorem C02_code_lookup_before_load :
  lookup_recorded Gen.Anycache.Cache_get_cached_entry_inner = true /\
  load_entry_wf Gen.Anycache.Cache_load_entry = true.
Proof. exact (conj (proj1 (proj2 (proj2 recording_call_sites))) (proj1 (proj2 (proj2 (proj2 recording_call_sites))))). Qed.

(* a load of a plain type (no nested loads) that does not succeed leaves the map exactly as it was;
   for every type, a load that does not succeed performs no insertion itself: the map afterwards is
   the one its loader left *)
Theorem C02_failed_plain_load_adds_nothing : forall fuel s t id,
  plain t = true ->
  (forall e, snd (load_entry_f fuel s t id) <> ROk e) ->
  cache (fst (fst (load_entry_f fuel s t id))) = cache s.
Proof. exact failed_plain_load_adds_nothing. Qed.

Theorem C02_failed_load_inserts_nothing_itself : forall f s t id,
  (forall e, snd (load_entry_f (S f) s t id) <> ROk e) ->
  cache (fst (fst (load_entry_f (S f) s t id))) =
  cache (fst (fst (load_and_record (load_entry_f f) (load_owned_f f) (fst (get_cached_rec s t id)) t id))).
Proof. exact failed_load_inserts_nothing_itself. Qed.

(* the premise is met: an undecodable file, then the same key loaded again after the repair *)
Example C02_failed_load_nonvacuous :
  let s0 := fst (run (init_st false) [OWrite "a" "x" (CBytes [104%N; 105%N])]) in
  (forall e, snd (load_entry_f default_fuel s0 TI "a") <> ROk e) /\ plain TI = true /\
  cache (fst (fst (load_entry_f default_fuel s0 TI "a"))) = [].
Proof. vm_compute. repeat split. intros e H; discriminate H. Qed.

(* the slow path of a load hands its entry to the map's insert and does nothing else with the map:
   the loser of a creation race is dropped by insert, it never overwrites the winner *)
Theorem C02_code_add_asset_loads_then_inserts : add_asset_wf Gen.Anycache.RawCache_add_asset = true.
Proof. exact add_asset_loads_then_inserts. Qed.

(* directory loads cache what the model says they cache: Directory<T> reads the listing itself,
   RecursiveDirectory<T> goes through cache.load for the directory and for every sub-directory (so
   those entries are in the map afterwards) *)
Theorem C02_code_directory_loads_go_through_the_cache :
  dir_load_wf Directory_load = true /\ rec_load_wf RecursiveDirectory_load = true.
Proof. exact (conj (proj1 (proj2 (proj2 (proj2 (proj2 (proj2 dirs_as_specified)))))) (proj2 (proj2 (proj2 (proj2 (proj2 (proj2 dirs_as_specified))))))). Qed.

(* ... and every cache kind takes that slow path: neither AssetCache nor LocalAssetCache replaces
   RawCache's add_asset (their impls define assets / get_source / reloader only), so no map borrow
   or shard lock is held while a loader runs and nested loads of any depth go through *)
Theorem C02_code_caches_load_through_the_default_add_asset :
  raw_items_wf Gen.CacheMap.AssetCache_raw_items = true /\
  raw_items_wf Gen.LocalMap.LocalAssetCache_raw_items = true.
Proof. exact caches_load_through_the_default_add_asset. Qed.
