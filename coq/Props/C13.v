(* Property C13 -- every stored value is dropped exactly once; type erasure never lies.
   Statements only.  The global ledger (every token made is dropped exactly once by the time the
   cache is gone) is checked on the implementation by the correspondence engine; here: who drops
   what, operation by operation, and the guarded casts of the code. *)
From Coq Require Import List String NArith ZArith Bool.
From AM Require Import Rust.Ast Gen.Entry Ref.Load Ref.Sys Proofs.SysGrows Proofs.SysStatic Proofs.SysMap
  Proofs.SysReload Tie.Erasure Tie.Entry Tie.Maps Rust.Script.
Import ListNotations.

Theorem C13_casts_are_guarded_by_the_type_id :
  is_wf UntypedEntry_is = true /\
  guarded_cast UntypedEntry_downcast_ref "Some" "None" = true /\
  guarded_cast UntypedEntry_downcast "Ok" "Err" = true /\
  into_inner_wf CacheEntry_into_inner = true /\
  handle_downcast_wf UntypedHandle_downcast_ref UntypedHandle_downcast_ref_ok = true.
Proof. exact erasure_is_checked. Qed.

(* an insertion that loses (the key is present) drops its value at once and changes nothing *)
Theorem C13_insertion_loser_dropped_at_once : forall s k e old,
  cache_get s k = Some old ->
  snd (cache_insert s k e) = drop_of_tok (en_tok e) /\ fst (fst (cache_insert s k e)) = s.
Proof. exact insertion_loser_dropped_at_once. Qed.

(* the printed insert of both maps keeps the entry that is there (`entry(key).or_insert(new)` under
   the write lock / mutable borrow) and hands out the kept one: the loser is the argument, which
   or_insert drops, never the value handles already point to *)
Theorem C13_code_insert_keeps_the_first :
  or_insert_wf Gen.CacheMap.AssetMap_insert "write" = true /\
  or_insert_wf Gen.LocalMap.AssetMap_insert "borrow_mut" = true.
Proof.
  destruct maps_as_modelled as (_ & _ & H1 & _ & _ & _ & _ & _ & _ & _ & H2 & _). exact (conj H1 H2).
Qed.

Theorem C13_remove_drops_exactly_the_removed : forall fuel s t id e,
  cache_get s (t, id) = Some e -> snd (step fuel s (ORemove t id)) = drop_of e.
Proof. exact remove_drops_the_removed. Qed.

Theorem C13_take_hands_over_then_the_caller_drops : forall fuel s t id e,
  cache_get s (t, id) = Some e -> snd (step fuel s (OTake t id)) = drop_of e.
Proof. exact take_drops_after_handing_over. Qed.

Theorem C13_clear_drops_every_entry : forall fuel s,
  snd (step fuel s OClear) = flat_map (fun kv => drop_of (snd kv)) (cache s).
Proof. exact clear_drops_everything. Qed.

(* nothing else is dropped while a handle can reach it: loads never remove or replace entries *)
Theorem C13_entries_reachable_through_handles_survive_loads : forall fuel s t id k e,
  cache_get s k = Some e -> cache_get (fst (fst (load_entry_f fuel s t id))) k = Some e.
Proof. exact load_entry_never_overwrites. Qed.

(* a reload replaces a value only while holding the entry's WRITE lock (no read guard can reach the
   old value when it is swapped out and dropped): the printed `write` is accepted by the lock
   discipline checker of C07, whose theorems (no torn read, guards pin values) then apply *)
Theorem C13_old_value_is_replaced_under_the_write_lock :
  writer_ok (write_script UntypedEntry_write) = true.
Proof. exact write_accepted. Qed.

(* a key found under type t was stored under type t: keys carry the type *)
Theorem C13_lookup_is_by_type : forall a b : key, key_eqb a b = true <-> a = b.
Proof. exact key_eqb_eq. Qed.

(* a reload replaces a value only by one of the same type, whole *)
Theorem C13_code_reload_swaps_whole_same_typed_values :
  write_guards_type UntypedEntry_write = true /\ swap_any_wf swap_any = true.
Proof. exact reload_swaps_whole_same_typed_values. Qed.
