(* Property C13 -- every stored value is dropped exactly once; type erasure never lies.
   Statements only.  Who drops what, operation by operation; the guarded casts of the code; and the
   global ledger of the model for every history (the implementation's own ledger is checked by the
   correspondence engine). *)
From Coq Require Import List String NArith ZArith Bool.
From AM Require Import Rust.Ast Gen.Entry Ref.Load Ref.Sys Proofs.SysGrows Proofs.SysStatic Proofs.SysMap
  Proofs.SysReload Proofs.SysLedger Tie.Erasure Tie.Entry Tie.Maps Rust.Script Gen.Anycache Tie.Records.
From AM Require Gen.Cell Tie.Cell.
Import ListNotations.

Theorem C13_casts_are_guarded_by_the_type_id :
  is_wf UntypedEntry_is = true /\
  guarded_cast UntypedEntry_downcast_ref "Some" "None" = true /\
  guarded_cast UntypedEntry_downcast "Ok" "Err" = true /\
  into_inner_wf CacheEntry_into_inner = true /\
  handle_downcast_wf UntypedHandle_downcast_ref UntypedHandle_downcast_ref_ok = true.
Proof. exact erasure_is_checked. Qed.

(* an insertion that loses (the key is present) drops its value at once and changes nothing *)
Theorem C13_insertion_loser_dropped_at_once : forall s k e old,
  cache_get s k = Some old ->
  snd (cache_insert s k e) = drop_of_tok (en_tok e) /\ fst (fst (cache_insert s k e)) = s.
Proof. exact insertion_loser_dropped_at_once. Qed.

(* the printed insert of both maps keeps the entry that is there (`entry(key).or_insert(new)` under
   the write lock / mutable borrow) and hands out the kept one: the loser is the argument, which
   or_insert drops, never the value handles already point to *)
Theorem C13_code_insert_keeps_the_first :
  or_insert_wf Gen.CacheMap.AssetMap_insert "write" = true /\
  or_insert_wf Gen.LocalMap.AssetMap_insert "borrow_mut" = true.
Proof.
  destruct maps_as_modelled as (_ & _ & H1 & _ & _ & _ & _ & _ & _ & _ & H2 & _). exact (conj H1 H2).
Qed.

Theorem C13_remove_drops_exactly_the_removed : forall fuel s t id e,
  cache_get s (t, id) = Some e -> snd (step fuel s (ORemove t id)) = drop_of e.
Proof. exact remove_drops_the_removed. Qed.

Theorem C13_take_hands_over_then_the_caller_drops : forall fuel s t id e,
  cache_get s (t, id) = Some e -> snd (step fuel s (OTake t id)) = drop_of e.
Proof. exact take_drops_after_handing_over. Qed.

Theorem C13_clear_drops_every_entry : forall fuel s,
  snd (step fuel s OClear) = flat_map (fun kv => drop_of (snd kv)) (cache s).
Proof. exact clear_drops_everything. Qed.

(* nothing else is dropped while a handle can reach it: loads never remove or replace entries *)
Theorem C13_entries_reachable_through_handles_survive_loads : forall fuel s t id k e,
  cache_get s k = Some e -> cache_get (fst (fst (load_entry_f fuel s t id))) k = Some e.
Proof. exact load_entry_never_overwrites. Qed.

(* a reload replaces a value only while holding the entry's WRITE lock (no read guard can reach the
   old value when it is swapped out and dropped): the printed `write` is accepted by the lock
   discipline checker of C07, whose theorems (no torn read, guards pin values) then apply *)
Theorem C13_old_value_is_replaced_under_the_write_lock :
  writer_ok (write_script UntypedEntry_write) = true.
Proof. exact write_accepted. Qed.

(* a key found under type t was stored under type t: keys carry the type *)
Theorem C13_lookup_is_by_type : forall a b : key, key_eqb a b = true <-> a = b.
Proof. exact key_eqb_eq. Qed.

(* a reload replaces a value only by one of the same type, whole *)
Theorem C13_code_reload_swaps_whole_same_typed_values :
  write_guards_type UntypedEntry_write = true /\ swap_any_wf swap_any = true.
Proof. exact reload_swaps_whole_same_typed_values. Qed.

(* The ledger.  Tokens are the numbers handed out to the values the loaders (and get_or_insert's
   callers) make; [toks] are the tokens held by the cache entries, [drops] the tokens the trace reports
   as dropped.  For every history from the empty cache -- any operations, any nesting of Compounds,
   any fault, error or panic: a token has been handed out exactly when it is held by one entry or has
   been dropped once ... *)
Theorem C13_ledger_of_every_history : forall reloader ops t, t <> 0%N ->
  let x := run (init_st reloader) ops in
  ind 1 (next_tok (fst x)) t = (cnt t (drops (trace_of (snd x))) + cnt t (toks (fst x)))%nat.
Proof. exact ledger_of_every_history. Qed.

(* ... so no value is dropped twice, none is dropped while an entry still holds it, no two entries
   hold the same value ... *)
Theorem C13_no_double_drop : forall reloader ops t, t <> 0%N ->
  let x := run (init_st reloader) ops in
  (cnt t (drops (trace_of (snd x))) + cnt t (toks (fst x)) <= 1)%nat.
Proof. exact no_double_drop. Qed.

(* ... and once the cache is empty every value ever made has been dropped exactly once *)
Theorem C13_everything_dropped_once_when_empty : forall reloader ops t,
  let x := run (init_st reloader) ops in
  cache (fst x) = [] -> (1 <= t)%N -> (t < next_tok (fst x))%N -> cnt t (drops (trace_of (snd x))) = 1%nat.
Proof. exact everything_dropped_once_when_empty. Qed.

(* one operation at a time: what was made is stored, dropped or handed over, from any state whose
   keys are distinct (which the operation preserves) *)
Theorem C13_every_operation_balances : forall fuel s o,
  let x := step fuel s o in Bal s (fst (fst x)) [] (snd x) [].
Proof. exact step_bal. Qed.

Example C13_ledger_nonvacuous :
  let x := run (init_st true)
             [OWrite "a" "x" (CBytes [52%N]); OLoad TI "a"; OLoadOwned TI "a"; OGetOrInsert TV "v" 7;
              OWrite "a" "x" (CBytes [53%N]); ONotify [DFile "a" "x"] []; OHotReload [(TI, "a")]; OClear] in
  cache (fst x) = [] /\ next_tok (fst x) = 5%N /\
  map (fun t => cnt t (drops (trace_of (snd x)))) [1; 2; 3; 4]%N = [1; 1; 1; 1]%nat.
Proof. vm_compute. repeat split. Qed.

(* the slow path of a load hands its entry to the map's insert and does nothing else with the map:
   the loser of a creation race is dropped by insert, it never overwrites the winner *)
Theorem C13_code_add_asset_loads_then_inserts : add_asset_wf Gen.Anycache.RawCache_add_asset = true.
Proof. exact add_asset_loads_then_inserts. Qed.

(* the lazily initialised wrapper drops the arm it holds, whatever the two types are: the seed when
   never initialised, the value otherwise -- no shortcut on drop glue *)
Theorem C13_code_cell_drops_the_arm_it_holds : AM.Tie.Cell.drop_wf AM.Gen.Cell.OnceInitCell_drop = true.
Proof. exact (proj2 (proj2 (proj2 (proj2 AM.Tie.Cell.cell_as_modelled)))). Qed.
