(* Property C04 -- every source shows the same tree: FileSystem, Zip, Tar, Embedded.
   Statements only.  The specification side (Ref.Tree) is what every source must answer; that the
   real sources do is the business of the correspondence engine `srcdiff` (translation
   validation: the same questions to every materialisation of a generated tree). *)
From Coq Require Import List String NArith Bool.
From AM Require Import Ref.Tree Proofs.Tree.
Import ListNotations.

Theorem C04_listing_is_exactly_the_direct_children : forall t d l,
  spec_read_dir t d = Some l ->
  (forall i x, In (DFile i x) l <-> (exists b, In (i, x, b) (tfiles t)) /\ parent i = Some d) /\
  (forall i, In (DDir i) l <-> In i (tdirs t) /\ parent i = Some d).
Proof. exact listing_is_exactly_the_children. Qed.

Theorem C04_listed_entries_are_readable_under_their_id : forall t d l e,
  spec_read_dir t d = Some l -> In e l -> spec_exists t e = true.
Proof. exact listed_entries_are_there. Qed.

Theorem C04_read_dir_answers_exactly_for_directories : forall t d,
  (exists l, spec_read_dir t d = Some l) <-> is_dir t d = true.
Proof. exact read_dir_iff_directory. Qed.
