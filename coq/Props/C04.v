(* Property C04 -- every source shows the same tree: FileSystem, Zip, Tar, Embedded.
   Statements only.  The specification side (Ref.Tree) is what every source must answer; that the
   real sources do is the business of the correspondence engine `srcdiff` (translation
   validation: the same questions to every materialisation of a generated tree). *)
From Coq Require Import List String NArith Bool.
From Coq Require Import Permutation.
From AM Require Import Rust.Ast Gen.Archive Ref.Tree Proofs.Tree Ref.Archive Proofs.Archive Tie.Archive Gen.Private Tie.Graph Gen.Embed Tie.Embed Ref.Embed Proofs.Embed.
From AM Require Gen.Fs Tie.Fs.
From AM Require Tie.Watcher.
From AM Require Import Tie.ArchivePath.
Import ListNotations.

Theorem C04_listing_is_exactly_the_direct_children : forall t d l,
  spec_read_dir t d = Some l ->
  (forall i x, In (DFile i x) l <-> (exists b, In (i, x, b) (tfiles t)) /\ parent i = Some d) /\
  (forall i, In (DDir i) l <-> In i (tdirs t) /\ parent i = Some d).
Proof. exact listing_is_exactly_the_children. Qed.

Theorem C04_listed_entries_are_readable_under_their_id : forall t d l e,
  spec_read_dir t d = Some l -> In e l -> spec_exists t e = true.
Proof. exact listed_entries_are_there. Qed.

Theorem C04_read_dir_answers_exactly_for_directories : forall t d,
  (exists l, spec_read_dir t d = Some l) <-> is_dir t d = true.
Proof. exact read_dir_iff_directory. Qed.

(* ---- archives: the index zip.rs / tar.rs build at open time (Ref/Archive.v) ---- *)

(* the printed code is that construction: register_dir, register_file, the root first and then the
   members in archive order; read_dir / exists answer from the two tables *)
Theorem C04_code_builds_the_modelled_index :
  register_dir_wf zip_register_dir = true /\ register_dir_wf tar_register_dir = true /\
  register_file_wf zip_register_file = true /\ register_file_wf tar_register_file = true /\
  path_source_wf "enclosed_name" zip_register_file = true /\ path_source_wf "path" tar_register_file = true /\
  create_wf zip_loop zip_create = true /\ create_wf tar_loop tar_create = true /\
  read_dir_wf zip_read_dir = true /\ read_dir_wf tar_read_dir = true /\
  exists_wf zip_exists = true /\ exists_wf tar_exists = true.
Proof. exact archives_index_as_modelled. Qed.

Theorem C04_code_reads_whole_members : zip_read_wf zip_read = true /\ tar_read_wf tar_read = true.
Proof. exact archives_read_whole_members. Qed.

(* for EVERY list of members (any order, any subset of directories having members of their own,
   no member twice, no empty file id): the index answers exists / read_dir exactly like the
   specification for the tree the members describe -- root and every implied intermediate
   directory included, each child listed exactly once *)
Theorem C04_archive_index_answers_like_the_tree : forall bytes ms,
  NoDup ms -> (forall i x, In (MFile i x) ms -> i <> []) ->
  let ix := build ms in let t := tree_of bytes ms in
  (forall d, idx_exists ix (DDir d) = is_dir t d) /\
  (forall i x, idx_exists ix (DFile i x) = spec_exists t (DFile i x)) /\
  (forall d, match idx_read_dir ix d, spec_read_dir t d with
             | Some l, Some l' => NoDup l /\ forall e, In e l <-> In e l'
             | None, None => True
             | _, _ => False
             end).
Proof. exact index_answers_like_the_tree. Qed.

Theorem C04_member_order_is_irrelevant : forall ms ms',
  NoDup ms -> (forall i x, In (MFile i x) ms -> i <> []) -> Permutation ms ms' ->
  forall d, same_listing (idx_read_dir (build ms) d) (idx_read_dir (build ms') d).
Proof. exact member_order_is_irrelevant. Qed.

Theorem C04_implied_directory_members_are_redundant : forall ms i,
  NoDup (MDir i :: ms) -> (forall j x, In (MFile j x) ms -> j <> []) ->
  (exists m, In m ms /\ is_prefix i (dir_part m) = true) ->
  forall d, same_listing (idx_read_dir (build (MDir i :: ms)) d) (idx_read_dir (build ms) d).
Proof. exact implied_directory_members_are_redundant. Qed.

Example C04_archive_nonvacuous :
  let ms := [MFile ["a";"b";"f"] "x"; MDir ["a"]; MFile ["g"] ""; MDir ["c";"d"]; MFile ["a";"h"] "y"]%string in
  idx_read_dir (build ms) ["a"]%string = Some [DDir ["a";"b"]; DFile ["a";"h"] "y"]%string /\
  idx_read_dir (build ms) [] = Some [DDir ["a"]; DFile ["g"] ""; DDir ["c"]]%string /\
  idx_read_dir (build ms) ["c"]%string = Some [DDir ["c";"d"]]%string /\
  idx_read_dir (build ms) ["zz"]%string = None.
Proof. vm_compute. repeat split. Qed.

(* FileSystem: id -> path under the root (segments, then the extension through set_extension; the
   empty id stays inside the root) *)
Theorem C04_code_path_of_entry : path_of_entry_wf path_of_entry = true.
Proof. exact path_of_entry_as_specified. Qed.

Theorem C04_code_parent_id : parent_id_wf DirEntry_parent_id = true.
Proof. exact parent_id_as_modelled. Qed.

(* the embed! macro fills the tables of an Embedded source as modelled: one row per file, one listing
   per directory (sorted for reproducible builds; Embedded::from collects both into hash maps) *)
Theorem C04_code_embed_macro :
  fn_body Content_push_file = expected_Content_push_file /\
  fn_body Content_push_dir = expected_Content_push_dir /\
  fn_body Content_sort = expected_Content_sort /\
  fn_body embed_read_dir = expected_embed_read_dir /\
  fn_body Id_push = expected_Id_push /\
  fn_body embed_extension_of = expected_embed_extension_of.
Proof. exact embed_macro_as_modelled. Qed.

(* The tables the macro builds from a directory (Ref/Embed.v: depth-first walk, push_dir / push_file)
   ARE the index an archive listing the same directory depth first would get -- literally the same
   tables -- for every directory tree, of any depth and width, whose entries are distinct ... *)
Theorem C04_embedded_tables_are_an_archive_index : forall root,
  NoDup (members_of_list root []) -> embed_build root = build (members_of_list root []).
Proof. exact embed_is_an_archive. Qed.

(* ... hence the Embedded source answers like the tree: same directories, same files, and every
   listing the exact set of direct children, each once *)
Theorem C04_embedded_answers_like_the_tree : forall bytes root,
  NoDup (members_of_list root []) ->
  let ix := embed_build root in let t := tree_of bytes (members_of_list root []) in
  (forall d, idx_exists ix (DDir d) = is_dir t d) /\
  (forall i x, idx_exists ix (DFile i x) = spec_exists t (DFile i x)) /\
  (forall d, match idx_read_dir ix d, spec_read_dir t d with
             | Some l, Some l' => NoDup l /\ forall e, In e l <-> In e l'
             | None, None => True
             | _, _ => False
             end).
Proof. exact embedded_answers_like_the_tree. Qed.

Example C04_embedded_nonvacuous :
  let root := [FDir "d" [FFile "a" "x"; FDir "e" [FFile "b" ""]]; FFile "a" "x"; FFile "a" "y"] in
  NoDup (members_of_list root []) /\
  idx_read_dir (embed_build root) ["d"] = Some [DFile ["d"; "a"] "x"; DDir ["d"; "e"]].
Proof.
  cbv zeta. split; [|vm_compute; reflexivity].
  repeat (constructor; [cbn; intuition (try discriminate; try congruence)|]). constructor.
Qed.

(* the FileSystem source hands back exactly the bytes fs::read returned for the entry's path, of any
   length, and answers exists / read_dir from that path *)
Theorem C04_code_filesystem_source :
  fn_body Gen.Fs.FileSystem_read = Tie.Fs.expected_FileSystem_read /\
  fn_body Gen.Fs.FileSystem_exists = Tie.Fs.expected_FileSystem_exists /\
  fn_body Gen.Fs.FileSystem_path_of = Tie.Fs.expected_FileSystem_path_of /\
  fn_body Gen.Fs.FileSystem_read_dir = Tie.Fs.expected_FileSystem_read_dir.
Proof. exact Tie.Fs.filesystem_source_as_modelled. Qed.

(* the member paths of an archive are parsed as the model says, `..` and `.` components included:
   `d/../f.x` is the file f of the root (Tie/ArchivePath.v; finite sweep, bound in the statement) *)
Theorem C04_code_archive_paths_parsed_as_modelled :
  forallb (fun p => Tie.Watcher.outcome_eqb (gen_parse zip_register_file p) (ref_parse p) &&
                    Tie.Watcher.outcome_eqb (gen_parse tar_register_file p) (ref_parse p)) member_paths = true.
Proof. exact archive_paths_bounded_tie. Qed.
