(* Property C17 -- OnceInitCell initialises once, keeps its seed on failure, drops once.
   Statements only.  once_cell's OnceCell semantics (one initialiser at a time; failure or panic
   leaves it empty) are trusted and built into the machine Ref/OnceInit.v. *)
From Coq Require Import List Bool Arith.
From AM Require Import Rust.Ast Gen.Cell Ref.OnceInit Proofs.OnceInit Tie.Cell.
Import ListNotations.

Theorem C17_code_as_modelled :
  get_wf OnceInitCell_get = true /\ dispatch_wf OnceInitCell_get_or_try_init = true /\
  default_wf OnceInitCell_default = true /\ no_drop_wf OnceInitCell_no_drop = true /\
  drop_wf OnceInitCell_drop = true.
Proof. exact cell_as_modelled. Qed.

Theorem C17_code_constructors_agree_with_the_once_state :
  ctor_wf OnceInitCell_new "new" "uninit" = true /\ ctor_wf OnceInitCell_with_value "with_value" "init" = true /\
  get_unchecked_wf OnceInitCell_get_unchecked = true /\ fn_body drop_cold = [] /\
  load_wraps_new OnceInitCell_load = true.
Proof. exact cell_constructors_agree_with_the_once_state. Qed.

Theorem C17_code_get_or_init_is_get_or_try_init : get_or_init_wf OnceInitCell_get_or_init = true.
Proof. exact get_or_init_delegates. Qed.

(* any number of threads, any outcome script per initialiser (succeed / fail / panic), every
   schedule: the succeeding initialiser ran exactly once iff the cell is initialised, exactly one
   of seed and value is in the cell, nothing is dropped twice, the value is never dropped before
   the cell, a failure keeps the seed and hands no value to anybody *)
Theorem C17_initialised_once_all_schedules : forall outs sched,
  let c := run true sched (init outs) in
  successes c = (if inited c then 1 else 0) /\
  seed_in_cell c = negb (inited c) /\
  seed_drops c <= 1 /\ value_drops c = 0 /\
  (inited c = false -> seed_drops c = 0 /\ count is_gotvalue (threads c) = 0).
Proof. exact one_success_all_schedules. Qed.

(* when everybody has returned and the cell is dropped: the seed was dropped exactly once, the
   value exactly once iff it ever existed *)
Theorem C17_each_dropped_exactly_once : forall outs sched,
  let c := run true sched (init outs) in
  quiescent c = true ->
  let d := drop_cell c in
  seed_drops d = 1 /\ value_drops d = (if inited c then 1 else 0).
Proof. exact each_dropped_once. Qed.

(* seeds without destructor: no initialiser ever drops the seed *)
Theorem C17_no_drop_path_never_drops_the_seed : forall outs sched,
  seed_drops (run false sched (init outs)) = 0.
Proof. exact no_drop_path_never_drops_the_seed_early. Qed.

(* the once-state the model abstracts (one initialiser at a time, publication with release / acquire)
   is once_cell's thread-safe cell *)
Theorem C17_code_once_cell_is_the_sync_one :
  fn_body OnceCell_import = [EPath ["once_cell"%string; "sync"%string; "OnceCell"%string]].
Proof. exact once_cell_is_the_sync_one. Qed.

Example C17_nonvacuous :
  let c := run true [0; 1; 0; 1; 2; 1; 1; 2]%nat (init [Fail; Ok; Panic]) in
  quiescent c = true /\ inited c = true /\ successes c = 1 /\ seed_drops c = 1 /\
  threads c = [TGotErr; TGotValue; TGotValue].
Proof. vm_compute. repeat split. Qed.
