(* Property C09 -- faults while loading are contained.  Statements only.  The theorems hold for
   EVERY state, in particular for every fault plan installed in the source and every script with
   failing or panicking lines, and for every outcome of the load (ok, error, panic). *)
From Coq Require Import List String NArith ZArith Bool.
From AM Require Import Rust.Ast Gen.Records Gen.Deps Ref.Load Ref.Sys Proofs.SysGrows Proofs.SysFrame Proofs.SysRecs
  Proofs.SysReload Tie.Records Tie.Erasure Tie.Static Gen.Dirs Tie.Dirs Gen.Asset Gen.Error Tie.Error Tie.LoadFromSource.
From AM Require Import Proofs.SysGraph.
Import ListNotations.

(* values already cached are untouched, whatever happens *)
Theorem C09_cached_values_untouched : forall fuel s t id k e,
  cache_get s k = Some e -> cache_get (fst (fst (load_entry_f fuel s t id))) k = Some e.
Proof. exact load_entry_never_overwrites. Qed.

(* the calling thread's dependency recording is restored: at top level the cell is empty again,
   inside an enclosing load the same stack of records is back *)
Theorem C09_recording_restored_at_top_level : forall fuel s t id,
  recs s = [] -> recs (fst (fst (load_entry_f fuel s t id))) = [].
Proof. exact load_at_top_level_leaves_no_record. Qed.

Theorem C09_recording_stack_restored : forall fuel s t id,
  shape (recs (fst (fst (load_entry_f fuel s t id)))) = shape (recs s) /\
  shape (recs (fst (fst (load_owned_f fuel s t id)))) = shape (recs s).
Proof. exact load_restores_recording. Qed.

(* the code restores the cell through a drop guard, on normal exit and on unwinding alike *)
Theorem C09_code_restores_recording_on_every_exit :
  record_wf record = true /\ no_record_wf no_record = true /\ guard_wf CellGuard_replace CellGuard_drop = true.
Proof. destruct records_shapes as (A & B & C & _). exact (conj A (conj B C)). Qed.

(* a reload that fails (error or panic, the latter caught in DepsGraph::reload) keeps the previous
   entry; a successful one replaces it as a whole: no partially built value is ever visible *)
Theorem C09_reload_is_all_or_nothing : forall fuel s k e,
  cache_get s k = Some e ->
  let s' := fst (reload_one fuel s k) in
  cache_get s' k = Some e \/
  exists e', cache_get s' k = Some e' /\ en_rid e' = N.succ (en_rid e) /\ en_flag e' = true /\ en_dyn e = true.
Proof. exact reload_one_rid. Qed.

Theorem C09_code_treats_a_panicking_reload_as_failed : reload_catches DepsGraph_reload = true.
Proof. exact reload_panic_is_a_failed_reload. Qed.

Theorem C09_code_failed_reload_keeps_the_old_dependencies :
  reload_result_wf Gen.Anycache.AnyCache_reload_untyped = true.
Proof. exact reload_keeps_old_dependencies_on_failure. Qed.

(* the reloader's own state (graph, changed entries) is never touched by a load on a caller thread *)
Theorem C09_loads_leave_reloader_state : forall fuel s t id,
  graph (fst (fst (load_entry_f fuel s t id))) = graph s /\
  to_reload (fst (fst (load_entry_f fuel s t id))) = to_reload s.
Proof. exact load_leaves_reloader_state. Qed.

(* non-vacuity: a load that panics half-way (after a nested successful load) with a fault plan *)
Example C09_nonvacuous :
  let ops := [OWrite "a" "x" (CBytes [49%N]);
              OWrite "n0" "n" (CScript 0 [LLoad TI "a"; LNoRec LPanic]);
              OSetFaults [(5%N, KTimedOut)]; OLoad TN "n0"] in
  let r := run (init_st true) ops in
  nth 3 (map fst (snd r)) OutUnit = OutPanic /\ recs (fst r) = [] /\
  exists e, cache_get (fst r) (TI, "a") = Some e /\ cache_get (fst r) (TN, "n0") = None.
Proof. vm_compute. repeat split. eexists. split; reflexivity. Qed.

(* a fault while listing a directory is the load's fault: Directory::load and
   RecursiveDirectory::load leave with `?` on an error of their own read_dir / select_ids /
   sub_directories (nothing partial is built, hence nothing partial is cached); only the load of a
   child directory may fail silently *)
Theorem C09_code_directory_faults_propagate :
  dir_load_wf Directory_load = true /\ rec_load_wf RecursiveDirectory_load = true /\
  select_inner_wf select_ids_inner = true.
Proof.
  destruct dirs_as_specified as (H1 & _ & _ & _ & _ & H2 & H3). exact (conj H2 (conj H3 H1)).
Qed.

(* a read that fails -- whatever the kind: not found, interrupted, anything else -- is one failed
   attempt of that extension, reported through the error folding; the printed load_from_source never
   retries it (bounded exhaustive tie: every extension list up to 3, every outcome per extension) *)
Theorem C09_code_read_faults_are_reported_not_retried :
  forallb (fun atts => outcome_eqb (gen_load atts false) (ref_load atts false)
                       && outcome_eqb (gen_load atts true) (ref_load atts true)) all_cases = true
  /\ List.length all_cases = 156%nat.
Proof. exact load_from_source_bounded_tie. Qed.

(* a fault while loading is contained in the cache, too: no operation of the cache changes the source's files, directories or fault plan *)
Theorem C09_cache_operations_only_read_the_source : forall fuel s o,
  edits_source o = false -> src_same s (fst (fst (step fuel s o))).
Proof. exact cache_operations_only_read_the_source. Qed.
