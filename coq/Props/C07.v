(* Property C07 -- readers are isolated from reloads: guards pin values, no torn reads.
   Statements only.  Lock granularity: RwLock gives mutual exclusion between one writer and any
   readers; values are multi-word and are copied word by word, so tearing is expressible. *)
From Coq Require Import List String Arith Bool.
From AM Require Import Rust.Ast Rust.Script Ref.RwCell Gen.Entry Proofs.RwProof Proofs.RwStep Proofs.RwPin
  Tie.Entry Tie.CallGraph Gen.HotReloading Tie.Answers.
From AM Require Proofs.AnsInv Proofs.AnsC.
Import ListNotations.

(* 1. The printed `UntypedEntry::write` is accepted by the discipline checker (swap and reload-id
      increment inside the write lock); read / map / try_map guards own the read lock. *)
Theorem C07_code_follows_the_lock_discipline :
  writer_ok (write_script UntypedEntry_write) = true /\
  read_wf EntryStorage_read = true /\
  map_wf AssetReadGuard_map = true /\
  try_map_wf AssetReadGuard_try_map = true.
Proof. exact (conj write_accepted (conj read_takes_lock (conj map_keeps_lock try_map_keeps_lock))). Qed.

(* 1b. ... and nothing else reaches a stored value: the cell is dereferenced only by `read`,
       `write` and the accessor of never-rewritten entries (which refuses a reloadable entry first);
       copied / cloned read through a guard *)
Theorem C07_every_reader_takes_the_lock :
  (callers_of "value.get/0" = ["EntryStorage::get"; "EntryStorage::read"; "UntypedEntry::write"] /\
   callers_of "value.get_mut/0" = ["UntypedEntry::write"] /\
   callers_of "value.into_inner/0" = ["CacheEntry::into_inner"]) /\
  static_get_wf EntryStorage_get = true /\
  via_read Handle_copied = true /\ via_read Handle_cloned = true.
Proof. exact (conj value_cell_touched_only_by (conj static_get_refuses_reloadable copies_go_through_a_guard)). Qed.

(* 1c. the lock the discipline speaks of is a real reader-writer lock: the wrapper's read / write
       are the wrapped lock's read / write (std and parking_lot) *)
Theorem C07_lock_wrapper_is_faithful :
  takes "read" Gen.Private.RwLock_read = true /\ takes "write" Gen.Private.RwLock_write = true /\
  takes "read" Gen.Private.RwLock_read_pl = true /\ takes "write" Gen.Private.RwLock_write_pl = true.
Proof. exact rwlock_wrapper_is_faithful. Qed.

(* 2. No torn reads: for EVERY family of scripts the checker accepts, any number of threads and
      every schedule, each completed read returned all the words of one version. *)
Theorem C07_no_torn_read : forall m scripts sched t r,
  uniform m -> (forall u, wf false false (scripts u) = true) ->
  In r (results (th (run sched (init m scripts)) t)) -> uniform r /\ List.length r = List.length m.
Proof. exact no_torn_read. Qed.

(* 3. A guard pins value and reload id: along any schedule segment during which thread t holds
      the read lock, memory and reload id stay what they were. *)
Theorem C07_guard_pins : forall m scripts pre seg t n0,
  uniform m -> (forall u, wf false false (scripts u) = true) ->
  let cr := run2 pre (init m scripts, n0) in
  holds_read_along t seg cr ->
  mem (fst (run2 seg cr)) = mem (fst cr) /\ snd (run2 seg cr) = snd cr.
Proof. exact guard_pins. Qed.

(* 4. Value and reload id move only in steps of a thread inside a write critical section ... *)
Theorem C07_change_needs_write_lock : forall c n u c' n',
  Inv c -> step2 u (c, n) = Some (c', n') -> (mem c' <> mem c \/ n' <> n) -> hw (th c u) = true.
Proof. exact change_needs_write_lock. Qed.

(* ... and in the code the only path to that critical section is a reload pass, started either by
   a Ptr request (the caller is then inside hot_reload, see 5) or in 'static mode, which only
   enhance_hot_reloading switches on. *)
Theorem C07_only_passes_write :
  callers_of "swap_any/2" = ["UntypedEntry::write"]%string /\
  callers_of "write/1" = ["UntypedHandle::write"; "AnyCache::reload_untyped"]%string /\
  callers_of "reload_untyped/2" = ["DepsGraph::reload"]%string /\
  callers_of "reload/2" = ["run_update"]%string /\
  callers_of "run_update/3" = ["HotReloadingData::update_if_local"; "HotReloadingData::update_if_static";
                               "HotReloadingData::use_static_ref"]%string /\
  callers_of "update_if_local/2" = ["hot_reloading_thread"]%string /\
  callers_of "send_static/1" = ["AssetCache::enhance_hot_reloading"]%string.
Proof.
  exact (conj swap_only_in_write (conj write_only_from_reload_untyped (conj reload_untyped_only_from_graph
        (conj graph_reload_only_from_pass (conj pass_started_by (conj update_if_local_only_on_ptr
        (proj2 (proj2 static_mode_only_by_enhance)))))))).
Qed.

(* 5. Local mode: while the reloader runs the update for token t (pc R1 t) the caller that sent t
      is still inside hot_reload (waiting), and when a caller is released by token t the update
      for t is over (t is neither queued nor in progress). *)
(* the protocol those two theorems are about is the one the code runs: hot_reload sends its token
   and waits -- with an unbounded `wait_while` that loops -- until exactly that token is answered;
   the reloader answers a token only after the update it asked for *)
Theorem C07_code_hot_reload_waits_for_its_own_answer :
  mailbox_acts Answers_wait_for_answer = consumer_shape /\
  mailbox_acts Answers_notify = producer_shape /\
  reload_wf HotReloader_reload = true /\
  ptr_arm_wf hot_reloading_thread = true /\
  (wait_while_wf Gen.Private.Condvar_wait_while = true /\
   wait_while_wf Gen.Private.Condvar_wait_while_pl = true).
Proof.
  exact (conj wait_for_answer_is_consumer (conj notify_is_producer (conj reload_is_caller
        (conj thread_answers_each_ptr wait_while_loops)))).
Qed.

Theorem C07_update_happens_inside_the_callers_hot_reload : forall s, AnsC.steps AnsInv.init s ->
  forall t, AnsInv.rl s = AnsInv.R1 t -> exists i, AnsInv.wait_c (AnsInv.cs s i) t.
Proof.
  intros s Hr t Ht. pose proof (AnsC.inv_reachable s Hr) as I.
  apply (AnsInv.i_pipe s I t). rewrite Ht. apply in_or_app. right. now left.
Qed.

Theorem C07_hot_reload_returns_after_its_update : forall s, AnsC.steps AnsInv.init s ->
  forall i t, AnsInv.cs s i = AnsInv.C4 t -> ~ In t (AnsInv.chan s ++ AnsInv.rpend (AnsInv.rl s)).
Proof.
  intros s Hr i t Hc. pose proof (AnsC.inv_reachable s Hr) as I.
  pose proof (AnsInv.i_c4 s I i t Hc) as Hs. pose proof (AnsInv.i_nodup s I) as N.
  rewrite Hs in N. cbn in N.
  intros Hin. rewrite app_assoc in N. apply NoDup_remove_2 in N. apply N. now rewrite app_nil_r.
Qed.

(* A writer that takes the lock for zero duration is rejected by the checker, and the machine
   exhibits the torn read it causes. *)
Theorem C07_zero_duration_lock_is_rejected_and_tears :
  wf false false [AcqW; RelW; SwapWords 7] = false /\
  results (th (run [0;0;0;0; 1;1;1;1;1] (init [0;0] mutant_scripts)) 1) = [[7;0]].
Proof. exact (conj mutant_zero_duration mutant_tears). Qed.

(* serializing a handle (feature serde) is a guarded read: the value is walked under the read guard *)
Theorem C07_code_serialize_reads_under_the_guard :
  fn_body Handle_serialize = [EMethod (EMethod (EPath ["self"%string]) "read" []) "serialize" [EPath ["s"%string]]].
Proof. exact serialize_reads_under_the_guard. Qed.
