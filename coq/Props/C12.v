(* Property C12 -- filesystem notifications name the right entries (inverse of path_of).
   Statements only.  [id_of_path true] / [event_paths true] are the behaviour with the root as an
   entry and with renames and deletions naming entry and parent, which the printed code has on a
   bounded exhaustive sweep (first two theorems). *)
From Coq Require Import List String Bool.
From AM Require Import Rust.Ast Ref.Watcher Proofs.Watcher Tie.Watcher Gen.Private Tie.Graph.
Import ListNotations.

Theorem C12_code_id_of_path_is_model_on_the_sweep :
  forallb (fun r => forallb (fun p =>
     outcome_eqb (gen_id_of_path r p true) (ref_id_of_path r p true) &&
     outcome_eqb (gen_id_of_path r p false) (ref_id_of_path r p false)) sweep_paths) sweep_roots = true.
Proof. exact id_of_path_bounded_tie. Qed.

Theorem C12_code_event_table_is_model :
  forallb (fun k => forallb (fun p =>
     match gen_event_paths k p with
     | Some l => paths_eqb l (event_paths true k p)
     | None => false
     end) [[CNormal "r"; CNormal "a.x"]; [CNormal "r"]; []]) all_kinds = true.
Proof. exact event_table_bounded_tie. Qed.

(* every valid entry under any root, at any depth: the notification path is mapped back to
   exactly that entry (same id, same extension, right kind) *)
(* around the table: every path of every event reaches the table and id_of_path for every root; no
   event is filtered out before (attributes such as the rename cookie play no role) *)
Theorem C12_code_every_event_reaches_the_table : handle_event_frame_wf Gen.Watcher.handle_event = true.
Proof. exact handle_event_frame. Qed.

Theorem C12_id_of_path_inverts_path_of : forall fixed root e,
  root_ok root = true -> entry_ok e = true -> e <> EDir [] ->
  id_of_path fixed root (path_of root e) (is_dir_entry e) = Some e.
Proof. exact id_of_path_inverse. Qed.

Theorem C12_root_is_the_empty_directory_entry : forall root b, id_of_path true root root b = Some (EDir []).
Proof. exact root_is_directory_entry. Qed.

Theorem C12_ids_and_paths_round_trip : forall root e1 e2,
  root_ok root = true -> entry_ok e1 = true -> entry_ok e2 = true ->
  is_dir_entry e1 = is_dir_entry e2 -> path_of root e1 = path_of root e2 -> e1 = e2.
Proof. exact path_of_injective. Qed.

Theorem C12_outside_every_root_is_no_event : forall fixed root p b,
  (fixed && path_eqb p root = false) ->
  (forall last rparent, rev p = last :: rparent -> strip_prefix root (rev rparent) = None) ->
  id_of_path fixed root p b = None.
Proof. exact outside_root_none. Qed.

(* the entry itself for every kind that changes it ... *)
Theorem C12_events_name_the_entry : forall fixed_root roots is_dir k p r e,
  In r roots -> id_of_path fixed_root r p (is_dir p) = Some e -> k <> KAccess -> k <> KOther ->
  In e (flat_map (fun q => flat_map (fun r => match id_of_path fixed_root r q (is_dir q) with
                                              | Some e => [e] | None => [] end) roots)
          (event_paths true k p)).
Proof. exact events_cover. Qed.

(* ... and its parent directory for creations, renames and deletions *)
Theorem C12_events_name_the_parent : forall fixed_root roots is_dir k p q r e,
  In r roots -> parent_of p = Some q -> id_of_path fixed_root r q (is_dir q) = Some e ->
  (k = KCreate \/ k = KModifyName \/ k = KRemove) ->
  In e (flat_map (fun q => flat_map (fun r => match id_of_path fixed_root r q (is_dir q) with
                                              | Some e => [e] | None => [] end) roots)
          (event_paths true k p)).
Proof. exact events_cover_parent. Qed.

(* the direction the theorems invert: FileSystem::path_of as printed is root / segments of the id,
   the extension set through set_extension (an empty extension adds nothing, no trailing dot) *)
Theorem C12_code_path_of_entry : path_of_entry_wf path_of_entry = true.
Proof. exact path_of_entry_as_specified. Qed.

(* the built-in watcher keeps its roots as they were given to notify (which reports paths under that
   spelling) and hands them to the handler unchanged *)
Theorem C12_code_watcher_keeps_the_roots_as_given :
  watch_wf AM.Gen.Watcher.FsWatcherBuilder_watch = true /\ build_wf AM.Gen.Watcher.FsWatcherBuilder_build = true.
Proof. exact watcher_keeps_the_roots_as_given. Qed.

Example C12_nonvacuous :
  id_of_path true [CNormal "r"] (path_of [CNormal "r"] (EFile ["d"; "a"] "x")) false = Some (EFile ["d"; "a"] "x")
  /\ path_of [CNormal "r"] (EFile ["d"; "a"] "x") = [CNormal "r"; CNormal "d"; CNormal "a.x"].
Proof. vm_compute. split; reflexivity. Qed.
