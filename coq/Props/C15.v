(* Property C15 -- the reloader is quiet when idle and goes away with its cache.  Statements only.
   [iter true] is the loop with the exit on a disconnected cache-message channel, which the printed
   hot_reloading_thread has (first theorem). *)
From Coq Require Import List Bool Arith.
From AM Require Import Rust.Ast Gen.HotReloading Ref.Reloader Proofs.Reloader Tie.Answers Gen.Watcher Tie.Watcher.
From AM Require Import Gen.CacheMap Tie.Maps.
Import ListNotations.

Theorem C15_code_leaves_the_loop_when_the_cache_is_gone :
  loop_exits_with_cache hot_reloading_thread = true /\ drains_before_events hot_reloading_thread = true.
Proof. exact (conj reloader_loop_exits_with_its_cache cache_messages_first). Qed.

(* ... and when its source let go of the event sender (a disconnected channel is permanently ready) *)
Theorem C15_code_leaves_the_loop_when_events_are_over : events_branch_wf hot_reloading_thread = true.
Proof. exact reloader_leaves_when_events_are_over. Qed.

(* the built-in watcher lets go of itself (thread, inotify instance) as soon as a send tells it that
   its reloader is gone *)
Theorem C15_code_watcher_lets_go_when_nobody_listens : handle_event_frame_wf Gen.Watcher.handle_event = true.
Proof. exact handle_event_frame. Qed.

(* ... which every send tells it, empty batches included *)
Theorem C15_code_senders_learn_about_a_gone_reloader :
  send_multiple_wf EventSender_send_multiple = true /\ send_wf EventSender_send = true.
Proof. exact senders_learn_about_a_gone_reloader. Qed.

(* dropping a cache shuts its reloader down first: the reloader is the first field of AssetCache, and
   fields are dropped in declaration order (so a source whose destructor waits to be told that nobody
   listens any more is told) *)
Theorem C15_code_reloader_is_dropped_first :
  fn_body Gen.CacheMap.AssetCache_fields = [EPath ["Option<HotReloader>"%string]; EPath ["AssetMap"%string]; EPath ["S"%string]].
Proof. exact reloader_is_dropped_first. Qed.

(* idle: both inboxes empty and connected => the thread blocks and consumes nothing *)
Theorem C15_idle_blocks : forall x p s,
  st s <> Exited -> qlen (cmq s) = 0 -> connected (cmq s) = true ->
  qlen (evq s) = 0 -> connected (evq s) = true ->
  st (iter x p s) = Blocked /\ consumed (iter x p s) = consumed s.
Proof. exact idle_blocks. Qed.

(* never a busy spin: an iteration blocks, exits, or consumed a message *)
Theorem C15_no_spin : forall p s,
  st s <> Exited ->
  let s' := iter true p s in
  st s' = Blocked \/ st s' = Exited \/ consumed s < consumed s'.
Proof. exact no_spin. Qed.

(* dropped cache => the loop is Exited after its next iteration, for every content of the event
   channel, every choice of Select::ready, and stays so: threads do not accumulate *)
Theorem C15_exits_after_drop : forall p s,
  st s <> Exited -> connected (cmq s) = false -> st (iter true p s) = Exited.
Proof. exact exits_after_drop. Qed.

Theorem C15_no_accumulation : forall picks p s,
  connected (cmq s) = false -> st (iters true (p :: picks) s) = Exited.
Proof. exact no_accumulation. Qed.

(* the loop before the repair of D4 spins for ever in that situation *)
Theorem C15_old_loop_spins : forall picks,
  let s := iters false picks (mk 0 false 0 true) in st s = Running /\ consumed s = 0.
Proof. exact spin_after_drop_refuted. Qed.

(* quiet when idle, in the code: every turn of the reloader's loop starts by blocking on
   `select.ready()` and nothing in the thread waits with a deadline, sleeps or polls (the model's
   [idle_blocks] is about exactly this wait) *)
Theorem C15_code_reloader_blocks_until_there_is_work : waits_without_deadline hot_reloading_thread = true.
Proof. exact reloader_blocks_until_there_is_work. Qed.
