(* Property C01 -- one stable handle per (id, type), whatever the thread interleaving.
   Statements only.  Handles are addresses of boxed entries; the map stores addresses, so growth
   of a shard (rehash) does not move an entry (Rust/std fact, exercised by the engine, not proved). *)
From Coq Require Import List NArith Bool Arith.
From AM Require Import Rust.Ast Gen.CacheMap Gen.LocalMap Ref.Sharded Proofs.Sharded Tie.Maps Tie.Graph Gen.Anycache Tie.Records.
Import ListNotations.

(* the code: keyed look-ups under the read lock, entry(key).or_insert under the write lock of the
   key's own shard, index = hash & (len-1); keys compare type and id *)
Theorem C01_code_maps_as_modelled :
  (keyed_lookup Gen.CacheMap.AssetMap_get "read" "get" = true /\
   keyed_lookup Gen.CacheMap.AssetMap_contains_key "read" "contains_key" = true /\
   or_insert_wf Gen.CacheMap.AssetMap_insert "write" = true /\
   take_wf Gen.CacheMap.AssetMap_take = true /\
   shard_index_wf Gen.CacheMap.AssetMap_get_shard = true /\
   shard_index_wf Gen.CacheMap.AssetMap_get_shard_mut = true /\
   take_uses_shard_of_key Gen.CacheMap.AssetMap_take = true /\
   remove_is_take Gen.CacheMap.AssetMap_remove = true /\
   keyed_lookup Gen.LocalMap.AssetMap_get "borrow" "get" = true /\
   keyed_lookup Gen.LocalMap.AssetMap_contains_key "borrow" "contains_key" = true /\
   or_insert_wf Gen.LocalMap.AssetMap_insert "borrow_mut" = true /\
   take_wf Gen.LocalMap.AssetMap_take = true) /\
  (key_eq_wf Gen.Private.dynKey_eq = true /\ key_hash_wf Gen.Private.dynKey_hash = true).
Proof. exact (conj maps_as_modelled cache_keys_compare_type_and_id). Qed.

Theorem C01_code_keys_carry_the_id_as_given :
  key_ctor_wf Gen.Private.BorrowedKey_new_with false = true /\ key_ctor_wf Gen.Private.BorrowedKey_new true = true /\
  key_ctor_wf Gen.Private.OwnedKey_new_with false = true /\ key_ctor_wf Gen.Private.OwnedKey_new true = true /\
  key_borrow_wf Gen.Private.OwnedKey_borrow = true /\ key_to_owned_wf Gen.Private.BorrowedKey_to_owned = true.
Proof. exact keys_carry_the_id_as_given. Qed.

(* every hash function (hence every seed, ahash or SipHash), every positive shard count, every
   operation sequence: the sharded map answers exactly like one flat map *)
Theorem C01_sharded_map_is_a_map : forall h n ops,
  0 < n -> shard_run h (empty_shards n) ops = flat_run [] ops.
Proof. exact sharded_refines_flat. Qed.

(* the first insertion wins and is what everybody is handed from then on *)
Theorem C01_or_insert_keeps_the_first : forall k v m,
  let '(m', w) := aor_insert k v m in
  aget k m' = Some w /\ (forall w0, aget k m = Some w0 -> w = w0 /\ m' = m) /\
  (aget k m = None -> w = v) /\ (forall k', k' <> k -> aget k' m' = aget k' m).
Proof. exact aor_insert_spec. Qed.

(* any number of racing loaders, any schedule: two racers that finished on one key hold the very
   same address, the one the map holds *)
Theorem C01_race_has_one_winner_seen_by_all : forall threads sched t1 t2 k g1 d1 g2 d2,
  (forall t p, nth_error threads t = Some p -> exists k v, p = PStart k v) ->
  let c := rrun sched {| rmap := []; rthreads := threads |} in
  nth_error (rthreads c) t1 = Some (PDone k g1 d1) ->
  nth_error (rthreads c) t2 = Some (PDone k g2 d2) ->
  g1 = g2 /\ aget k (rmap c) = Some g1.
Proof. exact race_unique_winner. Qed.

(* presence never flips back and the address never changes, along any continuation *)
Theorem C01_presence_is_monotone : forall sched1 sched2 threads k w,
  let c1 := rrun sched1 {| rmap := []; rthreads := threads |} in
  aget k (rmap c1) = Some w -> aget k (rmap (rrun sched2 c1)) = Some w.
Proof. exact presence_is_monotone. Qed.

Example C01_nonvacuous :
  let c := rrun [0; 1; 2; 1; 0; 2]%nat
             {| rmap := []; rthreads := [PStart 7%N 100%N; PStart 7%N 200%N; PStart 7%N 300%N] |} in
  rthreads c = [PDone 7%N 200%N (Some 100%N); PDone 7%N 200%N None; PDone 7%N 200%N (Some 300%N)].
Proof. vm_compute. reflexivity. Qed.

(* every typed load goes through the cached look-up first and builds a value only on a miss; the
   look-up consults the map whatever the type's reload flag and whether or not a reloader exists *)
Theorem C01_code_lookup_before_load :
  lookup_recorded Gen.Anycache.Cache_get_cached_entry_inner = true /\
  load_entry_wf Gen.Anycache.Cache_load_entry = true.
Proof. exact (conj (proj1 (proj2 (proj2 recording_call_sites))) (proj1 (proj2 (proj2 (proj2 recording_call_sites))))). Qed.

(* the slow path of a load hands its entry to the map's insert and does nothing else with the map:
   the loser of a creation race is dropped by insert, it never overwrites the winner *)
Theorem C01_code_add_asset_loads_then_inserts : add_asset_wf Gen.Anycache.RawCache_add_asset = true.
Proof. exact add_asset_loads_then_inserts. Qed.
