(* Property C14 -- dependencies are attributed to the asset being loaded, and only to it.
   Statements only. *)
From Coq Require Import List String NArith ZArith Bool.
From AM Require Import Rust.Ast Gen.Records Gen.Anycache Gen.Asset Ref.Load Ref.Sys Proofs.SysRecs Proofs.SysGraph Tie.Records.
From AM Require Import Gen.Dirs Tie.Dirs.
From AM Require Gen.CacheMap Tie.Maps.
Import ListNotations.

(* the code records as the model does: fresh record per reloadable load behind a drop guard,
   look-ups recorded before the nested load starts, reads recorded before the source is asked,
   records of another reloader ignored *)
Theorem C14_code_records_as_modelled :
  (record_wf record = true /\ no_record_wf no_record = true /\
   guard_wf CellGuard_replace CellGuard_drop = true /\
   add_record_wf add_record "insert_asset" = true /\
   add_record_wf add_file_record "insert_file" = true /\
   add_record_wf add_dir_record "insert_dir" = true /\
   insert_checks_reloader Record_insert_asset = true /\
   insert_checks_reloader Record_insert_file = true /\
   insert_checks_reloader Record_insert_dir = true) /\
  (read_records_first Cache_read "add_file_record" = true /\
   read_records_first Cache_read_dir "add_dir_record" = true /\
   lookup_recorded Cache_get_cached_entry_inner = true /\
   load_entry_wf Cache_load_entry = true /\
   load_owned_wf Cache_load_owned_entry = true /\
   load_and_record_wf Gen.Asset.load_and_record = true).
Proof. exact (conj records_shapes recording_call_sites). Qed.

(* reads made by the nested load of a reloadable asset belong to that asset: the enclosing record
   only gains the asset itself *)
Theorem C14_nested_reloadable_load_records_only_the_asset : forall fuel s t id,
  hot_reloaded t = true -> has_reloader s = true ->
  recs (fst (fst (load_entry_f (S fuel) s t id))) = recs (rec_add s (DepAsset (t, id))).
Proof. exact nested_reloadable_load_records_only_the_asset. Qed.

(* nothing done under no_record, or on a helper thread, is attributed to the asset being loaded,
   and recording resumes exactly where it was, whatever the block did (error, panic included) *)
Theorem C14_no_record_records_nothing : forall fuel s l,
  let r := run_line (load_entry_f fuel) (load_owned_f fuel) s (LNoRec l) in recs (fst (fst r)) = recs s.
Proof. exact no_record_records_nothing. Qed.

Theorem C14_helper_thread_records_nothing : forall fuel s l,
  let r := run_line (load_entry_f fuel) (load_owned_f fuel) s (LThread l) in recs (fst (fst r)) = recs s.
Proof. exact helper_thread_records_nothing. Qed.

(* at top level nothing stays recorded after a load *)
Theorem C14_top_level_load_leaves_no_record : forall fuel s t id,
  recs s = [] -> recs (fst (fst (load_entry_f fuel s t id))) = [].
Proof. exact load_at_top_level_leaves_no_record. Qed.

(* non-vacuity: b loads a (reloadable) and reads a file under no_record: b's registered
   dependencies are its own script file and the asset a, not a's file nor the unrecorded file *)
Example C14_nonvacuous :
  let ops := [OWrite "a" "x" (CBytes [49%N]); OWrite "c" "x" (CBytes [50%N]);
              OWrite "n0" "n" (CScript 0 [LLoad TI "a"; LNoRec (LReadFile "c" "x")]);
              OLoad TN "n0"; OHotReload []] in
  let s := fst (run (init_st true) ops) in
  match g_get (graph s) (DepAsset (TN, "n0")) with
  | Some n => g_deps n = [DepFile "n0" "n"; DepAsset (TI, "a")]
  | None => False
  end.
Proof. vm_compute. reflexivity. Qed.

(* what the reloader's graph makes of the records: registering an asset with the entries its load
   recorded gives it exactly those dependencies, makes it a dependent of exactly those entries (older
   edges it no longer records are removed), and moves nobody else's edges ... *)
Theorem C14_insertion_attributes_exactly_the_recorded_entries : forall g a deps t,
  GInv g ->
  deps_of (graph_insert g a deps t) a = deps /\
  (forall x, dep_mem a (rdeps_of (graph_insert g a deps t) x) = dep_mem x deps) /\
  (forall x, x <> a -> deps_of (graph_insert g a deps t) x = deps_of g x) /\
  (forall x y, y <> a -> dep_mem y (rdeps_of (graph_insert g a deps t) x) = dep_mem y (rdeps_of g x)).
Proof. exact insertion_attributes_exactly. Qed.

(* ... and in every state the system reaches, through any history, the two directions of the graph
   agree: a is among the dependents of d exactly when d is among the dependencies of a *)
Theorem C14_graph_directions_agree_in_every_history : forall reloader ops a d,
  let g := graph (fst (run (init_st reloader) ops)) in
  dep_mem a (rdeps_of g d) = dep_mem d (deps_of g a).
Proof. intros reloader ops. exact (graph_symmetric_from_the_start reloader ops). Qed.

(* the directory assets of the crate load what they list through the recording cache, outside any
   no_record scope: Directory<T> reads its listing itself, RecursiveDirectory<T> loads the directory
   and every sub-directory with cache.load *)
Theorem C14_code_directory_assets_record_what_they_load :
  dir_load_wf Directory_load = true /\ rec_load_wf RecursiveDirectory_load = true /\
  subdirs_wf sub_directories = true.
Proof.
  exact (conj (proj1 (proj2 (proj2 (proj2 (proj2 (proj2 dirs_as_specified))))))
          (conj (proj2 (proj2 (proj2 (proj2 (proj2 (proj2 dirs_as_specified))))))
                (proj1 (proj2 (proj2 dirs_as_specified))))).
Qed.

(* no_record, as the public API offers it, suspends recording whatever cache it is called on (the
   recorder is per thread): both entry points are `records::no_record(f)` and nothing else *)
Theorem C14_code_no_record_is_unconditional :
  public_no_record_wf AnyCache_no_record = true /\
  fn_body AM.Gen.CacheMap.AssetCache_no_record = [EBlock [ECall (EPath ["records"; "no_record"]) [EPath ["f"]]]].
Proof. exact (conj anycache_no_record_is_unconditional AM.Tie.Maps.assetcache_no_record_is_unconditional). Qed.
