(* Property C08 -- hot_reload always returns: no deadlock, no crash, any number of callers.
   Statements only.  The protocol roles are read off /repo/src/hot_reloading/mod.rs on this run
   (Tie/Answers.v), the DFS discipline off dependencies.rs (Tie/Graph.v).

   Correspondence between the generated scripts and the program counters of Proofs/AnsInv.v:
     consumer_shape = [MLock; MWait WhileNotMine; MSet SetNone; MNotify]
        C2 (lock)  C3 (test slot <> Some t -> Cw: sleep, Cwk: woken)  C4 (slot := None)
        C4n (notify_all)  C5 (unlock at return);   C0 = get_unique_token, C1 = send Ptr(t)
     producer_shape = [MLock; MWait WhileSome; MSet SetMine; MNotify]
        R2 (lock)  R3 (test slot <> None -> Rw / Rwk)  R4 (slot := Some t)  R5 (notify_all)
        R6 (unlock); R0 = receive Ptr(t), R1 = run the update. *)
From Coq Require Import List Arith Bool.
From AM Require Import Rust.Ast Rust.Syntax Rust.Script Gen.HotReloading Gen.Deps
  Proofs.AnsInv Proofs.AnsR Proofs.AnsC Proofs.AnsWork Proofs.Dfs Tie.Answers Tie.Graph.
Require AM.Ref.Answers AM.Proofs.AnsBridge.
From AM Require Import Tie.Erasure.
From AM Require Gen.Entry Tie.Entry.
Import ListNotations.

(* 1. The code has the protocol the theorems are about. *)
Theorem C08_code_has_the_protocol_shapes :
  mailbox_acts Answers_notify = producer_shape /\
  mailbox_acts Answers_wait_for_answer = consumer_shape /\
  token_source_wf Answers_get_unique_token = true /\
  reload_wf HotReloader_reload = true /\
  ptr_arm_wf hot_reloading_thread = true /\
  (wait_while_wf Gen.Private.Condvar_wait_while = true /\
   wait_while_wf Gen.Private.Condvar_wait_while_pl = true).
Proof.
  exact (conj notify_is_producer (conj wait_for_answer_is_consumer (conj tokens_unique
        (conj reload_is_caller (conj thread_answers_each_ptr wait_while_loops))))).
Qed.

(* 2. No deadlock: for ANY number N of concurrent callers and ANY interleaving, as long as some
      caller has not returned, some thread can take a step. *)
Theorem C08_no_deadlock : forall N s,
  stepsN N init s -> (exists i, i < N /\ cs s i <> CDone) -> can_stepN N s.
Proof. exact answers_no_deadlock. Qed.

(* 2b. Bounded work, hence termination without any fairness assumption: every step of the N callers
       and the reloader strictly decreases a natural-number measure (waiting loops included: a
       sleeper only runs again after one of the at most 2N notifications), so an execution has at
       most work_bound N = N * (16 + 4 * (N + 1)) + 1 steps, and when it cannot go on every caller
       has returned. *)
Theorem C08_every_step_decreases_the_measure : forall N x y, stepN N x y -> measure N y < measure N x.
Proof. exact step_decreases. Qed.

Theorem C08_bounded_work : forall N k s, runN N k init s -> k <= work_bound N.
Proof. exact bounded_work. Qed.

Theorem C08_every_call_returns : forall N k s,
  runN N k init s -> ~ can_stepN N s -> forall i, i < N -> cs s i = CDone.
Proof. exact stuck_means_all_returned. Qed.

(* 3. A caller leaves its wait only on the answer to its own request, and tokens are never
      shared: whoever holds token t in state s is that caller. *)
Theorem C08_released_by_own_token : forall s, steps init s ->
  forall i t, cs s i = C4 t ->
    slot s = Some t /\ forall j, tok (cs s j) = Some t -> j = i.
Proof.
  intros s Hr i t Hc. pose proof (inv_reachable s Hr) as I. split.
  - exact (i_c4 s I i t Hc).
  - intros j Hj. apply (i_uniq s I j i t Hj). now rewrite Hc.
Qed.

(* 4. The dependency sort terminates on EVERY graph, cyclic look-ups included, with recursion depth
      at most |nodes|+1, and lists exactly the nodes reachable from the changed entries, once. *)
Theorem C08_sort_terminates : forall (g : nat -> list nat) (nodes : list nat),
  (forall x y, In y (g x) -> In y nodes) ->
  forall roots, incl roots nodes -> topo g (S (List.length nodes)) roots <> None.
Proof. exact topo_terminates. Qed.

Theorem C08_sort_exact_and_duplicate_free : forall (g : nat -> list nat) roots fuel vis out,
  topo g fuel roots = Some (vis, out) -> NoDup out /\ forall x, In x out <-> Rr g roots x.
Proof. exact topo_exact. Qed.

(* 5. ... and the code follows the discipline that theorem needs: visited is marked before the
      recursion into the dependents. *)
(* sending to the reloader never blocks (both channels are unbounded), so the reloader cannot wait
   on a queue only it can drain, and callers and watchers cannot be held up by a full queue *)
Theorem C08_code_senders_never_block :
  creates_unbounded "cache_msg_tx" "cache_msg_rx" HotReloader_start = true /\
  creates_unbounded "events_tx" "events_rx" HotReloader_make = true.
Proof. exact reloader_channels_never_block_senders. Qed.

(* the thread that runs the loaders and the dependency walk of a pass has the default stack *)
Theorem C08_code_reloader_thread_has_the_default_stack : spawns_with_default_stack HotReloader_start = true.
Proof. exact reloader_thread_has_the_default_stack. Qed.

(* a loader (or a destructor) that panics during a reload does not take the reloader thread down:
   DepsGraph::reload catches the unwinding and treats the reload as failed, so the answer is sent *)
Theorem C08_code_a_panicking_reload_is_survived : reload_catches DepsGraph_reload = true.
Proof. exact reload_panic_is_a_failed_reload. Qed.

Theorem C08_code_marks_before_recursing : visit_wf DepsGraph_visit = true.
Proof. exact visit_marks_before_recursing. Qed.

(* The variant that marks after the recursion (the code before the repair of D2) exhausts every
   fuel on a two-node cycle. *)
Theorem C08_old_visit_diverges : forall fuel,
  visit_post gc fuel 1 [] [] = None /\ visit_post gc fuel 2 [] [] = None.
Proof. exact visit_diverges_on_cycle. Qed.

(* non-vacuity: the initial state is reachable with 3 callers not done *)
(* The same for the executable model (Ref/Answers.v: callers as a list, [step] a function, the model
   the refutation of the protocol before the repair of D1 runs on): every step it takes is a step of
   the relational model above and vice versa, so for every number of callers and every schedule --
   fair or not -- no state it reaches is deadlocked, it takes at most work_bound n steps, and when
   nothing is enabled any more every caller has returned. *)
Theorem C08_executable_model_never_deadlocks : forall n sched,
  AM.Ref.Answers.deadlocked true (AM.Ref.Answers.run true sched (AM.Ref.Answers.init n)) = false.
Proof. exact AM.Proofs.AnsBridge.exec_no_deadlock. Qed.

Theorem C08_executable_model_bounded_work : forall n sched,
  AM.Proofs.AnsBridge.taken sched (AM.Ref.Answers.init n) <= work_bound n.
Proof. exact AM.Proofs.AnsBridge.exec_bounded_work. Qed.

Theorem C08_executable_model_rests_only_when_all_returned : forall n sched,
  let s := AM.Ref.Answers.run true sched (AM.Ref.Answers.init n) in
  (forall tid, In tid (AM.Ref.Answers.tids s) -> AM.Ref.Answers.enabled true s tid = false) ->
  AM.Ref.Answers.all_done s = true.
Proof. exact AM.Proofs.AnsBridge.exec_quiescent_means_all_returned. Qed.

Example C08_nonvacuous : stepsN 3 init init /\ (exists i, i < 3 /\ cs init i <> CDone).
Proof. split; [constructor|]. exists 0. split; [auto|discriminate]. Qed.

(* the reloader never runs a user destructor while it holds an asset's write lock: under the lock
   `write` swaps, bumps the id and sets the flag, nothing else; the replaced value is dropped after
   the lock is released (a destructor that reads its own handle cannot block the reloader, hence
   cannot block hot_reload) *)
Theorem C08_code_write_drops_nothing_under_the_lock :
  AM.Tie.Entry.write_locked_block_wf AM.Gen.Entry.UntypedEntry_write = true.
Proof. exact AM.Tie.Entry.write_drops_nothing_under_the_lock. Qed.
