(* Property C03 -- a load returns what the source holds: extension order, defaults, errors.
   Statements only. *)
From Coq Require Import List String NArith ZArith Bool.
From AM Require Import Rust.Ast Rust.Eval Gen.Error Gen.Asset Gen.Key Ref.Load Proofs.Load
  Tie.Error Tie.LoadFromSource Gen.Flags Tie.Dirs Gen.Loaders Tie.Loaders Gen.Private Tie.Graph.
From AM Require Gen.Fs Tie.Fs.
From AM Require Gen.Anycache Tie.Records.
From AM Require Ref.Utf8 Ref.Loaders Proofs.Loaders.
Import ListNotations.
Open Scope N_scope.

(* 1. ErrorKind::or as printed from the source IS the model's [or], for every pair of errors. *)
Theorem C03_code_or_is_model_or : forall a b, gen_or a b = ONorm (enc (or a b)).
Proof. exact ErrorKind_or_tie. Qed.

(* 1b. what enters as which class: a source's io::Error is Io, whatever a loader returns (any
       concrete type, io::Error included) is Conversion; an ErrorKind leaves as the error it carries *)
Theorem C03_code_error_conversions_keep_the_class :
  enters_as "Io" ErrorKind_from_io = true /\ enters_as "Conversion" ErrorKind_from_boxed = true /\
  leaves_unchanged Boxed_from_kind = true.
Proof. exact error_conversions_keep_the_class. Qed.

(* 1c. the error of a failed load names the id that was asked for and carries the loader's error *)
Theorem C03_code_load_error_names_the_asked_id : wraps_with_own_id Inner_of_asset_load_entry = true.
Proof. exact load_error_names_the_asked_id. Qed.

(* 2. Precedence: decoding error > other I/O error > not found > no default value. *)
Theorem C03_or_prefers_the_higher_class : forall a b, class (or a b) = N.max (class a) (class b).
Proof. exact or_class. Qed.

(* 3. load_from_source as printed equals the model on every extension list of length <= 3 and
      every outcome per extension (bounded, exhaustive: 156 shapes x 2 default behaviours; an interrupted read is an I/O error like any other: it is reported, not retried). *)
Theorem C03_code_load_from_source_is_model_up_to_3_extensions :
  forallb (fun atts => outcome_eqb (gen_load atts false) (ref_load atts false)
                       && outcome_eqb (gen_load atts true) (ref_load atts true)) all_cases = true
  /\ List.length all_cases = 156%nat.
Proof. exact load_from_source_bounded_tie. Qed.

(* 4. For EVERY extension list: the first extension whose file can be read and decoded wins, with
      the loader's result on exactly the stored bytes ... *)
Theorem C03_first_readable_decodable_extension_wins :
  forall (V : Type) read (decode : list N -> string -> sum N V) default exts1 e exts2 err v,
  (forall x, In x exts1 -> attempt_value read decode x = None) ->
  attempt_value read decode e = Some v ->
  attempts read decode default (exts1 ++ e :: exts2) err = inr v.
Proof. intros V. exact (@first_success_wins V). Qed.

(* ... and if none can, default_value decides on an error that is one of the attempts' errors (or
   "no default value" for the empty list) and whose class is the highest among them. *)
Theorem C03_all_fail_highest_class_error_goes_to_default :
  forall (V : Type) read (decode : list N -> string -> sum N V) default exts err,
  (forall x, In x exts -> attempt_value read decode x = None) ->
  exists final,
    attempts read decode default exts err = default final /\
    (final = err \/ exists x, In x exts /\ attempt_error read decode x = Some final) /\
    class err <= class final /\
    (forall x e, In x exts -> attempt_error read decode x = Some e -> class e <= class final).
Proof. intros V. exact (@all_fail_error_class V). Qed.

Theorem C03_empty_extension_list_goes_to_default :
  forall (V : Type) read (decode : list N -> string -> sum N V) default,
  load_from_source read decode default [] = default ENoDefault.
Proof. intros V. exact (@empty_extension_list V). Qed.

(* the extension list of a type that only gives EXTENSION is exactly that one extension, the empty
   one (files without extension) included *)
Theorem C03_code_default_extension_list : defaults_wf = true.
Proof. exact trait_defaults. Qed.

(* where the default source looks for the bytes: FileSystem maps (id, ext) to root / segments of the
   id, the extension set through set_extension -- a file of the empty extension is the bare stem *)
Theorem C03_code_path_of_entry : path_of_entry_wf path_of_entry = true.
Proof. exact path_of_entry_as_specified. Qed.

(* ---- the built-in loaders ---- *)
(* their code: ParseLoader = from_utf8, str::trim, parse; StringLoader = from_utf8 keeping the bytes;
   BytesLoader hands the content on; LoadFrom converts the inner loader's result *)
Theorem C03_code_builtin_loaders_as_modelled :
  parse_loader_wf ParseLoader_load = true /\ load_from_wf LoadFrom_load = true /\
  hands_on "into_owned" BytesLoader_load_vec = true /\ hands_on "into" BytesLoader_load_box = true /\
  hands_on "into" BytesLoader_load_shared = true /\
  string_wf StringLoader_load_string = true /\ boxed_str_wf StringLoader_load_box = true /\
  shared_str_wf StringLoader_load_shared = true.
Proof. exact loaders_as_modelled. Qed.

(* white space around the content -- any number of any Unicode White_Space characters -- never changes
   what ParseLoader answers *)
Theorem C03_parse_loader_ignores_surrounding_whitespace : forall a cs b,
  forallb Utf8.scalar (a ++ cs ++ b) = true ->
  forallb Loaders.white_space a = true -> forallb Loaders.white_space b = true ->
  Loaders.parse_loader (Utf8.encode (a ++ cs ++ b)) = Loaders.parse_loader (Utf8.encode cs).
Proof. exact Proofs.Loaders.parse_loader_ignores_surrounding_whitespace. Qed.

(* ... and trimming removes nothing else: what is left begins and ends with a character that is not
   white space *)
Theorem C03_trim_removes_exactly_the_surrounding_whitespace : forall cs,
  match Loaders.trim cs with
  | [] => True
  | c :: _ => Loaders.white_space c = false /\ Loaders.white_space (last (Loaders.trim cs) 0%N) = false
  end.
Proof. exact Proofs.Loaders.trim_ends. Qed.

Theorem C03_parse_loader_rejects_ill_formed_utf8 : forall bytes,
  Utf8.valid bytes = false -> Loaders.parse_loader bytes = None.
Proof. exact Proofs.Loaders.parse_loader_rejects_ill_formed_utf8. Qed.

Theorem C03_parse_loader_stays_in_range : forall cs z,
  Loaders.parse_i64 cs = Some z -> (Loaders.i64_min <= z)%Z /\ (z <= Loaders.i64_max)%Z.
Proof. exact Proofs.Loaders.parse_i64_in_range. Qed.

Theorem C03_string_loader_keeps_the_bytes : forall bytes s,
  Loaders.string_loader bytes = Some s -> s = bytes /\ Utf8.valid bytes = true.
Proof. exact Proofs.Loaders.string_loader_keeps_the_bytes. Qed.

Example C03_loaders_nonvacuous :
  Loaders.parse_loader (Utf8.encode [160; 8195; 45; 52; 50; 10; 12288]%N) = Some (-42)%Z /\
  Loaders.parse_loader (Utf8.encode [52; 50; 8203]%N) = None.
Proof. vm_compute. split; reflexivity. Qed.

(* the FileSystem source hands back exactly the bytes fs::read returned for the entry's path, of any
   length, and answers exists / read_dir from that path *)
Theorem C03_code_filesystem_source :
  fn_body Gen.Fs.FileSystem_read = Tie.Fs.expected_FileSystem_read /\
  fn_body Gen.Fs.FileSystem_exists = Tie.Fs.expected_FileSystem_exists /\
  fn_body Gen.Fs.FileSystem_path_of = Tie.Fs.expected_FileSystem_path_of /\
  fn_body Gen.Fs.FileSystem_read_dir = Tie.Fs.expected_FileSystem_read_dir.
Proof. exact Tie.Fs.filesystem_source_as_modelled. Qed.

(* one path through load_from_source whatever the number of extensions: the loop, then default_value *)
Theorem C03_code_load_from_source_has_one_path : load_from_source_shape Gen.Asset.load_from_source = true.
Proof. exact load_from_source_has_one_path. Qed.

(* what a loader reads IS what the source's read returns: the cache's `read` (the glue between
   load_from_source and the Source) records the file for hot-reloading and then hands back
   `self.get_source().read(id, ext)` -- two statements, no probe (exists), no filtering, no retry *)
Theorem C03_code_cache_reads_go_straight_to_the_source :
  AM.Tie.Records.read_records_first AM.Gen.Anycache.Cache_read "add_file_record" = true /\
  AM.Tie.Records.read_records_first AM.Gen.Anycache.Cache_read_dir "add_dir_record" = true.
Proof. exact (conj (proj1 AM.Tie.Records.recording_call_sites) (proj1 (proj2 AM.Tie.Records.recording_call_sites))). Qed.
