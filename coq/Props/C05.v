(* Property C05 -- hot-reloading converges: cached values follow the source, transitively.
   Statements only.

   Layers: (L1) the order a pass visits assets: exactly the assets reachable from the changed
   entries, each once, dependencies first on acyclic graphs (Proofs/Dfs.v), with the printed
   DepsGraph::visit following the DFS discipline; (L2) the build-system theorem: for ANY loaders
   whose result is determined by what they report reading, a pass in an order with no late binding
   re-establishes consistency, dependency sets being re-learned at every reload and failed reloads
   keeping value and dependencies (Proofs/Pass.v); (L3) the system model Ref.Sys runs exactly such a
   pass under the order the implementation used, which it checks to be legal; model and
   implementation agree operation by operation (sysdiff), and the model-side monitor compares
   every plain asset a pass visited with a fresh load.

   Known finding (D8): a batch that makes an asset depend on another asset changed in the same
   batch can be scheduled "dependent first"; the dependent is then stale until the next change.
   [no_late] is exactly the absence of that situation; [C05_late_binding_goes_stale] is the witness. *)
From Coq Require Import List Arith Bool NArith.
From AM Require Import Rust.Ast Gen.Deps Gen.HotReloading Proofs.Dfs Proofs.Pass Tie.Graph Tie.Answers Tie.Records Gen.Paths Tie.Paths.
From AM Require Ref.Sys Proofs.SysGraph Proofs.SysFresh.
Import ListNotations.

(* L1 *)
Theorem C05_pass_visits_exactly_the_affected_once : forall (g : nat -> list nat) roots fuel vis out,
  topo g fuel roots = Some (vis, out) -> NoDup out /\ forall x, In x out <-> Rr g roots x.
Proof. exact topo_exact. Qed.

Theorem C05_dependencies_first : forall (g : nat -> list nat) roots fuel vis out,
  acyclic g -> topo g fuel roots = Some (vis, out) ->
  forall x y, In x out -> In y (g x) -> before x y out.
Proof. exact topo_deps_first. Qed.

Theorem C05_code_follows_the_dfs_and_drains_messages_first :
  visit_wf DepsGraph_visit = true /\ drains_before_events hot_reloading_thread = true /\
  insert_wf DepsGraph_insert = true.
Proof. exact (conj visit_marks_before_recursing (conj cache_messages_first graph_insert_as_modelled)). Qed.

(* L2 *)
Theorem C05_pass_restores_consistency : forall (F : loader) (s s' : src) (order : list A) (c0 : st),
  determined F -> NoDup order -> no_late F s' order c0 ->
  (forall a, ~ In a order -> consistent F s c0 a ->
             (forall e, In (DE e) (deps c0 a) -> s e = s' e) /\ (forall b, In (DA b) (deps c0 a) -> ~ In b order)) ->
  forall a, (In a order \/ consistent F s c0 a) -> ~ In a (failed (pass F s' order c0)) ->
  consistent F s' (pass F s' order c0) a.
Proof. exact pass_restores_consistency. Qed.

(* the excluded situation is real: the known finding *)
Theorem C05_late_binding_goes_stale :
  consistent Fw s_old c_old 0 /\ consistent Fw s_old c_old 1 /\
  val (pass Fw s_new [0; 1] c_old) 0 = 11 /\
  Fw 0 s_new (val (pass Fw s_new [0; 1] c_old)) = Some (12, [DE 0; DA 1]) /\
  val (pass Fw s_new [1; 0] c_old) 0 = 12.
Proof. exact late_bound_stale_witness. Qed.

(* L3 ties: recording call sites as modelled *)
Theorem C05_recording_as_modelled :
  record_wf Gen.Records.record = true /\ load_and_record_wf Gen.Asset.load_and_record = true /\
  lookup_recorded Gen.Anycache.Cache_get_cached_entry_inner = true.
Proof.
  destruct records_shapes as (R & _). destruct recording_call_sites as (_ & _ & L & _ & _ & LR).
  exact (conj R (conj LR L)).
Qed.

(* the order the pass theorem needs is the one the code computes: one visited set and one
   post-order list for all changed entries of the pass, reversed once as a whole *)
Theorem C05_code_pass_order_is_one_reversed_post_order :
  topo_wf DepsGraph_topological_sort_from = true /\ into_iter_reverses TopologicalSort_into_iter = true.
Proof. exact pass_order_is_one_reversed_post_order. Qed.

(* a changed entry the graph knows always reaches the next pass, and the pass reloads every asset of
   the order it computed from the changed set (src/hot_reloading/paths.rs) *)
Theorem C05_code_events_reach_the_pass :
  run_update_wf run_update = true /\ handle_events_wf HotReloadingData_handle_events = true.
Proof. exact (conj (proj1 paths_as_modelled) (proj1 (proj2 paths_as_modelled))). Qed.

(* dependency sets are re-learned at every reload: after a successful reload the graph holds for the
   asset exactly the entries that reload recorded, not what earlier loads had recorded *)
Theorem C05_reload_relearns_dependencies : forall fuel s k n t old s1 tr v tok,
  Sys.g_get (Sys.graph s) (Sys.DepAsset k) = Some n -> Sys.g_typ n = Some t ->
  Sys.cache_get s k = Some old -> Sys.en_dyn old = true ->
  Sys.load_wrapped (Sys.load_entry_f fuel) (Sys.load_owned_f fuel) (Sys.rec_push s (Some [])) t (snd k)
    = (s1, tr, Sys.ROk (v, tok)) ->
  SysGraph.deps_of (Sys.graph (fst (Sys.reload_one fuel s k))) (Sys.DepAsset k) = snd (Sys.rec_pop s1).
Proof. exact SysGraph.reload_relearns_dependencies. Qed.

(* completeness of a pass, in every reachable state: every asset that depends -- transitively, through
   the dependencies recorded by the latest successful loads -- on an entry that was reported changed
   (and that some load has read) is reloaded by every pass the model accepts; with C06's precision
   theorem: a legal pass visits exactly the dependents of the changes.  (The search that computes the
   set has enough fuel on every graph: Proofs/SysGraph.v, bfs_closed.) *)
Theorem C05_a_pass_skips_nothing_that_depends_on_a_change : forall reloader ops order k r,
  let s := Sys.drain (fst (Sys.run (Sys.init_st reloader) ops)) in
  Sys.legal_order s order = true ->
  In r (Sys.to_reload s) -> SysGraph.has_node (Sys.graph s) r ->
  SysGraph.tdep (Sys.graph s) (Sys.DepAsset k) r -> In k order.
Proof. exact SysGraph.hot_reload_is_complete. Qed.

(* the base case of "cached values follow the source", for the plain asset types (no nested loads) and
   no planned fault: what a load makes is a function [p_load] of the source's files alone; a reload of
   such an asset installs exactly that value (with the reload id bumped) or, if the files yield none,
   leaves the entry alone; and that value is the one a load of the same key into a cache that does not
   hold it returns -- the oracle "equal to a fresh load" of the correspondence monitor *)
Theorem C05_reload_installs_what_the_source_holds : forall fuel s t id n old,
  SysFresh.plain_asset t = true -> Sys.faults (Sys.src s) = [] ->
  Sys.g_get (Sys.graph s) (Sys.DepAsset (t, id)) = Some n -> Sys.g_typ n = Some t ->
  Sys.cache_get s (t, id) = Some old -> Sys.en_dyn old = true ->
  let s' := fst (Sys.reload_one fuel s (t, id)) in
  match SysFresh.p_load (Sys.files (Sys.src s)) t id with
  | Some v => exists e, Sys.cache_get s' (t, id) = Some e /\ Sys.en_val e = v /\ Sys.en_rid e = N.succ (Sys.en_rid old)
  | None => Sys.cache_get s' (t, id) = Some old
  end.
Proof. exact SysFresh.reload_installs_what_the_source_holds. Qed.

Theorem C05_fresh_load_returns_what_the_source_holds : forall f s t id,
  SysFresh.plain_asset t = true -> Sys.faults (Sys.src s) = [] -> Sys.cache_get s (t, id) = None ->
  match snd (Sys.load_entry_f (S f) s t id), SysFresh.p_load (Sys.files (Sys.src s)) t id with
  | Sys.ROk e, Some v => Sys.en_val e = v
  | Sys.RErr _, None => True
  | _, _ => False
  end.
Proof. exact SysFresh.fresh_load_returns_what_the_source_holds. Qed.

(* a registration is never dropped: the AddAsset message goes to insert_asset, which is `insert` on
   the asset's node whether or not the node exists (an asset loaded again after remove / clear, or
   whose first load raced, has its dependencies and type recorded afresh) *)
Theorem C05_code_registrations_reach_the_graph :
  insert_asset_wf DepsGraph_insert_asset = true /\
  add_asset_msg_wf HotReloadingData_add_asset = true.
Proof. exact registrations_reach_the_graph. Qed.
