(* Property C10 -- what is declared non-reloadable is never rewritten.  Statements only. *)
From Coq Require Import List String NArith ZArith Bool.
From AM Require Import Rust.Ast Gen.Entry Gen.Anycache Ref.Load Ref.Sys Proofs.SysGrows Proofs.SysStatic Proofs.SysGraph Tie.Static Gen.Flags Tie.Dirs Gen.CacheMap Gen.LocalMap Tie.Maps Gen.HotReloading Tie.Answers.
Import ListNotations.

(* 1. The code: an entry is reloadable only if its type is hot-reloaded and the cache has a
      reloader; get_or_insert never creates a reloadable entry; a reload returns before loading or
      writing anything when the entry is not reloadable. *)
Theorem C10_code_decides_reloadability_as_modelled :
  entry_new_wf CacheEntry_new = true /\
  add_any_static CacheExt_add_any = true /\
  reload_skips_static AnyCache_reload_untyped = true.
Proof.
  exact (conj entry_dynamic_iff_type_and_cache (conj get_or_insert_entries_are_static
        reload_leaves_static_entries_alone)).
Qed.

(* 2. Which entries the model creates non-reloadable. *)
Theorem C10_no_reloader_or_opted_out_is_static : forall s t v tok,
  has_reloader s = false \/ hot_reloaded t = false -> en_dyn (mk_entry s t v tok) = false.
Proof. exact mk_entry_static. Qed.

Theorem C10_get_or_insert_is_static : forall s t v tok, en_dyn (mark_goi (mk_entry s t v tok)) = false.
Proof. exact goi_entry_static. Qed.

(* 3. One operation, ANY operation (loads with arbitrarily nested Compounds, edits, notifications,
      reload passes in any order, enhance, polling ...): a non-reloadable entry that the operation
      does not remove is still there afterwards with the same value, token and reload id. *)
Theorem C10_static_never_written : forall fuel s o k e,
  cache_get s k = Some e -> en_dyn e = false -> removes o k = false ->
  cache_get (fst (fst (step fuel s o))) k = Some e.
Proof. exact static_never_written. Qed.

(* 4. ... hence for every history: load / remove / take / clear / get_or_insert / edits /
      notifications in any order before, and any history that does not remove the key after. *)
Theorem C10_static_never_written_in_any_history : forall ops s k e,
  cache_get s k = Some e -> en_dyn e = false -> never_removed ops k = true ->
  cache_get (fst (run s ops)) k = Some e.
Proof. exact static_never_written_run. Qed.

(* non-vacuity (and the D5 shape): load_owned, get_or_insert 99, edit, notify, hot_reload *)
Example C10_nonvacuous :
  let ops := [OWrite "a" "x" (CBytes [49%N]); OLoadOwned TI "a"; OGetOrInsert TI "a" 99%Z] in
  let s := fst (run (init_st true) ops) in
  exists e, cache_get s (TI, "a") = Some e /\ en_dyn e = false /\ en_val e = VInt 99 "insert" /\
  cache_get (fst (run s [OWrite "a" "x" (CBytes [55%N]); ONotify [DFile "a" "x"] []; OHotReload [(TI, "a")]]))
    (TI, "a") = Some e.
Proof. vm_compute. eexists. repeat split. Qed.

(* wrappers (Arc, OnceInitCell over U and over Option<U>, the Asset->Compound and Compound->Storable blanket impls) take the
   flag of what they wrap, and the type descriptor stores the type's flag *)
Theorem C10_flag_is_forwarded :
  forwards Arc_HOT_RELOADED "T" = true /\ forwards Blanket_HOT_RELOADED "Self" = true /\
  forwards Storable_HOT_RELOADED "T" = true /\ forwards OnceInit_HOT_RELOADED "U" = true /\
  forwards OnceInitOpt_HOT_RELOADED "U" = true /\
  descriptor_wf Inner_of_asset = true /\ descriptor_wf Inner_of_storable = true.
Proof. exact hot_reloaded_flag_is_forwarded. Qed.

(* whether a cache has a reloader is decided when it is built: no operation, in any history, gives
   one to a cache built without (without_hot_reloading, LocalAssetCache, sources that do not support
   it) or takes it away ... *)
Theorem C10_reloader_is_fixed_at_construction : forall ops s,
  has_reloader (fst (run s ops)) = has_reloader s.
Proof. exact reloader_is_fixed_at_construction. Qed.

(* ... and the one operation of the code that looks at the reloader field besides the loads, clear,
   only tells an existing reloader to forget its pending changes *)
Theorem C10_code_clear_neither_makes_nor_drops_a_reloader :
  cache_clear_wf Gen.CacheMap.AssetCache_clear = true /\ cache_clear_wf Gen.LocalMap.LocalAssetCache_clear = true.
Proof. exact (conj (proj1 (proj2 (proj2 clear_empties_the_whole_map))) (proj2 (proj2 (proj2 clear_empties_the_whole_map)))). Qed.

(* ... and a cache gets a reloader at construction only if its source can be cloned for one and its
   hot-reloading really started *)
Theorem C10_code_reloader_only_when_hot_reloading_started : make_wf HotReloader_make = true.
Proof. exact reloader_only_when_hot_reloading_started. Qed.
