(* Property C11 -- directory assets list exactly the matching ids of a directory / subtree.
   Statements only (specification side; the sources and the Directory / RecursiveDirectory assets
   are compared with it by `srcdiff`, unreadable sub-directories by `sysdiff`). *)
From Coq Require Import List String NArith Bool.
From AM Require Import Ref.Tree Proofs.Tree.
Import ListNotations.

Theorem C11_dir_ids_are_exactly_the_matching_files : forall t exts d l,
  dir_ids t exts d = Some l ->
  forall i, In i l <-> exists x b, In (i, x, b) (tfiles t) /\ parent i = Some d /\ In x exts.
Proof. exact dir_ids_exact. Qed.

Theorem C11_missing_directory_is_an_error : forall t exts d,
  is_dir t d = false -> dir_ids t exts d = None /\ rec_dir_ids t exts d = None.
Proof. exact missing_directory_is_an_error. Qed.
