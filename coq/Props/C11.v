(* Property C11 -- directory assets list exactly the matching ids of a directory / subtree.
   Statements only (specification side; the sources and the Directory / RecursiveDirectory assets
   are compared with it by `srcdiff`, unreadable sub-directories by `sysdiff`). *)
From Coq Require Import List String NArith Bool.
From AM Require Import Rust.Ast Gen.Dirs Ref.Tree Proofs.Tree Tie.Dirs Gen.Archive Tie.Archive.
From AM Require Import Gen.Embed Tie.Embed.
From AM Require Tie.Watcher.
From AM Require Import Tie.ArchivePath.
From AM Require Gen.Fs Tie.Fs.
Import ListNotations.

Theorem C11_dir_ids_are_exactly_the_matching_files : forall t exts d l,
  dir_ids t exts d = Some l ->
  forall i, In i l <-> exists x b, In (i, x, b) (tfiles t) /\ parent i = Some d /\ In x exts.
Proof. exact dir_ids_exact. Qed.

Theorem C11_missing_directory_is_an_error : forall t exts d,
  is_dir t d = false -> dir_ids t exts d = None /\ rec_dir_ids t exts d = None.
Proof. exact missing_directory_is_an_error. Qed.

(* the recursive asset is the union of the directory assets of d and of every directory below it
   (a tree in which every file sits in a listed directory) *)
Theorem C11_rec_dir_ids_is_the_union : forall t exts d l,
  wf_tree t -> rec_dir_ids t exts d = Some l ->
  forall i, In i l <-> exists d' l', is_prefix d d' = true /\ dir_ids t exts d' = Some l' /\ In i l'.
Proof. exact rec_dir_ids_is_the_union. Qed.

(* the printed src/dirs.rs: select_ids keeps exactly the File entries whose extension is one of
   T::EXTENSIONS (string equality), Directory::load = select, sort, dedup; RecursiveDirectory::load =
   own directory (errors propagate) + every loadable child (errors skipped); Arc forwards *)
Theorem C11_code_as_specified :
  select_inner_wf select_ids_inner = true /\ select_wf select_ids = true /\
  subdirs_wf sub_directories = true /\ arc_forwards Arc_select_ids "select_ids" = true /\
  arc_forwards Arc_sub_directories "sub_directories" = true /\
  dir_load_wf Directory_load = true /\ rec_load_wf RecursiveDirectory_load = true.
Proof. exact dirs_as_specified. Qed.

(* the archive sources build the listing a directory asset reads as modelled: a directory enters its
   parent's listing exactly once (register_dir returns on a directory it already knows), a file once
   per member; read_dir hands out that listing (Ref/Archive.v, proved equal to the tree's listing in
   Props/C04.v) *)
Theorem C11_code_archives_list_each_entry_once :
  register_dir_wf zip_register_dir = true /\ register_dir_wf tar_register_dir = true /\
  register_file_wf zip_register_file = true /\ register_file_wf tar_register_file = true /\
  read_dir_wf zip_read_dir = true /\ read_dir_wf tar_read_dir = true.
Proof. exact archives_list_each_entry_once. Qed.

(* the listings an Embedded source hands out are the ones the embed! macro builds: every file and
   every directory entered in its parent's listing, sorted, nothing removed *)
Theorem C11_code_embed_macro_lists_every_entry :
  fn_body Content_push_file = expected_Content_push_file /\
  fn_body Content_push_dir = expected_Content_push_dir /\
  fn_body Content_sort = expected_Content_sort /\
  fn_body embed_read_dir = expected_embed_read_dir /\
  fn_body Id_push = expected_Id_push /\
  fn_body embed_extension_of = expected_embed_extension_of.
Proof. exact embed_macro_as_modelled. Qed.

(* the member paths of an archive are parsed as the model says, `..` and `.` components included:
   `d/../f.x` is the file f of the root (Tie/ArchivePath.v; finite sweep, bound in the statement) *)
Theorem C11_code_archive_paths_parsed_as_modelled :
  forallb (fun p => Tie.Watcher.outcome_eqb (gen_parse zip_register_file p) (ref_parse p) &&
                    Tie.Watcher.outcome_eqb (gen_parse tar_register_file p) (ref_parse p)) member_paths = true.
Proof. exact archive_paths_bounded_tie. Qed.

(* the FileSystem source lists a directory as the model reads it: an entry is a file when the path
   IS a file and a directory when it IS a directory (`Path::is_file` / `is_dir`, which follow
   symbolic links), with the id built from the stem and the extension from the name *)
Theorem C11_code_filesystem_listing :
  fn_body AM.Gen.Fs.FileSystem_read_dir = AM.Tie.Fs.expected_FileSystem_read_dir.
Proof. exact (proj2 (proj2 (proj2 AM.Tie.Fs.filesystem_source_as_modelled))). Qed.
