(* Property C16 -- SharedBytes / SharedString are immutable shared buffers.  Statements only.
   Machine: Ref/Bytes.v (allocator ledger, reference count, the atomic steps of clone / drop /
   drop_slow in every order); "valid UTF-8" is Ref/Utf8.v's encode on Unicode scalar values. *)
From Coq Require Import List NArith Bool.
From AM Require Import Rust.Ast Gen.Bytes Ref.Bytes Ref.Utf8 Proofs.Bytes Proofs.Utf8 Tie.Bytes.
From AM Require Gen.Loaders Tie.Loaders.
Import ListNotations.
Open Scope N_scope.

(* the printed code performs the machine's steps and layout computations *)
Theorem C16_code_as_modelled :
  clone_wf SharedBytes_clone = true /\ drop_wf SharedBytes_drop = true /\
  drop_slow_wf SharedBytes_drop_slow = true /\ layout_wf SharedBytes_get_inner_layout = true /\
  from_slice_wf SharedBytes_from_slice = true /\ from_vec_wf SharedBytes_from_vec = true /\
  deref_wf SharedBytes_deref = true.
Proof. exact bytes_as_modelled. Qed.

Theorem C16_other_constructors_funnel :
  from_box_wf SharedBytes_from_box = true /\ from_cow_wf SharedBytes_from_cow = true /\
  from_iter_wf SharedBytes_from_iter = true.
Proof. exact bytes_constructors_funnel. Qed.

Theorem C16_compare_as_slices :
  eq_wf SharedBytes_eq = true /\ cmp_wf SharedBytes_cmp = true /\ hash_wf SharedBytes_hash = true.
Proof. exact bytes_compare_as_slices. Qed.

Theorem C16_string_validates_then_builds :
  from_utf8_wf SharedString_from_utf8 = true /\ str_deref_wf SharedString_deref = true.
Proof. exact string_validates_then_builds. Qed.

(* whatever happens between construction and a later deref -- clones, drops, other values, in any
   order --, the deref gives the constructor's bytes *)
Theorem C16_deref_is_source : forall before ctor bs h between s1,
  ctor_bytes ctor = Some bs ->
  Bytes.step (fst (run init before)) ctor = (s1, ONew h) ->
  forall out, snd (Bytes.step (fst (run s1 between)) (SRead h)) = OBytes out -> out = bs.
Proof. exact deref_is_source. Qed.

(* every schedule of atomic steps: no double free, no wrong layout, no use after free *)
Theorem C16_no_memory_errors : forall xs, errs (fst (run init xs)) = [].
Proof. exact no_memory_errors. Qed.

(* the count is the number of values that exist *)
Theorem C16_count_is_owners : forall xs h o,
  get_obj h (objs (fst (run init xs))) = Some o -> o_count o = o_owners o.
Proof. exact count_is_owners. Qed.

(* not released before the last value is dropped ... *)
Theorem C16_blocks_live_while_owned : forall xs h,
  let s := fst (run init xs) in
  enabled s (SRead h) = true ->
  exists o, get_obj h (objs s) = Some o /\ find_block h (live s) = Some (hdr_layout o) /\
            (o_cap o <> 0 -> exists b, o_buf o = Some b /\ find_block b (live s) = Some (layout_vec (o_cap o))).
Proof. exact blocks_live_while_owned. Qed.

(* ... and exactly once afterwards: nothing is left and the number of releases is the number of
   allocations (block ids are never reused, a second release would be a DoubleFree error) *)
Theorem C16_released_exactly_once : forall xs,
  let s := fst (run init xs) in
  all_released s = true ->
  live s = [] /\ errs s = [] /\ N.of_nat (List.length (freed s)) = next s.
Proof. exact released_exactly_once. Qed.

(* UTF-8: the recogniser accepts exactly the encodings of sequences of Unicode scalar values,
   decodes them back, and an accepted string is the encoding of one text only *)
Theorem C16_valid_iff_encoding : forall bs,
  valid bs = true <-> exists cs, forallb scalar cs = true /\ bs = encode cs.
Proof. exact valid_iff. Qed.

(* valid_up_to (what Utf8Error::valid_up_to is compared with) is the length of the longest prefix
   made of whole well-formed sequences, and a string is valid iff that is all of it *)
Theorem C16_valid_up_to_is_the_longest_valid_prefix : forall bs,
  exists k, valid_up_to bs = N.of_nat k /\ (k <= List.length bs)%nat /\
            valid (firstn k bs) = true /\
            (k = List.length bs \/ Utf8.step (skipn k bs) = None).
Proof. exact valid_up_to_is_the_longest_valid_prefix. Qed.

Theorem C16_valid_iff_up_to_everything : forall bs,
  valid bs = true <-> valid_up_to bs = N.of_nat (List.length bs).
Proof. exact valid_iff_up_to_everything. Qed.

Theorem C16_decode_encode : forall cs, forallb scalar cs = true -> decode (encode cs) = Some cs.
Proof. exact decode_encode. Qed.

Theorem C16_encode_injective : forall cs ds,
  forallb scalar cs = true -> forallb scalar ds = true -> encode cs = encode ds -> cs = ds.
Proof. exact encode_injective. Qed.

(* deserialization builds a SharedString from raw bytes only through the validating from_utf8 *)
Theorem C16_code_deserialization_validates :
  de_text_wf SharedString_de_visit_str = true /\ de_text_wf SharedString_de_visit_string = true /\
  de_validates ["str"; "from_utf8"]%string SharedString_de_visit_bytes = true /\
  de_validates ["String"; "from_utf8"]%string SharedString_de_visit_byte_buf = true /\
  de_bytes_wf "from_slice" SharedBytes_de_visit_bytes = true /\ de_bytes_wf "from_vec" SharedBytes_de_visit_byte_buf = true.
Proof. exact deserialization_validates. Qed.

Example C16_nonvacuous :
  let r := run init [SFromSlice [1;2;3]; SClone 0; SFromVec [] 0; SFromVec [5] 8; SDrop 0; SRead 0;
                     SDrop 0; SDropSlow 0; SDrop 1; SDropSlow 1; SDrop 3; SDropSlow 3] in
  all_released (fst r) = true /\ nth 5 (snd r) ONone = OBytes [1;2;3] /\
  freed (fst r) = [(3, (32, 8)); (2, (8, 1)); (1, (32, 8)); (0, (35, 8))] /\
  valid [240; 159; 146; 150; 195; 169] = true /\ valid [237; 160; 128] = false /\ valid [192; 128] = false.
Proof. vm_compute. repeat split. Qed.

(* the loader that builds a SharedString asset from file contents validates: both arms go through
   from_utf8 and propagate its error (`?`), nothing lossy, and hand the validated text to `into` *)
Theorem C16_code_string_loader_validates :
  AM.Tie.Loaders.shared_str_wf AM.Gen.Loaders.StringLoader_load_shared = true.
Proof. exact (proj2 (proj2 (proj2 (proj2 (proj2 (proj2 (proj2 AM.Tie.Loaders.loaders_as_modelled))))))). Qed.
