(* Property C06 -- reloads are precise and every one is reported exactly once.  Statements only. *)
From Coq Require Import List String NArith ZArith Bool.
From AM Require Import Rust.Ast Rust.Script Ref.RwCell Gen.Entry Ref.Load Ref.Sys Proofs.SysGrows Proofs.SysFrame
  Proofs.SysStatic Proofs.SysReload Proofs.Dfs Proofs.RwPin Proofs.RwStep Tie.Entry Tie.CallGraph Gen.Deps Tie.Graph Gen.Paths Tie.Paths Proofs.SysGraph Gen.Records Tie.Records.
Import ListNotations.
Open Scope string_scope.

(* loading never touches the dependency graph nor the set of changed entries: only the reloader
   (draining its messages, handling events, running a pass) does *)
Theorem C06_loads_leave_reloader_state : forall fuel s t id,
  graph (fst (fst (load_entry_f fuel s t id))) = graph s /\
  to_reload (fst (fst (load_entry_f fuel s t id))) = to_reload s.
Proof. exact load_leaves_reloader_state. Qed.

(* an operation that is not a pass never changes the reload id of an entry it keeps *)
Theorem C06_reload_id_moves_only_in_a_pass : forall fuel s o k e e',
  is_pass_op o = false -> cache_get s k = Some e ->
  cache_get (fst (fst (step fuel s o))) k = Some e' -> en_tok e' = en_tok e -> en_rid e' = en_rid e.
Proof. exact rid_moves_only_in_pass. Qed.

(* one reload of one asset: either nothing about the entry changes (failed reload, not reloadable,
   unknown), or the value is replaced, the old token dropped, the reload id grows by exactly one and
   the global flag is raised *)
Theorem C06_reload_bumps_id_by_one : forall fuel s k e,
  cache_get s k = Some e ->
  let s' := fst (reload_one fuel s k) in
  cache_get s' k = Some e \/
  exists e', cache_get s' k = Some e' /\ en_rid e' = N.succ (en_rid e) /\ en_flag e' = true /\
             en_dyn e = true.
Proof. exact reload_one_rid. Qed.

(* a pass visits each affected asset at most once, and exactly the affected ones *)
Theorem C06_each_affected_asset_once : forall (g : nat -> list nat) roots fuel vis out,
  topo g fuel roots = Some (vis, out) -> NoDup out /\ forall x, In x out <-> Rr g roots x.
Proof. exact topo_exact. Qed.

(* a watcher reports true exactly when the reload id grew since it was last asked, and remembers *)
Theorem C06_watcher_reports_growth_once : forall fuel s w k last e,
  assoc N.eqb w (watchers s) = Some (k, last) -> cache_get s k = Some e ->
  let cur := if en_dyn e then en_rid e else 0%N in
  let r := step fuel s (OPollWatcher w) in
  snd (fst r) = OutBool (N.ltb last cur) /\
  assoc N.eqb w (watchers (fst (fst r))) = Some (k, N.max last cur).
Proof. exact watcher_poll_spec. Qed.

(* poller vs reloader, every schedule: the increment of the reload id happens inside the write
   lock after the swap (write script accepted by the checker), so what is read under a guard after
   seeing an id is at least that new: value and id are pinned together under a guard *)
Theorem C06_value_read_after_a_reported_reload_is_as_new :
  writer_ok (write_script UntypedEntry_write) = true /\
  (forall m scripts pre seg t n0,
      uniform m -> (forall u, wf false false (scripts u) = true) ->
      let cr := run2 pre (init m scripts, n0) in
      holds_read_along t seg cr ->
      mem (fst (run2 seg cr)) = mem (fst cr) /\ snd (run2 seg cr) = snd cr).
Proof. exact (conj write_accepted guard_pins). Qed.

(* precision of the graph: the printed DepsGraph::insert replaces an asset's dependencies and
   unlinks exactly the reverse edges of the dependencies it lost (old minus new), so an entry the
   asset no longer records cannot reach it any more *)
Theorem C06_code_forgets_dropped_dependencies : insert_wf DepsGraph_insert = true.
Proof. exact graph_insert_as_modelled. Qed.

(* at most once per pass: the printed visit marks a node as visited before anything else can list it
   (no path around the visited set) *)
Theorem C06_code_visits_each_asset_once : visit_wf DepsGraph_visit = true.
Proof. exact visit_marks_before_recursing. Qed.

(* watchers: a new watcher starts at the handle's current reload id; `reloaded` compares the id
   loaded now with the one remembered and advances it *)
Theorem C06_code_watcher_starts_at_the_current_id :
  watcher_new_wf ReloadWatcherInner_new = true /\ watcher_reloaded_wf ReloadWatcher_reloaded = true.
Proof. exact watcher_starts_at_the_current_id. Qed.

(* the reloader's bookkeeping as printed from src/hot_reloading/paths.rs: an event joins the changed
   set only if the graph knows its entry; a pass computes its order from the changed set, empties the
   set and reloads each listed asset once; both kinds of cache run that same pass *)
Theorem C06_code_pass_bookkeeping :
  run_update_wf run_update = true /\ handle_events_wf HotReloadingData_handle_events = true /\
  runs_pass_on ["CacheKind"; "Local"] 0 HotReloadingData_update_if_local = true /\
  runs_pass_on ["CacheKind"; "Static"] 2 HotReloadingData_update_if_static = true /\
  runs_pass_on ["CacheKind"; "Local"] 0 HotReloadingData_use_static_ref = true /\
  fn_body HotReloadingData_clear_local_cache = [ESemi (EMethod (EField (EPath ["self"]) "to_reload") "clear" [])].
Proof. exact paths_as_modelled. Qed.

(* precision: whatever the history, every asset a pass reloads (an order the model accepts as the
   pass of that state) depends -- through the dependencies recorded by the latest successful loads,
   transitively -- on an entry that was reported changed; both for hot_reload and for the pass a
   notification triggers in 'static mode *)
Theorem C06_a_pass_reloads_only_dependents_of_changes : forall reloader ops order k,
  let s := drain (fst (run (init_st reloader) ops)) in
  legal_order s order = true -> In k order ->
  exists r, In r (to_reload s) /\ tdep (graph s) (DepAsset k) r.
Proof. exact hot_reload_is_precise. Qed.

Theorem C06_a_notified_pass_reloads_only_dependents_of_changes : forall reloader ops es order k,
  let s := take_events (drain (fst (run (init_st reloader) ops))) es in
  legal_order s order = true -> In k order ->
  exists r, In r (to_reload s) /\ tdep (graph s) (DepAsset k) r.
Proof. exact notified_pass_is_precise. Qed.

(* an asset whose latest successful load recorded nothing (a value read from no file, no directory and
   no other asset) is in no pass, whatever is notified, in any history *)
Theorem C06_nothing_recorded_never_reloaded : forall reloader ops order k,
  let s := drain (fst (run (init_st reloader) ops)) in
  legal_order s order = true -> deps_of (graph s) (DepAsset k) = [] -> ~ In k order.
Proof. exact nothing_recorded_never_reloaded. Qed.

(* what a load records is scoped to its own cache's reloader: the record remembers the reloader it
   was started for, and every insertion (asset, file, directory) is guarded by it; no_record and the
   drop guard as modelled (Tie/Records.v) *)
Theorem C06_code_records_are_per_reloader :
  record_wf record = true /\ no_record_wf no_record = true /\
   guard_wf CellGuard_replace CellGuard_drop = true /\
   add_record_wf add_record "insert_asset" = true /\
   add_record_wf add_file_record "insert_file" = true /\
   add_record_wf add_dir_record "insert_dir" = true /\
   insert_checks_reloader Record_insert_asset = true /\
   insert_checks_reloader Record_insert_file = true /\
   insert_checks_reloader Record_insert_dir = true.
Proof. exact records_shapes. Qed.

(* never re-reads -- let alone rewrites -- the source on its own: outside the operations that edit the source, its files, directories and fault plan stay what they were, through every load, look-up, notification and reload pass *)
Theorem C06_cache_operations_only_read_the_source : forall fuel s o,
  edits_source o = false -> src_same s (fst (fst (step fuel s o))).
Proof. exact cache_operations_only_read_the_source. Qed.

(* the premises are met: an edited file, a notification, and the pass that reloads its asset *)
Example C06_precision_nonvacuous :
  let s := drain (fst (run (init_st true)
                         [OWrite "a" "x" (CBytes [52%N]); OLoad TI "a"; OWrite "a" "x" (CBytes [53%N]);
                          ONotify [DFile "a" "x"] []])) in
  legal_order s [(TI, "a")] = true /\ to_reload s = [DepFile "a" "x"] /\
  deps_of (graph s) (DepAsset (TI, "a")) = [DepFile "a" "x"].
Proof. vm_compute. repeat split. Qed.
