(* T1 tie for src/source/zip.rs and tar.rs: the printed index construction is the one modelled in
   Ref/Archive.v (register_dir, register_file folded over the members in archive order, the root
   first; read_dir / exists answer from the two tables). *)
From Coq Require Import List String Bool Arith.
From AM Require Import Rust.Ast Rust.Syntax Gen.Archive.
Import ListNotations.
Open Scope string_scope.

(* register_dir: return if present; insert an empty listing; if there is a parent: register it,
   then push Dir(id) into its listing *)
Definition register_dir_wf (f : fn_def) : bool :=
  match fn_body f with
  | [EIf (EMethod (EPath ["dirs"]) "contains_key" [EPath ["id"]]) [ESemi (EReturn None)] None;
     ESemi (EMethod (EPath ["dirs"]) "insert" [EMethod (EPath ["id"]) "clone" []; ECall (EPath ["Vec"; "new"]) []]);
     EIf (ELet (PTupleStruct ["Some"] [PIdent "parent" None])
            (EMethod (ECall (EPath ["DirEntry"; "Directory"]) [EPath ["id"]]) "parent_id" []))
       [ELetS (PIdent "parent" None) (Some (ECall (EPath ["SharedString"; "from"]) [EPath ["parent"]])) None;
        ESemi (ECall (EPath ["register_dir"]) [EPath ["dirs"]; ERef (EPath ["parent"])]);
        EIf (ELet (PTupleStruct ["Some"] [PIdent e None]) (EMethod (EPath ["dirs"]) "get_mut" [ERef (EPath ["parent"])]))
          [ESemi (EMethod (EPath [e']) "push" [ECall (EPath ["OwnedEntry"; "Dir"]) [EMethod (EPath ["id"]) "clone" []]])] None]
       None] => String.eqb e e'
  | _ => false
  end.

(* the closure of register_file that parses the path and registers the member *)
Definition parse_closure (f : fn_def) : list expr :=
  flat_map (fun e => match e with
                     | ELetS (PIdent "ok" None) (Some (EMethod (ECall (EClosure [] (EBlock b)) []) "is_some" [])) None => b
                     | _ => []
                     end) (fn_body f).

Definition components_loop_wf (e : expr) : bool :=
  match e with
  | EFor (PIdent c None) (EMethod (ETry (EMethod (EPath ["path"]) "parent" [])) "components" [])
      [EMatch (EPath [c'])
         [(PTupleStruct ["path"; "Component"; "Normal"] [PIdent s None], None,
           ETry (EMethod (EPath ["id_builder"]) "push" [ETry (EMethod (EPath [s']) "to_str" [])]));
          (PPath ["path"; "Component"; "ParentDir"], None, ETry (EMethod (EPath ["id_builder"]) "pop" []));
          (PPath ["path"; "Component"; "CurDir"], None, EContinue);
          (PWild, None, EReturn (Some (EPath ["None"])))]] => String.eqb c c' && String.eqb s s'
  | _ => false
  end.

Definition is_register_dir (arg : string) (e : expr) : bool :=
  match e with
  | ESemi (ECall (EPath ["register_dir"]) [EPath ["dirs"]; ERef (EPath [a])]) => String.eqb a arg
  | _ => false
  end.

(* the file branch: desc = FileDesc(id, ext); files.insert(desc.clone(), _); register_dir(parent_id);
   dirs.entry(parent_id).or_default().push(File(desc)) -- in this order; the directory branch:
   register_dir(id) and nothing else *)
Definition file_branch_wf (b : list expr) : bool :=
  match find_index (fun e => match e with
                             | ELetS (PIdent "desc" None) (Some (ECall (EPath ["FileDesc"]) [EPath ["id"]; EPath ["ext"]])) None => true
                             | _ => false end) b,
        find_index (fun e => match e with
                             | ESemi (EMethod (EPath ["files"]) "insert" [EMethod (EPath ["desc"]) "clone" []; _]) => true
                             | _ => false end) b,
        find_index (is_register_dir "parent_id") b,
        find_index (fun e => match e with
                             | ESemi (EMethod (EMethod (EMethod (EPath ["dirs"]) "entry" [EPath ["parent_id"]]) "or_default" []) "push"
                                        [ECall (EPath ["OwnedEntry"; "File"]) [EPath ["desc"]]]) => true
                             | _ => false end) b with
  | Some i, Some j, Some k, Some l =>
    Nat.ltb i j && Nat.ltb j k && Nat.ltb k l && Nat.eqb (S l) (List.length b)
    && Nat.eqb (List.length (filter (fun e => existsb (calls_method "push") (subexprs depth_fuel e)) b)) 1
  | _, _, _, _ => false
  end.

Definition register_file_wf (f : fn_def) : bool :=
  match fn_body f with
  | ESemi (EMethod (EPath ["id_builder"]) "reset" []) :: _ =>
    match parse_closure f with
    | [loop;
       ELetS (PIdent "parent_id" None) (Some (EMethod (EPath ["id_builder"]) "join" [])) None;
       ESemi (ETry (EMethod (EPath ["id_builder"]) "push" [ETry (EMethod (ETry (EMethod (EPath ["path"]) "file_stem" [])) "to_str" [])]));
       ELetS (PIdent "id" None) (Some (EMethod (EPath ["id_builder"]) "join" [])) None;
       EIf _ fb (Some (EBlock [db]));
       ECall (EPath ["Some"]) [ETuple []]] =>
      components_loop_wf loop && file_branch_wf fb && is_register_dir "id" db
    | _ => false
    end
  | _ => false
  end.

(* the path that is parsed is the member's own full path: Entry::path() for tar (which honours GNU
   long-name / PAX records, unlike Header::path()), enclosed_name() for zip *)
Definition path_source_wf (meth : string) (f : fn_def) : bool :=
  Nat.eqb (List.length (filter (fun e => match e with
                                         | ELetS (PTupleStruct ["Ok"] [PIdent "path" None]) (Some (EMethod (EPath ["file"]) m [])) (Some _) => String.eqb m meth
                                         | ELetS (PIdent "path" None) (Some (EMatch (EMethod (EPath ["file"]) m []) _)) None => String.eqb m meth
                                         | _ => false
                                         end) (fn_body f))) 1
  && Nat.eqb (List.length (filter (fun e => match e with
                                            | ELetS (PIdent "path" None) _ _ | ELetS (PTupleStruct _ [PIdent "path" None]) _ _ => true
                                            | _ => false end) (fn_body f))) 1.

(* create: the root is registered before any member; members are registered in archive order *)
Definition is_root_registration (e : expr) : bool :=
  match e with
  | ESemi (ECall (EPath ["register_dir"]) [ERef (EPath ["dirs"]); ERef (ECall (EPath ["SharedString"; "from"]) [ELit (LStr "")])]) => true
  | _ => false
  end.
Definition zip_loop (e : expr) : bool :=
  match e with
  | EFor (PIdent i None) (ERange (Some (ELit (LInt 0%N))) (Some (EPath ["len"])))
      [ELetS (PIdent "file" None) (Some (ETry (EMethod (EPath ["archive"]) "by_index" [EPath [i']]))) None;
       ESemi (ECall (EPath ["register_file"]) (EPath ["file"] :: EPath [i''] :: _))] => String.eqb i i' && String.eqb i i''
  | _ => false
  end.
Definition tar_loop (e : expr) : bool :=
  match e with
  | EFor (PIdent f None) (ETry (EMethod (EPath ["archive"]) "entries_with_seek" []))
      [ECall (EPath ["register_file"]) (ETry (EPath [f']) :: _)] => String.eqb f f'
  | _ => false
  end.
(* the registration loop is the last thing done to the index: the statement after it is the final
   Ok(..) that moves the tables into the source (no post-pass over the listings) *)
Definition loop_is_last (loop : expr -> bool) (f : fn_def) : bool :=
  match rev (fn_body f) with
  | ECall (EPath ["Ok"]) [EStruct _ _] :: l :: _ => loop l
  | _ => false
  end.
Definition create_wf (loop : expr -> bool) (f : fn_def) : bool :=
  match find_index is_root_registration (fn_body f), find_index loop (fn_body f) with
  | Some i, Some j => Nat.ltb i j && loop_is_last loop f && Nat.eqb (List.length (filter (fun e => existsb (fun x => match x with ECall (EPath ["register_file"]) _ => true | _ => false end) (subexprs depth_fuel e)) (fn_body f))) 1
  | _, _ => false
  end.

(* read_dir: the listing of exactly that key, in stored order; exists: the two tables *)
Definition read_dir_wf (f : fn_def) : bool :=
  match fn_body f with
  | [ELetS (PIdent "dir" None) (Some (ETry (EMethod (EMethod (EField (EPath ["self"]) "dirs") "get" [EPath ["id"]]) "ok_or_else" _))) None;
     ESemi (EMethod (EMethod (EMethod (EPath ["dir"]) "iter" []) "map" [EPath ["OwnedEntry"; "as_dir_entry"]]) "for_each" [EPath ["f"]]);
     ECall (EPath ["Ok"]) [ETuple []]] => true
  | _ => false
  end.
Definition exists_wf (f : fn_def) : bool :=
  match fn_body f with
  | [EMatch (EPath ["entry"])
       [(PTupleStruct ["DirEntry"; "File"] [PIdent i None; PIdent x None], None,
         EMethod (EField (EPath ["self"]) "files") "contains_key" [ECast (ERef (ETuple [EPath [i']; EPath [x']])) _]);
        (PTupleStruct ["DirEntry"; "Directory"] [PIdent d None], None,
         EMethod (EField (EPath ["self"]) "dirs") "contains_key" [EPath [d']])]] =>
    String.eqb i i' && String.eqb x x' && String.eqb d d'
  | _ => false
  end.

(* read: the member found under exactly (id, ext) in the file table is read on a clone of the reader
   and read WHOLE (read_to_end for zip; seek to its recorded start and read_exact of its recorded
   size for tar); what was read is what is returned *)
Definition zip_read_wf (f : fn_def) : bool :=
  match fn_body f with
  | [ELetS (PIdent "key" None) (Some (ERef (ETuple [EPath ["id"]; EPath ["ext"]]))) None;
     ELetS (PIdent "index" None) (Some (EUnary "*" (ETry (EMethod (EMethod (EField (EPath ["self"]) "files") "get" [EPath ["key"]]) "ok_or_else" _)))) None;
     ELetS (PIdent "archive" None) (Some (EMethod (EField (EPath ["self"]) "archive") "clone" [])) None;
     ELetS (PIdent "file" None) (Some (ETry (EMethod (EMethod (EPath ["archive"]) "by_index" [EPath ["index"]]) "map_err" _))) None;
     ELetS (PIdent "content" None) (Some (ECall (EPath ["Vec"; _]) _)) None;
     ESemi (ETry (EMethod (EMethod (EPath ["file"]) "read_to_end" [ERef (EPath ["content"])]) "map_err" _));
     ECall (EPath ["Ok"]) [ECall (EPath ["super"; "FileContent"; "Buffer"]) [EPath ["content"]]]] => true
  | _ => false
  end.
Definition tar_read_wf (f : fn_def) : bool :=
  match fn_body f with
  | [ELetS (PRef (PTuple [PIdent "start" None; PIdent "size" None]))
       (Some (ETry (EMethod (EMethod (EField (EPath ["self"]) "files") "get" [ECast (ERef (ETuple [EPath ["id"]; EPath ["ext"]])) _]) "ok_or_else" _))) None;
     ELetS (PIdent "reader" None) (Some (EMethod (EField (EPath ["self"]) "reader") "clone" [])) None;
     ELetS (PIdent "buf" None) (Some (EMacro "vec" [EOther "0 ; size as usize"])) None;
     ESemi (ETry (EMethod (EMethod (EMethod (EPath ["reader"]) "seek" [ECall (EPath ["io"; "SeekFrom"; "Start"]) [EPath ["start"]]]) "and_then"
                              [EClosure [PWild] (EMethod (EPath ["reader"]) "read_exact" [ERef (EPath ["buf"])])]) "map_err" _));
     ECall (EPath ["Ok"]) [ECall (EPath ["super"; "FileContent"; "Buffer"]) [EPath ["buf"]]]] => true
  | _ => false
  end.

Lemma archives_read_whole_members : zip_read_wf zip_read = true /\ tar_read_wf tar_read = true.
Proof. vm_compute. split; reflexivity. Qed.

Lemma archives_index_as_modelled :
  register_dir_wf zip_register_dir = true /\ register_dir_wf tar_register_dir = true /\
  register_file_wf zip_register_file = true /\ register_file_wf tar_register_file = true /\
  path_source_wf "enclosed_name" zip_register_file = true /\ path_source_wf "path" tar_register_file = true /\
  create_wf zip_loop zip_create = true /\ create_wf tar_loop tar_create = true /\
  read_dir_wf zip_read_dir = true /\ read_dir_wf tar_read_dir = true /\
  exists_wf zip_exists = true /\ exists_wf tar_exists = true.
Proof. vm_compute. repeat split. Qed.

Lemma archives_list_each_entry_once :
  register_dir_wf zip_register_dir = true /\ register_dir_wf tar_register_dir = true /\
  register_file_wf zip_register_file = true /\ register_file_wf tar_register_file = true /\
  read_dir_wf zip_read_dir = true /\ read_dir_wf tar_read_dir = true.
Proof. vm_compute. repeat split. Qed.

(* the parent of a directory id, as register_dir uses it: none for the root, "" for a top-level id,
   everything before the last dot otherwise (Ref/Tree.parent: removelast) *)
Definition parent_id_wf (f : fn_def) : bool :=
  match fn_body f with
  | [ELetS (PIdent "id" None) (Some (EMethod (EPath ["self"]) "id" [])) None;
     EIf (EMethod (EPath ["id"]) "is_empty" []) [EPath ["None"]]
       (Some (EBlock [EMatch (EMethod (EPath ["id"]) "rfind" [ELit (LChar ".")])
          [(PTupleStruct ["Some"] [PIdent n None], None, ECall (EPath ["Some"]) [ERef (EIndex (EPath ["id"]) (ERange None (Some (EPath [n']))))]);
           (PIdent "None" None, None, ECall (EPath ["Some"]) [ELit (LStr "")])]]))] => String.eqb n n'
  | _ => false
  end.
Lemma parent_id_as_modelled : parent_id_wf DirEntry_parent_id = true.
Proof. vm_compute. reflexivity. Qed.
