(* T1 tie: ErrorKind::or as printed from src/error.rs, run by the interpreter, is Ref.Load.or for
   every pair of errors (guard fall-through included). *)
From Coq Require Import List String NArith Bool.
From AM Require Import Rust.Ast Rust.Eval Gen.Error Ref.Load.
Import ListNotations.
Open Scope string_scope.

Definition kind_name (k : iokind) : string :=
  match k with
  | KNotFound => "NotFound" | KPermissionDenied => "PermissionDenied" | KInvalidData => "InvalidData"
  | KInterrupted => "Interrupted" | KUnexpectedEof => "UnexpectedEof" | KTimedOut => "TimedOut"
  | KOther => "Other"
  end.

Definition enc (e : ekind) : val :=
  match e with
  | ENoDefault => VCtor "NoDefaultValue" []
  | EIo k tag => VCtor "Io" [VCtor "IoError" [VCtor (kind_name k) []; VN tag]]
  | EConv tag => VCtor "Conversion" [VN tag]
  end.

Definition gen_or (a b : ekind) : outcome :=
  snd (run_fn [] 16 ErrorKind_or [enc a; enc b]).

Lemma ErrorKind_or_tie : forall a b, gen_or a b = ONorm (enc (or a b)).
Proof.
  intros [|ka ta|ta] [|kb tb|tb]; try destruct ka; try destruct kb; reflexivity.
Qed.
