(* T1 tie: ErrorKind::or as printed from src/error.rs, run by the interpreter, is Ref.Load.or for
   every pair of errors (guard fall-through included). *)
From Coq Require Import List String NArith Bool.
From AM Require Import Rust.Ast Rust.Eval Gen.Error Gen.Key Ref.Load.
Import ListNotations.
Open Scope string_scope.

Definition kind_name (k : iokind) : string :=
  match k with
  | KNotFound => "NotFound" | KPermissionDenied => "PermissionDenied" | KInvalidData => "InvalidData"
  | KInterrupted => "Interrupted" | KUnexpectedEof => "UnexpectedEof" | KTimedOut => "TimedOut"
  | KOther => "Other"
  end.

Definition enc (e : ekind) : val :=
  match e with
  | ENoDefault => VCtor "NoDefaultValue" []
  | EIo k tag => VCtor "Io" [VCtor "IoError" [VCtor (kind_name k) []; VN tag]]
  | EConv tag => VCtor "Conversion" [VN tag]
  end.

Definition gen_or (a b : ekind) : outcome :=
  snd (run_fn [] 16 ErrorKind_or [enc a; enc b]).

Lemma ErrorKind_or_tie : forall a b, gen_or a b = ONorm (enc (or a b)).
Proof.
  intros [|ka ta|ta] [|kb tb|tb]; try destruct ka; try destruct kb; reflexivity.
Qed.

(* how errors enter and leave ErrorKind: a source read error (io::Error) is Io, whatever a loader
   returns (a boxed error of ANY concrete type, io::Error included) is Conversion, and an ErrorKind
   is handed out as the very error it carries *)
Definition enters_as (variant : string) (f : fn_def) : bool :=
  match fn_body f with
  | [ECall (EPath ["Self"; v]) [EPath ["err"]]] => String.eqb v variant
  | _ => false
  end.
Definition leaves_unchanged (f : fn_def) : bool :=
  match fn_body f with
  | [EMatch (EPath ["err"])
       [(PPath ["ErrorKind"; "NoDefaultValue"], None, ECall (EPath ["Box"; "new"]) [EPath ["NoDefaultValueError"]]);
        (PTupleStruct ["ErrorKind"; "Io"] [PIdent a None], None, ECall (EPath ["Box"; "new"]) [EPath [a']]);
        (PTupleStruct ["ErrorKind"; "Conversion"] [PIdent b None], None, EPath [b'])]] => String.eqb a a' && String.eqb b b'
  | _ => false
  end.
Lemma error_conversions_keep_the_class :
  enters_as "Io" ErrorKind_from_io = true /\ enters_as "Conversion" ErrorKind_from_boxed = true /\
  leaves_unchanged Boxed_from_kind = true.
Proof. vm_compute. repeat split. Qed.

(* the error a failed typed load reports carries the id that was asked for and the loader's error,
   untouched (src/key.rs, Inner::of_asset::load_entry) *)
Definition wraps_with_own_id (f : fn_def) : bool :=
  match fn_params f, fn_body f with
  | [PIdent c None; PIdent i None],
    [EMatch (ECall (EPath ["T"; "load"]) [EPath [c']; ERef (EPath [i'])])
       [(PTupleStruct ["Ok"] [PIdent a None], None,
         ECall (EPath ["Ok"]) [ECall (EPath ["CacheEntry"; "new"]) (EPath [a'] :: EPath [i''] :: _)]);
        (PTupleStruct ["Err"] [PIdent e None], None,
         ECall (EPath ["Err"]) [ECall (EPath ["Error"; "new"]) [EPath [i3]; EPath [e']]])]] =>
    String.eqb c c' && String.eqb i i' && String.eqb i i'' && String.eqb i i3 && String.eqb a a'
    && String.eqb e e'
  | _, _ => false
  end.

Lemma load_error_names_the_asked_id : wraps_with_own_id Inner_of_asset_load_entry = true.
Proof. vm_compute. reflexivity. Qed.
