(* T1 tie for src/utils/bytes.rs and src/utils/string.rs: the printed functions perform exactly the
   atomic steps and the layout computations of the machine Ref/Bytes.v.  These are shape checks on
   the regenerated code (pointer code is not interpreted); what the shapes *do* on the real
   allocator is the business of the bytesdiff engine. *)
From Coq Require Import List String Bool Arith NArith.
From AM Require Import Rust.Ast Rust.Syntax Gen.Bytes.
Import ListNotations.
Open Scope string_scope.

Definition is_inner_count (e : expr) : bool :=
  match e with EField (EMethod (EPath ["self"]) "inner" []) "count" => true | _ => false end.
Definition lit1 (e : expr) : bool := match e with ELit (LInt 1%N) => true | _ => false end.
Definition lit0 (e : expr) : bool := match e with ELit (LInt 0%N) => true | _ => false end.
Definition ordering_in (l : list string) (e : expr) : bool :=
  match e with EPath ["Ordering"; o] => existsb (String.eqb o) l | _ => false end.

(* clone: one fetch_add(1) on the shared count, then the same pointer *)
Definition clone_wf (f : fn_def) : bool :=
  match fn_body f with
  | [ESemi (EMethod c "fetch_add" [one; ord]); EStruct ["Self"] [("ptr", EField (EPath ["self"]) "ptr")]] =>
    is_inner_count c && lit1 one && ordering_in ["Relaxed"; "Acquire"; "Release"; "AcqRel"; "SeqCst"] ord
  | _ => false
  end.

(* drop: one fetch_sub(1) with release semantics; drop_slow exactly when the old value was 1 *)
Definition drop_wf (f : fn_def) : bool :=
  match fn_body f with
  | [EIf (EBinary "==" (EMethod c "fetch_sub" [one; ord]) one') [EBlock [ESemi (EMethod (EPath ["self"]) "drop_slow" [])]] None] =>
    is_inner_count c && lit1 one && lit1 one' && ordering_in ["Release"; "AcqRel"; "SeqCst"] ord
  | _ => false
  end.

Definition inner_field (n : string) (e : expr) : bool :=
  match e with EField (EPath ["inner"]) m => String.eqb n m | _ => false end.

(* drop_slow: acquire, then
   layout = if capacity != 0 { drop(Vec::from_raw_parts(ptr, len, capacity)); Layout::new::<Inner>() }
            else { get_inner_layout(len) };   dealloc(self.ptr, layout) *)
Definition drop_slow_wf (f : fn_def) : bool :=
  match fn_body f with
  | [ELetS (PIdent "inner" None) (Some (EMethod (EPath ["self"]) "inner" [])) None;
     ESemi (EMethod (EField (EPath ["inner"]) "count") "load" [ord]);
     ELetS (PIdent "layout" None)
       (Some (EIf (EBinary "!=" cap z)
                  [ESemi (ECall (EPath ["drop"]) [ECall (EPath ["Vec"; "from_raw_parts"]) [ECast p _; l; c]]);
                   ECall (EPath ["alloc"; "Layout"; "new"]) []]
                  (Some (EBlock [ECall (EPath ["Self"; "get_inner_layout"]) [l']])))) None;
     ESemi (ECall (EPath ["alloc"; "dealloc"])
              [EMethod (EMethod (EField (EPath ["self"]) "ptr") "as_ptr" []) "cast" []; EPath ["layout"]])] =>
    ordering_in ["Acquire"; "AcqRel"; "SeqCst"] ord && inner_field "capacity" cap && lit0 z &&
    inner_field "ptr" p && inner_field "len" l && inner_field "capacity" c && inner_field "len" l'
  | _ => false
  end.

(* get_inner_layout(len) = Layout::new::<Inner>().extend(Layout(len, 1)) *)
Definition layout_wf (f : fn_def) : bool :=
  match fn_body f with
  | ELetS (PIdent "slice_layout" None)
      (Some (EBlock [ECall (EPath ["alloc"; "Layout"; "from_size_align_unchecked"]) [EPath ["len"]; one]])) None ::
    ELetS (PTuple [PIdent "layout" None; _])
      (Some (EMethod (EMethod (ECall (EPath ["alloc"; "Layout"; "new"]) []) "extend" [EPath ["slice_layout"]]) "unwrap_or_else" _)) None ::
    rest =>
    lit1 one && match last rest (EOther "") with EPath ["layout"] => true | _ => false end
  | _ => false
  end.

Definition stmts (f : fn_def) : list expr :=
  match fn_body f with [EBlock b] => b | b => b end.

Definition has (p : expr -> bool) (l : list expr) : bool := existsb p l.

Definition writes_inner (ptr len cap : expr -> bool) (e : expr) : bool :=
  match e with
  | ESemi (EMethod (EMethod (EPath ["ptr"]) "as_ptr" []) "write"
             [EStruct ["Inner"] [("count", ECall (EPath ["AtomicUsize"; "new"]) [one]); ("ptr", p); ("len", l); ("capacity", c)]]) =>
    lit1 one && ptr p && len l && cap c
  | _ => false
  end.
Definition is_path (n : string) (e : expr) : bool := match e with EPath [m] => String.eqb n m | _ => false end.

(* from_slice: header and bytes in one block of get_inner_layout(len); count 1, capacity 0; the
   bytes are copied right behind the header; len is the slice's length *)
Definition from_slice_wf (f : fn_def) : bool :=
  let b := stmts f in
  has (fun e => match e with ELetS (PIdent "len" None) (Some (EMethod (EPath ["bytes"]) "len" [])) None => true | _ => false end) b &&
  has (fun e => match e with ELetS (PIdent "layout" None) (Some (ECall (EPath ["Self"; "get_inner_layout"]) [EPath ["len"]])) None => true | _ => false end) b &&
  has (fun e => match e with ELetS (PIdent "ptr" None) (Some (EMethod (ECall (EPath ["alloc"; "alloc"]) [EPath ["layout"]]) "cast" [])) None => true | _ => false end) b &&
  has (fun e => match e with ELetS (PIdent "bytes_ptr" None) (Some (EMethod (EMethod (EPath ["ptr"]) "add" [one]) "cast" [])) None => lit1 one | _ => false end) b &&
  has (writes_inner (is_path "bytes_ptr") (is_path "len") lit0) b &&
  has (fun e => match e with
                | ESemi (ECall (EPath ["std"; "ptr"; "copy_nonoverlapping"]) [EMethod (EPath ["bytes"]) "as_ptr" []; EPath ["bytes_ptr"]; EPath ["len"]]) => true
                | _ => false end) b &&
  Nat.eqb (List.length (filter (fun e => match e with ELetS (PIdent "len" None) _ _ | ELetS (PIdent "layout" None) _ _ | ELetS (PIdent "bytes_ptr" None) _ _ => true | _ => false end) b)) 3
  (* nothing else happens: 5 lets, the header write, the copy, the result *)
  && Nat.eqb (List.length b) 8.

(* from_vec: a header of Layout::new::<Inner>() that points into the Vec's own buffer, which is
   not freed here (ManuallyDrop); len / capacity are the Vec's *)
Definition from_vec_wf (f : fn_def) : bool :=
  let b := stmts f in
  has (fun e => match e with ELetS (PIdent "layout" None) (Some (ECall (EPath ["alloc"; "Layout"; "new"]) [])) None => true | _ => false end) b &&
  has (fun e => match e with ELetS (PIdent "ptr" None) (Some (EMethod (ECall (EPath ["alloc"; "alloc"]) [EPath ["layout"]]) "cast" [])) None => true | _ => false end) b &&
  has (fun e => match e with ELetS (PIdent "bytes" None) (Some (ECall (EPath ["std"; "mem"; "ManuallyDrop"; "new"]) [EPath ["bytes"]])) None => true | _ => false end) b &&
  has (fun e => match e with ELetS (PIdent "bytes_ptr" None) (Some (EMethod (EPath ["bytes"]) "as_ptr" [])) None => true | _ => false end) b &&
  has (fun e => match e with ELetS (PIdent "len" None) (Some (EMethod (EPath ["bytes"]) "len" [])) None => true | _ => false end) b &&
  has (fun e => match e with ELetS (PIdent "capacity" None) (Some (EMethod (EPath ["bytes"]) "capacity" [])) None => true | _ => false end) b &&
  has (writes_inner (is_path "bytes_ptr") (is_path "len") (is_path "capacity")) b &&
  Nat.eqb (List.length (filter (fun e => match e with ELetS (PIdent "len" None) _ _ | ELetS (PIdent "layout" None) _ _ | ELetS (PIdent "bytes_ptr" None) _ _ | ELetS (PIdent "capacity" None) _ _ => true | _ => false end) b)) 4
  (* nothing else happens (in particular the Vec is not touched between reading its pointer and
     its capacity): 7 lets, the header write, the result *)
  && Nat.eqb (List.length b) 9.

(* deref: exactly the header's (ptr, len) *)
Definition deref_wf (f : fn_def) : bool :=
  match fn_body f with
  | [ELetS (PIdent "inner" None) (Some (EMethod (EPath ["self"]) "inner" [])) None;
     EBlock [ECall (EPath ["std"; "slice"; "from_raw_parts"]) [p; l]]] => inner_field "ptr" p && inner_field "len" l
  | _ => false
  end.

(* the other constructors go through the two above *)
Definition from_box_wf (f : fn_def) : bool :=
  match fn_body f with
  | [ECall (EPath ["SharedBytes"; "from_vec"]) [EMethod (EPath ["bytes"]) "into_vec" []]] => true
  | _ => false
  end.
Definition from_cow_wf (f : fn_def) : bool :=
  match fn_body f with
  | [EMatch (EPath ["bytes"])
       [(PTupleStruct ["Cow"; "Borrowed"] [PIdent b None], None, ECall (EPath ["SharedBytes"; "from_slice"]) [EPath [b']]);
        (PTupleStruct ["Cow"; "Owned"] [PIdent o None], None, ECall (EPath ["SharedBytes"; "from_vec"]) [EPath [o']])]] =>
    String.eqb b b' && String.eqb o o'
  | _ => false
  end.
Definition from_iter_wf (f : fn_def) : bool :=
  match fn_body f with
  | [ELetS (PIdent "bytes" None) (Some (EMethod (EMethod (EPath ["iter"]) "into_iter" []) "collect" [])) None;
     ECall (EPath ["SharedBytes"; "from_vec"]) [EPath ["bytes"]]] => true
  | _ => false
  end.

(* comparisons, order and hash are those of the slices *)
Definition dd (n : string) (e : expr) : bool :=
  match e with EUnary "*" (EUnary "*" (EPath [m])) => String.eqb n m | _ => false end.
Definition eq_wf (f : fn_def) : bool :=
  match fn_body f with [EBinary "==" a b] => dd "self" a && dd "other" b | _ => false end.
Definition cmp_wf (f : fn_def) : bool :=
  match fn_body f with [EMethod a "cmp" [EPath ["other"]]] => dd "self" a | _ => false end.
Definition hash_wf (f : fn_def) : bool :=
  match fn_body f with
  | [ESemi (EMethod (EMethod (EPath ["self"]) "as_ref" []) "hash" [EPath ["hasher"]])] => true
  | _ => false
  end.

(* SharedString: the checked constructor validates (and leaves with `?`) before it builds; deref
   reinterprets the very same bytes *)
Definition from_utf8_wf (f : fn_def) : bool :=
  match fn_body f with
  | [ELetS PWild (Some (ETry (ECall (EPath ["str"; "from_utf8"]) [ERef (EPath ["bytes"])]))) None;
     ECall (EPath ["Ok"]) [EStruct ["SharedString"] [("bytes", EPath ["bytes"])]]] => true
  | _ => false
  end.
Definition str_deref_wf (f : fn_def) : bool :=
  match fn_body f with
  | [EBlock [ECall (EPath ["str"; "from_utf8_unchecked"]) [ERef (EField (EPath ["self"]) "bytes")]]] => true
  | _ => false
  end.

Lemma bytes_as_modelled :
  clone_wf SharedBytes_clone = true /\ drop_wf SharedBytes_drop = true /\
  drop_slow_wf SharedBytes_drop_slow = true /\ layout_wf SharedBytes_get_inner_layout = true /\
  from_slice_wf SharedBytes_from_slice = true /\ from_vec_wf SharedBytes_from_vec = true /\
  deref_wf SharedBytes_deref = true.
Proof. vm_compute. repeat split. Qed.

Lemma bytes_constructors_funnel :
  from_box_wf SharedBytes_from_box = true /\ from_cow_wf SharedBytes_from_cow = true /\
  from_iter_wf SharedBytes_from_iter = true.
Proof. vm_compute. repeat split. Qed.

Lemma bytes_compare_as_slices :
  eq_wf SharedBytes_eq = true /\ cmp_wf SharedBytes_cmp = true /\ hash_wf SharedBytes_hash = true.
Proof. vm_compute. repeat split. Qed.

Lemma string_validates_then_builds :
  from_utf8_wf SharedString_from_utf8 = true /\ str_deref_wf SharedString_deref = true.
Proof. vm_compute. repeat split. Qed.

(* deserialization: a SharedString is built from text, or from raw bytes only through the validating
   from_utf8 of str / String (whose error arm refuses); a SharedBytes takes the bytes as they are *)
Definition de_text_wf (f : fn_def) : bool :=
  match fn_body f with
  | [ECall (EPath ["Ok"]) [ECall (EPath ["SharedString"; "from"]) [EPath ["s"]]]] => true
  | _ => false
  end.
Definition de_validates (validator : list string) (f : fn_def) : bool :=
  match fn_body f with
  | [EMatch (ECall (EPath v) [EPath ["s"]])
       [(PTupleStruct ["Ok"] [PIdent x None], None, ECall (EPath ["Ok"]) [ECall (EPath ["SharedString"; "from"]) [EPath [x']]]);
        (PTupleStruct ["Err"] [_], None, EBlock [ELetS _ _ None; ECall (EPath ["Err"]) _])]] =>
      (if list_eq_dec string_dec v validator then true else false) && String.eqb x x'
  | _ => false
  end.
Definition de_bytes_wf (ctor : string) (f : fn_def) : bool :=
  match fn_body f with
  | [ECall (EPath ["Ok"]) [ECall (EPath ["SharedBytes"; c]) [EPath ["v"]]]] => String.eqb c ctor
  | _ => false
  end.
Lemma deserialization_validates :
  de_text_wf SharedString_de_visit_str = true /\ de_text_wf SharedString_de_visit_string = true /\
  de_validates ["str"; "from_utf8"] SharedString_de_visit_bytes = true /\
  de_validates ["String"; "from_utf8"] SharedString_de_visit_byte_buf = true /\
  de_bytes_wf "from_slice" SharedBytes_de_visit_bytes = true /\ de_bytes_wf "from_vec" SharedBytes_de_visit_byte_buf = true.
Proof. vm_compute. repeat split. Qed.
