(* Who can rewrite a cached value?  Name/arity call graph of the crate's core files, dumped by rs2v
   from the current sources (Gen/CallGraph.v).  The analysis is by name and arity, hence an
   over-approximation of the real call graph: a chain that is unique here is unique in the code. *)
From Coq Require Import List String Bool.
From AM Require Import Rust.Ast Gen.CallGraph.
Import ListNotations.
Open Scope string_scope.

Definition callers_of (m : string) : list string :=
  flat_map (fun x : string * string * list string =>
              if existsb (String.eqb m) (snd x) then [fst (fst x)] else []) calls.

(* the raw byte swap of a stored value happens in exactly one function ... *)
Lemma swap_only_in_write : callers_of "swap_any/2" = ["UntypedEntry::write"].
Proof. vm_compute. reflexivity. Qed.

(* the cell that holds a stored value is dereferenced in three functions only: `read` (under the
   entry's lock, see Tie/Entry.v read_takes_lock), `write` (under the write lock, write_accepted) and
   the accessor of non-reloadable entries (which panics on a reloadable one); every other reader
   (copied, cloned, guards, untyped handles) therefore goes through one of them *)
Lemma value_cell_touched_only_by :
  callers_of "value.get/0" = ["EntryStorage::get"; "EntryStorage::read"; "UntypedEntry::write"] /\
  callers_of "value.get_mut/0" = ["UntypedEntry::write"] /\
  callers_of "value.into_inner/0" = ["CacheEntry::into_inner"].
Proof. vm_compute. repeat split. Qed.

(* ... reached only through the one-argument `write` of handles, called by reload_untyped ... *)
Lemma write_only_from_reload_untyped :
  callers_of "write/1" = ["UntypedHandle::write"; "AnyCache::reload_untyped"].
Proof. vm_compute. reflexivity. Qed.

(* ... which only the dependency graph's `reload` calls, itself only called by a reload pass ... *)
Lemma reload_untyped_only_from_graph : callers_of "reload_untyped/2" = ["DepsGraph::reload"].
Proof. vm_compute. reflexivity. Qed.

Lemma graph_reload_only_from_pass : callers_of "reload/2" = ["run_update"].
Proof. vm_compute. reflexivity. Qed.

(* ... and a pass is started in three places only: on a Ptr request (hot_reload), on an event
   when the cache is 'static (enhance_hot_reloading), and when switching to 'static. *)
Lemma pass_started_by :
  callers_of "run_update/3" =
  ["HotReloadingData::update_if_local"; "HotReloadingData::update_if_static";
   "HotReloadingData::use_static_ref"].
Proof. vm_compute. reflexivity. Qed.

Lemma update_if_local_only_on_ptr : callers_of "update_if_local/2" = ["hot_reloading_thread"].
Proof. vm_compute. reflexivity. Qed.

Lemma static_mode_only_by_enhance :
  callers_of "use_static_ref/2" = ["hot_reloading_thread"] /\
  callers_of "Static/2" = ["HotReloader::send_static"; "HotReloadingData::use_static_ref"] /\
  callers_of "send_static/1" = ["AssetCache::enhance_hot_reloading"].
Proof. vm_compute. repeat split. Qed.
