(* T1 tie for the dependency sort: the printed DepsGraph::visit marks a node as visited BEFORE it
   recurses into the node's dependents (the discipline that bounds the recursion on cyclic
   look-ups), returns early on visited nodes, and pushes assets after the recursion (post-order). *)
From Coq Require Import List String Bool Arith.
From AM Require Import Rust.Ast Rust.Syntax Gen.Deps.
Import ListNotations.
Open Scope string_scope.

Definition is_early_return (e : expr) : bool :=
  match e with
  | EIf c [ESemi (EReturn None)] None => calls_method_on "visited" "contains" c
  | _ => false
  end.

Definition is_mark (e : expr) : bool :=
  match e with
  | ESemi (EMethod (EField _ "visited") "insert" _) => true
  | _ => false
  end.

Definition is_recursion (e : expr) : bool :=
  match e with
  | EFor _ it body => calls_method_on "rdeps" "iter" it && existsb (calls_method "visit") body
  | _ => false
  end.

Definition is_push (e : expr) : bool :=
  match e with
  | EIf (ELet (PTupleStruct ["BorrowedDependency"; "Asset"] _) _) b None => existsb (calls_method_on "list" "push") b
  | _ => false
  end.

Definition visit_wf (f : fn_def) : bool :=
  let b := fn_body f in
  match find_index is_early_return b, find_index is_mark b, find_index is_recursion b, find_index is_push b with
  | Some i0, Some i1, Some i2, Some i3 =>
      Nat.ltb i0 i1 && Nat.ltb i1 i2 && Nat.ltb i2 i3
      (* exactly one recursion site and one mark *)
      && Nat.eqb (List.length (filter is_recursion b)) 1 && Nat.eqb (List.length (filter is_mark b)) 1
      (* the recursive call is nowhere else *)
      && Nat.eqb (List.length (filter (calls_method "visit") b)) 1
      (* the asset is listed in one place only, and the only ways out before the mark are the two
         guards (already visited / not in the graph): nothing can be listed without being marked *)
      && Nat.eqb (List.length (filter (fun e => match e with EMethod (EField _ "list") "push" _ => true | _ => false end)
                                 (flat_map (subexprs depth_fuel) b))) 1
      && Nat.eqb (List.length (filter (fun e => match e with EReturn _ => true | _ => false end)
                                 (flat_map (subexprs depth_fuel) b))) 2
  | _, _, _, _ => false
  end.

Lemma visit_marks_before_recursing : visit_wf DepsGraph_visit = true.
Proof. vm_compute. reflexivity. Qed.

(* DepsGraph::insert: every dependency gets the asset as reverse dependency; an existing node has
   its dependencies replaced and the reverse edges of the dependencies it LOST (old minus new)
   removed. *)
From AM Require Import Gen.Private.

Definition insert_wf (f : fn_def) : bool :=
  match fn_body f with
  | [EFor (PIdent k None) (EMethod (EPath ["deps"]) "iter" [])
       [ELetS (PIdent e None) (Some (EMethod (EMethod (EField (EPath ["self"]) "0") "entry" [EMethod (EPath [k']) "clone" []]) "or_default" [])) None;
        ESemi (EMethod (EField (EPath [e']) "rdeps") "insert" [EMethod (EPath ["asset_key"]) "clone" []])];
     EMatch (EMethod (EField (EPath ["self"]) "0") "entry" [EMethod (EPath ["asset_key"]) "clone" []])
       [(PTupleStruct ["Entry"; "Vacant"] [PIdent _ None], None,
         EBlock [ESemi (EMethod (EPath [_]) "insert" [ECall (EPath ["GraphNode"; "new"]) [EPath ["typ"]; EPath ["deps"]]])]);
        (PTupleStruct ["Entry"; "Occupied"] [PIdent _ None], None, EBlock occ)]] =>
      String.eqb k k' && String.eqb e e' &&
      match occ with
      | [ELetS (PIdent en None) (Some (EMethod (EPath [_]) "into_mut" [])) None;
         ELetS (PIdent "removed" None)
           (Some (EMethod (EMethod (EMethod (EField (EPath [en']) "deps") "difference" [ERef (EPath ["deps"])]) "cloned" []) "collect" [])) None;
         ESemi (EAssign (EField (EPath [en'']) "deps") (EPath ["deps"]));
         ESemi (EAssign (EField (EPath [en''']) "typ") (ECall (EPath ["Some"]) [EPath ["typ"]]));
         EFor (PIdent key None) (EPath ["removed"]) body] =>
          String.eqb en en' && String.eqb en en'' && String.eqb en en''' &&
          existsb (fun x => existsb (fun y => match y with
                                              | EMethod (EField (EPath [_]) "rdeps") "remove" [ERef (EPath ["asset_key"])] => true
                                              | _ => false
                                              end) (subexprs depth_fuel x)) body
      | _ => false
      end
  | _ => false
  end.

Lemma graph_insert_as_modelled : insert_wf DepsGraph_insert = true.
Proof. vm_compute. reflexivity. Qed.

(* cache keys: equality of `dyn Key` compares type and id of BOTH sides, hashing feeds the type id
   and then the id (same sequence as the derived impls of OwnedKey / BorrowedKey) *)
Definition key_eq_wf (f : fn_def) : bool :=
  match fn_body f with
  | [EBinary "&&" (EBinary "==" (EMethod (EPath ["self"]) "type_id" []) (EMethod (EPath ["other"]) "type_id" []))
                  (EBinary "==" (EMethod (EPath ["self"]) "id" []) (EMethod (EPath ["other"]) "id" []))] => true
  | [EBinary "&&" (EBinary "==" (EMethod (EPath ["self"]) "id" []) (EMethod (EPath ["other"]) "id" []))
                  (EBinary "==" (EMethod (EPath ["self"]) "type_id" []) (EMethod (EPath ["other"]) "type_id" []))] => true
  | _ => false
  end.

Definition key_hash_wf (f : fn_def) : bool :=
  match fn_body f with
  | [ESemi (EMethod (EMethod (EPath ["self"]) "type_id" []) "hash" [EPath [h]]);
     ESemi (EMethod (EMethod (EPath ["self"]) "id" []) "hash" [EPath [h']])] => String.eqb h h'
  | _ => false
  end.

Lemma cache_keys_compare_type_and_id : key_eq_wf dynKey_eq = true /\ key_hash_wf dynKey_hash = true.
Proof. vm_compute. split; reflexivity. Qed.

(* the order of a pass: every changed entry is visited with ONE visited set and ONE post-order list,
   and the list is reversed once, as a whole, when it is consumed (dependencies first for the whole
   pass, not per changed entry) *)
Definition topo_wf (f : fn_def) : bool :=
  match fn_body f with
  | [ELetS (PIdent "sort_data" None)
       (Some (EStruct ["TopologicalSortData"] [("visited", ECall (EPath ["HashSet"; "new"]) []); ("list", ECall (EPath ["Vec"; "new"]) [])])) None;
     EFor (PIdent k None) (EPath ["iter"])
       [ESemi (EMethod (EPath ["self"]) "visit" [ERef (EPath ["sort_data"]); EMethod (EPath [k']) "as_dependency" []])];
     ECall (EPath ["TopologicalSort"]) [EField (EPath ["sort_data"]) "list"]] => String.eqb k k'
  | _ => false
  end.
Definition into_iter_reverses (f : fn_def) : bool :=
  match fn_body f with
  | [EMethod (EMethod (EField (EPath ["self"]) "0") "into_iter" []) "rev" []] => true
  | _ => false
  end.
Lemma pass_order_is_one_reversed_post_order :
  topo_wf DepsGraph_topological_sort_from = true /\ into_iter_reverses TopologicalSort_into_iter = true.
Proof. vm_compute. split; reflexivity. Qed.

(* FileSystem's id -> path mapping: root, then the id's segments, then for a file the extension
   through set_extension (an empty extension adds nothing) -- or, for the empty id, a ".ext" child *)
From AM Require Import Gen.Private.
Definition path_of_entry_wf (f : fn_def) : bool :=
  let b := fn_body f in
  existsb (fun e => match e with ESemi (EMethod (EPath ["path"]) "push" [EPath ["root"]]) => true | _ => false end) b
  && existsb (fun e => match e with ESemi (EMethod (EPath ["path"]) "extend" [EMethod (EPath ["id"]) "split" [ELit (LChar ".")]]) => true | _ => false end) b
  && existsb (fun e => match e with
                       | EIf (ELet (PTupleStruct ["Some"] [PIdent x None]) (EPath ["ext"]))
                           [EIf (EMethod (EPath ["id"]) "is_empty" [])
                              [ESemi (EMethod (EPath ["path"]) "push" [EMacro "format" [ELit (LStr ".{ext}")]])]
                              (Some (EBlock [ESemi (EMethod (EPath ["path"]) "set_extension" [EPath [x']])]))] None => String.eqb x x'
                       | _ => false end) b
  && match last b (EOther "") with EPath ["path"] => true | _ => false end
  && Nat.eqb (List.length b) 7.
Lemma path_of_entry_as_specified : path_of_entry_wf path_of_entry = true.
Proof. vm_compute. reflexivity. Qed.
