(* T1 tie for the dependency sort: the printed DepsGraph::visit marks a node as visited BEFORE it
   recurses into the node's dependents (the discipline that bounds the recursion on cyclic
   look-ups), returns early on visited nodes, and pushes assets after the recursion (post-order). *)
From Coq Require Import List String Bool Arith.
From AM Require Import Rust.Ast Rust.Syntax Gen.Deps.
Import ListNotations.
Open Scope string_scope.

Definition is_early_return (e : expr) : bool :=
  match e with
  | EIf c [ESemi (EReturn None)] None => calls_method_on "visited" "contains" c
  | _ => false
  end.

Definition is_mark (e : expr) : bool :=
  match e with
  | ESemi (EMethod (EField _ "visited") "insert" _) => true
  | _ => false
  end.

Definition is_recursion (e : expr) : bool :=
  match e with
  | EFor _ it body => calls_method_on "rdeps" "iter" it && existsb (calls_method "visit") body
  | _ => false
  end.

Definition is_push (e : expr) : bool :=
  match e with
  | EIf (ELet (PTupleStruct ["BorrowedDependency"; "Asset"] _) _) b None => existsb (calls_method_on "list" "push") b
  | _ => false
  end.

Definition visit_wf (f : fn_def) : bool :=
  let b := fn_body f in
  match find_index is_early_return b, find_index is_mark b, find_index is_recursion b, find_index is_push b with
  | Some i0, Some i1, Some i2, Some i3 =>
      Nat.ltb i0 i1 && Nat.ltb i1 i2 && Nat.ltb i2 i3
      (* exactly one recursion site and one mark *)
      && Nat.eqb (List.length (filter is_recursion b)) 1 && Nat.eqb (List.length (filter is_mark b)) 1
      (* the recursive call is nowhere else *)
      && Nat.eqb (List.length (filter (calls_method "visit") b)) 1
  | _, _, _, _ => false
  end.

Lemma visit_marks_before_recursing : visit_wf DepsGraph_visit = true.
Proof. vm_compute. reflexivity. Qed.
