(* T1 tie for src/hot_reloading/paths.rs: what the reloader does with events and with the set of
   changed entries (the bookkeeping Ref/Sys.v models as `changed`). *)
From Coq Require Import List String Bool Arith.
From AM Require Import Rust.Ast Rust.Syntax Gen.Paths.
Import ListNotations.
Open Scope string_scope.

(* a pass: order computed from the changed set, the set emptied, then every listed asset reloaded
   once -- nothing survives into the next pass *)
Definition run_update_wf (f : fn_def) : bool :=
  match fn_body f with
  | [ELetS (PIdent "to_update" None) (Some (EMethod (EPath ["deps"]) "topological_sort_from" [EMethod (EPath ["changed"]) "iter" []])) None;
     ESemi (EMethod (EPath ["changed"]) "clear" []);
     EFor (PIdent k None) (EMethod (EPath ["to_update"]) "into_iter" [])
       [ESemi (EMethod (EPath ["deps"]) "reload" [EMethod (EPath ["cache"]) "as_any_cache" []; EPath [k']])]] => String.eqb k k'
  | _ => false
  end.

(* events: an entry the graph does not know is dropped, a known one joins the changed set; then a
   pass runs at once only in 'static mode *)
Definition handle_events_wf (f : fn_def) : bool :=
  match fn_body f with
  | [ESemi (EMethod (EPath ["events"]) "for_each"
        [EClosure [PIdent e None]
           (EBlock [EIf (EMethod (EField (EPath ["self"]) "deps") "contains" [ERef (EPath [e'])])
                      [ESemi (EMacro _ _); ESemi (EMethod (EField (EPath ["self"]) "to_reload") "insert" [EPath [e'']])] None])]);
     ESemi (EMethod (EPath ["self"]) "update_if_static" [])] => String.eqb e e' && String.eqb e e''
  | _ => false
  end.

Definition path_eqb (a b : list string) : bool := if list_eq_dec string_dec a b then true else false.

Definition runs_pass_on (kind : list string) (binders : nat) (f : fn_def) : bool :=
  match fn_body f with
  | [EIf (ELet p (ERef (EField (EPath ["self"]) "cache"))) b None] =>
    (match p with
     | PPath k => path_eqb k kind && Nat.eqb binders 0
     | PTupleStruct k l => path_eqb k kind && Nat.eqb (List.length l) binders
     | _ => false
     end)
    && existsb (fun e => match e with
                         | ESemi (ECall (EPath ["run_update"]) [ERef (EField (EPath ["self"]) "to_reload"); ERef (EField (EPath ["self"]) "deps"); EPath ["cache"]]) => true
                         | _ => false end) b
  | _ => false
  end.

Lemma paths_as_modelled :
  run_update_wf run_update = true /\ handle_events_wf HotReloadingData_handle_events = true /\
  runs_pass_on ["CacheKind"; "Local"] 0 HotReloadingData_update_if_local = true /\
  runs_pass_on ["CacheKind"; "Static"] 2 HotReloadingData_update_if_static = true /\
  runs_pass_on ["CacheKind"; "Local"] 0 HotReloadingData_use_static_ref = true /\
  fn_body HotReloadingData_clear_local_cache = [ESemi (EMethod (EField (EPath ["self"]) "to_reload") "clear" [])].
Proof. vm_compute. repeat split. Qed.

From AM Require Gen.Deps.
(* every registration reaches DepsGraph::insert (Tie/Graph.v: insert_wf), unconditionally: the reloader hands the key, the
   dependencies and the type of an AssetReloadInfos to insert_asset, which is `insert` on the
   asset's node and nothing else (a registration is never dropped because the node exists) *)
Definition insert_asset_wf (f : fn_def) : bool :=
  match fn_body f with
  | [EMethod (EPath ["self"]) "insert"
       [ECall (EPath ["Dependency"; "Asset"]) [EPath ["asset_key"]]; EPath ["deps"]; EPath ["typ"]]] => true
  | _ => false
  end.
Definition add_asset_msg_wf (f : fn_def) : bool :=
  match fn_body f with
  | [ELetS (PTupleStruct ["AssetReloadInfos"] [PIdent k None; PIdent d None; PIdent t None]) (Some (EPath ["infos"])) None;
     ESemi (EMethod (EField (EPath ["self"]) "deps") "insert_asset" [EPath [k']; EPath [d']; EPath [t']])] =>
      String.eqb k k' && String.eqb d d' && String.eqb t t'
  | _ => false
  end.
Lemma registrations_reach_the_graph :
  insert_asset_wf Gen.Deps.DepsGraph_insert_asset = true /\
  add_asset_msg_wf HotReloadingData_add_asset = true.
Proof. vm_compute. split; reflexivity. Qed.

(* the cache view the reloader loads through defines the accessors only: it too uses RawCache's
   default add_asset *)
Lemma borrowed_cache_uses_the_default_add_asset :
  fn_body BorrowedCache_raw_items = [EPath ["assets"]; EPath ["get_source"]; EPath ["reloader"]].
Proof. vm_compute. reflexivity. Qed.
