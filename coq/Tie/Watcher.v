(* T1 tie for src/hot_reloading/watcher.rs (bounded, exhaustive): `id_of_path` and the event-kind
   table as printed from the source, run by the interpreter with std::path operations supplied as
   external functions over component lists, agree with Ref.Watcher on every path made of a root
   followed by at most 3 components from a representative alphabet (plain, with extension, two
   dots, hidden, `..`, `.`), for both answers of is_dir, and on every event kind.
   Finite sweep, bound in the statement; the unbounded theorems are about Ref.Watcher. *)
From Coq Require Import List String NArith Bool.
From AM Require Import Rust.Ast Rust.Syntax Rust.Eval Gen.Watcher Gen.Private Ref.Watcher.
Import ListNotations.
Open Scope string_scope.
Open Scope list_scope.

Definition vcomp (c : comp) : val :=
  match c with
  | CNormal s => VCtor "Normal" [VStr s]
  | CParent => VCtor "ParentDir" []
  | CCur => VCtor "CurDir" []
  end.

Definition vpath (p : path) : val := VCtor "Path" [VList (map vcomp p)].

Definition dcomp (v : val) : option comp :=
  match v with
  | VCtor "Normal" [VStr s] => Some (CNormal s)
  | VCtor "ParentDir" [] => Some CParent
  | VCtor "CurDir" [] => Some CCur
  | _ => None
  end.

Fixpoint dcomps (l : list val) : option path :=
  match l with
  | [] => Some []
  | v :: r => match dcomp v, dcomps r with Some c, Some p => Some (c :: p) | _, _ => None end
  end.

Definition dpath (v : val) : option path :=
  match v with VCtor "Path" [VList l] => dcomps l | _ => None end.

Definition opt (o : option val) : val := match o with Some v => VCtor "Some" [v] | None => VCtor "None" [] end.

Definition last_name (p : path) : option string :=
  match rev p with CNormal n :: _ => Some n | _ => None end.

(* std::path as the model sees it *)
Definition path_externs (is_dir : bool) (name : string) (args : list val) : option val :=
  match args with
  | [pv] =>
      match dpath pv with
      | Some p =>
          if String.eqb name ".parent" then
            Some (opt (option_map vpath (parent_of p)))
          else if String.eqb name ".components" then Some (VList (map vcomp p))
          else if String.eqb name ".file_stem" then
            Some (opt (option_map (fun n => VStr (fst (split_name n))) (last_name p)))
          else if String.eqb name ".extension" then
            Some (opt (match last_name p with
                       | Some n => option_map VStr (snd (split_name n))
                       | None => None
                       end))
          else if String.eqb name ".is_dir" then Some (VBool is_dir)
          else None
      | None =>
          if String.eqb name ".ok" then
            match pv with
            | VCtor "Ok" [v] => Some (opt (Some v))
            | VCtor "Err" _ => Some (opt None)
            | _ => None
            end
          else None
      end
  | [pv; rv] =>
      if String.eqb name ".strip_prefix" then
        match dpath pv, dpath rv with
        | Some p, Some r =>
            Some (match strip_prefix r p with
                  | Some rest => VCtor "Ok" [vpath rest]
                  | None => VCtor "Err" [VUnit]
                  end)
        | _, _ => None
        end
      else None
  | _ => None
  end.

Definition watcher_fns : list (string * fn_def) :=
  [("IdBuilder::push", IdBuilder_push); ("IdBuilder::pop", IdBuilder_pop);
   ("IdBuilder::join", IdBuilder_join); ("IdBuilder::reset", IdBuilder_reset);
   ("extension_of", extension_of)].

Definition join_dots (l : list string) : string := String.concat "." l.

Definition enc_entry (e : entry) : val :=
  match e with
  | EFile id ext => VCtor "File" [VStr (join_dots id); VStr ext]
  | EDir id => VCtor "Directory" [VStr (join_dots id)]
  end.

Definition gen_id_of_path (root p : path) (is_dir : bool) : outcome :=
  snd (run_fn_x watcher_fns (path_externs is_dir) 40 Gen.Watcher.id_of_path
         [VRec "IdBuilder" [("buf", VStr "junk")]; vpath root; vpath p]).

Definition ref_id_of_path (root p : path) (is_dir : bool) : outcome :=
  ONorm (match Ref.Watcher.id_of_path true root p is_dir with
         | Some e => VCtor "Some" [enc_entry e]
         | None => VCtor "None" []
         end).

Definition outcome_eqb (a b : outcome) : bool :=
  match a, b with ONorm x, ONorm y => val_eqb x y | _, _ => false end.

Definition alphabet : list comp :=
  [CNormal "r"; CNormal "d"; CNormal "a"; CNormal "a.x"; CNormal "b.y.z"; CNormal ".h"; CParent; CCur].

Fixpoint words (n : nat) : list path :=
  match n with
  | O => [[]]
  | S k => [] :: flat_map (fun w => map (fun c => c :: w) alphabet) (words k)
  end.

Definition sweep_roots : list path := [[CNormal "r"]; [CNormal "r"; CNormal "d"]].

Definition sweep_paths : list path :=
  flat_map (fun r => map (fun w => r ++ w) (words 3)) sweep_roots ++ [[CNormal "x"; CNormal "a.x"]; []].

Lemma id_of_path_bounded_tie :
  forallb (fun r => forallb (fun p =>
     outcome_eqb (gen_id_of_path r p true) (ref_id_of_path r p true) &&
     outcome_eqb (gen_id_of_path r p false) (ref_id_of_path r p false)) sweep_paths) sweep_roots = true.
Proof. vm_compute. reflexivity. Qed.

(* ---- the event-kind table ---- *)
Definition table_expr : option expr :=
  let subs := flat_map (subexprs 64) (fn_body handle_event) in
  find (fun e => match e with EMatch (EField (EPath ["event"]) "kind") _ => true | _ => false end) subs.

Definition vkind (k : kind) : val :=
  match k with
  | KAny => VCtor "Any" []
  | KModifyData => VCtor "Modify" [VCtor "Data" [VCtor "Any" []]]
  | KModifyName => VCtor "Modify" [VCtor "Name" [VCtor "Both" []]]
  | KCreate => VCtor "Create" [VCtor "File" []]
  | KRemove => VCtor "Remove" [VCtor "Any" []]
  | KAccess => VCtor "Access" [VCtor "Any" []]
  | KOther => VCtor "Other" []
  end.

Definition gen_event_paths (k : kind) (p : path) : option (list path) :=
  match table_expr with
  | None => None
  | Some e =>
      match eval_x [] (path_externs false) 30
              [("event", VRec "Event" [("kind", vkind k)]); ("path", vpath p)] e with
      | (_, ONorm (VList l)) =>
          (fix go (l : list val) : option (list path) :=
             match l with
             | [] => Some []
             | v :: r => match dpath v, go r with Some q, Some qs => Some (q :: qs) | _, _ => None end
             end) l
      | (_, ORet VUnit) => Some []
      | _ => None
      end
  end.

Fixpoint paths_eqb (a b : list path) : bool :=
  match a, b with
  | [], [] => true
  | x :: r, y :: s => path_eqb x y && paths_eqb r s
  | _, _ => false
  end.

Definition all_kinds : list kind := [KAny; KModifyData; KModifyName; KCreate; KRemove; KAccess; KOther].

Lemma event_table_bounded_tie :
  forallb (fun k => forallb (fun p =>
     match gen_event_paths k p with
     | Some l => paths_eqb l (event_paths true k p)
     | None => false
     end) [[CNormal "r"; CNormal "a.x"]; [CNormal "r"]; []]) all_kinds = true.
Proof. vm_compute. reflexivity. Qed.

(* ---- the frame around the table: every path of every Ok event goes through the table and
   id_of_path for every root, and whatever results is sent in one batch; nothing filters events
   before the table (the only way out is the table's own arm for Access / Other) ---- *)
Definition count_returns (l : list expr) : nat :=
  List.length (filter (fun e => match e with EReturn _ => true | _ => false end) (flat_map (subexprs 64) l)).

Definition handle_event_frame_wf (f : fn_def) : bool :=
  match fn_body f with
  | [EMatch (EPath ["event"])
       [(PTupleStruct ["Ok"] [PIdent "event" None], None,
         EBlock [ESemi (EMacro _ _);
                 EFor (PIdent "path" None) (EField (EPath ["event"]) "paths")
                   [ELetS (PIdent "paths" None) (Some (EMatch (EField (EPath ["event"]) "kind") _)) None;
                    ELetS (PIdent "ids" None)
                      (Some (EMethod (EMethod (EMethod (EPath ["paths"]) "into_iter" []) "flat_map" [_]) "filter_map"
                               [EClosure _ (ECall (EPath ["id_of_path"]) _)])) None;
                    (* nobody listens any more: the watcher lets go of itself *)
                    EIf (EMethod (EMethod (EField (EPath ["self"]) "events") "send_multiple" [EPath ["ids"]]) "is_err" [])
                      [ESemi (ECall (EPath ["drop"]) [EMethod (EField (EPath ["self"]) "watcher") "take" []])] None]]);
        (PTupleStruct ["Err"] [PIdent _ None], None, EMacro _ _)]] =>
    Nat.eqb (count_returns (fn_body f)) 1
  | _ => false
  end.

Lemma handle_event_frame : handle_event_frame_wf handle_event = true.
Proof. vm_compute. reflexivity. Qed.

(* FsWatcherBuilder: the root it remembers is the path it handed to notify, as given (notify reports
   paths under the spelling it was given), and build hands the roots on unchanged *)
Definition watch_wf (f : fn_def) : bool :=
  match fn_body f with
  | [ESemi (ETry (ECall (EPath ["notify"; "Watcher"; "watch"]) [ERef (EField (EPath ["self"]) "watcher"); ERef (EPath ["path"]); _]));
     ESemi (EMethod (EField (EPath ["self"]) "roots") "push" [EPath ["path"]]);
     ECall (EPath ["Ok"]) [ETuple []]] => true
  | _ => false
  end.
Definition build_wf (f : fn_def) : bool :=
  match fn_body f with
  | [ELetS (PIdent h None) (Some (EStruct ["NotifyEventHandler"] (("roots", EField (EPath ["self"]) "roots") :: ("events", EPath ["events"]) :: _))) None;
     ELetS PWild (Some (EMethod (EField (EPath ["self"]) "payload_sender") "send" [EPath [h']])) None] => String.eqb h h'
  | _ => false
  end.
Lemma watcher_keeps_the_roots_as_given : watch_wf FsWatcherBuilder_watch = true /\ build_wf FsWatcherBuilder_build = true.
Proof. vm_compute. split; reflexivity. Qed.
