(* T1 tie for type erasure (C13) and for panics during reloads (C09). *)
From Coq Require Import List String Bool.
From AM Require Import Rust.Ast Rust.Syntax Gen.Entry Gen.Deps.
Import ListNotations.
Open Scope string_scope.

(* `is` compares the stored TypeId with the requested type's *)
Definition is_wf (f : fn_def) : bool :=
  match fn_body f with
  | [EBinary "==" (EField (EPath ["self"]) "type_id") (ECall (EPath ["TypeId"; "of"]) [])] => true
  | _ => false
  end.

(* every cast of the erased storage is guarded by `is` and yields None / Err / a panic otherwise *)
Definition guarded_cast (f : fn_def) (ok no : string) : bool :=
  match fn_body f with
  | [EIf (EMethod (EPath ["self"]) "is" []) [EBlock [ECall (EPath [c]) [_]]] (Some (EBlock [other]))] =>
      String.eqb c ok &&
      match other with
      | EPath [n] => String.eqb n no
      | ECall (EPath [n]) [EPath ["self"]] => String.eqb n no
      | _ => false
      end
  | _ => false
  end.

Definition into_inner_wf (f : fn_def) : bool :=
  match fn_body f with
  | [EIf (ELet (PTupleStruct ["Ok"] [PIdent _ None]) (EMethod (EField (EPath ["self"]) "0") "downcast" []))
         [ESemi (EReturn (Some _))] None;
     ECall (EPath ["wrong_handle_type"]) []] => true
  | _ => false
  end.

Definition handle_downcast_wf (f g : fn_def) : bool :=
  match fn_body f, fn_body g with
  | [ELetS (PIdent e None) (Some (ETry (EMethod (EField (EPath ["self"]) "inner") "downcast_ref" []))) None;
     ECall (EPath ["Some"]) [EMethod (EPath [e']) "handle" []]],
    [EMatch (EMethod (EPath ["self"]) "downcast_ref" [])
       [(PTupleStruct ["Some"] [PIdent h None], None, EPath [h']);
        (PIdent "None" None, None, ECall (EPath ["wrong_handle_type"]) [])]] =>
      String.eqb e e' && String.eqb h h'
  | _, _ => false
  end.

Lemma erasure_is_checked :
  is_wf UntypedEntry_is = true /\
  guarded_cast UntypedEntry_downcast_ref "Some" "None" = true /\
  guarded_cast UntypedEntry_downcast "Ok" "Err" = true /\
  into_inner_wf CacheEntry_into_inner = true /\
  handle_downcast_wf UntypedHandle_downcast_ref UntypedHandle_downcast_ref_ok = true.
Proof. vm_compute. repeat split. Qed.

(* DepsGraph::reload: the reload runs inside catch_unwind and an unwinding reload counts as a
   failed one (None): the graph is only updated after a successful reload *)
Definition reload_catches (f : fn_def) : bool :=
  existsb (fun e => match e with
                    | ELetS (PIdent nd None)
                        (Some (EMethod (ECall (EPath ["std"; "panic"; "catch_unwind"])
                                          [ECall (EPath ["std"; "panic"; "AssertUnwindSafe"])
                                             [EClosure [] body]]) "unwrap_or" [EPath ["None"]])) None =>
                        calls_method "reload_untyped" body
                    | _ => false
                    end) (flat_map (subexprs depth_fuel) (fn_body f))
  && existsb (fun e => match e with
                       | EIf (ELet (PTupleStruct ["Some"] [PIdent _ None]) (EPath ["new_deps"])) t None =>
                           existsb (calls_method "insert") t
                       | _ => false
                       end) (flat_map (subexprs depth_fuel) (fn_body f)).

Lemma reload_panic_is_a_failed_reload : reload_catches DepsGraph_reload = true.
Proof. vm_compute. reflexivity. Qed.

(* installing a reloaded value: `write` insists (assert!, not debug_assert!) that old and new value
   have the same TypeId before anything is touched, and swap_any exchanges the WHOLE value (all
   size_of_val(a) bytes) of the two same-typed slots; the old value leaves in the entry that is
   dropped afterwards.  A static entry is never written (wrong_handle_type). *)
Definition write_guards_type (f : fn_def) : bool :=
  match fn_body f with
  | ESemi (EMacro "assert" [EBinary "==" (EField (EPath ["self"]) "type_id") (EField (EField (EPath ["value"]) "0") "type_id")]) :: rest =>
    match last rest (EOther "") with ESemi (ECall (EPath ["wrong_handle_type"]) []) => true | _ => false end
  | _ => false
  end.
Definition swap_any_wf (f : fn_def) : bool :=
  match rev (fn_body f) with
  | EBlock [ESemi (ECall (EPath ["std"; "ptr"; "swap_nonoverlapping"])
                     [ECast (ECast (EPath ["a"]) _) "* mut u8"; ECast (ECast (EPath ["b"]) _) "* mut u8"; EPath ["len"]])] ::
    ELetS (PIdent "len" None) (Some (ECall (EPath ["std"; "mem"; "size_of_val"]) [EPath ["a"]])) None :: _ => true
  | _ => false
  end.
Lemma reload_swaps_whole_same_typed_values :
  write_guards_type UntypedEntry_write = true /\ swap_any_wf swap_any = true.
Proof. vm_compute. split; reflexivity. Qed.
