(* T1 tie (bounded, exhaustive) for the path parsing of src/source/zip.rs and tar.rs: the first four
   statements of register_file's closure as printed from the source (the component loop over the
   member's parent, `parent_id`, the push of the file stem, `id`), run by the interpreter together
   with the printed IdBuilder::{push,pop,join,reset}, compute what Ref.Watcher.walk / id_push say on
   every member path of at most 3 components (and some longer ones) from a representative alphabet (plain, with extension,
   two dots, hidden, `..`, `.`): in particular `d/../f.x` is the file `f` of the root and `d/..` on
   an empty builder is rejected.  Finite sweep, bound in the statement. *)
From Coq Require Import List String NArith Bool.
From AM Require Import Rust.Ast Rust.Syntax Rust.Eval Gen.Archive Gen.Private Ref.Watcher Tie.Watcher Tie.Archive.
Import ListNotations.
Open Scope string_scope.
Open Scope list_scope.

Definition parse_fn (f : fn_def) : fn_def :=
  {| fn_name := "parse";
     fn_params := [PIdent "id_builder" None; PIdent "path" None];
     fn_body := firstn 4 (parse_closure f) ++
                [ECall (EPath ["Some"]) [ETuple [EPath ["parent_id"]; EPath ["id"]]]] |}.

Definition gen_parse (f : fn_def) (p : path) : outcome :=
  snd (run_fn_x watcher_fns (path_externs false) 40 (parse_fn f)
         [VRec "IdBuilder" [("buf", VStr "")]; vpath p]).

Definition ref_parse (p : path) : outcome :=
  ONorm (match rev p with
         | CNormal name :: rparent =>
             match walk [] (rev rparent) with
             | Some b =>
                 match id_push b (fst (split_name name)) with
                 | Some id => VCtor "Some" [VTuple [VStr (join_dots b); VStr (join_dots id)]]
                 | None => VCtor "None" []
                 end
             | None => VCtor "None" []
             end
         | _ => VCtor "None" []
         end).

Definition member_paths : list path :=
  words 3 ++ map (fun w => [CNormal "d"; CNormal "e"] ++ w) (words 2) ++
  [[CNormal "d"; CNormal "e"; CParent; CParent; CNormal "a.x"];
   [CNormal "d"; CParent; CNormal "e"; CParent; CNormal "a"];
   [CNormal "d"; CCur; CParent; CNormal "e"; CNormal "a.x"]].

Lemma archive_paths_bounded_tie :
  forallb (fun p => outcome_eqb (gen_parse zip_register_file p) (ref_parse p) &&
                    outcome_eqb (gen_parse tar_register_file p) (ref_parse p)) member_paths = true.
Proof. vm_compute. reflexivity. Qed.

(* non-vacuity: the sweep contains the path that climbs back to the root *)
Example climbs_back_to_the_root :
  gen_parse zip_register_file [CNormal "d"; CParent; CNormal "a.x"] = ONorm (VCtor "Some" [VTuple [VStr ""; VStr "a"]]) /\
  existsb (path_eqb [CNormal "d"; CParent; CNormal "a.x"]) member_paths = true.
Proof. split; vm_compute; reflexivity. Qed.
