(* T1 tie: the functions rs2v printed from src/entry.rs (Gen.Entry), run by the interpreter of
   Rust/Eval.v, compute exactly the reference model Ref.ReloadId for EVERY input. *)
From Coq Require Import List String NArith Bool Lia.
From AM Require Import Rust.Ast Rust.Eval Gen.Entry Ref.ReloadId.
Import ListNotations.
Open Scope string_scope.

(* the associated constant ReloadId::NEVER as printed is `Self(0)`; the interpreter is given the
   same constant with `Self` spelled out *)
Lemma never_is_zero : fn_params ReloadId_NEVER = [] /\ fn_body ReloadId_NEVER = [ECall (EPath ["Self"]) [ELit (LInt 0%N)]].
Proof. vm_compute. split; reflexivity. Qed.
Definition never_fn : fn_def :=
  {| fn_name := "ReloadId::NEVER"; fn_params := []; fn_body := [ECall (EPath ["ReloadId"]) [ELit (LInt 0%N)]] |}.

Definition fns : list (string * fn_def) :=
  [("ReloadId::NEVER", never_fn);
   ("ReloadId::update", ReloadId_update);
   ("AtomicReloadId::update", AtomicReloadId_update);
   ("AtomicReloadId::fetch_max", AtomicReloadId_fetch_max);
   ("AtomicReloadId::increment", AtomicReloadId_increment);
   ("AtomicReloadId::load", AtomicReloadId_load);
   ("AtomicReloadId::store", AtomicReloadId_store);
   ("AtomicReloadId::swap", AtomicReloadId_swap)].

Definition fuel := 12%nat.

Definition vid (n : N) : val := VCtor "ReloadId" [VN n].
Definition vcell (n : N) : val := VCtor "AtomicReloadId" [VN n].

(* ReloadId::update(&mut self, new) : final *self, answer *)
Definition gen_update (cur new : N) : option (N * bool) :=
  match run_fn fns fuel ReloadId_update [vid cur; vid new] with
  | (en, ONorm (VBool b)) =>
      match lookup "self" en with
      | Some (VCtor "ReloadId" [VN c]) => Some (c, b)
      | _ => None
      end
  | _ => None
  end.

Definition out_of (o : outcome) : option aout :=
  match o with
  | ONorm (VBool b) => Some (OBool b)
  | ONorm (VCtor "ReloadId" [VN n]) => Some (OId n)
  | ONorm VUnit => Some ONone
  | _ => None
  end.

(* a method of AtomicReloadId on a cell holding [c] *)
Definition gen_atomic (f : fn_def) (c : N) (args : list val) : option (N * aout) :=
  match run_fn fns fuel f (vcell c :: args) with
  | (en, o) =>
      match lookup "self" en, out_of o with
      | Some (VCtor "AtomicReloadId" [VN c']), Some out => Some (c', out)
      | _, _ => None
      end
  end.

Definition gen_astep (c : N) (o : aop) : option (N * aout) :=
  match o with
  | AUpdate n => gen_atomic AtomicReloadId_update c [vid n]
  | AFetchMax n => gen_atomic AtomicReloadId_fetch_max c [vid n]
  | ASwap n => gen_atomic AtomicReloadId_swap c [vid n]
  | AStore n => gen_atomic AtomicReloadId_store c [vid n]
  | ALoad => gen_atomic AtomicReloadId_load c []
  | AIncrement => gen_atomic AtomicReloadId_increment c []
  end.

Ltac run_gen :=
  lazy -[n_ltb n_max n_add n_eqb n_sub update astep]; unfold n_ltb, n_max, n_add, n_eqb, n_sub, update, astep.

(* closes the residual arithmetic, however the comparison happens to be written *)
Ltac tie_close :=
  try reflexivity;
  repeat match goal with
         | |- context [N.ltb ?a ?b] => destruct (N.ltb_spec a b)
         | |- context [N.leb ?a ?b] => destruct (N.leb_spec a b)
         | |- context [N.eqb ?a ?b] => destruct (N.eqb_spec a b)
         end;
  try reflexivity; try (repeat f_equal; lia).

Lemma ReloadId_update_tie : forall cur new, gen_update cur new = Some (update cur new).
Proof.
  intros cur new. Timeout 30 run_gen. tie_close.
Qed.

Lemma AtomicReloadId_tie : forall c o, gen_astep c o = Some (astep c o).
Proof.
  Timeout 60 intros c [n|n|n|n| |]; run_gen; tie_close.
Qed.

(* Every method of AtomicReloadId touches the shared cell by exactly one atomic operation: the
   syntactic list of atomic calls in each generated body. *)
Definition atomic_names : list string := ["fetch_max"; "fetch_add"; "swap"; "store"; "load";
                                          "fetch_sub"; "compare_exchange"; "fetch_min"].

Fixpoint children (e : expr) : list expr :=
  match e with
  | ECall f args => f :: args
  | EMethod r _ args => r :: args
  | EField e' _ | EUnary _ e' | ERef e' | ETry e' | ECast e' _ | ESemi e' | ELet _ e' => [e']
  | EBinary _ a b | EAssign a b | EIndex a b => [a; b]
  | ETuple es | EArray es | EBlock es | ELoop es | EMacro _ es => es
  | EStruct _ fs => map snd fs
  | EIf c t None => c :: t
  | EIf c t (Some e') => c :: t ++ [e']
  | EMatch s arms => s :: flat_map (fun '(_, g, b) => match g with Some x => [x; b] | None => [b] end) arms
  | EReturn (Some e') => [e']
  | EWhile c b => c :: b
  | EFor _ e' b => e' :: b
  | EClosure _ b => [b]
  | ERange a b => (match a with Some x => [x] | None => [] end) ++ (match b with Some x => [x] | None => [] end)
  | ELetS _ i els => (match i with Some x => [x] | None => [] end) ++ (match els with Some l => l | None => [] end)
  | _ => []
  end.

Fixpoint atomic_calls (fuel : nat) (e : expr) : list string :=
  match fuel with
  | O => ["<fuel>"]
  | S f =>
      (match e with
       | EMethod (EField _ "0") m _ => if existsb (String.eqb m) atomic_names then [m] else []
       | EMethod (EPath ["self"]) m _ =>
           match lookup ("AtomicReloadId::" ++ m) fns with
           | Some g => flat_map (atomic_calls f) (fn_body g)
           | None => []
           end
       | _ => []
       end) ++ flat_map (atomic_calls f) (children e)
  end.

Definition atomic_calls_of (g : fn_def) : list string := flat_map (atomic_calls 20) (fn_body g).

Lemma one_atomic_access_each :
  map (fun '(_, g) => atomic_calls_of g) (tl (tl fns))
  = [["fetch_max"]; ["fetch_max"]; ["fetch_add"]; ["load"]; ["store"]; ["swap"]].
Proof. vm_compute. reflexivity. Qed.

(* the comparisons the two updates make are the derived ones: ReloadId is a one-field tuple struct
   over usize deriving PartialEq, Eq, PartialOrd and Ord, so ids compare as the numbers they wrap
   (what the interpreted ties above assume of `>` on ids) *)
Definition derives (f : fn_def) (t : string) : bool :=
  existsb (fun e => match e with EPath [n] => String.eqb n t | _ => false end) (fn_body f).
Lemma reload_ids_compare_as_numbers :
  forallb (derives ReloadId_derives) ["PartialEq"; "Eq"; "PartialOrd"; "Ord"] = true.
Proof. vm_compute. reflexivity. Qed.

(* an id is one usize, the atomic cell one AtomicUsize: ids pass through the cell unchanged (no
   narrowing on the way in or out) *)
Lemma reload_ids_are_whole_words :
  fn_body ReloadId_fields = [EPath ["usize"]] /\ fn_body AtomicReloadId_fields = [EPath ["AtomicUsize"]].
Proof. vm_compute. split; reflexivity. Qed.

(* ReloadId::update is the comparison, the conditional assignment and the answer -- no assertion or
   other statement that could make an older offer do anything but answer false *)
Definition plain_update_wf (f : fn_def) : bool :=
  match fn_body f with
  | [ELetS (PIdent n None) (Some (EBinary ">" (EPath ["new"]) (EUnary "*" (EPath ["self"])))) None;
     EIf (EPath [n']) [ESemi (EAssign (EUnary "*" (EPath ["self"])) (EPath ["new"]))] None;
     EPath [n'']] => String.eqb n n' && String.eqb n n''
  | _ => false
  end.
Lemma update_is_total : plain_update_wf ReloadId_update = true.
Proof. vm_compute. reflexivity. Qed.
