(* T1 tie for the `embed!` macro (macros/src/embedded.rs), the code that builds the tables an Embedded
   source answers from: every file found is entered in the file table (one row per file: pushed, never
   keyed by the id alone) and in its directory's listing; every directory gets a listing and is entered
   in its parent's; ids are the stems joined by dots; a file without extension has the empty one; the
   file table is ordered by (id, extension) and each listing is sorted (reproducible builds;
   src/source/embedded.rs collects both tables into hash maps).  Ref/Embed.v is the model of these
   bodies; Proofs/Embed.v proves it an instance of the archive index.  The bodies are compared as printed. *)
From Coq Require Import List String.
From AM Require Import Rust.Ast Gen.Embed.
Import ListNotations.
Open Scope string_scope.

Definition expected_Content_push_file : list expr :=
  [(ELetS (PIdent "entry" None) (Some (ECall (EPath ["DirEntry"; "File"]) [(EMethod (EField (EPath ["desc"]) "0") "clone" []); (EMethod (EField (EPath ["desc"]) "1") "clone" [])])) None); (ESemi (EMethod (EMethod (EMethod (EField (EPath ["self"]) "dirs") "get_mut" [(EPath ["dir_id"])]) "expect" [(ELit (LStr "File without directory"))]) "push" [(EPath ["entry"])])); (ESemi (EMethod (EField (EPath ["self"]) "files") "push" [(EPath ["desc"])]))].

Definition expected_Content_push_dir : list expr :=
  [(EIf (ELet (PTupleStruct ["Some"] [(PIdent "parent" None)]) (EPath ["parent"])) [(ELetS (PIdent "entry" None) (Some (ECall (EPath ["DirEntry"; "Dir"]) [(EMethod (EPath ["id"]) "clone" [])])) None); (ESemi (EMethod (EMethod (EMethod (EField (EPath ["self"]) "dirs") "get_mut" [(EPath ["parent"])]) "expect" [(ELit (LStr "Directory without parent"))]) "push" [(EPath ["entry"])]))] None); (ESemi (EMethod (EField (EPath ["self"]) "dirs") "insert" [(EPath ["id"]); (ECall (EPath ["Vec"; "new"]) [])]))].

Definition expected_Content_sort : list expr :=
  [(ESemi (EMethod (EField (EPath ["self"]) "files") "sort_unstable_by" [(EClosure [(PIdent "a" None); (PIdent "b" None)] (EMethod (ETuple [(ERef (EField (EPath ["a"]) "0")); (ERef (EField (EPath ["a"]) "1"))]) "cmp" [(ERef (ETuple [(ERef (EField (EPath ["b"]) "0")); (ERef (EField (EPath ["b"]) "1"))]))]))])); (EFor (PIdent "dir" None) (EMethod (EField (EPath ["self"]) "dirs") "values_mut" []) [(ESemi (EMethod (EPath ["dir"]) "sort_unstable" []))])].

Definition expected_embed_read_dir : list expr :=
  [(ELetS (PIdent "dir" None) (Some (EMatch (EMethod (EPath ["path"]) "read_dir" []) [((PTupleStruct ["Ok"] [(PIdent "dir" None)]), None, (EPath ["dir"])); ((PTupleStruct ["Err"] [(PIdent "e" None)]), None, (EBlock [(ESemi (ECall (EPath ["push_error"]) [(EPath ["errors"]); (EMacro "format" [(ELit (LStr "{}: {}")); (EMethod (EPath ["path"]) "display" []); (EPath ["e"])])])); (ESemi (EReturn None))]))])) None); (EFor (PIdent "elem" None) (EPath ["dir"]) [(ELetS (PIdent "path" None) (Some (EMatch (EPath ["elem"]) [((PTupleStruct ["Ok"] [(PIdent "e" None)]), None, (EMethod (EPath ["e"]) "path" [])); ((PTupleStruct ["Err"] [(PIdent "e" None)]), None, (EBlock [(ESemi (ECall (EPath ["push_error"]) [(EPath ["errors"]); (EMacro "format" [(ELit (LStr "{}: {}")); (EMethod (EPath ["path"]) "display" []); (EPath ["e"])])])); (ESemi EContinue)]))])) None); (EIf (ELet (PTupleStruct ["Some"] [(PIdent "stem" None)]) (EMethod (EMethod (EPath ["path"]) "file_stem" []) "and_then" [(EClosure [(PIdent "s" None)] (EMethod (EPath ["s"]) "to_str" []))])) [(ELetS (PIdent "this_id" None) (Some (EMethod (EMethod (EPath ["id"]) "clone" []) "push" [(EPath ["stem"])])) None); (EIf (EMethod (EPath ["path"]) "is_dir" []) [(ESemi (EMethod (EPath ["content"]) "push_dir" [(ECall (EPath ["Some"]) [(ERef (EPath ["id"]))]); (EMethod (EPath ["this_id"]) "clone" [])])); (ESemi (ECall (EPath ["read_dir"]) [(ERef (EPath ["path"])); (EPath ["content"]); (EPath ["this_id"]); (EPath ["errors"])]))] (Some (EIf (EMethod (EPath ["path"]) "is_file" []) [(EIf (ELet (PTupleStruct ["Some"] [(PIdent "ext" None)]) (ECall (EPath ["extension_of"]) [(ERef (EPath ["path"]))])) [(ELetS (PIdent "ext" None) (Some (EMethod (EPath ["ext"]) "to_owned" [])) None); (ELetS (PIdent "desc" None) (Some (ECall (EPath ["FileDesc"]) [(EPath ["this_id"]); (EPath ["ext"]); (EPath ["path"])])) None); (ESemi (EMethod (EPath ["content"]) "push_file" [(EPath ["desc"]); (ERef (EPath ["id"]))]))] None)] None)))] None)])].

Definition expected_Id_push : list expr :=
  [(EIf (EUnary "!" (EMethod (EField (EPath ["self"]) "0") "is_empty" [])) [(ESemi (EMethod (EField (EPath ["self"]) "0") "push" [(ELit (LChar "."))]))] None); (ESemi (EMethod (EField (EPath ["self"]) "0") "push_str" [(EPath ["id"])])); (EPath ["self"])].

Definition expected_embed_extension_of : list expr :=
  [(EMatch (EMethod (EPath ["path"]) "extension" []) [((PTupleStruct ["Some"] [(PIdent "ext" None)]), None, (EMethod (EPath ["ext"]) "to_str" [])); ((PIdent "None" None), None, (ECall (EPath ["Some"]) [(ELit (LStr ""))]))])].

Lemma embed_macro_as_modelled :
  fn_body Content_push_file = expected_Content_push_file /\
  fn_body Content_push_dir = expected_Content_push_dir /\
  fn_body Content_sort = expected_Content_sort /\
  fn_body embed_read_dir = expected_embed_read_dir /\
  fn_body Id_push = expected_Id_push /\
  fn_body embed_extension_of = expected_embed_extension_of.
Proof. vm_compute. repeat split. Qed.
