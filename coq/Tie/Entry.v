(* T1 tie for src/entry.rs: the printed `write` is a script the discipline checker accepts (so the
   theorems of Proofs/RwStep.v and RwPin.v, which quantify over all accepted scripts, apply to it),
   and the guards returned by read / map / try_map own the read lock. *)
From Coq Require Import List String Bool.
From AM Require Import Rust.Ast Rust.Script Ref.RwCell Gen.Entry Gen.Private.
Import ListNotations.

Definition is_swap (a : action) := match a with SwapWords _ => true | _ => false end.
Definition is_inc (a : action) := match a with IncReload => true | _ => false end.

Definition writer_ok (o : option script) : bool :=
  match o with
  | Some s => wf false false s && existsb is_swap s && existsb is_inc s
  | None => false
  end.

Lemma write_accepted : writer_ok (write_script UntypedEntry_write) = true.
Proof. vm_compute. reflexivity. Qed.

(* the replaced value leaves `write` alive: under the write lock there is the swap, the id bump and
   the flag, nothing else -- in particular no drop, so no user destructor runs while the lock is
   held (a destructor may read its own handle) *)
Definition write_locked_block_wf (f : fn_def) : bool :=
  match fn_body f with
  | [ESemi (EMacro "assert" _);
     EIf (ELet (PTupleStruct ["Some"] [PIdent d None]) (ERef (EField (EPath ["self"]) "dynamic")))
       [EBlock [ELetS (PIdent _ None) (Some (EMethod (EField (EPath [d1]) "lock") "write" [])) None;
                ESemi (ECall (EPath ["swap_any"]) [_; _]);
                ESemi (EMethod (EField (EPath [d2]) "reload") "increment" []);
                ESemi (EMethod (EField (EPath [d3]) "reload_global") "store" [_; _])];
        ESemi (EReturn None)] None;
     ESemi (ECall (EPath ["wrong_handle_type"]) [])] =>
      String.eqb d d1 && String.eqb d d2 && String.eqb d d3
  | _ => false
  end.
Lemma write_drops_nothing_under_the_lock : write_locked_block_wf UntypedEntry_write = true.
Proof. vm_compute. reflexivity. Qed.

Lemma read_takes_lock : read_wf EntryStorage_read = true.
Proof. vm_compute. reflexivity. Qed.

Lemma map_keeps_lock : map_wf AssetReadGuard_map = true.
Proof. vm_compute. reflexivity. Qed.

Lemma try_map_keeps_lock : try_map_wf AssetReadGuard_try_map = true.
Proof. vm_compute. reflexivity. Qed.

(* the lock-free accessor is for entries that can never be rewritten: it refuses a reloadable one
   before it dereferences the cell *)
Definition static_get_wf (f : fn_def) : bool :=
  match fn_body f with
  | [EIf (EMethod (EField (EPath ["self"]) "dynamic") "is_some" []) [EMacro "panic" _] None;
     EBlock [ERef (EUnary "*" (EMethod (EField (EPath ["self"]) "value") "get" []))]] => true
  | _ => false
  end.
Lemma static_get_refuses_reloadable : static_get_wf EntryStorage_get = true.
Proof. vm_compute. reflexivity. Qed.

(* copied / cloned read through a guard *)
Definition via_read (f : fn_def) : bool :=
  match fn_body f with
  | [EUnary "*" (EMethod (EPath ["self"]) "read" [])] => true
  | [EMethod (EMethod (EPath ["self"]) "read" []) "clone" []] => true
  | _ => false
  end.
Lemma copies_go_through_a_guard : via_read Handle_copied = true /\ via_read Handle_cloned = true.
Proof. vm_compute. split; reflexivity. Qed.

(* the crate's RwLock wrapper: `read` takes the shared lock and `write` the exclusive one of the
   wrapped lock, for the std and the parking_lot back-end *)
Definition takes (m : string) (f : fn_def) : bool :=
  match fn_body f with
  | [ECall (EPath ["wrap"]) [EMethod (EField (EPath ["self"]) "0") m' []]] => String.eqb m m'
  | _ => false
  end.
Lemma rwlock_wrapper_is_faithful :
  takes "read" RwLock_read = true /\ takes "write" RwLock_write = true /\
  takes "read" RwLock_read_pl = true /\ takes "write" RwLock_write_pl = true.
Proof. vm_compute. repeat split. Qed.

(* a new watcher starts at the handle's CURRENT reload id (it has seen everything so far), and
   `reloaded` compares-and-advances against the id loaded now *)
Definition watcher_new_wf (f : fn_def) : bool :=
  match fn_body f with
  | [EStruct ["Self"] [("reload_id", EPath ["reload_id"]); ("last_reload_id", EMethod (EPath ["reload_id"]) "load" [])]] => true
  | _ => false
  end.
Definition watcher_reloaded_wf (f : fn_def) : bool :=
  match fn_body f with
  | [EIf (ELet (PTupleStruct ["Some"] [PIdent i None]) (ERef (EField (EPath ["self"]) "inner")))
       [ELetS (PIdent n None) (Some (EMethod (EField (EPath [i']) "reload_id") "load" [])) None;
        ESemi (EReturn (Some (EMethod (EField (EPath [i'']) "last_reload_id") "update" [EPath [n']])))] None;
     ELit (LBool false)] => String.eqb i i' && String.eqb i i'' && String.eqb n n'
  | _ => false
  end.
Lemma watcher_starts_at_the_current_id :
  watcher_new_wf ReloadWatcherInner_new = true /\ watcher_reloaded_wf ReloadWatcher_reloaded = true.
Proof. vm_compute. split; reflexivity. Qed.

(* serializing a handle walks the value under the read guard (the guard lives to the end of the call) *)
Lemma serialize_reads_under_the_guard :
  fn_body Handle_serialize = [EMethod (EMethod (EPath ["self"]) "read" []) "serialize" [EPath ["s"]]].
Proof. vm_compute. reflexivity. Qed.
