(* T1 tie for the two maps (src/cache.rs, src/local_cache.rs): look-ups go through the key built
   from (id, type), under the shard's read lock; an insertion is `entry(key).or_insert(value)`
   under the write lock of the shard the SAME key hashes to; removal removes that key from that
   shard; the shard index is hash & (len - 1) (always < len). *)
From Coq Require Import List String Bool.
From AM Require Import Rust.Ast Rust.Syntax Gen.CacheMap Gen.LocalMap Gen.Private.
Import ListNotations.
Open Scope string_scope.

Definition keyed_lookup (f : fn_def) (lock : string) (op : string) : bool :=
  match fn_body f with
  | ELetS (PIdent k None) (Some (ECall (EPath ["BorrowedKey"; "new_with"]) [EPath ["id"]; EPath ["type_id"]])) None
    :: ELetS (PIdent m None) (Some guard) None :: rest =>
      calls_method lock guard &&
      existsb (fun e => existsb (fun x => match x with
                                          | EMethod (EPath [m']) o [ECast (ERef (EPath [k'])) _] =>
                                              String.eqb m m' && String.eqb o op && String.eqb k k'
                                          | _ => false
                                          end) (subexprs depth_fuel e)) rest
  | _ => false
  end.

Definition or_insert_wf (f : fn_def) (lock : string) : bool :=
  match fn_body f with
  | [ELetS (PIdent k None) (Some (ECall (EPath ["OwnedKey"; "new_with"])
                                    [EMethod (EMethod (EPath ["entry"]) "id" []) "clone" [];
                                     EMethod (EPath ["entry"]) "type_id" []])) None;
     ELetS (PIdent m None) (Some guard) None;
     ELetS (PIdent e None) (Some (EMethod (EMethod (EPath [m']) "entry" [EPath [k']]) "or_insert" [EPath ["entry"]])) None;
     EBlock [EMethod (EMethod (EPath [e']) "inner" []) "extend_lifetime" []]] =>
      calls_method lock guard && String.eqb m m' && String.eqb k k' && String.eqb e e'
  | _ => false
  end.

(* both shard selectors: hash the WHOLE key with the map's hasher, mask with the shard count *)
Definition shard_index_wf (f : fn_def) : bool :=
  match fn_body f with
  | [ELetS (PIdent "hasher" None) (Some (EMethod (EField (EPath ["self"]) "hash_builder") "build_hasher" [])) None;
     ESemi (EMethod (EPath ["key"]) "hash" [ERef (EPath ["hasher"])]);
     ELetS (PIdent i None)
       (Some (EBinary "&" (ECast (EMethod (EPath ["hasher"]) "finish" []) _)
                (EBinary "-" (EMethod (EField (EPath ["self"]) "shards") "len" []) (ELit (LInt 1%N))))) None;
     ERef (EIndex (EField (EPath ["self"]) "shards") (EPath [i']))] => String.eqb i i'
  | _ => false
  end.

Definition take_wf (f : fn_def) : bool :=
  match fn_body f with
  | [ELetS (PIdent k None) (Some (ECall (EPath ["BorrowedKey"; "new_with"]) [EPath ["id"]; EPath ["type_id"]])) None;
     EMethod _ "remove" [ECast (ERef (EPath [k'])) _]] => String.eqb k k'
  | _ => false
  end.
(* the sharded take looks in the shard of that very key *)
Definition take_uses_shard_of_key (f : fn_def) : bool :=
  match fn_body f with
  | [ELetS (PIdent k None) _ None;
     EMethod (EMethod (EField (EMethod (EPath ["self"]) "get_shard_mut" [EPath [k']]) "0") "get_mut" []) "remove" _] =>
    String.eqb k k'
  | _ => false
  end.
Definition remove_is_take (f : fn_def) : bool :=
  match fn_body f with
  | [EMethod (EMethod (EPath ["self"]) "take" [EPath ["id"]; EPath ["type_id"]]) "is_some" []] => true
  | _ => false
  end.

Lemma maps_as_modelled :
  keyed_lookup Gen.CacheMap.AssetMap_get "read" "get" = true /\
  keyed_lookup Gen.CacheMap.AssetMap_contains_key "read" "contains_key" = true /\
  or_insert_wf Gen.CacheMap.AssetMap_insert "write" = true /\
  take_wf Gen.CacheMap.AssetMap_take = true /\
  shard_index_wf Gen.CacheMap.AssetMap_get_shard = true /\
  shard_index_wf Gen.CacheMap.AssetMap_get_shard_mut = true /\
  take_uses_shard_of_key Gen.CacheMap.AssetMap_take = true /\
  remove_is_take Gen.CacheMap.AssetMap_remove = true /\
  keyed_lookup Gen.LocalMap.AssetMap_get "borrow" "get" = true /\
  keyed_lookup Gen.LocalMap.AssetMap_contains_key "borrow" "contains_key" = true /\
  or_insert_wf Gen.LocalMap.AssetMap_insert "borrow_mut" = true /\
  take_wf Gen.LocalMap.AssetMap_take = true.
Proof. vm_compute. repeat split. Qed.

(* clear: every shard is emptied, unconditionally (one plain loop over all shards); the local map
   empties its one table; the caches' clear starts by clearing the map *)
Definition clears_every_shard (f : fn_def) : bool :=
  match fn_body f with
  | [EFor (PIdent sh None) (ERef (EUnary "*" (EField (EPath ["self"]) "shards")))
       [ESemi (EMethod (EMethod (EField (EPath [sh']) "0") "get_mut" []) "clear" [])]] => String.eqb sh sh'
  | _ => false
  end.
Definition clears_its_table (f : fn_def) : bool :=
  match fn_body f with
  | [ESemi (EMethod (EMethod (EField (EPath ["self"]) "map") "get_mut" []) "clear" [])] => true
  | _ => false
  end.
(* the whole body: clear the map, then tell the reloader IF there is one -- clear neither creates a
   reloader nor touches anything else *)
Definition cache_clear_wf (f : fn_def) : bool :=
  match fn_body f with
  | [ESemi (EMethod (EField (EPath ["self"]) "assets") "clear" [])] => true
  | [ESemi (EMethod (EField (EPath ["self"]) "assets") "clear" []);
     EIf (ELet (PTupleStruct ["Some"] [PIdent r None]) (ERef (EField (EPath ["self"]) "reloader")))
       [ESemi (EMethod (EPath [r']) "clear" [])] None] => String.eqb r r'
  | _ => false
  end.
(* the reloader is the first field of AssetCache: fields are dropped in declaration order, so the
   reloader is shut down before the map and the source are dropped *)
Lemma reloader_is_dropped_first :
  fn_body Gen.CacheMap.AssetCache_fields = [EPath ["Option<HotReloader>"]; EPath ["AssetMap"]; EPath ["S"]].
Proof. vm_compute. reflexivity. Qed.

Lemma clear_empties_the_whole_map :
  clears_every_shard Gen.CacheMap.AssetMap_clear = true /\
  clears_its_table Gen.LocalMap.AssetMap_clear = true /\
  cache_clear_wf Gen.CacheMap.AssetCache_clear = true /\
  cache_clear_wf Gen.LocalMap.LocalAssetCache_clear = true.
Proof. vm_compute. repeat split. Qed.

(* keys carry the id exactly as given (no normalisation anywhere), so the key a lookup builds and
   the key an insertion stored agree on equality, hash and shard for the same (id, type) *)
Definition key_ctor_wf (f : fn_def) (typed : bool) : bool :=
  match fn_body f with
  | [EStruct ["Self"] [("id", EPath ["id"]); ("type_id", t)]] =>
    if typed then match t with ECall (EPath ["TypeId"; "of"]) [] => true | _ => false end
    else match t with EPath ["type_id"] => true | _ => false end
  | _ => false
  end.
Definition key_borrow_wf (f : fn_def) : bool :=
  match fn_body f with
  | [EStruct ["BorrowedKey"] [("id", ERef (EField (EPath ["self"]) "id")); ("type_id", EField (EPath ["self"]) "type_id")]] => true
  | _ => false
  end.
Definition key_to_owned_wf (f : fn_def) : bool :=
  match fn_body f with
  | [EStruct ["OwnedKey"] [("id", EMethod (EField (EPath ["self"]) "id") "into" []); ("type_id", EField (EPath ["self"]) "type_id")]] => true
  | _ => false
  end.
Lemma keys_carry_the_id_as_given :
  key_ctor_wf Gen.Private.BorrowedKey_new_with false = true /\ key_ctor_wf Gen.Private.BorrowedKey_new true = true /\
  key_ctor_wf Gen.Private.OwnedKey_new_with false = true /\ key_ctor_wf Gen.Private.OwnedKey_new true = true /\
  key_borrow_wf Gen.Private.OwnedKey_borrow = true /\ key_to_owned_wf Gen.Private.BorrowedKey_to_owned = true.
Proof. vm_compute. repeat split. Qed.

(* both caches load through the ONE add_asset (RawCache's default: load, then insert -- no map
   borrow or lock is held while the loader runs): their RawCache impls define the accessors and
   nothing else *)
Definition raw_items_wf (f : fn_def) : bool :=
  match fn_body f with
  | [EPath ["assets"]; EPath ["get_source"]; EPath ["reloader"]] => true
  | _ => false
  end.
Lemma caches_load_through_the_default_add_asset :
  raw_items_wf Gen.CacheMap.AssetCache_raw_items = true /\
  raw_items_wf Gen.LocalMap.LocalAssetCache_raw_items = true.
Proof. vm_compute. split; reflexivity. Qed.

(* AssetCache::no_record suspends recording unconditionally (same shape as AnyCache::no_record,
   Tie/Records.v) *)
Lemma assetcache_no_record_is_unconditional :
  fn_body Gen.CacheMap.AssetCache_no_record = [EBlock [ECall (EPath ["records"; "no_record"]) [EPath ["f"]]]].
Proof. vm_compute. reflexivity. Qed.
