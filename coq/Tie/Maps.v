(* T1 tie for the two maps (src/cache.rs, src/local_cache.rs): look-ups go through the key built
   from (id, type), under the shard's read lock; an insertion is `entry(key).or_insert(value)`
   under the write lock of the shard the SAME key hashes to; removal removes that key from that
   shard; the shard index is hash & (len - 1) (always < len). *)
From Coq Require Import List String Bool.
From AM Require Import Rust.Ast Rust.Syntax Gen.CacheMap Gen.LocalMap.
Import ListNotations.
Open Scope string_scope.

Definition keyed_lookup (f : fn_def) (lock : string) (op : string) : bool :=
  match fn_body f with
  | ELetS (PIdent k None) (Some (ECall (EPath ["BorrowedKey"; "new_with"]) [EPath ["id"]; EPath ["type_id"]])) None
    :: ELetS (PIdent m None) (Some guard) None :: rest =>
      calls_method lock guard &&
      existsb (fun e => existsb (fun x => match x with
                                          | EMethod (EPath [m']) o [ECast (ERef (EPath [k'])) _] =>
                                              String.eqb m m' && String.eqb o op && String.eqb k k'
                                          | _ => false
                                          end) (subexprs depth_fuel e)) rest
  | _ => false
  end.

Definition or_insert_wf (f : fn_def) (lock : string) : bool :=
  match fn_body f with
  | [ELetS (PIdent k None) (Some (ECall (EPath ["OwnedKey"; "new_with"])
                                    [EMethod (EMethod (EPath ["entry"]) "id" []) "clone" [];
                                     EMethod (EPath ["entry"]) "type_id" []])) None;
     ELetS (PIdent m None) (Some guard) None;
     ELetS (PIdent e None) (Some (EMethod (EMethod (EPath [m']) "entry" [EPath [k']]) "or_insert" [EPath ["entry"]])) None;
     EBlock [EMethod (EMethod (EPath [e']) "inner" []) "extend_lifetime" []]] =>
      calls_method lock guard && String.eqb m m' && String.eqb k k' && String.eqb e e'
  | _ => false
  end.

Definition shard_index_wf (f : fn_def) : bool :=
  existsb (fun e => match e with
                    | ELetS (PIdent _ None)
                        (Some (EBinary "&" (ECast (EMethod (EPath ["hasher"]) "finish" []) _)
                                 (EBinary "-" (EMethod (EField (EPath ["self"]) "shards") "len" []) (ELit (LInt 1%N))))) None => true
                    | _ => false
                    end) (fn_body f)
  && existsb (fun e => match e with ESemi (EMethod (EPath ["key"]) "hash" _) => true | _ => false end) (fn_body f).

Definition take_wf (f : fn_def) : bool :=
  match fn_body f with
  | [ELetS (PIdent k None) (Some (ECall (EPath ["BorrowedKey"; "new_with"]) [EPath ["id"]; EPath ["type_id"]])) None;
     EMethod _ "remove" [ECast (ERef (EPath [k'])) _]] => String.eqb k k'
  | _ => false
  end.

Lemma maps_as_modelled :
  keyed_lookup Gen.CacheMap.AssetMap_get "read" "get" = true /\
  keyed_lookup Gen.CacheMap.AssetMap_contains_key "read" "contains_key" = true /\
  or_insert_wf Gen.CacheMap.AssetMap_insert "write" = true /\
  take_wf Gen.CacheMap.AssetMap_take = true /\
  shard_index_wf Gen.CacheMap.AssetMap_get_shard = true /\
  keyed_lookup Gen.LocalMap.AssetMap_get "borrow" "get" = true /\
  keyed_lookup Gen.LocalMap.AssetMap_contains_key "borrow" "contains_key" = true /\
  or_insert_wf Gen.LocalMap.AssetMap_insert "borrow_mut" = true /\
  take_wf Gen.LocalMap.AssetMap_take = true.
Proof. vm_compute. repeat split. Qed.
