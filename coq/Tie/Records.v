(* T1 tie for dependency recording (src/hot_reloading/records.rs, src/anycache.rs, src/asset.rs):
   the printed functions have the shapes the model's recording semantics (Ref/Sys.v: rec_push,
   rec_pop, rec_add, load_and_record, get_cached_rec, cache_read) assumes. *)
From Coq Require Import List String Bool Arith.
From AM Require Import Rust.Ast Rust.Syntax Gen.Records Gen.Anycache Gen.Asset.
Import ListNotations.
Open Scope string_scope.

Definition with_body (f : fn_def) : list expr :=
  match fn_body f with
  | [EMethod (EPath ["RECORDING"]) "with" [EClosure [PIdent _ None] (EBlock b)]] => b
  | [ESemi (EMethod (EPath ["RECORDING"]) "with" [EClosure [PIdent _ None] (EBlock b)])] => b
  | _ => []
  end.

(* record: a FRESH record is installed through a drop guard BEFORE the closure runs, and the
   result is the closure's result with what that record collected *)
Definition record_wf (f : fn_def) : bool :=
  match with_body f with
  | [ELetS (PIdent r None) (Some (ECall (EPath ["Record"; "new"]) [EPath ["reloader"]])) None;
     ELetS (PIdent _ None) (Some (ECall (EPath ["CellGuard"; "replace"])
                                   [EPath [_]; ECall (EPath ["Some"]) [ECall (EPath ["NonNull"; "from"]) [ERef (EPath [r'])]]])) None;
     ELetS (PIdent res None) (Some (ECall (EPath ["f"]) [])) None;
     ETuple [EPath [res']; EField (EPath [r'']) "records"]] =>
      String.eqb r r' && String.eqb r r'' && String.eqb res res'
  | _ => false
  end.

Definition no_record_wf (f : fn_def) : bool :=
  match with_body f with
  | [ELetS (PIdent _ None) (Some (ECall (EPath ["CellGuard"; "replace"]) [EPath [_]; EPath ["None"]])) None;
     ECall (EPath ["f"]) []] => true
  | _ => false
  end.

(* the guard remembers the previous cell content and puts it back when dropped (normal exit and
   unwinding alike) *)
Definition guard_wf (replace drop : fn_def) : bool :=
  match fn_body replace, fn_body drop with
  | [ELetS (PIdent v None) (Some (EMethod (EPath ["cell"]) "replace" [EPath ["new_value"]])) None;
     EStruct ["Self"] [("cell", EPath ["cell"]); ("val", EPath [v'])]],
    [ESemi (EMethod (EField (EPath ["self"]) "cell") "set" [EField (EPath ["self"]) "val"])] =>
      String.eqb v v'
  | _, _ => false
  end.

(* add_*_record write into the CURRENT record only, if there is one; Record::insert_* ignore
   records of another reloader *)
Definition add_record_wf (f : fn_def) (m : string) : bool :=
  match with_body f with
  | [EIf (ELet (PTupleStruct ["Some"] [PIdent _ None]) (EMethod (EPath [_]) "get" [])) t None] =>
      existsb (calls_method m) t
  | _ => false
  end.

Definition insert_checks_reloader (f : fn_def) : bool :=
  match fn_body f with
  | [EIf (EBinary "==" (EField (EPath ["self"]) "reloader") (EPath ["reloader"])) [_] None] => true
  | _ => false
  end.

Lemma records_shapes :
  record_wf record = true /\ no_record_wf no_record = true /\
  guard_wf CellGuard_replace CellGuard_drop = true /\
  add_record_wf add_record "insert_asset" = true /\
  add_record_wf add_file_record "insert_file" = true /\
  add_record_wf add_dir_record "insert_dir" = true /\
  insert_checks_reloader Record_insert_asset = true /\
  insert_checks_reloader Record_insert_file = true /\
  insert_checks_reloader Record_insert_dir = true.
Proof. vm_compute. repeat split. Qed.

(* the public no_record of a cache view suspends recording unconditionally: recording belongs to
   the thread, whichever cache (with or without a reloader) the method is called on *)
Definition public_no_record_wf (f : fn_def) : bool :=
  match fn_body f with
  | [EBlock [ECall (EPath ["records"; "no_record"]) [EPath ["f"]]]] => true
  | _ => false
  end.
Lemma anycache_no_record_is_unconditional : public_no_record_wf AnyCache_no_record = true.
Proof. vm_compute. reflexivity. Qed.

(* Cache::read / read_dir: the entry is recorded, then the source is asked *)
Definition read_records_first (f : fn_def) (recorder : string) : bool :=
  match fn_body f with
  | [EIf (ELet (PTupleStruct ["Some"] [PIdent _ None]) (EMethod (EPath ["self"]) "reloader" []))
         [ESemi (ECall (EPath ["records"; r]) _)] None;
     EMethod (EMethod (EPath ["self"]) "get_source" []) _ _] => String.eqb r recorder
  | _ => false
  end.

(* get_cached_entry_inner: for a hot-reloaded type and a cache with a reloader the look-up is
   recorded whether or not the entry is there, BEFORE anything else happens *)
Definition lookup_recorded (f : fn_def) : bool :=
  match fn_body f with
  | [EIf (EMethod (EPath ["typ"]) "is_hot_reloaded" [])
         [EIf (ELet (PTupleStruct ["Some"] [PIdent _ None]) (EMethod (EPath ["self"]) "reloader" []))
              [ELetS _ (Some (EMatch _ [_; _])) None;
               ESemi (ECall (EPath ["records"; "add_record"]) _);
               ESemi (EReturn (Some (EPath ["entry"])))] None] None;
     EMethod (EMethod (EPath ["self"]) "assets" []) "get" _] => true
  | _ => false
  end.

(* load_entry: look-up (recorded) first, add_asset only on a miss *)
Definition load_entry_wf (f : fn_def) : bool :=
  match fn_body f with
  | [EMatch (EMethod (EPath ["self"]) "get_cached_entry_inner" _)
       [(PTupleStruct ["Some"] [PIdent e None], None, ECall (EPath ["Ok"]) [EPath [e']]);
        (PIdent "None" None, None, EMethod (EPath ["self"]) "add_asset" _)]] => String.eqb e e'
  | _ => false
  end.

(* load_owned_entry: recorded as a dependency, then load_and_record; the map is not consulted *)
Definition load_owned_wf (f : fn_def) : bool :=
  let b := fn_body f in
  existsb (fun e => match e with
                    | EIf (EMethod (EPath ["typ"]) "is_hot_reloaded" []) t None =>
                        existsb (fun x => existsb (fun y => match y with ECall (EPath ["records"; "add_record"]) _ => true | _ => false end)
                                            (subexprs depth_fuel x)) t
                    | _ => false
                    end) b
  && match last b (EOther "") with ECall (EPath ["crate"; "asset"; "load_and_record"]) _ => true | _ => false end
  && negb (existsb (calls_method "get") b) && negb (existsb (calls_method "insert") b).

(* load_and_record: hot-reloaded type + reloader => the load runs inside `record` and its
   dependencies are registered only if it succeeded; otherwise the load runs as is *)
Definition load_and_record_wf (f : fn_def) : bool :=
  match fn_body f with
  | [EIf (EMethod (EPath ["typ"]) "is_hot_reloaded" [])
         [EIf (ELet (PTupleStruct ["Some"] [PIdent _ None]) (EMethod (EPath ["cache"]) "reloader" []))
              [ELetS (PTuple [PIdent en None; PIdent deps None])
                 (Some (ECall (EPath ["crate"; "hot_reloading"; "records"; "record"]) [EPath ["reloader"]; EClosure [] _])) None;
               EIf (EMethod (EPath [en']) "is_ok" [])
                   [ESemi (EMethod (EPath ["reloader"]) "add_asset" [EPath ["id"]; EPath [deps']; EPath ["typ"]])] None;
               ESemi (EReturn (Some (EPath [en''])))] None] None;
     ECall (EField (EField (EPath ["typ"]) "inner") "load") _] =>
      String.eqb en en' && String.eqb en en'' && String.eqb deps deps'
  | _ => false
  end.

(* add_asset, the slow path of a load: load (recorded), then hand the entry to the map's insert --
   nothing else looks at or writes the map in between (who loses a creation race is decided by
   insert alone, and drops its value there) *)
Definition add_asset_wf (f : fn_def) : bool :=
  match fn_body f with
  | [ESemi (EMacro "trace" _);
     ELetS (PIdent "id" None) (Some (ECall (EPath ["SharedString"; "from"]) [EPath ["id"]])) None;
     ELetS (PIdent c None) (Some (EStruct ["AnyCache"] [("cache", EPath ["self"])])) None;
     ELetS (PIdent e None) (Some (ETry (ECall (EPath ["crate"; "asset"; "load_and_record"]) [EPath [c']; EPath ["id"]; EPath ["typ"]]))) None;
     ECall (EPath ["Ok"]) [EMethod (EMethod (EPath ["self"]) "assets" []) "insert" [EPath [e']]]] =>
      String.eqb c c' && String.eqb e e'
  | _ => false
  end.
Lemma add_asset_loads_then_inserts : add_asset_wf RawCache_add_asset = true.
Proof. vm_compute. reflexivity. Qed.

Lemma recording_call_sites :
  read_records_first Cache_read "add_file_record" = true /\
  read_records_first Cache_read_dir "add_dir_record" = true /\
  lookup_recorded Cache_get_cached_entry_inner = true /\
  load_entry_wf Cache_load_entry = true /\
  load_owned_wf Cache_load_owned_entry = true /\
  load_and_record_wf load_and_record = true.
Proof. vm_compute. repeat split. Qed.
