(* T1 tie for C10: which entries are created reloadable, and what a reload skips. *)
From Coq Require Import List String Bool.
From AM Require Import Rust.Ast Rust.Syntax Gen.Entry Gen.Anycache.
Import ListNotations.
Open Scope string_scope.

(* CacheEntry::new: reloadable only if the TYPE is hot-reloaded AND the caller's closure says so *)
Definition entry_new_wf (f : fn_def) : bool :=
  match fn_body f with
  | [ELetS (PIdent inner None)
       (Some (EIf (EBinary "&&" (EPath ["T"; "HOT_RELOADED"]) (ECall (EPath [m]) []))
                  [ECall (EPath ["EntryStorage"; "new_dynamic"]) _]
                  (Some (EBlock [ECall (EPath ["EntryStorage"; "new_static"]) _])))) None;
     ECall (EPath ["CacheEntry"]) [ECall (EPath ["Box"; "new"]) [EPath [inner']]]] =>
      String.eqb inner inner' && String.eqb m "_mutable"
  | _ => false
  end.

Lemma entry_dynamic_iff_type_and_cache : entry_new_wf CacheEntry_new = true.
Proof. vm_compute. reflexivity. Qed.

(* add_any (the insertion path of get_or_insert) never asks for a reloadable entry *)
Definition add_any_static (f : fn_def) : bool :=
  existsb (fun e => match e with
                    | ECall (EPath ["CacheEntry"; "new"]) [_; _; EClosure [] (ELit (LBool false))] => true
                    | _ => false
                    end) (flat_map (subexprs depth_fuel) (fn_body f))
  && Nat.eqb (List.length (filter (fun e => match e with ECall (EPath ["CacheEntry"; "new"]) _ => true | _ => false end)
                             (flat_map (subexprs depth_fuel) (fn_body f)))) 1.

Lemma get_or_insert_entries_are_static : add_any_static CacheExt_add_any = true.
Proof. vm_compute. reflexivity. Qed.

(* reload_untyped: after the look-up, a non-reloadable entry makes it return before anything is
   loaded or written *)
Definition reload_skips_static (f : fn_def) : bool :=
  let b := fn_body f in
  match find_index (fun e => match e with
                             | EIf (EUnary "!" (EMethod (EPath ["handle"]) "is_dynamic" []))
                                   [ESemi (EReturn (Some (EPath ["None"])))] None => true
                             | _ => false
                             end) b,
        find_index (fun e => calls_method "write" e) b,
        find_index (fun e => match e with ELetS (PTuple _) _ _ => true | _ => false end) b with
  | Some i, Some j, Some l => Nat.ltb i j && Nat.ltb i l
  | _, _, _ => false
  end.

Lemma reload_leaves_static_entries_alone : reload_skips_static AnyCache_reload_untyped = true.
Proof. vm_compute. reflexivity. Qed.

(* reload_untyped hands the newly recorded dependencies back ONLY after a successful reload (and
   after the write); a failed reload yields None, so the graph keeps the old dependencies *)
Definition reload_result_wf (f : fn_def) : bool :=
  match last (fn_body f) (EOther "") with
  | EMatch (EPath ["entry"])
      [(PTupleStruct ["Ok"] [PIdent e None], None, EBlock okb);
       (PTupleStruct ["Err"] [PIdent _ None], None, EBlock errb)] =>
      match find_index (calls_method "write") okb, last okb (EOther ""), last errb (EOther "") with
      | Some _, ECall (EPath ["Some"]) [EPath ["deps"]], EPath ["None"] =>
          negb (existsb (calls_method "write") errb)
      | _, _, _ => false
      end
  | _ => false
  end.

Lemma reload_keeps_old_dependencies_on_failure : reload_result_wf AnyCache_reload_untyped = true.
Proof. vm_compute. reflexivity. Qed.
