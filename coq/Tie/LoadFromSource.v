(* T1 tie (bounded): `load_from_source` as printed from src/asset.rs, run by the interpreter with
   the generic parameter's items (T::EXTENSIONS, T::Loader::load, T::default_value) and the source
   supplied as external functions, equals Ref.Load.load_from_source on EVERY extension list of
   length <= 3 and every combination of {not found, other I/O error, interrupted read, undecodable, loadable} per
   extension, for a default_value that passes the error through and for one that recovers.
   The `?` conversions From<io::Error>/From<BoxedError> for ErrorKind are folded into the externals.
   This is an exhaustive check of a finite space (bound in the statement), not the unbounded claim;
   the unbounded theorems are about Ref.Load (Proofs/Load.v). *)
From Coq Require Import List String NArith Bool.
From AM Require Import Rust.Ast Rust.Eval Gen.Error Gen.Asset Ref.Load Tie.Error.
Import ListNotations.
Open Scope string_scope.

Inductive attempt := ANotFound | AIoOther | AInterrupted | AConv | AOk.

Definition all_attempts := [ANotFound; AIoOther; AInterrupted; AConv; AOk].

(* the i-th extension is named e_i and carries tag i *)
Definition ext_names : list string := ["p"; "q"; "r"].

Definition read_of (atts : list (string * (attempt * N))) (e : string) : sum (iokind * N) (list N) :=
  match lookup e atts with
  | Some (ANotFound, t) => inl (KNotFound, t)
  | Some (AIoOther, t) => inl (KOther, t)
  | Some (AInterrupted, t) => inl (KInterrupted, t)
  | Some (_, t) => inr [t]
  | None => inl (KNotFound, 99%N)
  end.

Definition decode_of (atts : list (string * (attempt * N))) (b : list N) (e : string) : sum N N :=
  match lookup e atts with
  | Some (AConv, t) => inl t
  | Some (_, t) => inr (t + 100)%N
  | None => inl 98%N
  end.

Definition default_of (recover : bool) (e : ekind) : sum ekind N :=
  if recover then inr (Load.class e + 200)%N else inl e.

Definition val_of_result (r : sum ekind N) : val :=
  match r with
  | inl e => VCtor "Err" [enc e]
  | inr n => VCtor "Ok" [VN n]
  end.

Definition dec (v : val) : option ekind :=
  match v with
  | VCtor "NoDefaultValue" [] => Some ENoDefault
  | VCtor "Conversion" [VN t] => Some (EConv t)
  | VCtor "Io" [VCtor "IoError" [VCtor k []; VN t]] =>
      if String.eqb k "NotFound" then Some (EIo KNotFound t)
      else if String.eqb k "Interrupted" then Some (EIo KInterrupted t) else Some (EIo KOther t)
  | _ => None
  end.

Definition externs (atts : list (string * (attempt * N))) (recover : bool)
  (name : string) (args : list val) : option val :=
  if String.eqb name "T::EXTENSIONS" then Some (VList (map (fun x => VStr (fst x)) atts))
  else if String.eqb name ".read" then
    match args with
    | [_; _; VStr e] =>
        Some (match read_of atts e with
              | inl (k, t) => VCtor "Err" [enc (EIo k t)]
              | inr b => VCtor "Ok" [VList (map VN b)]
              end)
    | _ => None
    end
  else if String.eqb name "T::Loader::load" then
    match args with
    | [VList _; VStr e] =>
        Some (match decode_of atts [] e with
              | inl t => VCtor "Err" [enc (EConv t)]
              | inr n => VCtor "Ok" [VN n]
              end)
    | _ => None
    end
  else if String.eqb name "T::default_value" then
    match args with
    | [_; ev] => match dec ev with
                 | Some e => Some (val_of_result (default_of recover e))
                 | None => None
                 end
    | _ => None
    end
  else None.

Definition gen_load (atts : list (string * (attempt * N))) (recover : bool) : outcome :=
  snd (run_fn_x [("*::or", ErrorKind_or)] (externs atts recover) 24 Gen.Asset.load_from_source
         [VCtor "Source" []; VStr "some.id"]).

Definition ref_load (atts : list (string * (attempt * N))) (recover : bool) : outcome :=
  ONorm (val_of_result
           (Load.load_from_source (read_of atts) (decode_of atts) (default_of recover) (map fst atts))).

Fixpoint outcome_eqb (a b : outcome) : bool :=
  match a, b with
  | ONorm x, ONorm y => val_eqb x y
  | _, _ => false
  end.

(* all assignments of attempts to the first n extension names *)
Fixpoint assignments (names : list string) (i : N) : list (list (string * (attempt * N))) :=
  match names with
  | [] => [[]]
  | n :: r =>
      flat_map (fun rest => map (fun a => (n, (a, i)) :: rest) all_attempts) (assignments r (i + 1)%N)
  end.

Definition all_cases : list (list (string * (attempt * N))) :=
  flat_map (fun k => assignments (firstn k ext_names) 1%N) [0; 1; 2; 3]%nat.

Lemma load_from_source_bounded_tie :
  forallb (fun atts => outcome_eqb (gen_load atts false) (ref_load atts false)
                       && outcome_eqb (gen_load atts true) (ref_load atts true)) all_cases = true
  /\ List.length all_cases = 156%nat.
Proof. vm_compute. split; reflexivity. Qed.

(* the shape around the interpreted tie (slice patterns and the like are outside the interpreter):
   the closure, the initial error, ONE loop over T::EXTENSIONS, then default_value -- whatever the
   length of the extension list, nothing returns before the loop or skips default_value *)
Definition load_from_source_shape (f : fn_def) : bool :=
  match fn_body f with
  | [ELetS (PIdent "load_with_ext" None) (Some (EClosure [PIdent _ None] _)) None;
     ELetS (PIdent "error" None) (Some (EPath ["ErrorKind"; "NoDefaultValue"])) None;
     EFor (PIdent e None) (EPath ["T"; "EXTENSIONS"]) [EMatch (ECall (EPath ["load_with_ext"]) [EPath [e']]) [_; _]];
     ECall (EPath ["T"; "default_value"]) [EPath ["id"]; EMethod (EPath ["error"]) "into" []]] => String.eqb e e'
  | _ => false
  end.
Lemma load_from_source_has_one_path : load_from_source_shape Gen.Asset.load_from_source = true.
Proof. vm_compute. reflexivity. Qed.
