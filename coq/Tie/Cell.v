(* T1 tie for src/utils/cell.rs: the shapes the OnceInitCell state machine (Ref/OnceInit.v) assumes. *)
From Coq Require Import List String Bool Arith.
From AM Require Import Rust.Ast Rust.Syntax Gen.Cell.
Import ListNotations.
Open Scope string_scope.

(* get only reads the OnceCell: no initialisation, no waiting *)
Definition get_wf (f : fn_def) : bool :=
  match fn_body f with
  | [EMatch (EMethod (EField (EPath ["self"]) "once") "get" [])
       [(PTupleStruct ["Some"] [PWild], None, EBlock [ECall (EPath ["Some"]) [EMethod (EPath ["self"]) "get_unchecked" []]]);
        (PIdent "None" None, None, EPath ["None"])]] => true
  | _ => false
  end.

Definition dispatch_wf (f : fn_def) : bool :=
  match fn_body f with
  | [EIf (ECall (EPath ["std"; "mem"; "needs_drop"]) [])
         [EMethod (EPath ["self"]) "get_or_try_init_default" [EPath ["f"]]]
         (Some (EBlock [EMethod (EPath ["self"]) "get_or_try_init_no_drop" [EPath ["f"]]]))] => true
  | _ => false
  end.

(* inside the OnceCell closure: the user's initialiser runs FIRST and its failure leaves (`?`)
   before the union is touched; only then is the value stored *)
Definition closure_body (f : fn_def) : list expr :=
  flat_map (fun e => match e with
                     | EMethod (EField (EPath ["self"]) "once") "get_or_try_init" [EClosure [] (EBlock b)] => b
                     | _ => []
                     end) (flat_map (subexprs depth_fuel) (fn_body f)).

Definition is_user_init (e : expr) : bool :=
  match e with
  | ELetS (PIdent "value" None) (Some (ETry (ECall (EPath ["f"]) [ERef (EField (EPath ["state"]) "uninit")]))) None => true
  | _ => false
  end.

Definition default_wf (f : fn_def) : bool :=
  let b := closure_body f in
  match find_index is_user_init b,
        find_index (fun e => existsb (fun x => match x with ECall (EPath ["std"; "mem"; "replace"]) [EPath ["state"]; _] => true | _ => false end)
                                (subexprs depth_fuel e)) b,
        find_index (fun e => match e with ESemi (EAssign (EPath ["uninit_value"]) (ECall (EPath ["Some"]) _)) => true | _ => false end) b with
  | Some i, Some j, Some k => Nat.ltb i j && Nat.ltb j k
  | _, _, _ => false
  end
  (* the seed that escaped the closure is dropped after get_or_try_init returned, outside it *)
  && existsb (fun e => match e with
                       | EIf (ELet (PTupleStruct ["Some"] [PIdent v None]) (EPath ["uninit_value"]))
                             [ESemi (ECall (EPath ["drop_cold"]) [EPath [v']])] None => String.eqb v v'
                       | _ => false
                       end) (flat_map (subexprs depth_fuel) (fn_body f))
  && negb (existsb (calls_method "drop_cold") (closure_body f)).

Definition no_drop_wf (f : fn_def) : bool :=
  let b := closure_body f in
  match find_index is_user_init b,
        find_index (fun e => match e with ESemi (EAssign (EUnary "*" (EPath ["state"])) (EStruct ["State"] [("init", _)])) => true | _ => false end) b with
  | Some i, Some j => Nat.ltb i j
  | _, _ => false
  end.

(* Drop: the value if the OnceCell is set, the seed otherwise; exactly one of them *)
Definition drop_wf (f : fn_def) : bool :=
  match fn_body f with
  | [EBlock [ELetS (PIdent "data" None) (Some (EMethod (EField (EPath ["self"]) "data") "get_mut" [])) None;
             EMatch (EMethod (EField (EPath ["self"]) "once") "get_mut" [])
               [(PTupleStruct ["Some"] [PWild], None, ECall (EPath ["ManuallyDrop"; "drop"]) [ERef (EField (EPath ["data"]) "init")]);
                (PIdent "None" None, None, ECall (EPath ["ManuallyDrop"; "drop"]) [ERef (EField (EPath ["data"]) "uninit")])]]] => true
  | _ => false
  end.

(* get_or_init IS get_or_try_init with an initialiser that cannot fail (same ownership of the seed
   on every path, panics included) *)
Definition get_or_init_wf (f : fn_def) : bool :=
  match fn_body f with
  | [EMatch (EMethod (EPath ["self"]) "get_or_try_init" [EClosure [PIdent u None] (ECall (EPath ["Ok"]) [ECall (EPath ["f"]) [EPath [u']]])])
       [(PTupleStruct ["Ok"] [PIdent v None], None, EPath [v']);
        (PTupleStruct ["Err"] [PIdent n None], None, EMatch (EPath [n']) [])]] =>
    String.eqb u u' && String.eqb v v' && String.eqb n n'
  | _ => false
  end.
Lemma get_or_init_delegates : get_or_init_wf OnceInitCell_get_or_init = true.
Proof. vm_compute. reflexivity. Qed.

(* the two constructors agree with the once state: `new` = empty OnceCell + seed arm, `with_value` =
   set OnceCell + value arm; get_unchecked reads the value arm; drop_cold only drops its argument;
   the Compound impl wraps the loaded seed with `new` *)
Definition ctor_wf (f : fn_def) (once_ctor arm : string) : bool :=
  match fn_body f with
  | [EStruct ["Self"] [("once", ECall (EPath ["OnceCell"; oc]) _);
                       ("data", ECall (EPath ["UnsafeCell"; "new"]) [EStruct ["State"] [(a, ECall (EPath ["ManuallyDrop"; "new"]) [EPath ["value"]])]])]] =>
    String.eqb oc once_ctor && String.eqb a arm
  | _ => false
  end.
Definition get_unchecked_wf (f : fn_def) : bool :=
  match fn_body f with
  | [ERef (EField (EUnary "*" (EMethod (EField (EPath ["self"]) "data") "get" [])) "init")] => true
  | _ => false
  end.
Definition load_wraps_new (f : fn_def) : bool :=
  match fn_body f with
  | [ECall (EPath ["Ok"]) [ECall (EPath ["OnceInitCell"; "new"]) [ETry (ECall (EPath ["U"; "load"]) [EPath ["cache"]; EPath ["id"]])]]] => true
  | _ => false
  end.
Lemma cell_constructors_agree_with_the_once_state :
  ctor_wf OnceInitCell_new "new" "uninit" = true /\ ctor_wf OnceInitCell_with_value "with_value" "init" = true /\
  get_unchecked_wf OnceInitCell_get_unchecked = true /\ fn_body drop_cold = [] /\
  load_wraps_new OnceInitCell_load = true.
Proof. vm_compute. repeat split. Qed.

Lemma cell_as_modelled :
  get_wf OnceInitCell_get = true /\ dispatch_wf OnceInitCell_get_or_try_init = true /\
  default_wf OnceInitCell_default = true /\ no_drop_wf OnceInitCell_no_drop = true /\
  drop_wf OnceInitCell_drop = true.
Proof. vm_compute. repeat split. Qed.

(* the cell's once-state is the thread-safe OnceCell *)
Lemma once_cell_is_the_sync_one : fn_body OnceCell_import = [EPath ["once_cell"; "sync"; "OnceCell"]].
Proof. vm_compute. reflexivity. Qed.
