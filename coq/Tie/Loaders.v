(* T1 tie for the built-in loaders (src/loader/mod.rs): ParseLoader validates UTF-8, trims with
   str::trim and parses; StringLoader validates and keeps the bytes (all three targets); BytesLoader
   hands the content on; LoadFrom converts the inner loader's result.  (Ref/Loaders.v is what these
   compute: str::from_utf8 / String::from_utf8 = Ref.Utf8.decode, str::trim = Loaders.trim,
   i64::from_str = Loaders.parse_i64 -- std's side of that is exercised by the `loaddiff` engine.) *)
From Coq Require Import List String.
From AM Require Import Rust.Ast Gen.Loaders.
Import ListNotations.
Open Scope string_scope.

Definition parse_loader_wf (f : fn_def) : bool :=
  match fn_body f with
  | [ECall (EPath ["Ok"])
       [ETry (EMethod (EMethod (ETry (ECall (EPath ["str"; "from_utf8"]) [ERef (EPath ["content"])])) "trim" []) "parse" [])]] => true
  | _ => false
  end.
Definition load_from_wf (f : fn_def) : bool :=
  match fn_body f with
  | [ECall (EPath ["Ok"]) [EMethod (ETry (ECall (EPath ["L"; "load"]) [EPath ["content"]; EPath ["ext"]])) "into" []]] => true
  | _ => false
  end.
Definition hands_on (m : string) (f : fn_def) : bool :=
  match fn_body f with
  | [ECall (EPath ["Ok"]) [EMethod (EPath ["content"]) m' []]] => String.eqb m m'
  | _ => false
  end.
Definition string_wf (f : fn_def) : bool :=
  match fn_body f with
  | [ECall (EPath ["Ok"]) [ETry (ECall (EPath ["String"; "from_utf8"]) [EMethod (EPath ["content"]) "into_owned" []])]] => true
  | _ => false
  end.
Definition boxed_str_wf (f : fn_def) : bool :=
  match fn_body f with
  | [EMethod (ECall (EPath ["StringLoader"; "load"]) [EPath ["content"]; EPath ["ext"]]) "map" [EPath ["String"; "into_boxed_str"]]] => true
  | _ => false
  end.
Definition shared_str_wf (f : fn_def) : bool :=
  match fn_body f with
  | [ECall (EPath ["Ok"])
       [EMatch (EPath ["content"])
          [(PTupleStruct ["Cow"; "Owned"] [PIdent o None], None,
            EMethod (ETry (ECall (EPath ["String"; "from_utf8"]) [EPath [o']])) "into" []);
           (PTupleStruct ["Cow"; "Borrowed"] [PIdent b None], None,
            EMethod (ETry (ECall (EPath ["str"; "from_utf8"]) [EPath [b']])) "into" [])]]] =>
      String.eqb o o' && String.eqb b b'
  | _ => false
  end.

Lemma loaders_as_modelled :
  parse_loader_wf ParseLoader_load = true /\ load_from_wf LoadFrom_load = true /\
  hands_on "into_owned" BytesLoader_load_vec = true /\ hands_on "into" BytesLoader_load_box = true /\
  hands_on "into" BytesLoader_load_shared = true /\
  string_wf StringLoader_load_string = true /\ boxed_str_wf StringLoader_load_box = true /\
  shared_str_wf StringLoader_load_shared = true.
Proof. vm_compute. repeat split. Qed.
