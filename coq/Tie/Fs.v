(* T1 tie for the FileSystem source (src/source/filesystem.rs): read hands back exactly what fs::read
   returned for the entry's path (whatever its length; errors are only annotated with the path),
   exists asks is_file / is_dir of that path, path_of is path_of_entry on the root, read_dir names
   each child by its stem under the directory's id.  The bodies are compared as printed. *)
From Coq Require Import List String.
From AM Require Import Rust.Ast Gen.Fs.
Import ListNotations.
Open Scope string_scope.

Definition expected_FileSystem_read : list expr :=
  [(ELetS (PIdent "path" None) (Some (EMethod (EPath ["self"]) "path_of" [(ECall (EPath ["DirEntry"; "File"]) [(EPath ["id"]); (EPath ["ext"])])])) None); (EMatch (ECall (EPath ["fs"; "read"]) [(ERef (EPath ["path"]))]) [((PTupleStruct ["Ok"] [(PIdent "buf" None)]), None, (ECall (EPath ["Ok"]) [(ECall (EPath ["super"; "FileContent"; "Buffer"]) [(EPath ["buf"])])])); ((PTupleStruct ["Err"] [(PIdent "err" None)]), None, (ECall (EPath ["Err"]) [(ECall (EPath ["read_error"]) [(EPath ["err"]); (EPath ["path"])])]))])].

Definition expected_FileSystem_exists : list expr :=
  [(ELetS (PIdent "path" None) (Some (EMethod (EPath ["self"]) "path_of" [(EPath ["entry"])])) None); (EMatch (EPath ["entry"]) [((PTupleStruct ["DirEntry"; "File"] [PRest]), None, (EMethod (EPath ["path"]) "is_file" [])); ((PTupleStruct ["DirEntry"; "Directory"] [PWild]), None, (EMethod (EPath ["path"]) "is_dir" []))])].

Definition expected_FileSystem_path_of : list expr :=
  [(ECall (EPath ["crate"; "utils"; "path_of_entry"]) [(ERef (EField (EPath ["self"]) "path")); (EPath ["entry"])])].

Definition expected_FileSystem_read_dir : list expr :=
  [(ELetS (PIdent "dir_path" None) (Some (EMethod (EPath ["self"]) "path_of" [(ECall (EPath ["DirEntry"; "Directory"]) [(EPath ["id"])])])) None); (ELetS (PIdent "entries" None) (Some (ETry (EMethod (ECall (EPath ["fs"; "read_dir"]) [(ERef (EPath ["dir_path"]))]) "map_err" [(EClosure [(PIdent "err" None)] (ECall (EPath ["read_error"]) [(EPath ["err"]); (EPath ["dir_path"])]))]))) None); (ELetS (PIdent "entry_id" None) (Some (EMethod (EPath ["id"]) "to_owned" [])) None); (EFor (PIdent "entry" None) (EMethod (EPath ["entries"]) "flatten" []) [(ELetS (PIdent "path" None) (Some (EMethod (EPath ["entry"]) "path" [])) None); (ELetS (PIdent "name" None) (Some (EMatch (EMethod (EMethod (EPath ["path"]) "file_stem" []) "and_then" [(EClosure [(PIdent "n" None)] (EMethod (EPath ["n"]) "to_str" []))]) [((PTupleStruct ["Some"] [(PIdent "name" None)]), None, (EPath ["name"])); ((PIdent "None" None), None, EContinue)])) None); (ELetS (PIdent "this_id" None) (Some (EIf (EUnary "!" (EMethod (EPath ["id"]) "is_empty" [])) [(ESemi (EMethod (EPath ["entry_id"]) "truncate" [(EMethod (EPath ["id"]) "len" [])])); (ESemi (EMethod (EPath ["entry_id"]) "extend" [(EMethod (EMethod (EArray [(ELit (LStr ".")); (EPath ["name"])]) "iter" []) "copied" [])])); (ERef (EPath ["entry_id"]))] (Some (EBlock [(EPath ["name"])])))) None); (EIf (EMethod (EPath ["path"]) "is_file" []) [(EIf (ELet (PTupleStruct ["Some"] [(PIdent "ext" None)]) (ECall (EPath ["extension_of"]) [(ERef (EPath ["path"]))])) [(ESemi (ECall (EPath ["f"]) [(ECall (EPath ["DirEntry"; "File"]) [(EPath ["this_id"]); (EPath ["ext"])])]))] None)] (Some (EIf (EMethod (EPath ["path"]) "is_dir" []) [(ESemi (ECall (EPath ["f"]) [(ECall (EPath ["DirEntry"; "Directory"]) [(EPath ["this_id"])])]))] None)))]); (ECall (EPath ["Ok"]) [(ETuple [])])].

Lemma filesystem_source_as_modelled :
  fn_body FileSystem_read = expected_FileSystem_read /\
  fn_body FileSystem_exists = expected_FileSystem_exists /\
  fn_body FileSystem_path_of = expected_FileSystem_path_of /\
  fn_body FileSystem_read_dir = expected_FileSystem_read_dir.
Proof. vm_compute. repeat split. Qed.
