(* T1 tie for the hot_reload request/answer protocol: the functions rs2v printed from
   src/hot_reloading/mod.rs have exactly the shapes the deadlock-freedom theorem is about. *)
From Coq Require Import List String Bool.
From AM Require Import Rust.Ast Rust.Syntax Rust.Script Gen.HotReloading.
Import ListNotations.
Open Scope string_scope.

(* Answers::notify is the producer role, Answers::wait_for_answer the consumer role (with the
   notification after the slot is emptied). *)
Lemma notify_is_producer : mailbox_acts Answers_notify = producer_shape.
Proof. vm_compute. reflexivity. Qed.

Lemma wait_for_answer_is_consumer : mailbox_acts Answers_wait_for_answer = consumer_shape.
Proof. vm_compute. reflexivity. Qed.

(* tokens come from one fetch_add on a counter: pairwise distinct *)
Definition token_source_wf (f : fn_def) : bool :=
  match fn_body f with
  | [EMethod (EField (EPath ["self"]) "next_token") "fetch_add" [ELit (LInt 1%N); _]] => true
  | _ => false
  end.

Lemma tokens_unique : token_source_wf Answers_get_unique_token = true.
Proof. vm_compute. reflexivity. Qed.

(* HotReloader::reload: take a fresh token, send Ptr(.., token), and if the send succeeded wait for
   the answer to that very token *)
Definition reload_wf (f : fn_def) : bool :=
  match fn_body f with
  | [ELetS (PIdent t0 None) (Some (EMethod (EField (EPath ["self"]) "answers") "get_unique_token" [])) None;
     EIf (EMethod (EMethod (EField (EPath ["self"]) "sender") "send"
                     [ECall (EPath ["CacheMessage"; "Ptr"]) [_; _; EPath [t1]]]) "is_ok" [])
         [ESemi (EMethod (EField (EPath ["self"]) "answers") "wait_for_answer" [EPath [t2]])] None] =>
      String.eqb t0 t1 && String.eqb t0 t2
  | _ => false
  end.

Lemma reload_is_caller : reload_wf HotReloader_reload = true.
Proof. vm_compute. reflexivity. Qed.

(* The reloader thread: the arm handling `Ptr(ptr, reloader, token)` runs the update and then
   answers with the token it received; nothing in between can leave the arm. *)
Definition is_ptr_arm (a : pat * option expr * expr) : bool :=
  match a with
  | (PTupleStruct ["Ok"] [PTupleStruct ["CacheMessage"; "Ptr"] [_; _; PIdent _ None]], None, _) => true
  | _ => false
  end.

Definition ptr_token (a : pat * option expr * expr) : string :=
  match a with
  | (PTupleStruct ["Ok"] [PTupleStruct ["CacheMessage"; "Ptr"] [_; _; PIdent t None]], _, _) => t
  | _ => ""
  end.

Definition all_arms (f : fn_def) : list (pat * option expr * expr) :=
  flat_map (fun e => match e with EMatch _ arms => arms | _ => [] end)
    (flat_map (subexprs depth_fuel) (fn_body f)).

Definition leaves_arm (e : expr) : bool :=
  existsb (fun x => match x with EReturn _ | EBreak | EContinue | ETry _ => true | _ => false end)
    (subexprs depth_fuel e).

Definition ptr_arm_wf (f : fn_def) : bool :=
  match filter is_ptr_arm (all_arms f) with
  | [a] =>
      let '(_, _, body) := a in
      let t := ptr_token a in
      match body with
      | EBlock [upd; ESemi (EMethod (EPath ["answers"]) "notify" [EPath [t']])] =>
          calls_method "update_if_local" upd && String.eqb t t' && negb (leaves_arm upd)
      | _ => false
      end
  | _ => false
  end.

Lemma thread_answers_each_ptr : ptr_arm_wf hot_reloading_thread = true.
Proof. vm_compute. reflexivity. Qed.

(* cache messages are drained before an event is taken (used by C05): the inner `loop` over
   `cache_msg.try_recv()` precedes the `events.try_recv()` statement in the outer loop body *)
Definition outer_loop_body (f : fn_def) : list expr :=
  flat_map (fun e => match e with ELoop b => b | _ => [] end) (fn_body f).

Definition drains_before_events (f : fn_def) : bool :=
  let b := outer_loop_body f in
  match find_index (fun e => match e with ELoop _ => calls_method_on "cache_msg" "try_recv" e | _ => false end) b,
        find_index (fun e => match e with ELoop _ => false | _ => calls_method_on "events" "try_recv" e end) b with
  | Some i, Some j => Nat.ltb i j
  | _, _ => false
  end.

Lemma cache_messages_first : drains_before_events hot_reloading_thread = true.
Proof. vm_compute. reflexivity. Qed.

(* the reloader BLOCKS until one of its two channels is ready: every turn of its loop starts with
   `select.ready()`, and nothing in the thread waits with a deadline, sleeps or polls the selector
   (no ready_timeout / ready_deadline / try_ready / recv_timeout / sleep): an idle reloader is never
   woken *)
Definition waits_without_deadline (f : fn_def) : bool :=
  match outer_loop_body f with
  | ELetS (PIdent "ready" None) (Some (EMethod (EPath ["select"]) "ready" [])) None :: _ =>
      forallb (fun m => negb (existsb (fun e => calls_method m e) (fn_body f)))
        ["ready_timeout"; "ready_deadline"; "try_ready"; "select_timeout"; "select_deadline"; "try_select";
         "recv_timeout"; "recv_deadline"; "sleep"; "park_timeout"; "wait_timeout"]
  | _ => false
  end.
Lemma reloader_blocks_until_there_is_work : waits_without_deadline hot_reloading_thread = true.
Proof. vm_compute. reflexivity. Qed.

(* The Condvar/Mutex wrappers of utils/private.rs, for both lock implementations: wait_while
   re-checks its predicate after every wake-up (a `while`, not an `if`), notify_all wakes all,
   lock locks. *)
From AM Require Import Gen.Private.

Definition wait_while_wf (f : fn_def) : bool :=
  match fn_body f with
  | [EBlock [EWhile (ECall (EPath ["condition"]) [ERef (EPath ["guard"])]) [body]; EPath ["guard"]]] =>
      match body with
      | ESemi (EAssign (EPath ["guard"]) (ECall (EPath ["wrap"]) [EMethod (EField (EPath ["self"]) "0") "wait" [EPath ["guard"]]])) => true
      | ESemi (EMethod (EField (EPath ["self"]) "0") "wait" [ERef (EPath ["guard"])]) => true
      | _ => false
      end
  | _ => false
  end.

Lemma wait_while_loops :
  wait_while_wf Condvar_wait_while = true /\ wait_while_wf Condvar_wait_while_pl = true.
Proof. vm_compute. split; reflexivity. Qed.

Lemma notify_all_notifies :
  fn_body Condvar_notify_all = [ESemi (EMethod (EField (EPath ["self"]) "0") "notify_all" [])].
Proof. vm_compute. reflexivity. Qed.

Lemma lock_locks :
  fn_body Mutex_lock = [ECall (EPath ["wrap"]) [EMethod (EField (EPath ["self"]) "0") "lock" []]].
Proof. vm_compute. reflexivity. Qed.

(* The reloader loop (C15): in the drain loop over `cache_msg.try_recv()`, an empty channel only
   leaves the drain loop while a DISCONNECTED channel (the cache was dropped) leaves the thread;
   a disconnected event channel leaves the outer loop. *)
Definition is_empty_arm (a : pat * option expr * expr) : bool :=
  match a with
  | (PTupleStruct ["Err"] [PPath p], None, EBreak) => String.eqb (last p "") "Empty"
  | _ => false
  end.

(* the arm leaves at once: nothing but a log line before the `return` (in particular it does not wait
   on the event channel for the source to hang up first) *)
Definition is_disconnected_exit_arm (a : pat * option expr * expr) : bool :=
  match a with
  | (PTupleStruct ["Err"] [PPath p], None, body) =>
      String.eqb (last p "") "Disconnected" &&
      match body with
      | EBlock [ESemi (EMacro _ _); ESemi (EReturn None)] => true
      | EBlock [ESemi (EReturn None)] => true
      | EReturn None => true
      | _ => false
      end
  | _ => false
  end.

Definition drain_loop_arms (f : fn_def) : list (pat * option expr * expr) :=
  flat_map (fun e => match e with
                     | ELoop [EMatch s arms] => if calls_method_on "cache_msg" "try_recv" s then arms else []
                     | _ => []
                     end) (outer_loop_body f).

Definition loop_exits_with_cache (f : fn_def) : bool :=
  let arms := drain_loop_arms f in
  existsb is_empty_arm arms && existsb is_disconnected_exit_arm arms
  (* no catch-all error arm that would swallow the disconnection *)
  && negb (existsb (fun a => match a with (PTupleStruct ["Err"] [PWild], _, _) => true | _ => false end) arms).

Lemma reloader_loop_exits_with_its_cache : loop_exits_with_cache hot_reloading_thread = true.
Proof. vm_compute. reflexivity. Qed.

(* the two channels of the reloader are unbounded: sending a cache message (also by the reloader
   itself, when a reload loads an asset for the first time) or an event never blocks -- the mailbox
   proof's producers and consumers make progress on their own *)
Definition creates_unbounded (tx rx : string) (f : fn_def) : bool :=
  Nat.eqb (List.length (filter (fun e => match e with
                                         | ELetS (PTuple [PIdent a None; PIdent b None]) (Some (ECall (EPath ["channel"; "unbounded"]) [])) None =>
                                           String.eqb a tx && String.eqb b rx
                                         | _ => false end) (fn_body f))) 1
  && negb (existsb (fun e => match e with
                             | ECall (EPath ["channel"; k]) _ => negb (String.eqb k "unbounded")
                             | _ => false end) (flat_map (subexprs depth_fuel) (fn_body f))).

(* the reloader thread is spawned with the platform's default stack (no stack_size): it is the thread
   that runs every loader of a pass and the recursive dependency walk *)
Definition spawns_with_default_stack (f : fn_def) : bool :=
  existsb (fun e => match e with
                    | ESemi (EMethod (EMethod (EMethod (ECall (EPath ["thread"; "Builder"; "new"]) []) "name" [_]) "spawn"
                                        [EClosure [] (ECall (EPath ["hot_reloading_thread"]) _)]) "unwrap" []) => true
                    | _ => false end) (fn_body f)
  && negb (existsb (fun e => match e with EMethod _ "stack_size" _ => true | _ => false end)
             (flat_map (subexprs depth_fuel) (fn_body f))).
Lemma reloader_thread_has_the_default_stack : spawns_with_default_stack HotReloader_start = true.
Proof. vm_compute. reflexivity. Qed.

(* HotReloader::make gives a reloader only to a source that can be cloned for it (make_source) AND
   whose hot-reloading started: both go through `?` before the thread is started *)
Definition make_wf (f : fn_def) : bool :=
  match fn_body f with
  | [ELetS (PIdent src None) (Some (ETry (EMethod (EPath ["source"]) "make_source" []))) None;
     ELetS (PTuple [PIdent tx None; PIdent rx None]) (Some (ECall (EPath ["channel"; "unbounded"]) [])) None;
     ESemi (ETry (EMethod (EMethod (EMethod (EPath ["source"]) "configure_hot_reloading" [ECall (EPath ["EventSender"]) [EPath [tx']]])
                             "map_err" [_]) "ok" []));
     ECall (EPath ["Some"]) [ECall (EPath ["Self"; "start"]) [EPath [rx']; EPath [src']]]] =>
      String.eqb src src' && String.eqb tx tx' && String.eqb rx rx'
  | _ => false
  end.
Lemma reloader_only_when_hot_reloading_started : make_wf HotReloader_make = true.
Proof. vm_compute. reflexivity. Qed.

Lemma reloader_channels_never_block_senders :
  creates_unbounded "cache_msg_tx" "cache_msg_rx" HotReloader_start = true /\
  creates_unbounded "events_tx" "events_rx" HotReloader_make = true.
Proof. vm_compute. split; reflexivity. Qed.

(* the event branch: an event is handled, an empty channel is nothing, a disconnected channel
   (the source let go of its sender) ends the loop -- it is never left permanently "ready" *)
Definition events_branch_wf (f : fn_def) : bool :=
  existsb (fun e => match e with
                    | EIf (EBinary "==" (EPath ["ready"]) (ELit (LInt 1%N)))
                        [EMatch s
                           [(PTupleStruct ["Ok"] [PIdent m None], None, EMethod (EPath ["cache"]) "handle_events" [EPath [m']]);
                            (PTupleStruct ["Err"] [PPath p1], None, ETuple []);
                            (PTupleStruct ["Err"] [PPath p2], None, leave)]] None =>
                      calls_method_on "events" "try_recv" s && String.eqb m m'
                      && String.eqb (last p1 "") "Empty" && String.eqb (last p2 "") "Disconnected"
                      && match leave with EBreak | EReturn None => true | EBlock b => existsb (fun x => match x with ESemi (EReturn None) | EBreak | ESemi EBreak => true | _ => false end) b | _ => false end
                    | _ => false
                    end) (outer_loop_body f).

Lemma reloader_leaves_when_events_are_over : events_branch_wf hot_reloading_thread = true.
Proof. vm_compute. reflexivity. Qed.

(* EventSender::send_multiple: only an iterator that is KNOWN to be empty (size_hint upper bound 0)
   returns without touching the channel; anything else is sent -- an empty batch included, which is
   how a watcher whose events name no asset still learns that its reloader is gone; a failed send
   is reported as Disconnected *)
Definition send_multiple_wf (f : fn_def) : bool :=
  match fn_body f with
  | [ELetS (PIdent "events" None) (Some (EMethod (EPath ["events"]) "into_iter" [])) None;
     ELetS (PIdent "event" None)
       (Some (EMatch (EField (EMethod (EPath ["events"]) "size_hint" []) "1")
          [(PTupleStruct ["Some"] [PLit (LInt 0%N)], None, EReturn (Some (ECall (EPath ["Ok"]) [ELit (LInt 0%N)])));
           (PTupleStruct ["Some"] [PLit (LInt 1%N)], None,
            EMatch (EMethod (EPath ["events"]) "next" [])
              [(PTupleStruct ["Some"] [PIdent e None], None, ECall (EPath ["Events"; "Single"]) [EPath [e']]);
               (PIdent "None" None, None, EReturn (Some (ECall (EPath ["Ok"]) [ELit (LInt 0%N)])))]);
           (PWild, None, ECall (EPath ["Events"; "Multiple"]) [EMethod (EPath ["events"]) "collect" []])])) None;
     ELetS (PIdent "len" None) _ None;
     EMatch (EMethod (EField (EPath ["self"]) "0") "send" [EPath ["event"]])
       [(PTupleStruct ["Ok"] [PTuple []], None, ECall (EPath ["Ok"]) [EPath ["len"]]);
        (PTupleStruct ["Err"] [PWild], None, ECall (EPath ["Err"]) [EPath ["Disconnected"]])]] => String.eqb e e'
  | _ => false
  end.
Definition send_wf (f : fn_def) : bool :=
  match fn_body f with
  | [EMethod (EMethod (EField (EPath ["self"]) "0") "send" [ECall (EPath ["Events"; "Single"]) [EPath ["event"]]]) "or"
       [ECall (EPath ["Err"]) [EPath ["Disconnected"]]]] => true
  | _ => false
  end.
Lemma senders_learn_about_a_gone_reloader :
  send_multiple_wf EventSender_send_multiple = true /\ send_wf EventSender_send = true.
Proof. vm_compute. split; reflexivity. Qed.
