(* T1 tie for src/dirs.rs (C11) and for the HOT_RELOADED forwarding constants (C10): shapes of the
   regenerated code that the tree specification (Ref/Tree.v: dir_ids, rec_dir_ids) assumes. *)
From Coq Require Import List String Bool Arith.
From AM Require Import Rust.Ast Rust.Syntax Gen.Dirs Gen.Flags.
Import ListNotations.
Open Scope string_scope.

(* select_ids: every File entry of read_dir(id) whose extension IS one of T::EXTENSIONS (slice
   `contains`: exact string equality), nothing else; a read_dir error leaves with `?` *)
Definition select_inner_wf (f : fn_def) : bool :=
  match fn_body f with
  | [ELetS (PIdent "ids" None) (Some (ECall (EPath ["Vec"; "new"]) [])) None;
     ESemi (ETry (EMethod (EMethod (EPath ["cache"]) "raw_source" []) "read_dir"
        [EPath ["id"];
         ERef (EClosure [PIdent "entry" None]
           (EBlock [EIf (ELet (PTupleStruct ["DirEntry"; "File"] [PIdent i None; PIdent x None]) (EPath ["entry"]))
                      [EIf (EMethod (EPath ["extensions"]) "contains" [ERef (EPath [x'])])
                         [ESemi (EMethod (EPath ["ids"]) "push" [EMethod (EPath [i']) "into" []])] None] None]))]));
     ECall (EPath ["Ok"]) [EPath ["ids"]]] => String.eqb i i' && String.eqb x x'
  | _ => false
  end.
Definition select_wf (f : fn_def) : bool :=
  match fn_body f with
  | [ECall (EPath ["inner"]) [EPath ["cache"]; EPath ["id"]; EPath ["T"; "EXTENSIONS"]]] => true
  | _ => false
  end.
(* sub_directories: exactly the Directory entries of read_dir(id) *)
Definition subdirs_wf (f : fn_def) : bool :=
  match fn_body f with
  | [EMethod (EMethod (EPath ["cache"]) "raw_source" []) "read_dir"
       [EPath ["id"];
        ERef (EClosure [PIdent "entry" None]
          (EBlock [EIf (ELet (PTupleStruct ["DirEntry"; "Directory"] [PIdent i None]) (EPath ["entry"]))
                     [ESemi (ECall (EPath ["f"]) [EPath [i']])] None]))]] => String.eqb i i'
  | _ => false
  end.
Definition arc_forwards (f : fn_def) (m : string) : bool :=
  match fn_body f with
  | [ECall (EPath ["T"; m']) args] =>
    String.eqb m m' && forallb (fun a => match a with EPath [_] => true | _ => false end) args
    && Nat.eqb (List.length args) (List.length (fn_params f))
  | _ => false
  end.
(* Directory::load: select, sort, dedup, nothing else; an error of select_ids is the load's error *)
Definition dir_load_wf (f : fn_def) : bool :=
  match fn_body f with
  | [ELetS (PIdent "ids" None) (Some (ETry (ECall (EPath ["T"; "select_ids"]) [EPath ["cache"]; EPath ["id"]]))) None;
     ESemi (EMethod (EPath ["ids"]) s []);
     ESemi (EMethod (EPath ["ids"]) "dedup" []);
     ECall (EPath ["Ok"]) [EStruct ["Directory"] (("ids", EPath ["ids"]) :: _)]] =>
    String.eqb s "sort_unstable" || String.eqb s "sort"
  | _ => false
  end.
(* RecursiveDirectory::load: own Directory (its error is the load's error), then for each
   sub-directory the child's ids if the child loads, silently nothing if it does not *)
Definition rec_load_wf (f : fn_def) : bool :=
  match fn_body f with
  | [ELetS (PIdent "this" None) (Some (ETry (EMethod (EPath ["cache"]) "load" [EPath ["id"]]))) None;
     ELetS (PIdent "ids" None) (Some (EMethod (EField (EMethod (EPath ["this"]) "read" []) "ids") "clone" [])) None;
     ESemi (ETry (ECall (EPath ["T"; "sub_directories"])
        [EPath ["cache"]; EPath ["id"];
         EClosure [PIdent c None]
           (EBlock [EIf (ELet (PTupleStruct ["Ok"] [PIdent ch None]) (EMethod (EPath ["cache"]) "load" [EPath [c']]))
                      [ESemi (EMethod (EPath ["ids"]) "extend_from_slice" [ERef (EField (EMethod (EPath [ch']) "read" []) "ids")])]
                      None])]));
     ECall (EPath ["Ok"]) [EStruct ["RecursiveDirectory"] (("ids", EPath ["ids"]) :: _)]] =>
    String.eqb c c' && String.eqb ch ch'
  | _ => false
  end.

Lemma dirs_as_specified :
  select_inner_wf select_ids_inner = true /\ select_wf select_ids = true /\
  subdirs_wf sub_directories = true /\ arc_forwards Arc_select_ids "select_ids" = true /\
  arc_forwards Arc_sub_directories "sub_directories" = true /\
  dir_load_wf Directory_load = true /\ rec_load_wf RecursiveDirectory_load = true.
Proof. vm_compute. repeat split. Qed.

(* wrappers take the reloadability of what they wrap; the type descriptor stores the type's flag *)
Definition forwards (f : fn_def) (ty : string) : bool :=
  match fn_body f with [EPath [t; "HOT_RELOADED"]] => String.eqb t ty | _ => false end.
Definition descriptor_wf (f : fn_def) : bool :=
  match fn_body f with
  | [ERef (EStruct ["Self"] (("hot_reloaded", EPath ["T"; "HOT_RELOADED"]) :: _))] => true
  | _ => false
  end.

Lemma hot_reloaded_flag_is_forwarded :
  forwards Arc_HOT_RELOADED "T" = true /\ forwards Blanket_HOT_RELOADED "Self" = true /\
  forwards Storable_HOT_RELOADED "T" = true /\ forwards OnceInit_HOT_RELOADED "U" = true /\
  forwards OnceInitOpt_HOT_RELOADED "U" = true /\
  descriptor_wf Inner_of_asset = true /\ descriptor_wf Inner_of_storable = true.
Proof. vm_compute. repeat split. Qed.

(* trait defaults: one extension given through EXTENSION is the whole extension list -- also when it
   is the empty string (files without extension); assets and compounds are reloadable unless they
   say otherwise, plain Storable values are not *)
Definition defaults_wf : bool :=
  match fn_body Asset_EXTENSIONS, fn_body Asset_EXTENSION, fn_body Asset_HOT_RELOADED,
        fn_body Compound_HOT_RELOADED, fn_body Storable_HOT_RELOADED_default with
  | [ERef (EArray [EPath ["Self"; "EXTENSION"]])], [ELit (LStr "")], [ELit (LBool true)],
    [ELit (LBool true)], [ELit (LBool false)] => true
  | _, _, _, _, _ => false
  end.
Lemma trait_defaults : defaults_wf = true.
Proof. vm_compute. reflexivity. Qed.
