Require Import Answers.
From Coq Require Import List Bool Arith Lia.
Import ListNotations.

Definition cpc_code (c : cpc) : list nat := match c with
  | C0 => [0] | C1 t => [1;t] | C2 t => [2;t] | C3 t => [3;t] | Cw t => [4;t] | Cwk t => [5;t]
  | C4 t => [6;t] | C4n t => [7;t] | C5 t => [8;t] | CDone => [9] end.
Definition rpc_code (r : rpc) : list nat := match r with
  | R0 => [0] | R1 t => [1;t] | R2 t => [2;t] | R3 t => [3;t] | Rw t => [4;t] | Rwk t => [5;t]
  | R4 t => [6;t] | R5 t => [7;t] | R6 t => [8;t] end.
Definition code (s : st) : list nat :=
  (match slot s with None => [0] | Some t => [1;t] end) ++ [if mtx s then 1 else 0; next_tok s]
  ++ [length (chan s)] ++ chan s ++ concat (map cpc_code (callers s)) ++ rpc_code (rl s).
Fixpoint leqb (a b : list nat) : bool := match a, b with
  | [], [] => true | x :: a, y :: b => Nat.eqb x y && leqb a b | _, _ => false end.
Definition st_eqb (a b : st) := leqb (code a) (code b).
Definition mem (s : st) (l : list st) := existsb (st_eqb s) l.

Definition succs fixed (s : st) : list st :=
  flat_map (fun t => match step fixed t s with Some s' => [s'] | None => [] end) (tids s).

Fixpoint bfs fixed (fuel : nat) (seen work : list st) : list st * bool :=
  match fuel with 0 => (seen, false) | S f =>
    match work with
    | [] => (seen, true)
    | s :: w => let new := filter (fun x => negb (mem x seen)) (succs fixed s) in
                let new := fold_right (fun x acc => if mem x acc then acc else x :: acc) [] new in
                bfs fixed f (new ++ seen) (w ++ new)
    end end.

Definition explore fixed n := bfs fixed 100000 [init n] [init n].
Definition summary fixed n :=
  let '(seen, ok) := explore fixed n in
  (length seen, ok, length (filter (deadlocked fixed) seen)).

Time Eval vm_compute in summary false 2.
Time Eval vm_compute in summary true 2.
(* [summary true 3] did not finish in 20 min with list membership; see README.md *)
