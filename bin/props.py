"""Per-property configuration of the orchestrator (what to build, what to run, what is trusted)."""

AXIOM_ALLOWLIST = set()  # every property theorem is expected to be closed under the global context

TRUSTED_BASE_COMMON = [
    "Coq 8.16.1 kernel incl. its bytecode VM (vm_compute); native_compute is not used",
    "rs2v (tools/rs2v): syn 2 parser + a printer of the chosen function bodies as AM.Rust.Ast terms; "
    "cfg evaluation under the fixed feature set; references, types, generics and lifetimes dropped",
    "Rust/Eval.v: the meaning given to the printed Rust subset (method table, pattern matching, control flow)",
    "correspondence harness `amh` (harness/): drives the real crate built from /repo's working tree with "
    "--cfg assets_manager_verif; case printers; the checkers in coq/Corr evaluated by vm_compute",
    "no extraction is used: the model is evaluated inside Coq",
]

PROPS = {}

PROPS["C18"] = dict(
    technique="Coq proof over all id sequences and all schedules (induction over histories of the "
              "atomic cell); model regenerated from src/entry.rs by rs2v and tied by lemmas; "
              "differential correspondence (exhaustive small sequences + concurrent runs judged by a "
              "proved-complete acceptance predicate)",
    level_text="Theorems (Props/C18.v, closed under the global context): the code of ReloadId::update "
               "and of every AtomicReloadId method, as printed from the current source, equals the "
               "reference model for every input; for any number of threads and every schedule the "
               "cell is the maximum offered, never decreases, each growth is reported to exactly one "
               "update caller and none is lost.",
    level_note="Trusted: Coq kernel+VM, rs2v printer, the Rust-subset interpreter Rust/Eval.v, atomicity "
               "of AtomicUsize RMWs (memory orderings not modelled), usize as unbounded N.",
    gen=["Entry"],
    model_files=["Rust/Ast.v", "Rust/Eval.v", "Ref/ReloadId.v", "Corr/Common.v", "Corr/Rid.v"],
    model_targets=["Corr/Rid.vo"],
    proof_files=["Proofs/ReloadId.v", "Proofs/ReloadIdAccept.v", "Tie/ReloadId.v", "Props/C18.v"],
    proof_targets=["Props/C18.vo"],
    props_module="Props.C18",
    theorems=["C18_update_code_is_max", "C18_code_ids_compare_as_numbers", "C18_code_ids_are_whole_words", "C18_code_update_is_total", "C18_update_true_iff_grew", "C18_never_is_least",
              "C18_atomic_code_is_model", "C18_one_atomic_access_per_method", "C18_final_is_max",
              "C18_cell_monotone", "C18_one_true_per_growth",
              "C18_update_answer_is_growth_of_that_step", "C18_accept_complete"],
    engines=[("ridiff", [])],
    rule="ridiff: (a) every ReloadId::update sequence up to the length/id bound, from every start id "
         "(exhaustive); (b) seeded random sequential mixtures of AtomicReloadId update/fetch_max/swap/"
         "store/load incl. ids up to 2^40; (c) 2..16 threads racing update on one AtomicReloadId, "
         "judged by accept_updates (proved complete for every schedule); ids at the edges of the "
         "representation (0, isize::MAX, usize::MAX) in (a'), (b), (c); (d) 3..5 threads swapping distinct ids: "
         "every id is handed back exactly once or left in the cell, and of several threads swapping one id "
         "into NEVER exactly one sees NEVER (monitor).  Non-trivial = at least two "
         "operations; distinct = distinct printed case.",
    trusted_base=["atomicity of AtomicUsize::{fetch_max,fetch_add,swap,store,load}: each is one step of "
                  "the cell model (memory orderings not modelled)"],
    modelled=["usize as unbounded N (wrap-around after 2^64 reloads is outside C18)",
              "threads as sequences of atomic steps under an arbitrary scheduler"],
    assumptions=["ids are unbounded naturals", "each AtomicUsize RMW is atomic"],
)

PROPS["C08"] = dict(
    technique="Coq proof of deadlock-freedom of the request/answer mailbox for any number of callers "
              "and every interleaving (16-clause inductive invariant), and of termination/exactness of "
              "the dependency DFS on every graph incl. cycles; protocol roles and DFS discipline read "
              "off the current source by rs2v and checked by computation; liveness correspondence runs "
              "under a watchdog and in child processes",
    level_text="Theorems (Props/C08.v, closed under the global context): the printed Answers::notify / "
               "wait_for_answer / HotReloader::reload / reloader Ptr arm have the producer/consumer/"
               "caller shapes; for that protocol no reachable state with an unfinished caller is "
               "deadlocked, for every N and schedule; a caller is released only by its own, unique "
               "token; the dependency sort terminates with recursion depth <= |nodes|+1 on every "
               "graph (cyclic look-ups included) and lists each reachable node once; the printed "
               "DepsGraph::visit marks before recursing; every step of N callers and the reloader strictly "
               "decreases a measure, so every execution has at most N*(16+4(N+1))+1 steps (no fairness "
               "assumption) and can only end with every caller returned; both reloader channels are "
               "unbounded (senders never block); the executable model (the one that refutes the protocol "
               "before D1) steps exactly like the relational one, so it never deadlocks and does bounded "
               "work under every schedule.  Partial: OS scheduling, condvar and channel behaviour are "
               "modelled, not verified.",
    level_note="Trusted: Coq kernel+VM, rs2v printer, Rust/Script.v action classification, mutual exclusion "
               "of Mutex, Condvar wakes every waiter on notify_all and has no lost wake-ups, FIFO of "
               "crossbeam channels; callers hold no AssetReadGuard (documented precondition of hot_reload).",
    gen=["HotReloading", "Deps", "Private", "Entry"],
    model_files=["Rust/Ast.v", "Rust/Syntax.v", "Rust/Script.v", "Ref/Answers.v"],
    model_targets=["Ref/Answers.vo", "Rust/Script.vo"],
    proof_files=["Proofs/AnsInv.v", "Proofs/AnsR.v", "Proofs/AnsC.v", "Proofs/AnsWork.v", "Proofs/AnsBridge.v", "Proofs/Dfs.v", "Witness/OldD1.v",
                 "Tie/Answers.v", "Tie/Graph.v", "Tie/Erasure.v", "Tie/Entry.v", "Props/C08.v"],
    proof_targets=["Props/C08.vo", "Witness/OldD1.vo"],
    props_module="Props.C08",
    theorems=["C08_code_has_the_protocol_shapes", "C08_code_senders_never_block", "C08_no_deadlock", "C08_every_step_decreases_the_measure",
              "C08_bounded_work", "C08_every_call_returns", "C08_released_by_own_token",
              "C08_sort_terminates", "C08_sort_exact_and_duplicate_free",
              "C08_code_marks_before_recursing", "C08_code_reloader_thread_has_the_default_stack",
              "C08_code_a_panicking_reload_is_survived", "C08_old_visit_diverges",
              "C08_executable_model_never_deadlocks", "C08_executable_model_bounded_work",
              "C08_executable_model_rests_only_when_all_returned", "C08_code_write_drops_nothing_under_the_lock"],
    engines=[("answers", ["--parts", "shapes,panic,flood,conc,gone,deep,static,dropread"])],
    thorough_features=[["parking_lot"]],
    disagreement_is_violation=True,
    rule="answers: (B) every digraph of get_cached look-ups on <=2 (quick) / <=3 (thorough) TNode assets "
         "incl. self-loops and cycles, plus random larger shapes mixing acyclic load edges, each run in a "
         "child process through load, per-node edits, batched events and hot_reload (abort/hang of the "
         "child = failure); (A) 1..16 threads calling hot_reload concurrently with loader threads and "
         "event bursts under a 4 s no-progress watchdog; (E) 1 and 4 threads calling hot_reload after the "
         "source let go of its event sender and the reloader thread left; (F) a chain of 1500 (5000) assets each "
         "loading the next, loaded bottom-up, then the bottom edited: one pass walks and reloads the whole "
         "chain on the reloader thread (child process; abort = failure).  Non-trivial = shape with at least one edge, "
         "or a concurrent configuration; distinct = distinct shape/configuration.",
    trusted_base=["Mutex/Condvar semantics (mutual exclusion; notify_all wakes all current waiters; no "
                  "reliance on spurious wake-ups), FIFO crossbeam channel: modelled",
                  "watchdog threshold 4 s without progress = stall"],
    modelled=["threads as program counters over the mailbox actions; the reloader's update between "
              "receiving Ptr(t) and answering is one step (its termination is theorem 4)",
              "the graph as a function node -> dependents over nat-coded nodes"],
    assumptions=["callers do not hold an AssetReadGuard while calling hot_reload",
                 "the events channel stays connected while the cache lives"],
)

PROPS["C07"] = dict(
    technique="Coq proof over all lock-disciplined scripts, thread counts and schedules of a word-level "
              "RwLock machine (no torn read; guard pins value and reload id; changes need the write "
              "lock); write/read/map/try_map scripts and the name/arity call graph regenerated from "
              "the source and checked by computation; reader-vs-reload-stream monitors on the real crate",
    level_text="Theorems (Props/C07.v, closed under the global context): the printed UntypedEntry::write "
               "is accepted by the discipline checker wf (swap + reload-id increment inside the write "
               "lock) and the guards of read/map/try_map own the read lock; for every family of "
               "accepted scripts, any number of threads and every schedule each completed read is one "
               "version, value and reload id are constant while a guard is held, and they move only "
               "inside a write critical section; in the code that section is reachable only from a "
               "reload pass (call-graph lemma), which in local mode runs while the requesting caller is "
               "inside hot_reload and is over when that caller is released (mailbox invariant).  "
               "Partial: real tearing is a memory-model phenomenon (proof is at lock granularity); the "
               "CacheKind Local/Static data flow is checked by the call graph, not by a theorem on state.",
    level_note="Trusted: Coq kernel+VM, rs2v printer + call-graph dump (by name/arity), Rust/Script.v "
               "extraction, RwLock mutual exclusion (std and parking_lot), unsafe swap_any/pointer casts "
               "modelled by their intended effect.",
    gen=["Entry", "CallGraph", "HotReloading", "Private"],
    model_files=["Rust/Ast.v", "Rust/Syntax.v", "Rust/Script.v", "Ref/RwCell.v"],
    model_targets=["Rust/Script.vo"],
    proof_files=["Proofs/RwProof.v", "Proofs/RwStep.v", "Proofs/RwPin.v", "Proofs/AnsInv.v", "Proofs/AnsR.v",
                 "Proofs/AnsC.v", "Tie/Entry.v", "Tie/CallGraph.v", "Props/C07.v", "Tie/Answers.v"],
    proof_targets=["Props/C07.vo"],
    props_module="Props.C07",
    theorems=["C07_code_serialize_reads_under_the_guard", "C07_code_follows_the_lock_discipline", "C07_every_reader_takes_the_lock", "C07_lock_wrapper_is_faithful",
              "C07_code_hot_reload_waits_for_its_own_answer", "C07_no_torn_read", "C07_guard_pins",
              "C07_change_needs_write_lock", "C07_only_passes_write",
              "C07_update_happens_inside_the_callers_hot_reload",
              "C07_hot_reload_returns_after_its_update", "C07_zero_duration_lock_is_rejected_and_tears"],
    engines=[("rwdiff", [])],
    thorough_features=[["parking_lot"]],
    rule="rwdiff: 4 scenarios of short / long-held / mapped (map+try_map) readers, watcher pollers and an "
         "outside-hot_reload sampler against a stream of edit+notify+hot_reload of a 64-word self-checking "
         "value; monitors: torn-read, guard-not-pinned (value, reload id, id==version under a guard), "
         "changed-outside-hot_reload, hot_reload-returned-early.  Non-trivial/distinct = scenario "
         "(each performs thousands of guarded reads; counts in the summary).",
    trusted_base=["RwLock semantics (mutual exclusion writer/readers)", "the scheduler explores interleavings "
                  "only by chance in the runs; the theorem covers all of them"],
    modelled=["the value as K words copied one per step; the RwLock as reader set + optional writer; "
              "threads as first-order scripts; the reload id as a counter bumped by IncReload"],
    assumptions=["memory orderings not modelled", "callers of hot_reload hold no guard"],
)

PROPS["C16"] = dict(
    technique="Coq proof about the SharedBytes machine (allocator ledger + reference count; constructors, "
              "clone, the two halves of drop and deref as atomic steps in every order) and about a UTF-8 "
              "recogniser (exactly the encodings of Unicode scalar values); syntactic tie of "
              "src/utils/bytes.rs / string.rs to the machine's steps and layouts; op scripts on the real "
              "types under an accounting global allocator and byte strings through std / SharedString "
              "evaluated against the model inside Coq",
    level_text="Theorems (Props/C16.v, closed under the global context): for every sequence of atomic steps "
               "(any interleaving of clones and drops of any number of values): no double free, no "
               "release with another layout than allocated, no use after free; count = number of values; a "
               "value's blocks stay allocated while anybody owns it; once everybody let go nothing is left "
               "and releases = allocations; a deref after any history yields the constructor's bytes.  "
               "UTF-8: valid <-> encoding of scalar values, decode inverts encode, encode injective.  The "
               "printed code performs these steps (one fetch_add / fetch_sub(1) == 1 -> drop_slow, "
               "drop_slow's layout choice on capacity != 0, from_slice / from_vec headers), every other "
               "constructor funnels into the two, eq/cmp/hash go through deref, from_utf8 validates before "
               "it builds.  Partial: memory orderings (Release/Acquire) are checked syntactically only; the "
               "machine is sequentially consistent.",
    level_note="Trusted: the system allocator and the accounting wrapper (harness/src/ledger.rs); "
               "size_of::<Inner>() = 32 and Layout::extend as modelled (checked by the ledger on this "
               "64-bit target); std::str::from_utf8 is tied to the recogniser by cases only "
               "(all 1-byte, edge 2..4-byte forms, damaged texts).  Deserialisation (serde feature) is not "
               "built into the harness: covered by the same std functions it calls, not exercised.",
    gen=["Bytes", "Loaders"],
    model_files=["Ref/Bytes.v", "Ref/Utf8.v", "Corr/BytesCheck.v"],
    model_targets=["Corr/BytesCheck.vo"],
    proof_files=["Proofs/Bytes.v", "Proofs/Utf8.v", "Tie/Bytes.v", "Tie/Loaders.v", "Props/C16.v"],
    proof_targets=["Props/C16.vo"],
    props_module="Props.C16",
    theorems=["C16_code_string_loader_validates", "C16_code_as_modelled", "C16_other_constructors_funnel", "C16_compare_as_slices",
              "C16_string_validates_then_builds", "C16_deref_is_source", "C16_no_memory_errors",
              "C16_count_is_owners", "C16_blocks_live_while_owned", "C16_released_exactly_once",
              "C16_valid_iff_encoding", "C16_valid_up_to_is_the_longest_valid_prefix",
              "C16_valid_iff_up_to_everything", "C16_decode_encode", "C16_encode_injective", "C16_nonvacuous",
              "C16_code_deserialization_validates"],
    engines=[("bytesdiff", [])],
    rule="bytesdiff: 250 (quick) / 1500 (thorough) scripts over 10 constructor paths (slice, From<&[u8]>, "
         "Cow borrowed/owned, Vec with excess / zero / unused capacity, Box, exact and growing iterators), "
         "clone (also From<&SharedBytes>), deref, drop here or on another thread; each step's net ledger "
         "effect and bytes are compared with Ref.Bytes inside Coq; ~4000 (quick) / ~37000 (thorough) byte "
         "strings through std::str::from_utf8 (+valid_up_to), SharedString::from_utf8 and serde deserialization "
         "from raw bytes (visit_bytes and visit_byte_buf of SharedString and SharedBytes) compared with "
         "Ref.Utf8; monitors: dealloc layout = alloc layout, no unknown block freed, nothing left after the "
         "last drop incl. 30 / 200 multi-threaded clone/drop storms, eq/ord/hash/partial_cmp as slices.",
    trusted_base=["accounting allocator harness/src/ledger.rs", "System allocator"],
    modelled=["heap as a ledger of (id, layout) blocks, ids never reused", "Inner as (count, bytes, capacity)",
              "atomics as sequentially consistent steps"],
    assumptions=["64-bit target (header = 32 bytes, align 8)", "len <= isize::MAX (else get_inner_layout panics)"],
)

PROPS["C17"] = dict(
    technique="Coq proof about the OnceInitCell state machine (K threads, every outcome script, every "
              "schedule; both needs_drop paths), once_cell semantics built in; syntactic tie of "
              "src/utils/cell.rs to the machine's step order; exhaustive outcome scripts on the real cell "
              "with a drop ledger",
    level_text="Theorems (Props/C17.v, closed under the global context): for every list of initialiser "
               "outcomes (succeed/fail/panic), every schedule and both seed kinds: successes = 1 iff "
               "initialised, exactly one of seed and value lives in the cell, the seed is dropped at most "
               "once and only after initialisation, a failure or panic keeps the seed and hands out no "
               "value; after quiescence + Drop the seed was dropped exactly once and the value exactly "
               "once iff it existed; the no-drop path never drops a seed.  The printed source has the "
               "step order the machine assumes (user initialiser before the union is touched, seed "
               "dropped outside the OnceCell closure, Drop picks the arm from the once state).",
    level_note="Trusted: once_cell::sync::OnceCell (at most one running initialiser, failure/panic leaves it "
               "empty, get never blocks), union/ManuallyDrop semantics of rustc (memory safety is not "
               "modelled), unwinding out of drop_cold with a panicking seed destructor is sampled only.",
    gen=["Cell"],
    model_files=["Ref/OnceInit.v"],
    model_targets=["Ref/OnceInit.vo"],
    proof_files=["Proofs/OnceInit.v", "Tie/Cell.v", "Props/C17.v"],
    proof_targets=["Props/C17.vo"],
    props_module="Props.C17",
    theorems=["C17_code_as_modelled", "C17_code_get_or_init_is_get_or_try_init", "C17_code_constructors_agree_with_the_once_state",
              "C17_initialised_once_all_schedules", "C17_each_dropped_exactly_once",
              "C17_no_drop_path_never_drops_the_seed", "C17_nonvacuous", "C17_code_once_cell_is_the_sync_one"],
    engines=[("oncediff", [])],
    rule="oncediff: every outcome script over {succeed, fail, panic} up to length 4 (quick) / 5 (thorough) "
         "run sequentially and with one thread per outcome behind a barrier, on a cell with a tracked seed "
         "(destructor counted), a seed without destructor (no-drop path) and a seed whose destructor "
         "panics; monitors: successful initialisers = initialised, all Ok callers got one address, a later "
         "attempt succeeds after failures, get() returns at once while an initialiser sleeps, ledger after "
         "dropping the cell shows seed and value dropped exactly once.",
    trusted_base=["once_cell OnceCell semantics as built into Ref/OnceInit.v", "thread scheduler (sampled interleavings)"],
    modelled=["OnceCell as a lock bit + set bit", "the union as (seed_in_cell, inited)"],
    assumptions=["initialisers do not re-enter the same cell"],
)

PROPS["C15"] = dict(
    technique="Coq proof about the reloader loop as a state machine over two crossbeam-style channels "
              "(idle blocks, no busy iteration, exit at the next iteration once the cache-message "
              "channel is disconnected, for every Select::ready choice); exit arm read off the current "
              "source; /proc sampling of the real reloader threads after create/use/drop sequences",
    level_text="Theorems (Props/C15.v, closed under the global context): the printed hot_reloading_thread "
               "leaves the thread on a disconnected cache-message channel; for the loop model idle "
               "inboxes block, every non-blocking non-exiting iteration consumes a message (no spin), a "
               "dropped cache makes the loop Exited at its next iteration whatever the event channel "
               "holds, and it stays Exited (no accumulation); the pre-repair loop spins (D4 witness).  "
               "Partial: CPU time and thread exit are OS observations, sampled by the engine.",
    level_note="Trusted: crossbeam Select::ready/try_recv/disconnect semantics as modelled, the watcher keeps "
               "its EventSender (modelled), /proc/self/task sampling (1 tick = 10 ms; threshold: more than "
               "1 tick in the window = busy).",
    gen=["HotReloading", "Watcher", "Private", "CacheMap", "LocalMap"],
    model_files=["Ref/Reloader.v"],
    model_targets=["Ref/Reloader.vo"],
    proof_files=["Proofs/Reloader.v", "Tie/Answers.v", "Tie/Watcher.v", "Tie/Maps.v", "Props/C15.v"],
    proof_targets=["Props/C15.vo"],
    props_module="Props.C15",
    theorems=["C15_code_leaves_the_loop_when_the_cache_is_gone", "C15_code_leaves_the_loop_when_events_are_over",
              "C15_code_watcher_lets_go_when_nobody_listens", "C15_code_senders_learn_about_a_gone_reloader",
              "C15_idle_blocks", "C15_no_spin",
              "C15_exits_after_drop", "C15_no_accumulation", "C15_old_loop_spins", "C15_code_reloader_is_dropped_first",
              "C15_code_reloader_blocks_until_there_is_work"],
    engines=[("loopdiff", [])],
    rule="loopdiff: idle live caches (in-memory and FileSystem sources) must show sleeping reloader "
         "tasks with 0 ticks; then create/use/drop sequences of 1..3 (quick) / 1..8 (thorough) caches, "
         "dropped while idle / right after hot_reload / with queued events / after loads, over both "
         "source kinds; after each sequence the assets_hot_relo* tasks are sampled: none may consume "
         "CPU.  Every sampled configuration is non-trivial and distinct.",
    trusted_base=["/proc sampling; the scheduler"],
    modelled=["channels as (queue length, connected); Select::ready as a boolean choice when both ready"],
    assumptions=["the event sender may stay alive after the cache (a watcher lets go only when a send fails)"],
)

SYS_MODEL_FILES = ["Ref/Load.v", "Ref/Sys.v", "Corr/Common.v", "Corr/SysCheck.v"]
SYS_TRUSTED = [
    "harness universe (harness/src/world.rs): the in-memory Source, the asset types, the script interpreter, "
    "token/drop logging, the trace canonicalisation (drops compared as a set per operation)",
    "the reload-pass order is taken from the implementation (hook PASS_LOG) and checked by the model to be a "
    "legal order (right set, no duplicates, dependencies first unless the look-ups are cyclic)",
    "Settle barrier: hook counters EVENTS_HANDLED / PASSES_RUN",
]
SYS_RULE = ("sysdiff: seeded operation histories (load, load_owned, get_cached, get_or_insert, contains, remove, "
            "take, clear, source edits, fault plans, notifications, hot_reload, enhance_hot_reloading, reload "
            "ids / flags / watchers) over AssetCache (with and without reloader), LocalAssetCache and AnyCache "
            "views, on a mostly-valid generated source with Compound scripts nesting load / get_cached / "
            "load_owned / no_record / try / helper threads / get_or_insert / failing and panicking loaders, plus "
            "targeted bundles (get_or_insert after load/remove, rewire+edit batches); each operation's result, "
            "I/O trace, loader tokens and dropped tokens are compared with Ref.Sys.run.  Non-trivial = at "
            "least two loads, one successful, and one of remove/take/clear/write/hot_reload; distinct = "
            "distinct printed case.")

PROPS["C10"] = dict(
    technique="Coq theorems on the executable system model Ref.Sys: a non-reloadable entry survives every "
              "operation (nested loads, reload passes in any order, enhance, polling) unchanged, for all "
              "histories (induction over operations on top of `loads only add entries`, proved by fuel "
              "induction); CacheEntry::new / add_any / reload_untyped tied by rs2v; whole-history "
              "differential correspondence (sysdiff) with the monitor `non-reloadable entries keep value, "
              "token and reload id`",
    level_text="Theorems (Props/C10.v, closed under the global context): in the printed code an entry is "
               "reloadable only if its type is hot-reloaded and the cache has a reloader, get_or_insert "
               "never creates one, and a reload returns before loading or writing when the entry is not "
               "reloadable; in the model every non-reloadable entry keeps value, token and reload id "
               "through any operation that does not remove it, hence through every history (incl. after "
               "load / load_owned / remove / clear of the same key).  The model is the implementation's "
               "behaviour as far as sysdiff explores.",
    level_note="Trusted: Coq kernel+VM, rs2v, the harness universe and hooks (pass order, settle barrier); "
               "Handle::get's reference validity is the Rust-level consequence (not modelled).",
    gen=["Entry", "Anycache", "Flags", "Dirs", "CacheMap", "LocalMap", "Private", "HotReloading"],
    model_files=SYS_MODEL_FILES,
    model_targets=["Corr/SysCheck.vo"],
    proof_files=["Proofs/SysGrows.v", "Proofs/SysStatic.v", "Proofs/SysGraph.v", "Tie/Static.v", "Tie/Dirs.v", "Tie/Maps.v", "Tie/Answers.v",
                 "Props/C10.v"],
    proof_targets=["Props/C10.vo"],
    props_module="Props.C10",
    theorems=["C10_code_decides_reloadability_as_modelled", "C10_no_reloader_or_opted_out_is_static",
              "C10_get_or_insert_is_static", "C10_static_never_written",
              "C10_static_never_written_in_any_history", "C10_flag_is_forwarded",
              "C10_reloader_is_fixed_at_construction", "C10_code_clear_neither_makes_nor_drops_a_reloader",
              "C10_code_reloader_only_when_hot_reloading_started"],
    engines=[("sysdiff", ["--mode", "all"])],
    relevant_classes=["non-reloadable-rewritten"],
    rule=SYS_RULE,
    trusted_base=SYS_TRUSTED,
    modelled=["the whole sequential system as Ref.Sys.step (cache, source, loaders, scripts, recording, "
              "dependency graph, reload passes)"],
    assumptions=["operations are issued sequentially (one test thread + the reloader it waits for)"],
)


def sys_prop(pid, technique, level_text, proof_files, proof_targets, theorems, gen, relevant, mode="all",
             extra_engines=(), level_note=None, assumptions=()):
    PROPS[pid] = dict(
        technique=technique,
        level_text=level_text,
        level_note=level_note or "Trusted: Coq kernel+VM, rs2v, the harness universe and hooks (pass order, settle "
                                 "barrier); the model is the implementation's behaviour as far as sysdiff explores.",
        gen=gen,
        model_files=SYS_MODEL_FILES,
        model_targets=["Corr/SysCheck.vo"],
        proof_files=proof_files,
        proof_targets=proof_targets,
        props_module="Props." + pid,
        theorems=theorems,
        engines=[("sysdiff", ["--mode", mode])] + list(extra_engines),
        relevant_classes=relevant,
        rule=SYS_RULE,
        trusted_base=SYS_TRUSTED,
        modelled=["the whole sequential system as Ref.Sys.step (cache, source, loaders, scripts, recording, "
                  "dependency graph, reload passes)"],
        assumptions=["operations are issued sequentially (one test thread + the reloader it waits for)"]
                    + list(assumptions),
    )


sys_prop(
    "C02",
    "Coq theorems on the executable system model Ref.Sys (loads only add entries, for every nesting, by fuel "
    "induction; exact effect of get_cached / contains / get_or_insert / remove / take / clear); whole-history "
    "differential correspondence through AssetCache, LocalAssetCache and AnyCache views (sysdiff) incl. a "
    "hash-seed sweep of two types under one id",
    "Theorems (Props/C02.v, closed under the global context): in the model a load (however Compounds nest, "
    "whether it succeeds, fails or panics) and a load_owned never change or remove an existing entry; "
    "get_cached and contains leave the map unchanged; get_or_insert returns the stored entry and drops its "
    "argument when the key is present, and inserts exactly its argument otherwise; remove / take delete "
    "exactly the named key (take returning the stored value), clear empties the map; a successful load is "
    "cached under its key.  One model serves the three front-ends; sysdiff runs the same histories through "
    "all of them.  a load that "
    "does not succeed performs no insertion itself, and for a type without nested loads leaves the map exactly as "
    "it was.  Partial: for a Compound whose loader requests its own key, `nothing under its own key` is observed "
    "by the correspondence only (the real code does not terminate there; the fuelled model does).",
    ["Proofs/SysGrows.v", "Proofs/SysStatic.v", "Proofs/SysMap.v", "Tie/Graph.v", "Tie/Maps.v", "Tie/Records.v", "Tie/Dirs.v", "Props/C02.v"],
    ["Props/C02.vo"],
    ["C02_load_only_adds", "C02_load_owned_adds_nothing_of_its_own", "C02_get_cached_and_contains_add_nothing",
     "C02_load_of_a_present_key_returns_it", "C02_successful_load_is_cached",
     "C02_get_or_insert_never_overwrites", "C02_get_or_insert_inserts_when_absent",
     "C02_remove_deletes_exactly_its_key", "C02_take_deletes_exactly_its_key_and_returns_it",
     "C02_clear_empties", "C02_code_keys_compare_type_and_id", "C02_code_maps_address_the_given_key",
     "C02_code_keys_carry_the_id_as_given", "C02_code_clear_empties_the_whole_map", "C02_code_lookup_before_load",
     "C02_failed_plain_load_adds_nothing", "C02_failed_load_inserts_nothing_itself",
     "C02_code_add_asset_loads_then_inserts", "C02_code_directory_loads_go_through_the_cache",
     "C02_code_caches_load_through_the_default_add_asset"],
    ["Private", "Deps", "CacheMap", "LocalMap", "Anycache", "Dirs"], ["handle-changed", "key-type-confusion", "racers-disagree"],
    extra_engines=[("racediff", ["--parts", "reentrant"])])

sys_prop(
    "C03",
    "Coq: ErrorKind::or regenerated from src/error.rs and proved equal to the model for all error pairs; "
    "load_from_source regenerated and checked equal to the model on all extension lists up to length 3 "
    "(exhaustive, bounded); theorems for every extension list on the model (first readable+decodable wins, "
    "error class is the maximum); differential correspondence of loads incl. I/O traces (sysdiff)",
    "Theorems (Props/C03.v, closed under the global context): the printed ErrorKind::or is the model's `or` "
    "for every pair of errors, and `or` yields the higher class (decoding > other I/O > not found > no "
    "default); the printed load_from_source equals the model on every extension list of length <= 3 and "
    "every per-extension outcome (156 shapes x 2 default_value behaviours incl. interrupted reads, bound in the statement); for "
    "EVERY extension list the first extension whose file can be read and decoded wins with the loader's "
    "result, otherwise default_value receives an error that is one of the attempts' errors of maximal class; "
    "the empty list goes to default_value with NoDefaultValue; the built-in loaders have the modelled shape, "
    "and in the model ParseLoader's answer does not depend on Unicode white space around the content, refuses "
    "ill-formed UTF-8 and stays within i64, StringLoader keeps the bytes of exactly the well-formed strings.  "
    "Error ids/wrapping, FileContent variants, "
    "retry after repair are checked by the correspondence (traces of reads and loader calls compared verbatim).",
    ["Proofs/Load.v", "Proofs/Utf8.v", "Proofs/Loaders.v", "Tie/Error.v", "Tie/LoadFromSource.v", "Tie/Dirs.v", "Tie/Loaders.v", "Tie/Graph.v", "Tie/Fs.v", "Tie/Records.v",
     "Props/C03.v"], ["Props/C03.vo"],
    ["C03_code_or_is_model_or", "C03_code_error_conversions_keep_the_class", "C03_code_load_error_names_the_asked_id", "C03_or_prefers_the_higher_class",
     "C03_code_load_from_source_is_model_up_to_3_extensions", "C03_first_readable_decodable_extension_wins",
     "C03_all_fail_highest_class_error_goes_to_default", "C03_empty_extension_list_goes_to_default", "C03_code_default_extension_list",
     "C03_code_path_of_entry", "C03_code_filesystem_source", "C03_code_builtin_loaders_as_modelled", "C03_parse_loader_ignores_surrounding_whitespace",
     "C03_trim_removes_exactly_the_surrounding_whitespace", "C03_parse_loader_rejects_ill_formed_utf8",
     "C03_parse_loader_stays_in_range", "C03_string_loader_keeps_the_bytes",
     "C03_code_load_from_source_has_one_path", "C03_code_cache_reads_go_straight_to_the_source"],
    ["Error", "Asset", "Key", "Flags", "Dirs", "Loaders", "Private", "Fs", "Records", "Anycache"], ["loader-depends-on-delivery", "filesystem-load-differs"], mode="cold",
    extra_engines=[("loaddiff", [])])
PROPS["C03"]["model_files"] = PROPS["C03"]["model_files"] + ["Ref/Utf8.v", "Ref/Loaders.v", "Corr/LoadCheck.v"]
PROPS["C03"]["model_targets"] = PROPS["C03"]["model_targets"] + ["Corr/LoadCheck.vo"]
PROPS["C03"]["rule"] = PROPS["C03"]["rule"] + (
    "  loaddiff: the crate's ParseLoader (as i64, also through LoadFrom and through a cache), StringLoader "
    "(String, Box<str>, SharedString) and BytesLoader (Vec, Box, SharedBytes) on generated byte strings -- "
    "numbers wrapped in every kind of Unicode white space and in look-alikes that are not white space, signs, "
    "leading zeros, the i64 bounds, non-ASCII digits, white space inside, ill-formed UTF-8, random bytes and "
    "text -- as borrowed and as owned content; results compared with Ref/Loaders.v (parse_loader, valid) by "
    "Corr/LoadCheck.v; borrowed / owned / LoadFrom / cache must agree (monitor); the same contents written to "
    "a real directory under the empty and under a named extension and loaded through FileSystem with extension "
    "lists [\"\", num] and [num, \"\"]: the first extension whose file parses wins (monitor).")

sys_prop(
    "C05",
    "Coq: build-system theorem for arbitrary loaders determined by their reported reads (a pass in an order "
    "without late binding restores consistency, dynamic dependencies included), DFS exactness / duplicates / "
    "dependencies-first on acyclic graphs, DFS discipline and message-drain order tied to the source; "
    "differential correspondence of edit/notify/reload histories with the pass order checked legal by the "
    "model and a model-side fresh-load monitor; known finding D8 keyed by the late-binding class",
    "Theorems (Props/C05.v, closed under the global context): L1 the sort lists exactly the assets reachable "
    "from the changed entries, once each, dependencies first on acyclic graphs, and the printed visit follows "
    "that DFS; the reloader drains cache messages before taking an event; L2 for any loaders determined by "
    "their reported reads a pass in an order with no late binding leaves every visited, non-failed asset "
    "consistent with the new source (failed ones keep value and dependencies; dependency sets are re-learned); "
    "the late-binding situation really goes stale (witness = known finding D8).  L3 (the system model runs "
    "such a pass under the implementation's order, which it checks legal) is tied by correspondence, not by a "
    "theorem connecting Ref.Sys to the abstract pass: partial.",
    ["Proofs/Dfs.v", "Proofs/Pass.v", "Tie/Graph.v", "Tie/Answers.v", "Tie/Records.v", "Tie/Paths.v", "Proofs/SysGraph.v", "Proofs/SysFresh.v", "Props/C05.v"],
    ["Props/C05.vo"],
    ["C05_pass_visits_exactly_the_affected_once", "C05_dependencies_first",
     "C05_code_follows_the_dfs_and_drains_messages_first", "C05_pass_restores_consistency",
     "C05_late_binding_goes_stale", "C05_recording_as_modelled",
     "C05_code_pass_order_is_one_reversed_post_order", "C05_code_events_reach_the_pass",
     "C05_reload_relearns_dependencies", "C05_a_pass_skips_nothing_that_depends_on_a_change",
     "C05_reload_installs_what_the_source_holds", "C05_fresh_load_returns_what_the_source_holds",
     "C05_code_registrations_reach_the_graph"],
    ["Deps", "HotReloading", "Records", "Anycache", "Asset", "Paths"], ["late-bound-stale", "stale-after-pass"], mode="hot",
    assumptions=["I1: a change counts as notified once the reloader has dequeued the event (settle barrier)",
                 "I2/I3: dependencies are those of the load that produced the cached value; a get_cached that "
                 "found nothing is not a trigger when the key appears later"])

sys_prop(
    "C06",
    "Coq theorems on Ref.Sys (loads never touch graph / changed set; reload ids move only in a pass and by "
    "exactly one per rewrite; watcher semantics), DFS NoDup/exactness, write script discipline + guard "
    "pinning for the poller; differential correspondence incl. reload ids, flags, watchers and the I/O trace "
    "of every operation (no source read outside a pass); poller scenarios in rwdiff",
    "Theorems (Props/C06.v, closed under the global context): a load never changes the dependency graph or "
    "the set of changed entries; outside a reload pass no kept entry changes its reload id; one reload either "
    "leaves the entry as it was or replaces it with reload id + 1 and the flag raised; a pass visits each "
    "affected asset exactly once; a watcher answers true exactly when the id grew since it last asked and "
    "remembers; under a guard value and id are pinned together (write script accepted by the lock "
    "discipline), so what is read after a reported reload is at least that new; in every reachable state "
    "the two directions of the dependency graph agree, and every asset of a pass the model accepts depends, "
    "transitively through the dependencies its latest successful load recorded, on an entry reported changed.  "
    "That the implementation's pass is such a pass and `never re-reads the source on its own` are enforced by "
    "the correspondence (visited set = model's reachable set; I/O traces equal).",
    ["Proofs/SysGrows.v", "Proofs/SysFrame.v", "Proofs/SysStatic.v", "Proofs/SysMap.v", "Proofs/SysReload.v",
     "Proofs/Dfs.v", "Proofs/RwProof.v", "Proofs/RwStep.v", "Proofs/RwPin.v", "Tie/Entry.v", "Tie/CallGraph.v",
     "Tie/Graph.v", "Tie/Paths.v", "Tie/Records.v", "Proofs/SysGraph.v", "Props/C06.v"],
    ["Props/C06.vo"],
    ["C06_loads_leave_reloader_state", "C06_reload_id_moves_only_in_a_pass", "C06_reload_bumps_id_by_one",
     "C06_each_affected_asset_once", "C06_watcher_reports_growth_once",
     "C06_value_read_after_a_reported_reload_is_as_new", "C06_code_forgets_dropped_dependencies", "C06_code_visits_each_asset_once",
     "C06_code_watcher_starts_at_the_current_id", "C06_code_pass_bookkeeping",
     "C06_a_pass_reloads_only_dependents_of_changes", "C06_a_notified_pass_reloads_only_dependents_of_changes",
     "C06_nothing_recorded_never_reloaded", "C06_code_records_are_per_reloader",
     "C06_cache_operations_only_read_the_source"],
    ["Entry", "CallGraph", "Deps", "Private", "Paths", "Records", "Anycache", "Asset"],
    ["watcher", "guard-not-pinned", "changed-outside-hot_reload", "hot_reload-returned-early", "stale-after-pass"],
    mode="hot", extra_engines=[("rwdiff", [])])

sys_prop(
    "C09",
    "Coq theorems on Ref.Sys for every state (hence every fault plan and failing/panicking script): cached "
    "values untouched, recording cell restored (stack shape; empty at top level), reload all-or-nothing; drop "
    "guard and catch_unwind tied to the source; differential correspondence with per-read-index fault plans, "
    "failing and panicking loaders during loads and reloads (sysdiff) and the hang-after-panic child (answers)",
    "Theorems (Props/C09.v, closed under the global context): whatever a load does (error, panic, fault at "
    "any read index) existing entries are untouched, the recording cell has the same stack of records "
    "afterwards (empty at top level), graph and changed set are untouched; the code restores the cell through "
    "a drop guard; one reload is all-or-nothing; DepsGraph::reload treats an unwinding reload as failed.  "
    "`later calls recover` and `hot_reload still returns` are exercised by the engines.",
    ["Proofs/SysGrows.v", "Proofs/SysFrame.v", "Proofs/SysRecs.v", "Proofs/SysStatic.v", "Proofs/SysMap.v",
     "Proofs/SysReload.v", "Tie/Records.v", "Tie/Erasure.v", "Tie/Static.v", "Tie/Dirs.v", "Tie/Error.v",
     "Tie/LoadFromSource.v", "Proofs/SysGraph.v", "Props/C09.v"],
    ["Props/C09.vo"],
    ["C09_cached_values_untouched", "C09_recording_restored_at_top_level", "C09_recording_stack_restored",
     "C09_code_restores_recording_on_every_exit", "C09_reload_is_all_or_nothing",
     "C09_code_treats_a_panicking_reload_as_failed", "C09_code_failed_reload_keeps_the_old_dependencies",
     "C09_loads_leave_reloader_state", "C09_code_directory_faults_propagate",
     "C09_code_read_faults_are_reported_not_retried", "C09_cache_operations_only_read_the_source"],
    ["Records", "Deps", "Anycache", "Dirs", "Flags", "Asset", "Error"], ["hot_reload-hangs-after-loader-panic"], mode="all",
    extra_engines=[("answers", ["--parts", "panic"])])

sys_prop(
    "C13",
    "Coq theorems on Ref.Sys about who drops what, per operation; guarded casts of the type-erased storage "
    "tied to the source; differential correspondence of dropped tokens per operation and an implementation-"
    "side ledger (every value made is dropped exactly once by the time the cache is gone)",
    "Theorems (Props/C13.v, closed under the global context): every cast of the erased storage in the "
    "printed code is guarded by the TypeId comparison and yields None / Err / a panic otherwise; an insertion "
    "that loses drops its value at once; remove / take / clear drop exactly the entries they delete (take "
    "after handing the value over); loads never remove or replace an entry a handle can reach.  The "
    "exactly-once ledger over whole histories (incl. reloads, races are C01) is checked on the implementation.  "
    "Partial: swap_any's byte swap and Box::from_raw casts are memory-level and not modelled.",
    ["Proofs/SysGrows.v", "Proofs/SysStatic.v", "Proofs/SysMap.v", "Proofs/SysReload.v", "Tie/Erasure.v",
     "Tie/Entry.v", "Tie/Maps.v", "Tie/Records.v", "Tie/Cell.v", "Proofs/SysLedger.v", "Props/C13.v"],
    ["Props/C13.vo"],
    ["C13_casts_are_guarded_by_the_type_id", "C13_insertion_loser_dropped_at_once", "C13_code_insert_keeps_the_first",
     "C13_remove_drops_exactly_the_removed", "C13_take_hands_over_then_the_caller_drops",
     "C13_clear_drops_every_entry", "C13_entries_reachable_through_handles_survive_loads",
     "C13_old_value_is_replaced_under_the_write_lock", "C13_lookup_is_by_type",
     "C13_code_reload_swaps_whole_same_typed_values", "C13_ledger_of_every_history", "C13_no_double_drop",
     "C13_everything_dropped_once_when_empty", "C13_every_operation_balances",
     "C13_code_add_asset_loads_then_inserts", "C13_code_cell_drops_the_arm_it_holds"],
    ["Entry", "CacheMap", "LocalMap", "Private", "Anycache", "Records", "Cell"],
    ["value-not-dropped-exactly-once", "handle-changed", "torn-read", "guard-not-pinned", "loser-not-dropped",
     "racers-disagree", "presence-flipped", "handle-moved"], mode="all",
    extra_engines=[("rwdiff", []), ("racediff", [])])

sys_prop(
    "C14",
    "Coq theorems on Ref.Sys (records below the current one are never touched; push/pop pairs give the stack "
    "back exactly; a nested reloadable load leaves only the asset in the enclosing record; no_record / helper "
    "threads record nothing), recording call sites and drop guard tied to the source; differential "
    "correspondence of which assets each pass visits for nestings of load / load_owned / get_cached / "
    "no_record / try / catch / threads",
    "Theorems (Props/C14.v, closed under the global context): the printed record / no_record / CellGuard / "
    "add_*_record / Record::insert_* and the call sites in Cache::read, read_dir, get_cached_entry_inner, "
    "load_entry, load_owned_entry, load_and_record have the shapes the model assumes; in the model the nested "
    "load of a reloadable asset adds only that asset to the enclosing record, whatever runs under no_record "
    "or on a helper thread leaves the records exactly as they were (also after errors and panics), and at top "
    "level nothing stays recorded; registering an asset gives it exactly the recorded entries as dependencies "
    "(older edges dropped, nobody else's moved) and in every reachable state the two directions of the graph "
    "agree.  `an edit reloads exactly the assets whose own load touched the entry, "
    "plus dependents` is the correspondence of visited sets.  `no_record` called on another cache (one without a reloader) from inside a load is exercised by every other `norec` line of the scripts.",
    ["Proofs/SysRecs.v", "Proofs/SysGraph.v", "Tie/Records.v", "Tie/Dirs.v", "Tie/Maps.v", "Props/C14.v"], ["Props/C14.vo"],
    ["C14_code_records_as_modelled", "C14_nested_reloadable_load_records_only_the_asset",
     "C14_no_record_records_nothing", "C14_helper_thread_records_nothing",
     "C14_top_level_load_leaves_no_record", "C14_insertion_attributes_exactly_the_recorded_entries",
     "C14_graph_directions_agree_in_every_history", "C14_code_directory_assets_record_what_they_load",
     "C14_code_no_record_is_unconditional"],
    ["Records", "Anycache", "Asset", "Dirs", "CacheMap", "LocalMap", "Private"], [], mode="hot")

PROPS["C12"] = dict(
    technique="Coq proof that id_of_path inverts path_of for every valid entry under any root at any depth, "
              "injectivity of path_of, root and parent coverage of the event table; id_of_path, IdBuilder, "
              "extension_of and the event-kind table regenerated from the source and run by the interpreter "
              "against the model on an exhaustive bounded sweep; synthetic notify events through the real "
              "handler (hook) on a real directory tree, compared as sets",
    level_text="Theorems (Props/C12.v, closed under the global context): on every path made of a root plus up "
               "to 3 components of a representative alphabet (both is_dir answers) the printed id_of_path "
               "(with IdBuilder::{push,pop,join,reset} and extension_of) computes the model's answer, and the "
               "printed event-kind match computes the model's looked-up paths for every kind (bounded, "
               "exhaustive); for EVERY root and valid entry id_of_path (path_of e) = e with the right kind, "
               "the root itself is Directory \"\", two valid entries of one kind never share a path, a path "
               "outside the root gives no event, and every create / rename / delete (and modify) names the "
               "entry, the first three also its parent.  Partial: what inotify reports and Path::is_dir on "
               "deleted entries are OS behaviour (a deleted directory is reported as a file entry).",
    level_note="Trusted: Coq kernel+VM, rs2v, Rust/Eval.v, the std::path operations as modelled over component "
               "lists (parent, strip_prefix, components, file_stem, extension), the hook WatcherProbe.",
    gen=["Watcher", "Private"],
    model_files=["Ref/Watcher.v", "Corr/Common.v", "Corr/WatchCheck.v"],
    model_targets=["Corr/WatchCheck.vo"],
    proof_files=["Proofs/Watcher.v", "Tie/Watcher.v", "Tie/Graph.v", "Props/C12.v"],
    proof_targets=["Props/C12.vo"],
    props_module="Props.C12",
    theorems=["C12_code_id_of_path_is_model_on_the_sweep", "C12_code_event_table_is_model",
              "C12_code_every_event_reaches_the_table",
              "C12_id_of_path_inverts_path_of", "C12_root_is_the_empty_directory_entry",
              "C12_ids_and_paths_round_trip", "C12_outside_every_root_is_no_event",
              "C12_events_name_the_entry", "C12_events_name_the_parent", "C12_code_path_of_entry",
              "C12_code_watcher_keeps_the_roots_as_given"],
    engines=[("watchdiff", [])],
    rule="watchdiff: a real temporary tree (nested dirs, files with / without extension, unicode and spaces, "
         "two dots, hidden files, a dotted directory); notifications for the roots themselves, every entry, "
         "removed / never existing entries, paths with `..` and `.`, paths outside every root x 12 notify "
         "event kinds x 3 root sets (one root, two disjoint roots, a root nested in another), fed to the "
         "crate's NotifyEventHandler through the hook; sent entries compared as sets with Ref.Watcher.handle. "
         "Non-trivial = at least one entry sent; distinct = distinct printed case.",
    trusted_base=["synthetic notify::Event values stand for what the OS watcher reports"],
    modelled=["paths as component lists; file names split at the last dot; the filesystem's is_dir as a parameter"],
    assumptions=["valid names: non-empty dot-free segments, dot-free extension (I4)"],
)

PROPS["C01"] = dict(
    technique="Coq proof that the sharded map refines a flat map for every hash function, shard count and "
              "operation sequence; invariant proof over all schedules of racing loaders (one winner seen by "
              "all, presence monotone); get / insert / contains / take / shard index of both maps and key "
              "equality / hashing tied to the source; forced-simultaneous-miss races, mixed concurrent "
              "operations and a handle held across up to 3*10^5 insertions on the real crate",
    level_text="Theorems (Props/C01.v, closed under the global context): the printed AssetMap::{get,insert,"
               "contains_key,take,get_shard} of cache.rs and local_cache.rs are keyed look-ups under the read "
               "lock / entry(key).or_insert under the write lock of the key's own shard / removal of that "
               "key, with index = hash & (len-1), and keys compare type and id; for EVERY hash function and "
               "positive shard count the sharded map answers every operation sequence like one flat map; "
               "or_insert keeps the first value and hands it to everybody; for ANY number of racing loaders "
               "and ANY schedule two racers that finished on a key hold the same address, the one the map "
               "holds, and presence and address never change along any continuation.  Partial: that a Box "
               "keeps its address when the HashMap grows and that the extended lifetime is sound are "
               "Rust/std facts, exercised (held handle across insertions), not proved.",
    level_note="Trusted: Coq kernel+VM, rs2v, RwLock mutual exclusion (each map operation is one atomic step "
               "of the race machine), HashMap is a map.",
    gen=["CacheMap", "LocalMap", "Private", "Anycache"],
    model_files=["Ref/Sharded.v"],
    model_targets=["Ref/Sharded.vo"],
    proof_files=["Proofs/Sharded.v", "Tie/Maps.v", "Tie/Graph.v", "Tie/Records.v", "Props/C01.v"],
    proof_targets=["Props/C01.vo"],
    props_module="Props.C01",
    theorems=["C01_code_maps_as_modelled", "C01_code_keys_carry_the_id_as_given", "C01_sharded_map_is_a_map",
              "C01_or_insert_keeps_the_first",
              "C01_race_has_one_winner_seen_by_all", "C01_presence_is_monotone", "C01_code_lookup_before_load",
              "C01_code_add_asset_loads_then_inserts"],
    engines=[("racediff", [])],
    thorough_features=[["parking_lot"], ["no_ahash"]],
    rule="racediff: (a) 2/4/8/16 threads released together on one key whose loader waits until all racers "
         "are inside a loader (forced simultaneous misses), through AssetCache and AnyCache, with and "
         "without reloader: same address, same value token for all, every other loader value dropped at "
         "once, winner dropped with the cache; (b) 2..8 threads x 200 random load / get_cached / "
         "get_or_insert / contains on 6 overlapping keys: one address per key, presence never flips back; "
         "(c) a handle held across 10^4..3*10^5 unrelated insertions keeps address and content.  Every "
         "round is non-trivial; distinct = round.",
    trusted_base=["the OS scheduler explores interleavings by chance in the runs; the theorem covers all"],
    modelled=["keys and addresses as numbers; each map operation atomic; loaders thread-local"],
    assumptions=["no remove/take/clear during the race (they need &mut self)"],
)

SRC_RULE = ("srcdiff: generated trees (depth <= 3, fan-out <= 4; names with unicode, spaces and > 100 byte paths; "
            "one stem with several extensions, the empty extension, a directory and a file sharing an id; "
            "contents empty / binary / numeric) materialised as a real directory (FileSystem), zip and tar "
            "archives (stored / deflated, member order as generated / reversed / shuffled, with all / no / "
            "some directory members, optional ./ prefix, in memory and file-backed) and a fixed tree "
            "embedded at compile time; every source answers the same questions: read / exists of every "
            "file and of absent (id, ext) pairs incl. the empty id, read_dir / exists of every directory, "
            "of file ids and of absent ids, the root, and load_dir / load_rec_dir for extension lists "
            "[x], [p,q,r], [\"\"] and Arc<_>; answers are compared with the tree specification (listings "
            "as multisets, so a child listed twice is a failure); iter / iter_cached by a monitor.  "
            "Non-trivial = tree with >= 2 files and >= 2 directories; distinct = distinct printed case.")

PROPS["C04"] = dict(
    technique="Coq specification of what a source must answer for a tree; Coq model of the index zip.rs / tar.rs "
              "build (register_dir / register_file) with a proof that it answers like the specification for "
              "every member list, tied to the printed code; translation validation: the same generated tree "
              "through FileSystem, Zip, Tar and Embedded, every answer checked against the specification and "
              "(archives, order included) against the index model inside Coq",
    level_text="Theorems (Props/C04.v, closed under the global context) about the specification Ref.Tree: a "
               "listing contains exactly the files and directories whose parent is the directory, every "
               "listed entry exists / is readable under the id and extension it was listed with, read_dir "
               "answers exactly for directories (the root included).  Archives: the index built by folding "
               "register_file over ANY member list (no duplicates, no empty file id) answers exists / read_dir "
               "exactly like the specification for the tree the members describe, each child once; member "
               "order and directory members that other members imply do not matter; the printed "
               "register_dir / register_file / create / read_dir / exists of zip.rs and tar.rs have the "
               "modelled shape, and the embed! macro fills its tables as printed (one row per file, sorted); the "
               "tables it builds from any directory tree with distinct entries ARE the archive index of the same "
               "content listed depth first, hence answer like the tree.  "
               "FileSystem, the hash maps of Embedded, path parsing (IdBuilder, extension_of), zip / tar / "
               "flate2 decoding, SyncFile cloning and the OS are exercised by srcdiff against the "
               "specification (translation validation for that half), not modelled.",
    level_note="Trusted: Coq kernel+VM, the harness (tree generator, archive writers of the zip and tar crates, "
               "answer printers), the checkers in Corr/SrcCheck.v.  I5: archives with the same member path "
               "twice are not generated.",
    gen=["Archive", "Private", "Deps", "Embed", "Fs", "Watcher"],
    model_files=["Ref/Tree.v", "Ref/Archive.v", "Ref/Embed.v", "Ref/Watcher.v", "Corr/Common.v", "Corr/SrcCheck.v"],
    model_targets=["Corr/SrcCheck.vo"],
    proof_files=["Proofs/Tree.v", "Proofs/Archive.v", "Proofs/Embed.v", "Tie/Archive.v", "Tie/ArchivePath.v", "Tie/Watcher.v", "Tie/Graph.v", "Tie/Embed.v", "Tie/Fs.v", "Props/C04.v"],
    proof_targets=["Props/C04.vo"],
    props_module="Props.C04",
    theorems=["C04_listing_is_exactly_the_direct_children", "C04_listed_entries_are_readable_under_their_id",
              "C04_read_dir_answers_exactly_for_directories", "C04_code_builds_the_modelled_index",
              "C04_code_reads_whole_members", "C04_code_path_of_entry", "C04_code_parent_id", "C04_code_embed_macro",
              "C04_archive_index_answers_like_the_tree", "C04_member_order_is_irrelevant",
              "C04_implied_directory_members_are_redundant", "C04_archive_nonvacuous",
              "C04_embedded_tables_are_an_archive_index", "C04_embedded_answers_like_the_tree",
              "C04_code_filesystem_source", "C04_code_archive_paths_parsed_as_modelled"],
    engines=[("srcdiff", [])],
    rule=SRC_RULE,
    trusted_base=["zip / tar writers used to build the archives"],
    modelled=["a tree as files (id, ext, bytes) + directories"],
    assumptions=["valid names (I4); no duplicate member paths (I5)"],
)

PROPS["C11"] = dict(
    technique="Coq specification of directory assets over the tree specification (exactly the matching files; "
              "missing directory is an error) + translation validation through every source kind (srcdiff) "
              "and the system model's Directory / RecursiveDirectory loads incl. unreadable sub-directories "
              "(sysdiff)",
    level_text="Theorems (Props/C11.v, closed under the global context): the ids of load_dir::<T>(d) in the "
               "specification are exactly the ids of the files directly in d carrying one of T's extensions; "
               "a missing directory is an error for load_dir and load_rec_dir.  Sortedness, absence of "
               "duplicates, the recursive union, iter and iter_cached are checked on the real crate for every "
               "generated tree, source kind and extension list by srcdiff (checker sorted_nodup / multiset "
               "equality inside Coq); `an unreadable sub-directory is skipped without hiding its siblings` is "
               "the sysdiff correspondence with Ref.Sys.load_rec_dir_value.",
    level_note="Trusted: as C04; the sort order compared is byte order of the joined ids.",
    gen=["Dirs", "Flags", "Archive", "Embed", "Watcher", "Private", "Fs"],
    model_files=["Ref/Tree.v", "Ref/Archive.v", "Ref/Watcher.v", "Corr/Common.v", "Corr/SrcCheck.v", "Ref/Load.v", "Ref/Sys.v", "Corr/SysCheck.v"],
    model_targets=["Corr/SrcCheck.vo", "Corr/SysCheck.vo"],
    proof_files=["Proofs/Tree.v", "Tie/Dirs.v", "Tie/Archive.v", "Tie/ArchivePath.v", "Tie/Watcher.v", "Tie/Embed.v", "Tie/Fs.v", "Props/C11.v"],
    proof_targets=["Props/C11.vo"],
    props_module="Props.C11",
    theorems=["C11_dir_ids_are_exactly_the_matching_files", "C11_missing_directory_is_an_error",
              "C11_rec_dir_ids_is_the_union", "C11_code_as_specified", "C11_code_archives_list_each_entry_once",
              "C11_code_embed_macro_lists_every_entry", "C11_code_archive_paths_parsed_as_modelled",
              "C11_code_filesystem_listing"],
    engines=[("srcdiff", []), ("sysdiff", ["--mode", "cold", "--cases", "200"])],
    relevant_classes=["iter-mismatch"],
    rule=SRC_RULE,
    trusted_base=["zip / tar writers used to build the archives"],
    modelled=["a tree as files (id, ext, bytes) + directories"],
    assumptions=["valid names (I4)"],
)
