"""Per-property configuration of the orchestrator (what to build, what to run, what is trusted)."""

AXIOM_ALLOWLIST = set()  # every property theorem is expected to be closed under the global context

TRUSTED_BASE_COMMON = [
    "Coq 8.16.1 kernel incl. its bytecode VM (vm_compute); native_compute is not used",
    "rs2v (tools/rs2v): syn 2 parser + a printer of the chosen function bodies as AM.Rust.Ast terms; "
    "cfg evaluation under the fixed feature set; references, types, generics and lifetimes dropped",
    "Rust/Eval.v: the meaning given to the printed Rust subset (method table, pattern matching, control flow)",
    "correspondence harness `amh` (harness/): drives the real crate built from /repo's working tree with "
    "--cfg assets_manager_verif; case printers; the checkers in coq/Corr evaluated by vm_compute",
    "no extraction is used: the model is evaluated inside Coq",
]

PROPS = {}

PROPS["C18"] = dict(
    technique="Coq proof over all id sequences and all schedules (induction over histories of the "
              "atomic cell); model regenerated from src/entry.rs by rs2v and tied by lemmas; "
              "differential correspondence (exhaustive small sequences + concurrent runs judged by a "
              "proved-complete acceptance predicate)",
    level_text="Theorems (Props/C18.v, closed under the global context): the code of ReloadId::update "
               "and of every AtomicReloadId method, as printed from the current source, equals the "
               "reference model for every input; for any number of threads and every schedule the "
               "cell is the maximum offered, never decreases, each growth is reported to exactly one "
               "update caller and none is lost.",
    level_note="Trusted: Coq kernel+VM, rs2v printer, the Rust-subset interpreter Rust/Eval.v, atomicity "
               "of AtomicUsize RMWs (memory orderings not modelled), usize as unbounded N.",
    gen=["Entry"],
    model_files=["Rust/Ast.v", "Rust/Eval.v", "Ref/ReloadId.v", "Corr/Common.v", "Corr/Rid.v"],
    model_targets=["Corr/Rid.vo"],
    proof_files=["Proofs/ReloadId.v", "Proofs/ReloadIdAccept.v", "Tie/ReloadId.v", "Props/C18.v"],
    proof_targets=["Props/C18.vo"],
    props_module="Props.C18",
    theorems=["C18_update_code_is_max", "C18_update_true_iff_grew", "C18_never_is_least",
              "C18_atomic_code_is_model", "C18_one_atomic_access_per_method", "C18_final_is_max",
              "C18_cell_monotone", "C18_one_true_per_growth",
              "C18_update_answer_is_growth_of_that_step", "C18_accept_complete"],
    engines=[("ridiff", [])],
    rule="ridiff: (a) every ReloadId::update sequence up to the length/id bound, from every start id "
         "(exhaustive); (b) seeded random sequential mixtures of AtomicReloadId update/fetch_max/swap/"
         "store/load incl. ids up to 2^40; (c) 2..16 threads racing update on one AtomicReloadId, "
         "judged by accept_updates (proved complete for every schedule). Non-trivial = at least two "
         "operations; distinct = distinct printed case.",
    trusted_base=["atomicity of AtomicUsize::{fetch_max,fetch_add,swap,store,load}: each is one step of "
                  "the cell model (memory orderings not modelled)"],
    modelled=["usize as unbounded N (wrap-around after 2^64 reloads is outside C18)",
              "threads as sequences of atomic steps under an arbitrary scheduler"],
    assumptions=["ids are unbounded naturals", "each AtomicUsize RMW is atomic"],
)
