#!/usr/bin/env python3
"""Regenerates MANIFEST.json from bin/props.py (claimed properties) and properties.jsonl."""
import json
import os
import subprocess
import sys

VERIF = os.path.dirname(os.path.dirname(os.path.abspath(__file__)))
sys.path.insert(0, os.path.join(VERIF, "bin"))
from props import PROPS  # noqa: E402

base = json.load(open(os.path.join(VERIF, "MANIFEST.base.json")))
ids = [json.loads(l)["id"] for l in open(os.path.join(VERIF, "properties.jsonl"))]
commits = subprocess.run(["git", "-C", "/repo", "log", "--format=%H %s"], capture_output=True,
                         text=True).stdout.splitlines()
base["hooks"]["source_commits"] = [c.split()[0] for c in commits if " verif hooks" in c]
checks, na = [], []
for pid in ids:
    if pid in PROPS:
        s = PROPS[pid]
        checks.append({
            "property_id": pid,
            "quick_cmd": f"bin/check {pid} --tier quick",
            "thorough_cmd": f"bin/check {pid} --tier thorough",
            "evidence_file": f"/verif/evidence/{pid}.json",
            "replay_cmd_template": f"bin/check {pid} --tier quick --replay {{path}}",
            "engine": "coq+rs2v+amh",
            "level_claimed": {"category": "proof", "text": s["level_text"],
                              "design_ref": s.get("design_ref", f"DESIGN.md §6 {pid}")},
            "level_note": s["level_note"],
            "technique": s["technique"],
        })
    else:
        na.append({"property_id": pid,
                   "reason": "not claimed in this snapshot: the Coq model/theorems and the "
                             "correspondence engine for it are not built yet (plan in DESIGN.md §6)"})
for e in base["engines"]:
    e["serves_properties"] = sorted(PROPS)
base["checks"] = checks
base["not_applicable"] = na
json.dump(base, open(os.path.join(VERIF, "MANIFEST.json"), "w"), indent=1)
print(f"MANIFEST.json: {len(checks)} checks, {len(na)} not claimed")
