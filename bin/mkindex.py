#!/usr/bin/env python3
"""Regenerates the `Theorem index` table of DESIGN.md from bin/props.py."""
import os, sys
HERE = os.path.dirname(os.path.abspath(__file__))
sys.path.insert(0, HERE)
import props  # noqa: E402

P = props.PROPS
lines = ["", "### Theorem index (generated from `bin/props.py`; every name is a `Theorem` of `coq/Props/<id>.v`, closed under the global context)", "",
         "| property | theorems | engines |", "|---|---|---|"]
for pid in sorted(P):
    sp = P[pid]
    th = sp.get("theorems", [])
    eng = ", ".join(e[0] for e in sp.get("engines", []))
    short = [t.replace(pid + "_", "") for t in th]
    lines.append(f"| {pid} | {len(th)}: " + ", ".join(f"`{x}`" for x in short) + f" | {eng} |")
block = "\n".join(lines) + "\n"
path = os.path.join(os.path.dirname(HERE), "DESIGN.md")
s = open(path).read()
marker = "\n### Theorem index (generated from `bin/props.py`"
sep = "\n---------------------------------------------------------------------------------------------------"
i = s.find(marker)
if i >= 0:
    j = s.find(sep, i)
    s = s[:i] + block.rstrip("\n") + "\n" + s[j:]
else:
    first = s.find(sep)
    second = s.find(sep, first + 10)
    s = s[:second] + block + s[second:]
open(path, "w").write(s)
print("theorems:", sum(len(P[x].get("theorems", [])) for x in P))
