#!/usr/bin/env python3
"""Orchestrator for the Coq-based verification of tversteeg/assets_manager.

  bin/check <ID> --tier quick|thorough [--replay <file>]

For one property it (1) regenerates coq/Gen from /repo's current sources with rs2v, (2) builds the
property's Coq targets (model, tie lemmas, proofs, property theorems), (3) scans for axioms and
forbidden commands, (4) builds the harness against /repo's working tree with the hooks on and runs
the property's correspondence engine(s), evaluating the observed cases against the model with coqc,
(5) writes evidence/<ID>.json and decides.

Exit 0: every theorem checked and implementation and model agreed on everything explored.
Exit 1 + `VIOLATION property=<id> replay=<path>` otherwise (suffix ` no-failing-input-found` when a
proof obligation or the correspondence broke but no concrete failing input was found).
Exit 3: infrastructure error (no verdict).
"""
import fcntl
import glob
import hashlib
import json
import os
import re
import shutil
import subprocess
import sys
import time

VERIF = os.path.dirname(os.path.dirname(os.path.abspath(__file__)))
REPO = os.environ.get("AM_REPO", "/repo")
BUILD = os.path.join(VERIF, ".build")
COQ = os.path.join(VERIF, "coq")
CFG = "assets_manager_verif"

sys.path.insert(0, os.path.join(VERIF, "bin"))
from props import PROPS, TRUSTED_BASE_COMMON, AXIOM_ALLOWLIST  # noqa: E402

ENV = dict(os.environ)
ENV["CARGO_NET_OFFLINE"] = "true"


def log(msg):
    print(f"[check] {msg}", file=sys.stderr, flush=True)


def sh(cmd, cwd=None, env=None, timeout=None, capture=True):
    p = subprocess.run(cmd, cwd=cwd, env=env or ENV, timeout=timeout, shell=isinstance(cmd, str),
                       stdout=subprocess.PIPE if capture else None,
                       stderr=subprocess.STDOUT if capture else None, text=True)
    return p.returncode, (p.stdout or "")


class Lock:
    def __enter__(self):
        os.makedirs(BUILD, exist_ok=True)
        self.f = open(os.path.join(BUILD, "lock"), "w")
        fcntl.flock(self.f, fcntl.LOCK_EX)
        return self

    def __exit__(self, *a):
        fcntl.flock(self.f, fcntl.LOCK_UN)
        self.f.close()


# --------------------------------------------------------------------------- rs2v


def build_rs2v():
    exe = os.path.join(BUILD, "rs2v-target", "debug", "rs2v")
    rc, out = sh(["cargo", "build", "--offline"], cwd=os.path.join(VERIF, "tools", "rs2v"),
                 timeout=1200)
    if rc != 0:
        raise RuntimeError("rs2v build failed:\n" + out[-3000:])
    return exe


def run_rs2v():
    exe = build_rs2v()
    rc, out = sh([exe, REPO, os.path.join(VERIF, "tools", "rs2v", "targets.txt"),
                  os.path.join(COQ, "Gen")], timeout=300)
    if rc != 0:
        raise RuntimeError("rs2v failed:\n" + out[-3000:])
    with open(os.path.join(COQ, "Gen", "gen_manifest.json")) as f:
        return json.load(f)


# --------------------------------------------------------------------------- coq


def coq_makefile():
    mk = os.path.join(COQ, "Makefile")
    proj = os.path.join(COQ, "_CoqProject")
    if (not os.path.exists(mk)) or os.path.getmtime(mk) < os.path.getmtime(proj):
        rc, out = sh(["coq_makefile", "-f", "_CoqProject", "-o", "Makefile"], cwd=COQ, timeout=120)
        if rc != 0:
            raise RuntimeError("coq_makefile failed:\n" + out)


def coq_make(targets, timeout=1500):
    """Returns (ok, output).  Builds with -k so that independent files still compile when a tie
    lemma or a proof breaks (the model must stay runnable for the correspondence)."""
    coq_makefile()
    # a tie lemma over mutated code may blow up during symbolic evaluation: bound memory and time
    rc, out = sh("ulimit -v 10000000; exec timeout %d make -k -j16 %s" % (timeout, " ".join(targets)),
                 cwd=COQ, timeout=timeout + 60)
    return rc == 0, out


def vo_fresh(v):
    vo = os.path.join(COQ, v[:-2] + ".vo")
    src = os.path.join(COQ, v)
    return os.path.exists(vo) and os.path.getmtime(vo) >= os.path.getmtime(src)


STMT_RE = re.compile(r"^\s*(Theorem|Lemma|Example|Corollary|Fact|Proposition)\s+([A-Za-z0-9_']+)", re.M)
FORBIDDEN_RE = re.compile(
    r"\b(Admitted|admit|Axiom|Axioms|Parameter|Parameters|Conjecture|Conjectures|Hypothesis|"
    r"Hypotheses|Variable|Variables|Abort All|bypass_check|native_compute)\b|Unset\s+Guard|"
    r"Unset\s+Positivity|Unset\s+Universe|type-in-type|impredicative-set|Admit\s+Obligations")


def strip_comments(src):
    out, depth, i = [], 0, 0
    while i < len(src):
        if src.startswith("(*", i):
            depth += 1
            i += 2
        elif src.startswith("*)", i) and depth > 0:
            depth -= 1
            i += 2
        else:
            if depth == 0:
                out.append(src[i])
            i += 1
    return "".join(out)


def scan_sources(files):
    """Forbidden commands in the hand-written development.  `Variable`/`Hypothesis` are allowed
    only inside a Section (checked textually: the file must contain `Section` before them)."""
    problems = []
    for v in files:
        path = os.path.join(COQ, v)
        if not os.path.exists(path):
            continue
        src = strip_comments(open(path).read())
        # string literals can contain anything
        src_ns = re.sub(r'"(?:[^"]|"")*"', '""', src)
        for m in FORBIDDEN_RE.finditer(src_ns):
            word = m.group(0)
            if word.split()[0] in ("Variable", "Variables", "Hypothesis", "Hypotheses"):
                before = src_ns[:m.start()]
                opened = len(re.findall(r"^\s*Section\s", before, re.M))
                closed = len(re.findall(r"^\s*End\s", before, re.M))
                if opened > closed:
                    continue
            problems.append(f"{v}: forbidden `{word}`")
    return problems


def print_assumptions(prop_module, theorems):
    """Fresh `Print Assumptions` for every property theorem, on every run."""
    tmpd = os.path.join(BUILD, "assume")
    os.makedirs(tmpd, exist_ok=True)
    name = "Assume_" + prop_module.replace(".", "_")
    path = os.path.join(tmpd, name + ".v")
    with open(path, "w") as f:
        f.write(f"From AM Require Import {prop_module}.\n")
        for t in theorems:
            f.write(f'Redirect "{tmpd}/{name}.{t}" Print Assumptions {t}.\n')
    rc, out = sh(["timeout", "600", "coqc", "-Q", COQ, "AM", path], cwd=tmpd, timeout=700)
    res = {}
    if rc != 0:
        return None, out
    for t in theorems:
        p = os.path.join(tmpd, f"{name}.{t}.out")
        txt = open(p).read() if os.path.exists(p) else "<missing>"
        if "Closed under the global context" in txt:
            res[t] = []
        else:
            axs = re.findall(r"^([A-Za-z0-9_.']+)\s*:", txt, re.M)
            res[t] = axs if axs else ["<unparsed: " + txt.strip()[:200] + ">"]
    return res, out


# --------------------------------------------------------------------------- harness


def build_harness(features=(), release=False):
    tag = "amh-target" + ("-" + "-".join(features) if features else "")
    tdir = os.path.join(BUILD, tag)
    env = dict(ENV)
    env["RUSTFLAGS"] = f"--cfg {CFG}"
    env["CARGO_TARGET_DIR"] = tdir
    if REPO != "/repo":
        # scratch copies (mutant self-test): patch the path dependency
        env["AMH_REPO"] = REPO
    cmd = ["cargo", "build", "--offline"]
    if release:
        cmd.append("--release")
    # the pseudo-feature "no_ahash" builds the harness (hence assets_manager) without default features
    real = [f for f in features if f != "no_ahash"]
    if "no_ahash" in features:
        cmd.append("--no-default-features")
    if real:
        cmd += ["--features", ",".join(real)]
    hdir = os.path.join(VERIF, "harness")
    if REPO != "/repo":
        cmd += ["--config", f'patch."/repo".assets_manager.path="{REPO}"']
    rc, out = sh(cmd, cwd=hdir, env=env, timeout=3000)
    if rc != 0:
        return None, out
    return os.path.join(tdir, "release" if release else "debug", "amh"), out


def run_case_file(vfile, outdir):
    rc, out = sh(["timeout", "1800", "coqc", "-Q", COQ, "AM", "-w", "-all", vfile], cwd=outdir,
                 timeout=1900)
    return rc, out


def parse_failing(outfile):
    """Returns [(index, code)]: `failing` prints a list of indices (code 1), `coded` a list of pairs."""
    txt = open(outfile).read()
    m = re.search(r"=\s*\[(.*?)\]\s*:", txt, re.S)
    if not m:
        return None
    body = m.group(1).strip()
    if not body:
        return []
    res = []
    for x in body.split(";"):
        x = x.strip().replace("%N", "")
        pm = re.match(r"\(\s*(\d+)\s*,\s*(\d+)\s*\)", x)
        if pm:
            res.append((int(pm.group(1)), int(pm.group(2))))
        else:
            res.append((int(x), 1))
    return res


def run_engine(amh, engine, tier, seed, outdir, extra=()):
    """Runs one engine; returns dict(summary=..., failures=[case dicts], infra=None|str)."""
    if os.path.isdir(outdir):
        shutil.rmtree(outdir)
    os.makedirs(outdir)
    t0 = time.time()
    cmd = [amh, engine, "--out", outdir, "--seed", str(seed), "--tier", tier] + list(extra)
    rc, out = sh(cmd, timeout=7200)
    open(os.path.join(outdir, "engine.log"), "w").write(out)
    res = dict(engine=engine, failures=[], infra=None, summary={}, wall_s=0.0, log_tail=out[-2000:])
    if rc != 0:
        # An engine that dies (abort, segfault, uncaught panic) while driving the implementation
        # never does so on a tree where the property holds: that is a verdict about the code, with
        # the engine's last words as the replay.  Only a timeout stays an infrastructure matter.
        if rc == 124:
            res["infra"] = f"engine {engine} timed out: {out[-1500:]}"
            return res
        how = f"signal {-rc}" if rc < 0 else f"exit status {rc}"
        res["failures"].append(dict(engine=engine, kind="engine-crash", **{"class": "crash"},
                                    case={"observed": f"the engine process ended with {how} while exercising "
                                                      f"the implementation", "last_output": out[-1500:]}))
        res["wall_s"] = time.time() - t0
        return res
    sp = glob.glob(os.path.join(outdir, "*.summary.json"))
    for p in sp:
        try:
            res["summary"].update(json.load(open(p)))
        except Exception as e:  # noqa: BLE001
            res["infra"] = f"bad summary {p}: {e}"
            return res
    # implementation-side monitor failures reported directly by the engine
    for p in glob.glob(os.path.join(outdir, "*.violations.jsonl")):
        for line in open(p):
            line = line.strip()
            if line:
                res["failures"].append(json.loads(line))
    vfiles = sorted(glob.glob(os.path.join(outdir, "*.v")))
    procs = []
    for vf in vfiles:
        procs.append((vf, subprocess.Popen(
            ["timeout", "3000", "coqc", "-Q", COQ, "AM", "-w", "-all", vf], cwd=outdir,
            stdout=subprocess.PIPE, stderr=subprocess.STDOUT, text=True, env=ENV)))
    for vf, p in procs:
        o, _ = p.communicate()
        if p.returncode != 0:
            res["infra"] = f"coqc failed on {vf}: {o[-1500:]}"
            res["model_eval_failed"] = True
            return res
        stem = os.path.basename(vf)[:-2]
        cases = {}
        jl = os.path.join(outdir, stem + ".jsonl")
        if os.path.exists(jl):
            for line in open(jl):
                line = line.strip()
                if line:
                    d = json.loads(line)
                    cases[(d["group"], d["index"])] = d["case"]
        for of in glob.glob(os.path.join(outdir, stem + ".*.out")):
            group = os.path.basename(of)[len(stem) + 1:-4]
            idxs = parse_failing(of)
            if idxs is None:
                res["infra"] = f"cannot parse {of}"
                return res
            classes = res["summary"].get("code_classes", {})
            for (i, code) in idxs:
                cls = classes.get(str(code), "model-disagreement")
                res["failures"].append(dict(engine=engine, group=group, index=i, code=code, stem=stem,
                                            invocation=dict(tier=tier, seed=seed, extra=list(extra)),
                                            case=cases.get((group, i)), kind=cls,
                                            **({"class": cls} if cls != "model-disagreement" else {})))
    res["wall_s"] = time.time() - t0
    return res


# --------------------------------------------------------------------------- evidence / verdict


def explain_failure(f, run_dirs, explainers):
    """Ask the model for its side of the story on one failing case (evaluated by coqc)."""
    fn = explainers.get(f.get("group"))
    if not fn or f.get("index") is None:
        return None
    for d in run_dirs:
        for vf in glob.glob(os.path.join(d, "*.v")):
            stem = os.path.basename(vf)[:-2]
            jl = os.path.join(d, stem + ".jsonl")
            if not os.path.exists(jl):
                continue
            hit = any(json.loads(l).get("case") == f.get("case") and json.loads(l).get("index") == f["index"]
                      for l in open(jl) if l.strip())
            if not hit:
                continue
            src = open(vf).read()
            cut = src.find("Definition res_")
            if cut < 0:
                continue
            ex = os.path.join(d, "explain.v")
            with open(ex, "w") as o:
                o.write(src[:cut])
                o.write(f"\nEval vm_compute in option_map {fn} (nth_error {f['group']} {f['index']}).\n")
            rc, out = sh(["timeout", "300", "coqc", "-Q", COQ, "AM", "-w", "-all", ex], cwd=d, timeout=400)
            return out.strip()[-4000:] if rc == 0 else None
    return None


def shrink_sysdiff(amh, f, budget_s=150):
    """ddmin over the operations of one failing sysdiff history: re-run the implementation on
    sub-histories (same generator stream), let Coq judge each, keep the smallest that still fails with
    the same code.  Returns a dict for the replay, or None."""
    inv = f.get("invocation") or {}
    m = re.match(r"sysdiff(\d+)$", f.get("stem", ""))
    ops = (f.get("case") or {}).get("ops")
    if not m or not ops or f.get("index") is None:
        return None
    shards = 16 if inv.get("tier") == "thorough" else 4
    gi = int(m.group(1)) + f["index"] * shards
    n = len(ops)
    outdir = os.path.join(BUILD, "run", "shrink")
    t0 = time.time()
    tests = [0]

    def fails(keep):
        if time.time() - t0 > budget_s:
            return False
        tests[0] += 1
        if os.path.isdir(outdir):
            shutil.rmtree(outdir)
        os.makedirs(outdir)
        mask = "".join("1" if k else "0" for k in keep)
        cmd = [amh, "sysdiff", "--out", outdir, "--seed", str(inv.get("seed")), "--tier", inv.get("tier", "quick"),
               "--only", str(gi), "--keep", mask] + list(inv.get("extra", []))
        rc, _ = sh(cmd, timeout=120)
        vf = os.path.join(outdir, "shrink.v")
        if rc != 0 or not os.path.exists(vf):
            return False
        rc, _ = sh(["timeout", "120", "coqc", "-Q", COQ, "AM", "-w", "-all", vf], cwd=outdir, timeout=150)
        if rc != 0:
            return False
        outs = glob.glob(os.path.join(outdir, "shrink.*.out"))
        res = parse_failing(outs[0]) if outs else None
        return bool(res) and res[0][1] == f.get("code")

    keep = [True] * n
    if not fails(keep):
        return None           # not reproducible in isolation: leave the original case alone
    gran = 2
    while sum(keep) >= 2 and time.time() - t0 < budget_s:
        idx = [i for i, k in enumerate(keep) if k]
        size = max(1, len(idx) // gran)
        chunks = [idx[i:i + size] for i in range(0, len(idx), size)]
        reduced = False
        for ch in chunks:
            cand = list(keep)
            for i in ch:
                cand[i] = False
            if any(cand) and fails(cand):
                keep = cand
                gran = max(gran - 1, 2)
                reduced = True
                break
        if not reduced:
            if size == 1:
                break
            gran = min(len(idx), gran * 2)
    kept_ops = [o for o, k in zip(ops, keep) if k]
    return dict(original_length=n, shrunk_length=len(kept_ops), ops=kept_ops, tests=tests[0],
                seconds=round(time.time() - t0, 1),
                how=f"amh sysdiff --seed {inv.get('seed')} --tier {inv.get('tier')} --only {gi} --keep "
                    + "".join("1" if k else "0" for k in keep) + " " + " ".join(inv.get("extra", [])))


def load_known():
    p = os.path.join(VERIF, "known_findings.json")
    if os.path.exists(p):
        return json.load(open(p))
    return {"findings": [], "fixed": []}


def matches_known(prop, failure, known):
    for k in known.get("findings", []):
        if k.get("property") != prop:
            continue
        cls = (failure.get("case") or {}).get("class") if isinstance(failure.get("case"), dict) else None
        cls = cls or failure.get("class")
        if cls and cls == k.get("class"):
            return k
    return None


def write_replay(prop, payload):
    d = os.path.join(VERIF, "evidence", "replays")
    os.makedirs(d, exist_ok=True)
    h = hashlib.sha256(json.dumps(payload, sort_keys=True, default=str).encode()).hexdigest()[:12]
    path = os.path.join(d, f"{prop}-{h}.json")
    json.dump(payload, open(path, "w"), indent=1, default=str)
    return path


def main():
    args = sys.argv[1:]
    if not args or args[0] not in PROPS:
        print(f"usage: check <{'|'.join(sorted(PROPS))}> --tier quick|thorough [--replay f]",
              file=sys.stderr)
        sys.exit(2)
    prop = args[0]
    tier = os.environ.get("VERIF_TIER", "quick")
    replay = None
    i = 1
    while i < len(args):
        if args[i] == "--tier":
            tier = args[i + 1]
            i += 2
        elif args[i] == "--replay":
            replay = args[i + 1]
            i += 2
        else:
            i += 1
    seed = int(os.environ.get("VERIF_SEED", "20260930"))
    spec = PROPS[prop]
    t0 = time.time()
    with Lock():
        try:
            rc = check(prop, spec, tier, seed, replay, t0)
        except subprocess.TimeoutExpired as e:
            log(f"infrastructure timeout: {e}")
            rc = 3
        except RuntimeError as e:
            log(f"infrastructure error: {e}")
            rc = 3
        except Exception as e:  # noqa: BLE001  (a crash of the orchestrator is never a verdict)
            import traceback
            traceback.print_exc()
            log(f"orchestrator crashed: {e}")
            rc = 3
    sys.exit(rc)


def check(prop, spec, tier, seed, replay, t0):
    # ---- T1: regenerate the model fragments from the current source
    manifest = run_rs2v()
    gen_missing = [m for m in manifest if m["status"] != "ok" and m["module"] in spec.get("gen", [])]

    # ---- Coq: model first (must build), then proofs
    ok_model, out_model = coq_make(spec["model_targets"])
    if not ok_model:
        # the hand-written model itself does not build: nothing can be decided
        log(out_model[-3000:])
        raise RuntimeError("reference model does not build")
    ok_proofs, out_proofs = coq_make(spec["proof_targets"])
    proof_files = spec["proof_files"]
    stmts = []
    discharged = 0
    broken = []
    for v in proof_files:
        src_path = os.path.join(COQ, v)
        names = STMT_RE.findall(strip_comments(open(src_path).read())) if os.path.exists(src_path) else []
        stmts += [(v, n[1]) for n in names]
        if vo_fresh(v):
            discharged += len(names)
        else:
            broken.append(v)
    err_txt = ""
    if not ok_proofs:
        m = re.search(r'File "\./([^"]+)", line (\d+).*?\nError:(.*?)(?:\n\n|\nmake)', out_proofs, re.S)
        if m:
            err_txt = f"{m.group(1)}:{m.group(2)}: {m.group(3).strip()[:600]}"
        else:
            err_txt = out_proofs[-800:]
    scan = scan_sources(spec["proof_files"] + spec["model_files"])
    assumptions, axioms_used = {}, set()
    if ok_proofs:
        assumptions, aout = print_assumptions(spec["props_module"], spec["theorems"])
        if assumptions is None:
            ok_proofs = False
            err_txt = "Print Assumptions failed: " + aout[-600:]
            assumptions = {}
        for t, axs in assumptions.items():
            for a in axs:
                axioms_used.add(a)
    bad_axioms = sorted(a for a in axioms_used if a not in AXIOM_ALLOWLIST)
    proofs_good = ok_proofs and not scan and not bad_axioms and not gen_missing

    # ---- T2: correspondence
    feature_sets = [()]
    if tier == "thorough":
        feature_sets += [tuple(f) for f in spec.get("thorough_features", [])]
    engine_results = []
    infra = None
    for fs in feature_sets:
        amh, bout = build_harness(fs)
        if amh is None:
            # /repo no longer builds with the hooks: not a verdict about the property
            log(bout[-3000:])
            raise RuntimeError("harness does not build against /repo")
        for (engine, extra) in spec["engines"]:
            outdir = os.path.join(BUILD, "run", f"{prop}-{tier}-{engine}" + ("-" + "-".join(fs) if fs else ""))
            ex = list(extra)
            if replay:
                ex += ["--replay", replay]
            r = run_engine(amh, engine, tier, seed, outdir, ex)
            r["features"] = list(fs)
            engine_results.append(r)
            if r["infra"]:
                infra = r["infra"]
    failures = [f for r in engine_results for f in r["failures"]]
    relevant = spec.get("relevant_classes")

    def is_relevant(f):
        return relevant is None or f.get("kind") in ("model-disagreement", "engine-crash") \
            or f.get("class") in relevant or f.get("kind") in relevant

    failures = [f for f in failures if is_relevant(f)]

    # ---- when a proof obligation broke but the quick correspondence found nothing: search harder
    searched = False
    if not proofs_good and not failures and not infra and tier == "quick" and not replay:
        searched = True
        amh, _ = build_harness(())
        for (engine, extra) in spec["engines"]:
            outdir = os.path.join(BUILD, "run", f"{prop}-search-{engine}")
            r = run_engine(amh, engine, "thorough", seed + 1, outdir, list(extra))
            r["features"] = []
            r["search"] = True
            engine_results.append(r)
            if r["infra"]:
                infra = r["infra"]
            failures += [f for f in r["failures"] if is_relevant(f)]

    known = load_known()
    new_failures, known_hits = [], []
    for f in failures:
        k = matches_known(prop, f, known)
        (known_hits if k else new_failures).append((f, k))

    # ---- evidence
    evals = sum(int(r["summary"].get("evaluations", 0)) for r in engine_results)
    distinct = sum(int(r["summary"].get("distinct_nontrivial", 0)) for r in engine_results)
    samples = []
    for r in engine_results:
        samples += r["summary"].get("samples", [])[:3]
    for (v, n) in stmts[:3]:
        samples.append({"obligation": f"{v}: {n}"})
    trusted = list(TRUSTED_BASE_COMMON) + spec.get("trusted_base", [])
    trusted.append("Print Assumptions (this run): " + (
        "; ".join(f"{t}: {'closed under the global context' if not a else ', '.join(a)}"
                  for t, a in sorted(assumptions.items())) or "not run (proofs did not build)"))
    ev = {
        "property_id": prop,
        "tier": tier,
        "seed": seed,
        "level": "proof",
        "coverage": {
            "obligations": len(stmts),
            "discharged": discharged,
            "checker_cmd": f"make -C coq {' '.join(spec['proof_targets'])} (coqc 8.16.1, full .vo) "
                           f"+ Print Assumptions on {len(spec['theorems'])} property theorems",
            "trusted_base": trusted,
            "theorems": spec["theorems"],
            "generated_fragments": [m for m in manifest if m["module"] in spec.get("gen", [])],
            "evaluations": evals,
            "distinct_nontrivial": distinct,
            "rule": spec.get("rule", ""),
            "samples": samples or [{"note": "no correspondence cases on this run"}],
            "engines": [dict(engine=r["engine"], features=r.get("features", []),
                             search=r.get("search", False), summary={k: v for k, v in r["summary"].items() if k != "samples"},
                             wall_s=round(r["wall_s"], 2), failures=len(r["failures"]))
                        for r in engine_results],
            "modelled_not_verified": spec.get("modelled", []),
        },
        "assumptions": spec.get("assumptions", []),
        "wall_s": round(time.time() - t0, 2),
        "violations": len(new_failures) + (0 if proofs_good else 1),
    }
    os.makedirs(os.path.join(VERIF, "evidence"), exist_ok=True)
    json.dump(ev, open(os.path.join(VERIF, "evidence", f"{prop}.json"), "w"), indent=1)

    # ---- verdict
    for (f, k) in known_hits[:1]:
        pass
    printed = set()
    for (f, k) in known_hits:
        if k["key"] not in printed:
            printed.add(k["key"])
            print(f"KNOWN-FINDING: property={prop} {k['description']}")
    if infra and not new_failures:
        log(f"infrastructure error: {infra}")
        return 3
    if new_failures:
        # report the smallest failing case
        new_failures.sort(key=lambda fk: len(json.dumps(fk[0].get("case"), default=str)))
        f = new_failures[0][0]
        explainers = {}
        for r in engine_results:
            explainers.update(r["summary"].get("explain", {}))
        run_dirs = [os.path.join(BUILD, "run", d) for d in os.listdir(os.path.join(BUILD, "run"))
                    if d.startswith(prop + "-")]
        model_side = explain_failure(f, run_dirs, explainers)
        shrunk = None
        if f.get("engine") == "sysdiff" and f.get("stem"):
            try:
                amh_bin, _ = build_harness(())
                shrunk = shrink_sysdiff(amh_bin, f) if amh_bin else None
            except Exception as e:  # noqa: BLE001  (shrinking is a convenience, never a verdict)
                shrunk = dict(error=str(e))
        payload = dict(property=prop, kind="correspondence", tier=tier, seed=seed, failure=f,
                       model_says=model_side, shrunk=shrunk,
                       n_failures=len(new_failures),
                       proofs_ok=proofs_good, proof_error=err_txt,
                       how_to_replay=f"bin/check {prop} --tier {tier}  (VERIF_SEED={seed})")
        path = write_replay(prop, payload)
        confirmed = f.get("kind") != "model-disagreement" or spec.get("disagreement_is_violation", True)
        suffix = "" if confirmed else " no-failing-input-found"
        print(f"VIOLATION property={prop} replay={path}{suffix}")
        return 1
    if not proofs_good:
        payload = dict(property=prop, kind="proof-obligation", tier=tier, seed=seed,
                       broken_files=broken, error=err_txt, forbidden=scan, bad_axioms=bad_axioms,
                       untranslated_fragments=gen_missing,
                       searched=dict(extra_engine_runs=searched, evaluations=evals),
                       note="a theorem or tie lemma over the regenerated model no longer checks; "
                            "the correspondence engines found no input on which implementation and "
                            "model differ")
        path = write_replay(prop, payload)
        print(f"VIOLATION property={prop} replay={path} no-failing-input-found")
        return 1
    log(f"{prop} {tier}: {len(stmts)} obligations, {evals} cases, ok ({ev['wall_s']} s)")
    return 0


if __name__ == "__main__":
    main()
